(* Proofs/WhereExprSem.v — evaluating the printed text of a filter tree is the denotation of the
   tree (Model/WhereExprTree.v), for the transcribed evaluator of Model/WhereExpr.v.

   Part 1  byte-string facts (bat / slice / sfrom on concatenations, trim)
   Part 2  squash / readGroup on balanced text, parseString on escape-free literals
   Part 3  the scanning loops: fuel irrelevance, inert bytes, groups, splits
   Part 4  evalAtom on the four atom shapes and on a parenthesised group
   Part 5  the induction over trees *)
From Coq Require Import List NArith ZArith Bool Lia.
From Coq Require Import ZifyN ZifyNat ZifyBool.
From T38 Require Import Base.Bytes Model.WhereExpr Model.WhereExprTree.
Import ListNotations.
Local Open Scope nat_scope.

Ltac on_lhs tac :=
  match goal with |- _ = ?r => let R := fresh "RHS" in set (R := r); tac; subst R end.

(* ------------------------------------------------------------------ Part 1 *)

Lemma bat_app_r (a b : bytes) k : bat (a ++ b) (length a + k) = bat b k.
Proof. unfold bat. rewrite nth_error_app2 by lia. f_equal. lia. Qed.

Lemma bat_app_r0 (a b : bytes) : bat (a ++ b) (length a) = bat b 0.
Proof. rewrite <- (Nat.add_0_r (length a)) at 1. apply bat_app_r. Qed.

Lemma bat_app_l (a b : bytes) k : k < length a -> bat (a ++ b) k = bat a k.
Proof. intros. unfold bat. apply nth_error_app1. assumption. Qed.

Lemma bat_len_none (a : bytes) : bat a (length a) = None.
Proof. unfold bat. apply nth_error_None. lia. Qed.

Lemma bat_cons0 c (r : bytes) : bat (c :: r) 0 = Some c.
Proof. reflexivity. Qed.

Lemma bat_pred_app_last (a : bytes) c (b : bytes) : bat_pred ((a ++ [c]) ++ b) (length (a ++ [c])) = Some c.
Proof.
  rewrite app_length. cbn [length]. replace (length a + 1) with (S (length a)) by lia.
  cbn [bat_pred]. rewrite <- app_assoc. rewrite nth_error_app2 by lia.
  replace (length a - length a) with 0 by lia. reflexivity.
Qed.

Lemma last_byte_app (a : bytes) c : last_byte (a ++ [c]) = Some c.
Proof.
  unfold last_byte. pose proof (bat_pred_app_last a c []) as H. rewrite app_nil_r in H. exact H.
Qed.

Lemma sfrom_app (a b : bytes) : sfrom (a ++ b) (length a) = Some b.
Proof.
  unfold sfrom. rewrite app_length.
  replace (length a <=? length a + length b) with true by (symmetry; apply Nat.leb_le; lia).
  f_equal. rewrite skipn_app, skipn_all. replace (length a - length a) with 0 by lia. reflexivity.
Qed.

Lemma sfrom_0 (a : bytes) : sfrom a 0 = Some a.
Proof. unfold sfrom. reflexivity. Qed.

Lemma sfrom_all (a : bytes) : sfrom a (length a) = Some [].
Proof. rewrite <- (app_nil_r a) at 1. apply sfrom_app. Qed.

Lemma slice_app (a b c : bytes) : slice (a ++ b ++ c) (length a) (length a + length b) = Some b.
Proof.
  unfold slice. rewrite !app_length.
  replace (length a <=? length a + length b) with true by (symmetry; apply Nat.leb_le; lia).
  replace (length a + length b <=? length a + (length b + length c)) with true by (symmetry; apply Nat.leb_le; lia).
  cbn [andb]. f_equal. rewrite skipn_app, skipn_all. replace (length a - length a) with 0 by lia.
  cbn [skipn app]. replace (length a + length b - length a) with (length b) by lia.
  rewrite firstn_app, firstn_all. replace (length b - length b) with 0 by lia. cbn. apply app_nil_r.
Qed.

Lemma slice_prefix (b c : bytes) : slice (b ++ c) 0 (length b) = Some b.
Proof. exact (slice_app [] b c). Qed.

(* trim *)
Definition nonspace_ends (s : bytes) : Prop :=
  exists c m d, (s = [c] \/ s = c :: m ++ [d]) /\ isspace c = false /\ isspace d = false.

Lemma trim_left_nonspace c r : isspace c = false -> trim_left (c :: r) = c :: r.
Proof. intros H. cbn. rewrite H. reflexivity. Qed.

Lemma trim_tight s : nonspace_ends s -> trim s = s.
Proof.
  intros (c & m & d & [-> | ->] & Hc & Hd); unfold trim.
  - cbn. rewrite Hc. cbn. rewrite Hc. reflexivity.
  - rewrite trim_left_nonspace by assumption.
    change (c :: m ++ [d]) with ((c :: m) ++ [d]). rewrite rev_app_distr. cbn [rev app].
    rewrite trim_left_nonspace by assumption.
    change (d :: rev m ++ [c]) with ((d :: rev m) ++ [c]). rewrite rev_app_distr. cbn [rev app].
    rewrite rev_involutive. reflexivity.
Qed.

Lemma trim_space_l s : trim (32%N :: s) = trim s.
Proof. unfold trim. cbn [trim_left]. reflexivity. Qed.

Lemma trim_left_app s t :
  trim_left (s ++ t) = match trim_left s with [] => trim_left t | r => r ++ t end.
Proof.
  induction s as [|c s IH]; cbn [app trim_left]; [destruct (trim_left t); reflexivity|].
  destruct (isspace c); [exact IH | reflexivity].
Qed.

Lemma trim_app_space s : trim (s ++ [32%N]) = trim s.
Proof.
  unfold trim. rewrite trim_left_app.
  destruct (trim_left s) as [|c r] eqn:E; [reflexivity|].
  rewrite rev_app_distr. cbn [rev app trim_left]. reflexivity.
Qed.

Lemma trim_space_r s : nonspace_ends s -> trim (s ++ [32%N]) = s.
Proof. intros H. rewrite trim_app_space. apply trim_tight. exact H. Qed.

Lemma trim_nil : trim [] = [].
Proof. reflexivity. Qed.

(* ------------------------------------------------------------------ Part 2 *)

Definition safe (c : N) : Prop := safe_char c = true.

(* bytes that squash's outer loop only steps over *)
Definition plain_sq (c : N) : bool :=
  negb ((c =? 34) || (c =? 39) || (c =? 123) || (c =? 91) || (c =? 40) || (c =? 125) || (c =? 93) || (c =? 41))%N.

Inductive bal : bytes -> Prop :=
| bal_nil : bal []
| bal_plain c r : plain_sq c = true -> bal r -> bal (c :: r)
| bal_str s r : Forall safe s -> bal r -> bal (34%N :: s ++ 34%N :: r)
| bal_paren x r : bal x -> bal r -> bal (40%N :: x ++ 41%N :: r).

Lemma bal_app a b : bal a -> bal b -> bal (a ++ b).
Proof.
  induction 1; intros Hb; cbn [app].
  - exact Hb.
  - apply bal_plain; auto.
  - rewrite <- app_assoc. cbn [app]. apply bal_str; auto.
  - rewrite <- app_assoc. cbn [app]. apply bal_paren; auto.
Qed.

(* the quote loop on an escape-free literal: it stops on the closing quote *)
Lemma sq_quote_safe : forall s pre post fuel s2 l,
  Forall safe s -> pre = l ++ [34%N] \/ (exists c, pre = l ++ [c] /\ safe c) ->
  length s < fuel ->
  sq_quote (pre ++ s ++ 34%N :: post) fuel (length pre) s2 34%N = Ok (length pre + length s).
Proof.
  induction s as [|c s IH]; intros pre post fuel s2 l Hs Hpre Hf.
  - destruct fuel as [|fuel]; [cbn in Hf; lia|]. cbn [app sq_quote].
    rewrite bat_app_r0. cbn [bat nth_error].
    replace (92 <? 34)%N with false by reflexivity. replace (34 =? 34)%N with true by reflexivity.
    assert (Hp : exists c, bat_pred (pre ++ 34%N :: post) (length pre) = Some c /\ (c =? 92)%N = false).
    { destruct Hpre as [-> | (c & -> & Hc)].
      - exists 34%N. split; [apply bat_pred_app_last | reflexivity].
      - exists c. split; [apply bat_pred_app_last |].
        unfold safe, safe_char in Hc. destruct (N.eqb_spec c 92); [subst; discriminate | reflexivity]. }
    destruct Hp as (c & -> & Hc). cbn [opt_panic bind]. rewrite Hc. f_equal. cbn. lia.
  - destruct fuel as [|fuel]; [cbn in Hf; lia|].
    inversion Hs as [|? ? Hc Hs']; subst.
    cbn [sq_quote]. cbn [app]. rewrite bat_app_r0. cbn [bat nth_error].
    assert (Hne : (c =? 34)%N = false).
    { unfold safe, safe_char in Hc. destruct (N.eqb_spec c 34); [subst; discriminate | reflexivity]. }
    assert (Hstep : sq_quote (pre ++ c :: s ++ 34%N :: post) fuel (S (length pre)) s2 34%N
                    = Ok (length pre + length (c :: s))).
    { replace (pre ++ c :: s ++ 34%N :: post) with ((pre ++ [c]) ++ s ++ 34%N :: post)
        by (rewrite <- app_assoc; reflexivity).
      replace (S (length pre)) with (length (pre ++ [c])) by (rewrite app_length; cbn; lia).
      rewrite (IH (pre ++ [c]) post fuel s2 pre); auto.
      - rewrite app_length. cbn [length]. f_equal. lia.
      - right. exists c. auto.
      - cbn in Hf. lia. }
    destruct (92 <? c)%N; [exact Hstep|]. rewrite Hne. exact Hstep.
Qed.

(* fuel irrelevance of the outer loop *)
Lemma sq_quote_ge : forall data fuel i s2 q j, sq_quote data fuel i s2 q = Ok j -> i <= j.
Proof.
  induction fuel as [|fuel IH]; intros i s2 q j H; [discriminate|].
  cbn [sq_quote] in H. destruct (bat data i) as [c|]; [|inversion H; lia].
  destruct (92 <? c)%N; [apply IH in H; lia|].
  destruct (c =? q)%N.
  - destruct (opt_panic (bat_pred data i)) as [p| | | |]; cbn [bind] in H; try discriminate.
    destruct (p =? 92)%N.
    + destruct (sq_count data (S (length data)) (i - 1) s2 0) as [n| | | |]; cbn [bind] in H; try discriminate.
      destruct (Nat.even n); [apply IH in H; lia | inversion H; lia].
    + inversion H; lia.
  - apply IH in H; lia.
Qed.

Lemma sq_loop_irrel : forall data f1 f2 i d,
  length data - i < f1 -> length data - i < f2 -> sq_loop data f1 i d = sq_loop data f2 i d.
Proof.
  induction f1 as [|f1 IH]; intros f2 i d H1 H2; [lia|].
  destruct f2 as [|f2]; [lia|].
  cbn [sq_loop]. destruct (bat data i) as [c|] eqn:Hb; [|reflexivity].
  assert (Hi : i < length data) by (apply nth_error_Some; unfold bat in Hb; congruence).
  destruct ((c <? 34) || (125 <? c))%N; [apply IH; lia|].
  destruct ((c =? 34) || (c =? 39))%N.
  - destruct (sq_quote data (S (length data)) (S i) (S i) c) as [j| | | |] eqn:Hq; cbn [bind]; try reflexivity.
    apply sq_quote_ge in Hq.
    destruct (d =? 0)%Z; [reflexivity|]. apply IH; lia.
  - destruct ((c =? 123) || (c =? 91) || (c =? 40))%N; [apply IH; lia|].
    destruct ((c =? 125) || (c =? 93) || (c =? 41))%N.
    + destruct (d - 1 =? 0)%Z; [reflexivity | apply IH; lia].
    + apply IH; lia.
Qed.

(* one step of the outer loop, fuel unchanged *)
Lemma sq_loop_step data fuel i d c :
  bat data i = Some c -> length data - i < fuel ->
  sq_loop data fuel i d =
    if ((c <? 34) || (125 <? c))%N then sq_loop data fuel (S i) d
    else if ((c =? 34) || (c =? 39))%N then
      do j <- sq_quote data (S (length data)) (S i) (S i) c;
      if (d =? 0)%Z then (if length data <=? j then Ok None else Ok (Some j))
      else sq_loop data fuel (S j) d
    else if ((c =? 123) || (c =? 91) || (c =? 40))%N then sq_loop data fuel (S i) (d + 1)%Z
    else if ((c =? 125) || (c =? 93) || (c =? 41))%N then
      if (d - 1 =? 0)%Z then Ok (Some i) else sq_loop data fuel (S i) (d - 1)%Z
    else sq_loop data fuel (S i) d.
Proof.
  intros Hb Hf. destruct fuel as [|fuel]; [lia|].
  assert (Hi : i < length data) by (apply nth_error_Some; unfold bat in Hb; congruence).
  on_lhs ltac:(cbn [sq_loop]; rewrite Hb).
  destruct ((c <? 34) || (125 <? c))%N; [apply sq_loop_irrel; lia|].
  destruct ((c =? 34) || (c =? 39))%N.
  - destruct (sq_quote data (S (length data)) (S i) (S i) c) as [j| | | |] eqn:Hq; cbn [bind]; try reflexivity.
    apply sq_quote_ge in Hq. destruct (d =? 0)%Z; [reflexivity|]. apply sq_loop_irrel; lia.
  - destruct ((c =? 123) || (c =? 91) || (c =? 40))%N; [apply sq_loop_irrel; lia|].
    destruct ((c =? 125) || (c =? 93) || (c =? 41))%N.
    + destruct (d - 1 =? 0)%Z; [reflexivity | apply sq_loop_irrel; lia].
    + apply sq_loop_irrel; lia.
Qed.

Lemma plain_sq_cases c : plain_sq c = true ->
  ((c =? 34) || (c =? 39))%N = false /\ ((c =? 123) || (c =? 91) || (c =? 40))%N = false /\
  ((c =? 125) || (c =? 93) || (c =? 41))%N = false.
Proof. unfold plain_sq. intros H. repeat split; lia. Qed.

(* the outer loop runs over balanced text at any depth >= 1 *)
Lemma sq_loop_bal : forall x, bal x -> forall pre post fuel d,
  (1 <= d)%Z -> length (pre ++ x ++ post) - length pre < fuel ->
  sq_loop (pre ++ x ++ post) fuel (length pre) d = sq_loop (pre ++ x ++ post) fuel (length pre + length x) d.
Proof.
  induction 1 as [|c r Hc Hr IH|s r Hs Hr IH|x r Hx IHx Hr IHr]; intros pre post fuel d Hd Hf.
  - cbn [length]. f_equal. lia.
  - rewrite (sq_loop_step _ _ _ _ c); [|cbn [app]; rewrite bat_app_r0; reflexivity | exact Hf].
    destruct (plain_sq_cases c Hc) as (H1 & H2 & H3). rewrite H1, H2, H3.
    assert (Hgo : sq_loop (pre ++ (c :: r) ++ post) fuel (S (length pre)) d
                  = sq_loop (pre ++ (c :: r) ++ post) fuel (length pre + length (c :: r)) d).
    { replace (pre ++ (c :: r) ++ post) with ((pre ++ [c]) ++ r ++ post) by (rewrite <- app_assoc; reflexivity).
      replace (S (length pre)) with (length (pre ++ [c])) by (rewrite app_length; cbn; lia).
      rewrite IH; [|exact Hd|].
      - f_equal. rewrite app_length. cbn [length]. lia.
      - rewrite !app_length in *. cbn [length] in *. lia. }
    destruct ((c <? 34) || (125 <? c))%N; exact Hgo.
  - rewrite (sq_loop_step _ _ _ _ 34%N); [|cbn [app]; rewrite bat_app_r0; reflexivity | exact Hf].
    replace ((34 <? 34) || (125 <? 34))%N with false by reflexivity.
    replace ((34 =? 34) || (34 =? 39))%N with true by reflexivity.
    replace (pre ++ (34%N :: s ++ 34%N :: r) ++ post) with ((pre ++ [34%N]) ++ s ++ 34%N :: (r ++ post))
      by (rewrite <- !app_assoc; cbn [app]; rewrite <- !app_assoc; reflexivity).
    replace (S (length pre)) with (length (pre ++ [34%N])) by (rewrite app_length; cbn; lia).
    rewrite (sq_quote_safe s (pre ++ [34%N]) (r ++ post) _ _ pre); auto.
    2:{ rewrite !app_length. cbn [length]. lia. }
    cbn [bind]. replace (d =? 0)%Z with false by lia.
    replace ((pre ++ [34%N]) ++ s ++ 34%N :: r ++ post) with ((pre ++ 34%N :: s ++ [34%N]) ++ r ++ post)
      by (rewrite <- !app_assoc; cbn [app]; rewrite <- !app_assoc; reflexivity).
    replace (S (length (pre ++ [34%N]) + length s)) with (length (pre ++ 34%N :: s ++ [34%N]))
      by (rewrite !app_length; cbn [length]; rewrite app_length; cbn [length]; lia).
    rewrite IH; [|exact Hd|].
    + f_equal. rewrite !app_length. cbn [length]. rewrite !app_length. cbn [length]. lia.
    + rewrite !app_length in *. cbn [length] in *. rewrite !app_length in *. cbn [length] in *. lia.
  - rewrite (sq_loop_step _ _ _ _ 40%N); [|cbn [app]; rewrite bat_app_r0; reflexivity | exact Hf].
    replace ((40 <? 34) || (125 <? 40))%N with false by reflexivity.
    replace ((40 =? 34) || (40 =? 39))%N with false by reflexivity.
    replace ((40 =? 123) || (40 =? 91) || (40 =? 40))%N with true by reflexivity.
    replace (pre ++ (40%N :: x ++ 41%N :: r) ++ post) with ((pre ++ [40%N]) ++ x ++ (41%N :: r ++ post))
      by (rewrite <- !app_assoc; cbn [app]; rewrite <- !app_assoc; reflexivity).
    replace (S (length pre)) with (length (pre ++ [40%N])) by (rewrite app_length; cbn; lia).
    rewrite IHx; [|lia|].
    2:{ rewrite !app_length in *. cbn [length] in *. rewrite !app_length in *. cbn [length] in *. lia. }
    rewrite (sq_loop_step _ _ _ _ 41%N).
    2:{ rewrite app_assoc. rewrite <- app_length. rewrite bat_app_r0. reflexivity. }
    2:{ rewrite !app_length in *. cbn [length] in *. rewrite !app_length in *. cbn [length] in *. lia. }
    replace ((41 <? 34) || (125 <? 41))%N with false by reflexivity.
    replace ((41 =? 34) || (41 =? 39))%N with false by reflexivity.
    replace ((41 =? 123) || (41 =? 91) || (41 =? 40))%N with false by reflexivity.
    replace ((41 =? 125) || (41 =? 93) || (41 =? 41))%N with true by reflexivity.
    replace (d + 1 - 1 =? 0)%Z with false by lia. replace (d + 1 - 1)%Z with d by lia.
    replace ((pre ++ [40%N]) ++ x ++ 41%N :: r ++ post) with ((pre ++ 40%N :: x ++ [41%N]) ++ r ++ post)
      by (rewrite <- !app_assoc; cbn [app]; rewrite <- !app_assoc; reflexivity).
    replace (S (length (pre ++ [40%N]) + length x)) with (length (pre ++ 40%N :: x ++ [41%N]))
      by (rewrite !app_length; cbn [length]; rewrite app_length; cbn [length]; lia).
    rewrite IHr; [|exact Hd|].
    + f_equal. rewrite !app_length. cbn [length]. rewrite !app_length. cbn [length]. lia.
    + rewrite !app_length in *. cbn [length] in *. rewrite !app_length in *. cbn [length] in *. lia.
Qed.

(* readGroup on ( balanced ) followed by anything *)
Lemma read_group_paren x rest : bal x ->
  read_group (40%N :: x ++ 41%N :: rest) = Ok (40%N :: x ++ [41%N]).
Proof.
  intros Hx. unfold read_group, squash. cbn [bat nth_error opt_panic bind].
  replace ((40 =? 34) || (40 =? 39))%N with false by reflexivity.
  assert (H : sq_loop (40%N :: x ++ 41%N :: rest) (S (length (40%N :: x ++ 41%N :: rest))) 1 1%Z
             = sq_loop (40%N :: x ++ 41%N :: rest) (S (length (40%N :: x ++ 41%N :: rest))) (1 + length x) 1%Z).
  { apply (sq_loop_bal x Hx [40%N] (41%N :: rest)); [lia | cbn [app length]; lia]. }
  rewrite H. clear H.
  rewrite (sq_loop_step _ _ _ _ 41%N).
  2:{ change (40%N :: x ++ 41%N :: rest) with ((40%N :: x) ++ 41%N :: rest).
      change (S (length x)) with (length (40%N :: x)). rewrite bat_app_r0. reflexivity. }
  2:{ cbn [length]. lia. }
  replace ((41 <? 34) || (125 <? 41))%N with false by reflexivity.
  replace ((41 =? 34) || (41 =? 39))%N with false by reflexivity.
  replace ((41 =? 123) || (41 =? 91) || (41 =? 40))%N with false by reflexivity.
  replace ((41 =? 125) || (41 =? 93) || (41 =? 41))%N with true by reflexivity.
  replace (1 - 1 =? 0)%Z with true by reflexivity. cbn [bind].
  replace (40%N :: x ++ 41%N :: rest) with ((40%N :: x ++ [41%N]) ++ rest)
    by (cbn [app]; rewrite <- app_assoc; reflexivity).
  replace (S (1 + length x)) with (length (40%N :: x ++ [41%N])) by (cbn [length]; rewrite app_length; cbn; lia).
  rewrite slice_prefix. cbn [opt_panic bind].
  replace (length (40%N :: x ++ [41%N]) <? 2) with false
    by (symmetry; apply Nat.ltb_ge; cbn [length]; rewrite app_length; cbn; lia).
  change (40%N :: x ++ [41%N]) with ((40%N :: x) ++ [41%N]). rewrite last_byte_app.
  cbn [opt_panic bind app bat nth_error]. reflexivity.
Qed.

(* readGroup on an escape-free double-quoted literal followed by anything *)
Lemma read_group_str s rest : Forall safe s ->
  read_group (34%N :: s ++ 34%N :: rest) = Ok (34%N :: s ++ [34%N]).
Proof.
  intros Hs. unfold read_group, squash. cbn [bat nth_error opt_panic bind].
  replace ((34 =? 34) || (34 =? 39))%N with true by reflexivity.
  cbn [sq_loop bat nth_error].
  replace ((34 <? 34) || (125 <? 34))%N with false by reflexivity.
  replace ((34 =? 34) || (34 =? 39))%N with true by reflexivity.
  assert (H : sq_quote (34%N :: s ++ 34%N :: rest) (S (length (34%N :: s ++ 34%N :: rest))) 1 1 34%N
             = Ok (1 + length s)).
  { apply (sq_quote_safe s [34%N] rest _ 1 [] Hs); [left; reflexivity | cbn [length]; rewrite app_length; cbn; lia]. }
  rewrite H. clear H.
  cbn [bind]. replace (0 =? 0)%Z with true by reflexivity.
  assert (Hlen : (length (34%N :: s ++ 34%N :: rest) <=? 1 + length s) = false)
    by (apply Nat.leb_gt; cbn [length]; rewrite app_length; cbn [length]; lia).
  rewrite Hlen. clear Hlen. cbn [bind].
  replace (34%N :: s ++ 34%N :: rest) with ((34%N :: s ++ [34%N]) ++ rest)
    by (cbn [app]; rewrite <- app_assoc; reflexivity).
  replace (S (1 + length s)) with (length (34%N :: s ++ [34%N])) by (cbn [length]; rewrite app_length; cbn; lia).
  rewrite slice_prefix. cbn [opt_panic bind].
  replace (length (34%N :: s ++ [34%N]) <? 2) with false
    by (symmetry; apply Nat.ltb_ge; cbn [length]; rewrite app_length; cbn; lia).
  change (34%N :: s ++ [34%N]) with ((34%N :: s) ++ [34%N]). rewrite last_byte_app.
  cbn [opt_panic bind app bat nth_error]. reflexivity.
Qed.

(* parseString on an escape-free double-quoted literal followed by anything *)
Lemma ps_loop_safe : forall s pre post fuel,
  Forall safe s -> length s < fuel -> 1 <= length pre ->
  ps_loop (pre ++ s ++ 34%N :: post) fuel (length pre) 34%N false
  = do t <- opt_panic (slice (pre ++ s ++ 34%N :: post) 1 (length pre + length s));
    Ok (Some (t, S (length pre + length s))).
Proof.
  induction s as [|c s IH]; intros pre post fuel Hs Hf Hp.
  - destruct fuel as [|fuel]; [cbn in Hf; lia|]. cbn [app ps_loop].
    rewrite bat_app_r0. cbn [bat nth_error].
    replace (34 <? 32)%N with false by reflexivity. replace (34 =? 92)%N with false by reflexivity.
    replace (34 =? 34)%N with true by reflexivity. cbn [length]. rewrite Nat.add_0_r.
    destruct (opt_panic (slice (pre ++ 34%N :: post) 1 (length pre))); reflexivity.
  - destruct fuel as [|fuel]; [cbn in Hf; lia|].
    inversion Hs as [|? ? Hc Hs']; subst. cbn [ps_loop app]. rewrite bat_app_r0. cbn [bat nth_error].
    unfold safe, safe_char in Hc.
    replace (c <? 32)%N with false by lia. replace (c =? 92)%N with false by lia.
    replace (c =? 34)%N with false by lia.
    replace (pre ++ c :: s ++ 34%N :: post) with ((pre ++ [c]) ++ s ++ 34%N :: post)
      by (rewrite <- app_assoc; reflexivity).
    replace (S (length pre)) with (length (pre ++ [c])) by (rewrite app_length; cbn; lia).
    rewrite IH; auto.
    + rewrite app_length. cbn [length].
      replace (length pre + 1 + length s) with (length pre + S (length s)) by lia. reflexivity.
    + cbn in Hf. lia.
    + rewrite app_length. lia.
Qed.

Lemma parse_string_safe_lit s rest : Forall safe s ->
  parse_string (34%N :: s ++ 34%N :: rest) = Ok (Some (s, S (S (length s)))).
Proof.
  intros Hs. unfold parse_string.
  replace (length (34%N :: s ++ 34%N :: rest) <? 2) with false
    by (symmetry; apply Nat.ltb_ge; cbn [length]; rewrite app_length; cbn; lia).
  cbn [bat nth_error opt_panic bind].
  assert (H : ps_loop (34%N :: s ++ 34%N :: rest) (S (length (34%N :: s ++ 34%N :: rest))) 1 34%N false
             = do t <- opt_panic (slice (34%N :: s ++ 34%N :: rest) 1 (1 + length s));
               Ok (Some (t, S (1 + length s)))).
  { apply (ps_loop_safe s [34%N] rest _ Hs); [cbn [length]; rewrite app_length; cbn; lia | cbn; lia]. }
  rewrite H. clear H.
  assert (H2 : slice (34%N :: s ++ 34%N :: rest) 1 (1 + length s) = Some s)
    by (apply (slice_app [34%N] s (34%N :: rest))).
  rewrite H2.
  cbn [opt_panic bind]. reflexivity.
Qed.

(* ------------------------------------------------------------------ Part 3 *)

Lemma read_group_len2 data g : read_group data = Ok g -> 2 <= length g.
Proof.
  unfold read_group. destruct (squash data) as [[j|]| | | |]; cbn [bind]; try discriminate.
  destruct (opt_panic (slice data 0 (S j))) as [g'| | | |]; cbn [bind]; try discriminate.
  destruct (Nat.ltb_spec (length g') 2); [discriminate|].
  destruct (opt_panic (last_byte g')) as [l| | | |]; cbn [bind]; try discriminate.
  destruct (opt_panic (bat data 0)) as [c0| | | |]; cbn [bind]; try discriminate.
  destruct (negb (l =? closech c0)%N); [discriminate|]. intros Hx; inversion Hx; subst. assumption.
Qed.

(* the bytes on which the switch of level n does anything *)
Definition trigger (n : nat) (c : N) : bool :=
  match n with
  | 1 => ((c =? 42) || (c =? 47) || (c =? 37))%N
  | 3 => ((c =? 60) || (c =? 62))%N
  | 4 => ((c =? 61) || (c =? 33))%N
  | 5 => (c =? 38)%N
  | 6 => (c =? 94)%N
  | 7 => (c =? 124)%N
  | 8 => (c =? 38)%N
  | 9 => ((c =? 63) || (c =? 124))%N
  | _ => false
  end.

Lemma recog_untriggered n e i c : trigger n c = false -> recog n e i c = Ok ANone.
Proof.
  intros H.
  destruct n as [|[|[|[|[|[|[|[|[|[|n]]]]]]]]]]; cbn [trigger recog] in *; try reflexivity;
    repeat match goal with Hx : (_ || _)%bool = false |- _ => apply orb_false_iff in Hx; destruct Hx end;
    repeat match goal with Hx : (c =? _)%N = false |- _ => rewrite Hx; clear Hx end;
    reflexivity.
Qed.

Lemma recog_split_pos n e i c opch k : recog n e i c = Ok (ASplit opch k) -> 1 <= k.
Proof.
  intros H.
  destruct n as [|[|[|[|[|[|[|[|[|[|n]]]]]]]]]]; cbn [recog] in H; try discriminate;
    repeat match type of H with
    | context [if ?b then _ else _] => destruct b
    | context [bind (opt_panic ?o) _] => destruct o; cbn [opt_panic bind] in H
    end; try discriminate; inversion H; lia.
Qed.

Inductive item := IChar (c : N) | IGroup (g : bytes).
Definition item_bytes (it : item) : bytes := match it with IChar c => [c] | IGroup g => g end.
Fixpoint flat (l : list item) : bytes :=
  match l with [] => [] | it :: r => item_bytes it ++ flat r end.

Lemma flat_app a b : flat (a ++ b) = flat a ++ flat b.
Proof. induction a as [|x a IH]; cbn [app flat]; [reflexivity|]. rewrite IH, app_assoc. reflexivity. Qed.

Definition good_group (g : bytes) : Prop :=
  (exists c r, g = c :: r /\ is_opener c = true) /\ forall rest, read_group (g ++ rest) = Ok g.

Lemma good_group_len g : good_group g -> 2 <= length g.
Proof. intros [_ H]. apply (read_group_len2 (g ++ [])). apply H. Qed.

Lemma good_group_paren x : bal x -> good_group (40%N :: x ++ [41%N]).
Proof.
  intros Hx. split; [exists 40%N, (x ++ [41%N]); split; reflexivity|].
  intros rest. replace ((40%N :: x ++ [41%N]) ++ rest) with (40%N :: x ++ 41%N :: rest)
    by (cbn [app]; rewrite <- app_assoc; reflexivity).
  apply read_group_paren. exact Hx.
Qed.

Lemma good_group_str s : Forall safe s -> good_group (34%N :: s ++ [34%N]).
Proof.
  intros Hs. split; [exists 34%N, (s ++ [34%N]); split; reflexivity|].
  intros rest. replace ((34%N :: s ++ [34%N]) ++ rest) with (34%N :: s ++ 34%N :: rest)
    by (cbn [app]; rewrite <- app_assoc; reflexivity).
  apply read_group_str. exact Hs.
Qed.

Section Sem.
Context {F : Type} (O : oracle F) (obj : eobj F).
Notation V := (evalue F).

Lemma rbind_ret_r (r : R F) : rbind F r (fun v => ret F v) = r.
Proof.
  unfold rbind, ret. destruct r as [[v em]| | | |]; cbn [bind]; try reflexivity.
  rewrite app_nil_r. reflexivity.
Qed.

(* ---- scan_level ---- *)

Section Level.
Variable n : nat.
Variable next : bool -> bytes -> R F.
Variable it : bool.
Variable e : bytes.
Notation scan := (scan_level F O obj n next it e).

Lemma scan_level_irrel : forall f1 f2 i s lft op em,
  length e - i < f1 -> length e - i < f2 -> scan f1 i s lft op em = scan f2 i s lft op em.
Proof.
  induction f1 as [|f1 IH]; intros f2 i s lft op em H1 H2; [lia|].
  destruct f2 as [|f2]; [lia|].
  cbn [scan_level]. destruct (bat e i) as [c|] eqn:Hb; [|reflexivity].
  assert (Hi : i < length e) by (apply nth_error_Some; unfold bat in Hb; congruence).
  destruct (is_opener c).
  - destruct (opt_panic (sfrom e i)) as [t| | | |]; cbn [bind]; try reflexivity.
    destruct (read_group t) as [g| | | |] eqn:Hg; cbn [bind]; try reflexivity.
    apply read_group_len2 in Hg. apply IH; lia.
  - destruct (recog n e i c) as [a| | | |] eqn:Hr; cbn [bind]; try reflexivity.
    destruct a as [| |opch k].
    + apply IH; lia.
    + apply IH; lia.
    + apply recog_split_pos in Hr.
      destruct (opt_panic (slice e s i)) as [seg| | | |]; cbn [bind]; try reflexivity.
      destruct (operand F O obj n next it lft op seg) as [[v em2]| | | |]; cbn [bind]; try reflexivity.
      apply IH; lia.
Qed.

Lemma scan_level_char fuel i s lft op em c :
  bat e i = Some c -> is_opener c = false -> recog n e i c = Ok ANone -> length e - i < fuel ->
  scan fuel i s lft op em = scan fuel (S i) s lft op em.
Proof.
  intros Hb Ho Hr Hf. destruct fuel as [|fuel]; [lia|].
  assert (Hi : i < length e) by (apply nth_error_Some; unfold bat in Hb; congruence).
  on_lhs ltac:(cbn [scan_level]; rewrite Hb, Ho, Hr; cbn [bind]).
  apply scan_level_irrel; lia.
Qed.

Lemma scan_level_group fuel s lft op em pre g post :
  e = pre ++ g ++ post -> good_group g -> length e - length pre < fuel ->
  scan fuel (length pre) s lft op em = scan fuel (length pre + length g) s lft op em.
Proof.
  intros He Hg Hf. destruct fuel as [|fuel]; [lia|].
  pose proof (good_group_len g Hg) as Hl.
  destruct Hg as [(c & r & Hc & Ho) Hg].
  assert (Hb : bat e (length pre) = Some c) by (rewrite He, bat_app_r0, Hc; reflexivity).
  assert (Hs : sfrom e (length pre) = Some (g ++ post)) by (rewrite He; apply sfrom_app).
  on_lhs ltac:(cbn [scan_level]; rewrite Hb, Ho, Hs; cbn [opt_panic bind]; rewrite Hg; cbn [bind]).
  replace (S (length pre + length g - 1)) with (length pre + length g) by lia.
  apply scan_level_irrel; rewrite He, !app_length in *; lia.
Qed.

Lemma scan_level_split fuel i s lft op em c opch k seg v em2 :
  bat e i = Some c -> is_opener c = false -> recog n e i c = Ok (ASplit opch k) ->
  slice e s i = Some seg -> operand F O obj n next it lft op seg = Ok (v, em2) ->
  length e - i < fuel ->
  scan fuel i s lft op em = scan fuel (i + k) (i + k) v opch (em ++ em2).
Proof.
  intros Hb Ho Hr Hs Hop Hf. destruct fuel as [|fuel]; [lia|].
  assert (Hi : i < length e) by (apply nth_error_Some; unfold bat in Hb; congruence).
  pose proof (recog_split_pos _ _ _ _ _ _ Hr) as Hk.
  on_lhs ltac:(cbn [scan_level]; rewrite Hb, Ho, Hr; cbn [bind]; rewrite Hs; cbn [opt_panic bind];
               rewrite Hop; cbn [bind]).
  replace (S (i + k - 1)) with (i + k) by lia.
  apply scan_level_irrel; lia.
Qed.

Lemma scan_level_split_err fuel i s lft op em c opch k seg r :
  bat e i = Some c -> is_opener c = false -> recog n e i c = Ok (ASplit opch k) ->
  slice e s i = Some seg -> operand F O obj n next it lft op seg = r ->
  (forall x, r <> Ok x) -> 1 <= fuel ->
  scan fuel i s lft op em = match r with Ok _ => NoFuel | Err x => Err x | Panic => Panic | NoFuel => NoFuel | Outside => Outside end.
Proof.
  intros Hb Ho Hr Hs Hop Hne Hf. destruct fuel as [|fuel]; [lia|].
  cbn [scan_level]. rewrite Hb, Ho, Hr. cbn [bind]. rewrite Hs. cbn [opt_panic bind]. rewrite Hop.
  destruct r as [x| | | |]; cbn [bind]; try reflexivity. exfalso. apply (Hne x). reflexivity.
Qed.

Lemma scan_level_end fuel i s lft op em seg :
  bat e i = None -> sfrom e s = Some seg -> 1 <= fuel ->
  scan fuel i s lft op em =
    do ve <- operand F O obj n next it lft op seg; let '(v, em2) := ve in Ok (v, em ++ em2).
Proof.
  intros Hb Hs Hf. destruct fuel as [|fuel]; [lia|].
  cbn [scan_level]. rewrite Hb, Hs. reflexivity.
Qed.

(* a stretch of top-level text over which the loop of level n only advances *)
Inductive quiet_from : nat -> list item -> Prop :=
| q_nil i : quiet_from i []
| q_char i c r : is_opener c = false -> recog n e i c = Ok ANone -> quiet_from (S i) r ->
    quiet_from i (IChar c :: r)
| q_group i g r : good_group g -> quiet_from (i + length g) r -> quiet_from i (IGroup g :: r).

Lemma scan_level_quiet : forall l pre post fuel s lft op em,
  e = pre ++ flat l ++ post -> quiet_from (length pre) l -> length e - length pre < fuel ->
  scan fuel (length pre) s lft op em = scan fuel (length pre + length (flat l)) s lft op em.
Proof.
  induction l as [|x l IH]; intros pre post fuel s lft op em He Hq Hf.
  - cbn [flat length]. f_equal. lia.
  - inversion Hq as [|? c r Ho Hr Hq'|? g r Hg Hq']; subst x.
    + subst. cbn [flat item_bytes app] in *.
      rewrite (scan_level_char fuel (length pre) s lft op em c); auto.
      2:{ rewrite He, bat_app_r0. reflexivity. }
      replace (S (length pre)) with (length (pre ++ [c])) by (rewrite app_length; cbn; lia).
      rewrite (IH (pre ++ [c]) post).
      * f_equal. rewrite app_length. cbn [length]. lia.
      * rewrite He, <- app_assoc. reflexivity.
      * rewrite app_length. cbn [length]. replace (length pre + 1) with (S (length pre)) by lia. exact Hq'.
      * rewrite app_length. cbn [length]. lia.
    + subst. cbn [flat item_bytes] in *.
      rewrite (scan_level_group fuel s lft op em pre g (flat l ++ post)); auto.
      2:{ rewrite He, <- app_assoc. reflexivity. }
      replace (length pre + length g) with (length (pre ++ g)) by (rewrite app_length; lia).
      rewrite (IH (pre ++ g) post).
      * f_equal. rewrite !app_length. lia.
      * rewrite He, <- !app_assoc. reflexivity.
      * rewrite app_length. exact Hq'.
      * rewrite app_length. pose proof (good_group_len g Hg). lia.
Qed.

(* a whole string that is quiet for level n: the level hands it to the next one *)
Lemma scan_level_transparent l :
  e = flat l -> quiet_from 0 l ->
  scan (S (length e)) 0 0 (VUndef F) 0%N [] =
    do ve <- operand F O obj n next it (VUndef F) 0%N e; let '(v, em2) := ve in Ok (v, em2).
Proof.
  intros He Hq.
  pose proof (scan_level_quiet l [] [] (S (length e)) 0 (VUndef F) 0%N []) as H.
  cbn [app length Nat.add] in H. rewrite app_nil_r in H. rewrite (H He Hq) by lia. clear H.
  rewrite (scan_level_end _ _ _ _ _ _ e); [reflexivity| |apply sfrom_0|lia].
  rewrite <- He. apply bat_len_none.
Qed.

(* one binary operator at top level *)
Lemma scan_level_binop l1 opb l2 c opch :
  e = flat l1 ++ opb ++ flat l2 ->
  quiet_from 0 l1 -> bat opb 0 = Some c -> is_opener c = false ->
  recog n e (length (flat l1)) c = Ok (ASplit opch (length opb)) ->
  quiet_from (length (flat l1) + length opb) l2 ->
  scan (S (length e)) 0 0 (VUndef F) 0%N [] =
    do ve <- operand F O obj n next it (VUndef F) 0%N (flat l1);
    let '(a, em1) := ve in
    do we <- operand F O obj n next it a opch (flat l2);
    let '(b, em2) := we in Ok (b, em1 ++ em2).
Proof.
  intros He Hq1 Hc Ho Hr Hq2.
  pose proof (recog_split_pos _ _ _ _ _ _ Hr) as Hk.
  pose proof (scan_level_quiet l1 [] (opb ++ flat l2) (S (length e)) 0 (VUndef F) 0%N []) as H.
  cbn [app length Nat.add] in H. rewrite (H He Hq1) by lia. clear H.
  assert (Hb : bat e (length (flat l1)) = Some c).
  { rewrite He, bat_app_r0. destruct opb; [discriminate|]. exact Hc. }
  assert (Hs : slice e 0 (length (flat l1)) = Some (flat l1)) by (rewrite He; apply slice_prefix).
  destruct (operand F O obj n next it (VUndef F) 0%N (flat l1)) as [[a em1]| | | |] eqn:Hop.
  - rewrite (scan_level_split _ _ _ _ _ _ c opch (length opb) (flat l1) a em1); auto.
    2:{ rewrite He, !app_length. lia. }
    cbn [bind app].
    pose proof (scan_level_quiet l2 (flat l1 ++ opb) [] (S (length e))
                  (length (flat l1) + length opb) a opch em1) as H.
    rewrite app_length in H. rewrite H; clear H.
    + rewrite (scan_level_end _ _ _ _ _ _ (flat l2)); [reflexivity | | | lia].
      * replace (length (flat l1) + length opb + length (flat l2)) with (length e)
          by (rewrite He, !app_length; lia). apply bat_len_none.
      * replace (length (flat l1) + length opb) with (length (flat l1 ++ opb)) by (rewrite app_length; lia).
        rewrite He, app_assoc. apply sfrom_app.
    + rewrite He, app_nil_r, <- app_assoc. reflexivity.
    + exact Hq2.
    + rewrite He, !app_length. lia.
  - rewrite (scan_level_split_err _ _ _ _ _ _ c opch (length opb) (flat l1) (Err e0)); auto; [congruence|lia].
  - rewrite (scan_level_split_err _ _ _ _ _ _ c opch (length opb) (flat l1) Panic); auto; [congruence|lia].
  - rewrite (scan_level_split_err _ _ _ _ _ _ c opch (length opb) (flat l1) NoFuel); auto; [congruence|lia].
  - rewrite (scan_level_split_err _ _ _ _ _ _ c opch (length opb) (flat l1) Outside); auto; [congruence|lia].
Qed.

End Level.

(* ---- the three special loops: evalComma, evalTerns, evalSums on text without their operators ---- *)

Definition cquiet (P : N -> bool) (l : list item) : Prop :=
  Forall (fun x => match x with
                   | IChar c => is_opener c = false /\ P c = false
                   | IGroup g => good_group g
                   end) l.

Section Special.
Variable rec : N -> bool -> bytes -> R F.
Variable steps : N.
Variable next : bool -> bytes -> R F.
Variable it : bool.
Variable e : bytes.

(* evalComma *)
Notation scanc := (scan_comma F next it e).

Lemma scan_comma_irrel : forall f1 f2 i s em,
  length e - i < f1 -> length e - i < f2 -> scanc f1 i s em = scanc f2 i s em.
Proof.
  induction f1 as [|f1 IH]; intros f2 i s em H1 H2; [lia|].
  destruct f2 as [|f2]; [lia|].
  cbn [scan_comma]. destruct (bat e i) as [c|] eqn:Hb; [|reflexivity].
  assert (Hi : i < length e) by (apply nth_error_Some; unfold bat in Hb; congruence).
  destruct (c =? 44)%N.
  - destruct (opt_panic (slice e s i)) as [seg| | | |]; cbn [bind]; try reflexivity.
    destruct (next false seg) as [[v em2]| | | |]; cbn [bind]; try reflexivity. apply IH; lia.
  - destruct (is_opener c); [|apply IH; lia].
    destruct (opt_panic (sfrom e i)) as [t| | | |]; cbn [bind]; try reflexivity.
    destruct (read_group t) as [g| | | |] eqn:Hg; cbn [bind]; try reflexivity.
    apply read_group_len2 in Hg. apply IH; lia.
Qed.

Lemma scan_comma_quiet : forall l pre post fuel s em,
  e = pre ++ flat l ++ post -> cquiet (fun c => (c =? 44)%N) l -> length e - length pre < fuel ->
  scanc fuel (length pre) s em = scanc fuel (length pre + length (flat l)) s em.
Proof.
  induction l as [|x l IH]; intros pre post fuel s em He Hq Hf.
  - cbn [flat length]. f_equal. lia.
  - apply Forall_cons_iff in Hq. destruct Hq as [Hx Hq']. destruct x as [c|g].
    + destruct Hx as [Ho Hc]. cbn [flat item_bytes app] in *.
      destruct fuel as [|fuel]; [lia|].
      assert (Hb : bat e (length pre) = Some c) by (rewrite He, bat_app_r0; reflexivity).
      assert (Hlen : length e = length pre + S (length (flat l) + length post))
        by (rewrite He, !app_length; cbn [length]; rewrite app_length; lia).
      on_lhs ltac:(cbn [scan_comma]; rewrite Hb, Hc, Ho).
      rewrite (scan_comma_irrel fuel (S fuel)) by lia.
      replace (S (length pre)) with (length (pre ++ [c])) by (rewrite app_length; cbn; lia).
      rewrite (IH (pre ++ [c]) post); auto.
      * f_equal. rewrite app_length. cbn [length]. lia.
      * rewrite He, <- app_assoc. reflexivity.
      * rewrite app_length. cbn [length]. lia.
    + cbn [flat item_bytes] in *. pose proof (good_group_len g Hx) as Hl.
      destruct Hx as [(c & r & Hc & Ho) Hg]. destruct fuel as [|fuel]; [lia|].
      assert (Hb : bat e (length pre) = Some c) by (rewrite He, bat_app_r0, Hc; reflexivity).
      assert (Hne : (c =? 44)%N = false).
      { unfold is_opener in Ho. destruct (N.eqb_spec c 44) as [E|E]; [rewrite E in Ho; discriminate | reflexivity]. }
      assert (Hs : sfrom e (length pre) = Some (g ++ flat l ++ post))
        by (rewrite He, <- app_assoc; apply sfrom_app).
      assert (Hlen : length e = length pre + (length g + length (flat l) + length post))
        by (rewrite He, !app_length; lia).
      on_lhs ltac:(cbn [scan_comma]; rewrite Hb, Hne, Ho, Hs; cbn [opt_panic bind]; rewrite Hg; cbn [bind]).
      replace (S (length pre + length g - 1)) with (length pre + length g) by lia.
      rewrite (scan_comma_irrel fuel (S fuel)) by lia.
      replace (length pre + length g) with (length (pre ++ g)) by (rewrite app_length; lia).
      rewrite (IH (pre ++ g) post); auto.
      * f_equal. rewrite !app_length. lia.
      * rewrite He, <- !app_assoc. reflexivity.
      * rewrite app_length. lia.
Qed.

Lemma scan_comma_transparent l :
  e = flat l -> cquiet (fun c => (c =? 44)%N) l -> it = false ->
  scanc (S (length e)) 0 0 [] = next false e.
Proof.
  intros He Hq Hit.
  pose proof (scan_comma_quiet l [] [] (S (length e)) 0 []) as H.
  cbn [app length Nat.add] in H. rewrite app_nil_r in H. rewrite (H He Hq) by lia. clear H.
  rewrite <- He. cbn [scan_comma]. rewrite bat_len_none, sfrom_0. cbn [opt_panic bind]. rewrite Hit.
  destruct (next false e) as [[v em2]| | | |]; cbn [bind]; try reflexivity.
  cbn [app]. rewrite app_nil_r. reflexivity.
Qed.

(* evalTerns *)
Notation scant := (scan_terns F O obj rec steps next it e).

Lemma scan_terns_irrel : forall f1 f2 i s cond depth,
  length e - i < f1 -> length e - i < f2 -> scant f1 i s cond depth = scant f2 i s cond depth.
Proof.
  induction f1 as [|f1 IH]; intros f2 i s cond depth H1 H2; [lia|].
  destruct f2 as [|f2]; [lia|].
  cbn [scan_terns]. destruct (bat e i) as [c|] eqn:Hb; [|reflexivity].
  assert (Hi : i < length e) by (apply nth_error_Some; unfold bat in Hb; congruence).
  destruct (c =? 63)%N.
  - destruct (if S i <? length e then do c1 <- opt_panic (bat e (S i)); Ok ((c1 =? 63) || (c1 =? 46))%N else Ok false)
      as [sk| | | |]; cbn [bind]; try reflexivity.
    destruct sk; [apply IH; lia|].
    destruct (depth =? 0)%Z.
    + destruct (opt_panic (slice e 0 i)) as [cnd| | | |]; cbn [bind]; try reflexivity. apply IH; lia.
    + apply IH; lia.
  - destruct (c =? 58)%N.
    + destruct (depth - 1 =? 0)%Z; [reflexivity | apply IH; lia].
    + destruct (is_opener c); [|apply IH; lia].
      destruct (opt_panic (sfrom e i)) as [t| | | |]; cbn [bind]; try reflexivity.
      destruct (read_group t) as [g| | | |] eqn:Hg; cbn [bind]; try reflexivity.
      apply read_group_len2 in Hg. apply IH; lia.
Qed.

Lemma scan_terns_quiet : forall l pre post fuel s cond depth,
  e = pre ++ flat l ++ post -> cquiet (fun c => (c =? 63) || (c =? 58))%N l -> length e - length pre < fuel ->
  scant fuel (length pre) s cond depth = scant fuel (length pre + length (flat l)) s cond depth.
Proof.
  induction l as [|x l IH]; intros pre post fuel s cond depth He Hq Hf.
  - cbn [flat length]. f_equal. lia.
  - apply Forall_cons_iff in Hq. destruct Hq as [Hx Hq']. destruct x as [c|g].
    + destruct Hx as [Ho Hc]. apply orb_false_iff in Hc. destruct Hc as [Hc1 Hc2].
      cbn [flat item_bytes app] in *.
      destruct fuel as [|fuel]; [lia|].
      assert (Hb : bat e (length pre) = Some c) by (rewrite He, bat_app_r0; reflexivity).
      assert (Hlen : length e = length pre + S (length (flat l) + length post))
        by (rewrite He, !app_length; cbn [length]; rewrite app_length; lia).
      on_lhs ltac:(cbn [scan_terns]; rewrite Hb, Hc1, Hc2, Ho).
      rewrite (scan_terns_irrel fuel (S fuel)) by lia.
      replace (S (length pre)) with (length (pre ++ [c])) by (rewrite app_length; cbn; lia).
      rewrite (IH (pre ++ [c]) post); auto.
      * f_equal. rewrite app_length. cbn [length]. lia.
      * rewrite He, <- app_assoc. reflexivity.
      * rewrite app_length. cbn [length]. lia.
    + cbn [flat item_bytes] in *. pose proof (good_group_len g Hx) as Hl.
      destruct Hx as [(c & r & Hc & Ho) Hg]. destruct fuel as [|fuel]; [lia|].
      assert (Hb : bat e (length pre) = Some c) by (rewrite He, bat_app_r0, Hc; reflexivity).
      assert (Hne : (c =? 63)%N = false /\ (c =? 58)%N = false).
      { unfold is_opener in Ho.
        split; [destruct (N.eqb_spec c 63) as [E|E] | destruct (N.eqb_spec c 58) as [E|E]]; try reflexivity;
          rewrite E in Ho; discriminate. }
      destruct Hne as [Hn1 Hn2].
      assert (Hs : sfrom e (length pre) = Some (g ++ flat l ++ post))
        by (rewrite He, <- app_assoc; apply sfrom_app).
      assert (Hlen : length e = length pre + (length g + length (flat l) + length post))
        by (rewrite He, !app_length; lia).
      on_lhs ltac:(cbn [scan_terns]; rewrite Hb, Hn1, Hn2, Ho, Hs; cbn [opt_panic bind]; rewrite Hg; cbn [bind]).
      replace (S (length pre + length g - 1)) with (length pre + length g) by lia.
      rewrite (scan_terns_irrel fuel (S fuel)) by lia.
      replace (length pre + length g) with (length (pre ++ g)) by (rewrite app_length; lia).
      rewrite (IH (pre ++ g) post); auto.
      * f_equal. rewrite !app_length. lia.
      * rewrite He, <- !app_assoc. reflexivity.
      * rewrite app_length. lia.
Qed.

Lemma scan_terns_transparent l :
  e = flat l -> cquiet (fun c => (c =? 63) || (c =? 58))%N l ->
  scant (S (length e)) 0 0 [] 0%Z = next it e.
Proof.
  intros He Hq.
  pose proof (scan_terns_quiet l [] [] (S (length e)) 0 [] 0%Z) as H.
  cbn [app length Nat.add] in H. rewrite app_nil_r in H. rewrite (H He Hq) by lia. clear H.
  rewrite <- He. cbn [scan_terns]. rewrite bat_len_none. reflexivity.
Qed.

(* evalSums *)
Notation scans := (scan_sums F O obj next it e).

Lemma scan_sums_irrel : forall f1 f2 i s lft op fill neg em,
  length e - i < f1 -> length e - i < f2 ->
  scans f1 i s lft op fill neg em = scans f2 i s lft op fill neg em.
Proof.
  induction f1 as [|f1 IH]; intros f2 i s lft op fill neg em H1 H2; [lia|].
  destruct f2 as [|f2]; [lia|].
  cbn [scan_sums]. destruct (bat e i) as [c|] eqn:Hb; [|reflexivity].
  assert (Hi : i < length e) by (apply nth_error_Some; unfold bat in Hb; congruence).
  destruct ((c =? 45) || (c =? 43))%N.
  - destruct (negb fill).
    + destruct (if 0 <? i then do p <- opt_panic (bat_pred e i); Ok (p =? c)%N else Ok false) as [dup| | | |];
        cbn [bind]; try reflexivity.
      destruct dup; [reflexivity | apply IH; lia].
    + destruct (if 0 <? i then do p <- opt_panic (bat_pred e i); Ok ((p =? 101) || (p =? 69))%N else Ok false)
        as [sci| | | |]; cbn [bind]; try reflexivity.
      destruct sci; [apply IH; lia|].
      destruct (sums_adjust e s neg) as [[s' neg']| | | |]; cbn [bind]; try reflexivity.
      destruct (opt_panic (slice e s' i)) as [seg| | | |]; cbn [bind]; try reflexivity.
      destruct (sum_operand F O obj next it lft op seg neg') as [[v em2]| | | |]; cbn [bind]; try reflexivity.
      apply IH; lia.
  - destruct (is_opener c); [|apply IH; lia].
    destruct (opt_panic (sfrom e i)) as [t| | | |]; cbn [bind]; try reflexivity.
    destruct (read_group t) as [g| | | |] eqn:Hg; cbn [bind]; try reflexivity.
    apply read_group_len2 in Hg. apply IH; lia.
Qed.

Lemma scan_sums_quiet : forall l pre post fuel s lft op fill em,
  e = pre ++ flat l ++ post -> cquiet (fun c => (c =? 45) || (c =? 43))%N l -> length e - length pre < fuel ->
  exists fill', scans fuel (length pre) s lft op fill false em
              = scans fuel (length pre + length (flat l)) s lft op fill' false em.
Proof.
  induction l as [|x l IH]; intros pre post fuel s lft op fill em He Hq Hf.
  - exists fill. cbn [flat length]. f_equal. lia.
  - apply Forall_cons_iff in Hq. destruct Hq as [Hx Hq']. destruct x as [c|g].
    + destruct Hx as [Ho Hc]. cbn [flat item_bytes app] in *.
      destruct fuel as [|fuel]; [lia|].
      assert (Hb : bat e (length pre) = Some c) by (rewrite He, bat_app_r0; reflexivity).
      assert (Hlen : length e = length pre + S (length (flat l) + length post))
        by (rewrite He, !app_length; cbn [length]; rewrite app_length; lia).
      destruct (IH (pre ++ [c]) post (S fuel) s lft op (if negb fill && negb (isspace c) then true else fill) em)
        as [fill' Hfill]; auto.
      { rewrite He, <- app_assoc. reflexivity. }
      { rewrite app_length. cbn [length]. lia. }
      exists fill'. rewrite app_length in Hfill. cbn [length] in Hfill.
      replace (length pre + 1 + length (flat l)) with (length pre + S (length (flat l))) in Hfill by lia.
      cbn [length]. rewrite <- Hfill.
      on_lhs ltac:(cbn [scan_sums]; rewrite Hb, Hc, Ho).
      replace (length pre + 1) with (S (length pre)) by lia.
      apply scan_sums_irrel; lia.
    + cbn [flat item_bytes] in *. pose proof (good_group_len g Hx) as Hl.
      destruct Hx as [(c & r & Hc & Ho) Hg]. destruct fuel as [|fuel]; [lia|].
      assert (Hb : bat e (length pre) = Some c) by (rewrite He, bat_app_r0, Hc; reflexivity).
      assert (Hne : ((c =? 45) || (c =? 43))%N = false).
      { unfold is_opener in Ho. apply orb_false_iff.
        split; [destruct (N.eqb_spec c 45) as [E|E] | destruct (N.eqb_spec c 43) as [E|E]]; try reflexivity;
          rewrite E in Ho; discriminate. }
      assert (Hs : sfrom e (length pre) = Some (g ++ flat l ++ post))
        by (rewrite He, <- app_assoc; apply sfrom_app).
      assert (Hlen : length e = length pre + (length g + length (flat l) + length post))
        by (rewrite He, !app_length; lia).
      destruct (IH (pre ++ g) post (S fuel) s lft op true em) as [fill' Hfill]; auto.
      { rewrite He, <- !app_assoc. reflexivity. }
      { rewrite app_length. lia. }
      exists fill'. rewrite app_length in Hfill.
      replace (length pre + length g + length (flat l)) with (length pre + length (g ++ flat l)) in Hfill
        by (rewrite app_length; lia).
      rewrite <- Hfill.
      on_lhs ltac:(cbn [scan_sums]; rewrite Hb, Hne, Ho, Hs; cbn [opt_panic bind]; rewrite Hg; cbn [bind]).
      replace (S (length pre + length g - 1)) with (length pre + length g) by lia.
      apply scan_sums_irrel; lia.
Qed.

Lemma scan_sums_transparent l :
  e = flat l -> cquiet (fun c => (c =? 45) || (c =? 43))%N l -> trim e = e -> e <> [] ->
  scans (S (length e)) 0 0 (VUndef F) 0%N false false [] = next it e.
Proof.
  intros He Hq Ht Hne.
  destruct (scan_sums_quiet l [] [] (S (length e)) 0 (VUndef F) 0%N false []) as [fill' H].
  { rewrite app_nil_r. exact He. } { exact Hq. } { cbn [length]. lia. }
  cbn [app length Nat.add] in H. rewrite H. clear H.
  rewrite <- He. cbn [scan_sums]. rewrite bat_len_none. cbn [sums_adjust bind]. rewrite sfrom_0.
  cbn [opt_panic bind]. unfold sum_operand. rewrite Ht.
  destruct e as [|c0 r0]; [congruence|].
  unfold rbind. destruct (next it (c0 :: r0)) as [[v em2]| | | |]; cbn [bind]; try reflexivity.
  replace (0 =? 43)%N with false by reflexivity. replace (0 =? 45)%N with false by reflexivity.
  unfold ret. cbn [bind app]. rewrite app_nil_r. reflexivity.
Qed.

End Special.

End Sem.

(* ------------------------------------------------------------------ Part 4a: decimal spelling *)

Local Open Scope Z_scope.

Lemma isdigit_of_digit d : 0 <= d < 10 -> isdigit (Z.to_N (48 + d)) = true.
Proof. intros H. unfold isdigit. lia. Qed.

Lemma digit_back d : 0 <= d < 10 -> Z.of_N (Z.to_N (48 + d)) - 48 = d.
Proof. intros H. lia. Qed.

Lemma dec_digits_spec : forall fuel n acc,
  0 <= n < 10 ^ Z.of_nat fuel -> (1 <= fuel)%nat ->
  exists ds, dec_digits fuel n acc = ds ++ acc /\ Forall (fun c => isdigit c = true) ds /\
    (1 <= length ds)%nat /\
    (forall k, 1 <= k -> n < 10 ^ k -> Z.of_nat (length ds) <= k) /\
    (forall v rest, all_digits_val (ds ++ rest) v = all_digits_val rest (v * 10 ^ Z.of_nat (length ds) + n)).
Proof.
  induction fuel as [|fuel IH]; intros n acc Hn Hf; [lia|].
  cbn [dec_digits]. destruct (Z.ltb_spec n 10) as [Hlt|Hge].
  - exists [Z.to_N (48 + n mod 10)]. rewrite Z.mod_small by lia. repeat split.
    + constructor; [apply isdigit_of_digit; lia | constructor].
    + cbn. lia.
    + intros k Hk _. cbn. lia.
    + intros v rest. cbn [app all_digits_val length]. rewrite isdigit_of_digit by lia.
      rewrite digit_back by lia. f_equal; try (change (Z.of_nat 1) with 1; lia).
  - assert (Hf' : (1 <= fuel)%nat).
    { destruct fuel; [|lia]. cbn in Hn. lia. }
    assert (Hq : 0 <= n / 10 < 10 ^ Z.of_nat fuel).
    { split; [apply Z.div_pos; lia|].
      apply Z.div_lt_upper_bound; [lia|].
      replace (10 * 10 ^ Z.of_nat fuel) with (10 ^ Z.of_nat (S fuel)); [lia|].
      rewrite Nat2Z.inj_succ, Z.pow_succ_r by lia. reflexivity. }
    destruct (IH (n / 10) (Z.to_N (48 + n mod 10) :: acc) Hq Hf') as (ds & Hds & Hall & Hlen & Hk & Hv).
    exists (ds ++ [Z.to_N (48 + n mod 10)]).
    assert (Hm : 0 <= n mod 10 < 10) by (apply Z.mod_pos_bound; lia).
    repeat split.
    + rewrite Hds, <- app_assoc. reflexivity.
    + apply Forall_app. split; [exact Hall|]. constructor; [apply isdigit_of_digit; lia | constructor].
    + rewrite app_length. cbn. lia.
    + intros k Hk1 Hnk. rewrite app_length. cbn [length].
      assert (2 <= k).
      { destruct (Z.eq_dec k 1) as [->|]; [|lia]. change (10 ^ 1) with 10 in Hnk. lia. }
      assert (n / 10 < 10 ^ (k - 1)).
      { apply Z.div_lt_upper_bound; [lia|].
        replace (10 * 10 ^ (k - 1)) with (10 ^ k); [lia|].
        replace k with (Z.succ (k - 1)) at 1 by lia. rewrite Z.pow_succ_r by lia. reflexivity. }
      specialize (Hk (k - 1)). lia.
    + intros v rest. rewrite <- app_assoc. rewrite Hv. cbn [app all_digits_val].
      rewrite isdigit_of_digit by lia. rewrite digit_back by lia. f_equal.
      rewrite app_length. cbn [length]. rewrite Nat2Z.inj_add. change (Z.of_nat 1) with 1.
      rewrite Z.pow_add_r by lia. change (10 ^ 1) with 10.
      pose proof (Z.div_mod n 10). lia.
Qed.

Lemma dec_of_Z_spec n : 0 <= n < 1000000000000000 ->
  exists ds, dec_of_Z n = ds /\ Forall (fun c => isdigit c = true) ds /\ (1 <= length ds <= 15)%nat /\
    all_digits_val ds 0 = Some n.
Proof.
  intros Hn. unfold dec_of_Z. replace (n <? 0) with false by lia.
  destruct (dec_digits_spec 25 n []) as (ds & Hds & Hall & Hlen & Hk & Hv); [|lia|].
  { split; [lia|]. eapply Z.lt_trans; [apply Hn|]. reflexivity. }
  exists (dec_digits 25 n []). rewrite Hds, app_nil_r. repeat split; auto.
  - specialize (Hk 15). assert (Z.of_nat (length ds) <= 15) by (apply Hk; [lia|]; apply Hn). lia.
  - specialize (Hv 0 []). rewrite app_nil_r in Hv. rewrite Hv. cbn [all_digits_val]. f_equal; lia.
Qed.

Local Close Scope Z_scope.

(* ------------------------------------------------------------------ Part 4b: evalAtom on the atom shapes *)

(* bytes that no scanning loop reacts to *)
Definition inert (c : N) : bool :=
  negb (is_opener c || (c =? 42) || (c =? 47) || (c =? 37) || (c =? 60) || (c =? 62) || (c =? 61) || (c =? 33)
        || (c =? 38) || (c =? 94) || (c =? 124) || (c =? 63) || (c =? 44) || (c =? 58) || (c =? 45) || (c =? 43))%N.

Lemma inert_facts c : inert c = true ->
  is_opener c = false /\ (forall n, trigger n c = false) /\ (c =? 44)%N = false /\
  ((c =? 63) || (c =? 58))%N = false /\ ((c =? 45) || (c =? 43))%N = false /\ (c =? 33)%N = false.
Proof.
  unfold inert. intros H. apply negb_true_iff in H.
  remember (is_opener c) as io eqn:Eio.
  repeat (apply orb_false_elim in H; let H2 := fresh "Hc" in destruct H as [H H2]).
  subst io.
  split; [exact H|]. split.
  { intros n. destruct n as [|[|[|[|[|[|[|[|[|[|n]]]]]]]]]]; cbn [trigger]; try reflexivity;
      repeat match goal with Hx : (c =? _)%N = false |- _ => rewrite Hx; clear Hx end; reflexivity. }
  repeat split; repeat match goal with Hx : (c =? _)%N = false |- _ => rewrite Hx; clear Hx end; reflexivity.
Qed.

Definition allq (l : list item) : Prop :=
  Forall (fun x => match x with IChar c => inert c = true | IGroup g => good_group g end) l.

Definition specials : list N :=
  [40; 91; 123; 34; 39; 42; 47; 37; 60; 62; 61; 33; 38; 94; 124; 63; 44; 58; 45; 43; 9; 10; 11; 12; 13; 32]%N.

Lemma not_special_inert c : (forall k, In k specials -> c <> k) -> inert c = true /\ isspace c = false.
Proof.
  intros H.
  assert (E : forall k, In k specials -> (c =? k)%N = false).
  { intros k Hk. apply N.eqb_neq. apply H. exact Hk. }
  unfold inert, is_opener, isspace.
  rewrite (E 40%N), (E 91%N), (E 123%N), (E 34%N), (E 39%N), (E 42%N), (E 47%N), (E 37%N), (E 60%N), (E 62%N),
    (E 61%N), (E 33%N), (E 38%N), (E 94%N), (E 124%N), (E 63%N), (E 44%N), (E 58%N), (E 45%N), (E 43%N),
    (E 9%N), (E 10%N), (E 11%N), (E 12%N), (E 13%N), (E 32%N) by (cbn; tauto).
  split; reflexivity.
Qed.

Lemma id_continue_range c : id_continue c = true ->
  (c = 36 \/ c = 95 \/ (48 <= c /\ c <= 57) \/ (65 <= c /\ c <= 90) \/ (97 <= c /\ c <= 122))%N.
Proof.
  unfold id_continue, id_start, isdigit. intros H.
  apply orb_true_iff in H. destruct H as [H|H].
  - apply orb_true_iff in H. destruct H as [H|H].
    + apply orb_true_iff in H. destruct H as [H|H].
      * apply orb_true_iff in H. destruct H as [H|H]; apply N.eqb_eq in H; [left | right; left]; exact H.
      * apply andb_true_iff in H. destruct H as [H1 H2]. apply N.leb_le in H1, H2.
        right; right; right; left. split; assumption.
    + apply andb_true_iff in H. destruct H as [H1 H2]. apply N.leb_le in H1, H2.
      right; right; right; right. split; assumption.
  - apply andb_true_iff in H. destruct H as [H1 H2]. apply N.leb_le in H1, H2.
    right; right; left. split; assumption.
Qed.

Lemma id_continue_inert c : id_continue c = true -> inert c = true /\ isspace c = false.
Proof.
  intros H. apply id_continue_range in H. apply not_special_inert.
  intros k Hk. cbn [specials In] in Hk.
  repeat (destruct Hk as [<-|Hk]; [lia|]). contradiction.
Qed.

Lemma allq_chars s : Forall (fun c => inert c = true) s -> allq (map IChar s) /\ flat (map IChar s) = s.
Proof.
  induction 1 as [|c s Hc Hs [IH1 IH2]]; cbn [map flat item_bytes app]; split; try constructor; auto.
  rewrite IH2. reflexivity.
Qed.

Lemma bind_pair_id {A B} (r : res (A * B)) : (do ve <- r; let '(v, em) := ve in Ok (v, em)) = r.
Proof. destruct r as [[a b]| | | |]; reflexivity. Qed.

Section Sem2.
Context {F : Type} (O : oracle F) (obj : eobj F).
Variable rec : N -> bool -> bytes -> R F.
Variable st : N.
Notation V := (evalue F).

Lemma apply_op_zero n (l r : V) : apply_op F O obj n 0%N l r = Ok r.
Proof. destruct n as [|[|[|[|[|[|[|[|[|[|n]]]]]]]]]]; reflexivity. Qed.

Lemma allq_quiet_from n e l : allq l -> forall i, quiet_from n e i l.
Proof.
  induction 1 as [|x l Hx Hl IH]; intros i; [constructor|].
  destruct x as [c|g].
  - destruct (inert_facts c Hx) as (Ho & Ht & _). constructor; auto. apply recog_untriggered. apply Ht.
  - constructor; auto.
Qed.

Lemma allq_cquiet P l : (forall c, inert c = true -> P c = false) -> allq l -> cquiet P l.
Proof.
  intros HP. induction 1 as [|x l Hx Hl IH]; constructor; auto.
  destruct x as [c|g]; auto. split; [apply (inert_facts c Hx) | apply HP; exact Hx].
Qed.

(* operand of a level on a tight text that does not start with '!' *)
Lemma operand_plain n next it (e : bytes) c r :
  e = c :: r -> trim e = e -> (c =? 33)%N = false ->
  operand F O obj n next it (VUndef F) 0%N e = next it e.
Proof.
  intros He Ht Hc. unfold operand. rewrite Ht.
  destruct (n =? 4).
  - rewrite He. cbn [strip_bangs length]. rewrite Hc. cbn [negb bind].
    unfold rbind. destruct (next it (c :: r)) as [[v em]| | | |]; cbn [bind]; try reflexivity.
    rewrite apply_op_zero. unfold lift, ret. cbn [bind]. rewrite app_nil_r. reflexivity.
  - rewrite He. rewrite <- He.
    unfold rbind. destruct (next it e) as [[v em]| | | |]; cbn [bind]; try reflexivity.
    rewrite apply_op_zero. unfold lift, ret. cbn [bind]. rewrite app_nil_r. reflexivity.
Qed.

Lemma eval_auto_S m it e :
  eval_auto F O obj rec st (S m) it e =
    if has_step st (S m) then
      (if S m =? 11 then scan_comma F (eval_auto F O obj rec st m) it e (S (length e)) 0 0 []
       else if S m =? 10 then scan_terns F O obj rec st (eval_auto F O obj rec st m) it e (S (length e)) 0 0 [] 0%Z
       else if S m =? 2 then scan_sums F O obj (eval_auto F O obj rec st m) it e (S (length e)) 0 0 (VUndef F) 0%N false false []
       else scan_level F O obj (S m) (eval_auto F O obj rec st m) it e (S (length e)) 0 0 (VUndef F) 0%N [])
    else eval_auto F O obj rec st m it e.
Proof.
  destruct m as [|[|[|[|[|[|[|[|[|[|[|m]]]]]]]]]]]; reflexivity.
Qed.

(* every level is transparent on a tight text made of inert bytes and groups *)
Lemma eval_auto_allq l e c r :
  e = flat l -> allq l -> e = c :: r -> trim e = e -> (c =? 33)%N = false ->
  forall n, eval_auto F O obj rec st n false e = eval_atom F O obj rec st false e.
Proof.
  intros He Hq Hc Ht Hb. induction n as [|m IH]; [reflexivity|].
  rewrite eval_auto_S. destruct (has_step st (S m)); [|exact IH].
  destruct (S m =? 11) eqn:E11.
  { rewrite (scan_comma_transparent _ _ _ l); auto.
    apply allq_cquiet; auto. intros c0 H0. apply (inert_facts c0 H0). }
  destruct (S m =? 10) eqn:E10.
  { rewrite (scan_terns_transparent O obj rec st _ _ _ l); auto.
    apply allq_cquiet; auto. intros c0 H0. apply (inert_facts c0 H0). }
  destruct (S m =? 2) eqn:E2.
  { rewrite (scan_sums_transparent O obj _ _ _ l); auto; [|rewrite Hc; discriminate].
    apply allq_cquiet; auto. intros c0 H0. apply (inert_facts c0 H0). }
  rewrite (scan_level_transparent O obj _ _ _ _ l); auto; [|apply allq_quiet_from; exact Hq].
  rewrite bind_pair_id. rewrite (operand_plain _ _ _ _ c r); auto.
Qed.

(* evalAtom on a parenthesised group *)
Lemma eval_atom_paren it x :
  bal x -> eval_atom F O obj rec st it (40%N :: x ++ [41%N]) = rec st it x.
Proof.
  intros Hx. unfold eval_atom.
  assert (Ht : trim (40%N :: x ++ [41%N]) = 40%N :: x ++ [41%N]).
  { apply trim_tight. exists 40%N, x, 41%N. repeat split; auto. }
  rewrite Ht.
  replace ((40 =? 48) || (40 =? 45) || (40 =? 46) || (49 <=? 40) && (40 <=? 57))%N with false by reflexivity.
  replace ((40 =? 34) || (40 =? 39))%N with false by reflexivity.
  replace ((40 =? 40) || (40 =? 123) || (40 =? 91))%N with true by reflexivity.
  pose proof (good_group_paren x Hx) as [_ Hg]. specialize (Hg []). rewrite app_nil_r in Hg. rewrite Hg.
  cbn [bind bat nth_error opt_panic]. replace (40 =? 40)%N with true by reflexivity.
  unfold group_inner.
  assert (Hs : slice (40%N :: x ++ [41%N]) 1 (length (40%N :: x ++ [41%N]) - 1) = Some x).
  { pose proof (slice_app [40%N] x [41%N]) as H. cbn [app length] in H.
    cbn [length]. rewrite app_length. cbn [length].
    replace (S (length x + 1) - 1) with (1 + length x) by lia. exact H. }
  rewrite Hs. cbn [opt_panic bind]. rewrite sfrom_all. cbn [opt_panic bind].
  unfold rbind. destruct (rec st it x) as [[v em]| | | |]; cbn [bind]; try reflexivity.
  cbn [length atom_chain]. rewrite trim_nil. unfold ret. cbn [bind]. rewrite app_nil_r. reflexivity.
Qed.

(* evalAtom on an escape-free string literal *)
Lemma eval_atom_str it s :
  Forall safe s -> eval_atom F O obj rec st it (34%N :: s ++ [34%N]) = ret F (VStr F s).
Proof.
  intros Hs. unfold eval_atom.
  assert (Ht : trim (34%N :: s ++ [34%N]) = 34%N :: s ++ [34%N]).
  { apply trim_tight. exists 34%N, s, 34%N. repeat split; auto. }
  rewrite Ht.
  replace ((34 =? 48) || (34 =? 45) || (34 =? 46) || (49 <=? 34) && (34 <=? 57))%N with false by reflexivity.
  replace ((34 =? 34) || (34 =? 39))%N with true by reflexivity.
  pose proof (parse_string_safe_lit s [] Hs) as Hp.
  rewrite Hp. cbn [bind].
  replace (S (S (length s))) with (length (34%N :: s ++ [34%N])) by (cbn [length]; rewrite app_length; cbn; lia).
  rewrite sfrom_all. cbn [opt_panic bind length atom_chain]. rewrite trim_nil. reflexivity.
Qed.

End Sem2.
