(* One-step simulation: on every state satisfying the invariant, the handler model's
   ">> Operation / >> Response" phase of each request computes the plain-map specification's
   reply, effect and "updated" flag, and re-establishes the invariant. *)
From Coq Require Import ZifyN ZifyNat ZifyBool Sorted.
From T38 Require Import Base.Bytes Base.SMap Model.Field Model.Object Model.Glob Model.Spec Model.Keyspace
  Proofs.GlobProofs Proofs.KsField Proofs.KsInv.

Section Refine.
Variable O : oracle.

Definition refines (e : env) (s : state) (q : req) : Prop :=
  forall s' r u, run_req O true e s q = Some (s', r, u) ->
    sexec O matchesb e (abs s) q = (abs s', r, u) /\ inv s'.

Ltac fin H := inversion H; subst; clear H.

(* ---------- SET ---------- *)
Lemma set_core s key id fields ex rs g c oldf (s1 : state) :
  inv s -> msorted c -> Forall obj_ok c -> msorted oldf ->
  abs (set key (set id (mkObj id g ex (fold_left fl_set fields oldf)) c) s) =
    set key (set id (mkSObj g (fold_left sf_set fields oldf) ex) (abs_col c)) (abs s)
  /\ inv (set key (set id (mkObj id g ex (fold_left fl_set fields oldf)) c) s)
  /\ (if rs_ret rs then obj_reply O (mkObj id g ex (fold_left fl_set fields oldf)) (rs_withfields rs) (rs_kind rs) (rs_prec rs) else ROk str_OK)
     = (if rs_ret rs then object_reply O g (fl_scan (fold_left sf_set fields oldf)) (rs_withfields rs) (rs_kind rs) (rs_prec rs) else ROk str_OK).
Proof.
  intros Hi Hc HF Hof.
  destruct (fold_fl_set_spec fields oldf Hof) as [Heq Hsorted].
  split; [|split].
  - rewrite abs_set, absc_set. unfold abs_obj. cbn. rewrite Heq. reflexivity.
  - apply inv_set; [exact Hi|]. apply col_ok_set; cbn; auto.
  - unfold obj_reply. cbn. rewrite Heq. reflexivity.
Qed.

Lemma set_refines e s key id fields ex nx xx rs g : inv s -> refines e s (QSet key id fields ex nx xx rs g).
Proof.
  intros Hi s' r u H. cbn [run_req] in H. fin H. rename H1 into H.
  unfold cmd_set in H. cbn [sexec]. rewrite abs_lookup. unfold find.
  destruct (get key s) as [c|] eqn:Ek.
  - destruct (inv_get _ _ _ Hi Ek) as [Hne [Hcs HcF]].
    unfold put. rewrite abs_col_of, Ek.
    destruct (get id c) as [old|] eqn:Eid; cbn [option_map].
    + destruct (inv_obj _ _ _ _ _ Hi Ek Eid) as [_ Hof].
      destruct (set_core s key id fields ex rs g c (o_fields old) s Hi Hcs HcF Hof) as [Ha [Hinv Hr]].
      destruct nx; destruct xx; cbn in H; fin H; try (split; [reflexivity | exact Hi]);
        (split; [apply (f_equal2 (fun a b => (a, b, true))); [symmetry; exact Ha | symmetry; exact Hr] | exact Hinv]).
    + destruct (set_core s key id fields ex rs g c [] s Hi Hcs HcF msorted_nil) as [Ha [Hinv Hr]].
      destruct nx; destruct xx; cbn in H; fin H; try (split; [reflexivity | exact Hi]);
        (split; [apply (f_equal2 (fun a b => (a, b, true))); [symmetry; exact Ha | symmetry; exact Hr] | exact Hinv]).
  - cbn [option_map]. unfold put. rewrite abs_col_of, Ek.
    destruct xx.
    + fin H. destruct nx; cbn; (split; [reflexivity | exact Hi]).
    + assert (Hc : (false || nx) && false = false) by (destruct nx; reflexivity).
      cbn [get] in H. rewrite Hc in H. clear Hc.
      destruct Hi as [Hs HF].
      rewrite (set_set key [] _ s Hs) in H.
      assert (Hi : inv s) by (split; assumption).
      destruct (set_core s key id fields ex rs g [] [] s Hi msorted_nil (Forall_nil _) msorted_nil) as [Ha [Hinv Hr]].
      fin H. destruct nx; cbn; (split; [apply (f_equal2 (fun a b => (a, b, true))); [symmetry; exact Ha | symmetry; exact Hr] | exact Hinv]).
Qed.

(* ---------- DEL ---------- *)
Lemma remove_abs s key c id :
  inv s -> get key s = Some c -> remove (abs s) key id = abs (store_col s key (del id c)).
Proof.
  intros Hi Ek. unfold remove. rewrite abs_col_of, Ek, abs_store_col, absc_del. reflexivity.
Qed.

Lemma del_col_ok c id : msorted c -> Forall obj_ok c -> msorted (del id c) /\ Forall obj_ok (del id c).
Proof. intros Hs HF. split; [apply msorted_del; exact Hs | apply Forall_del; exact HF]. Qed.

Lemma del_refines e s key id e404 : inv s -> refines e s (QDel key id e404).
Proof.
  intros Hi s' r u H. cbn [run_req] in H. fin H. rename H1 into H.
  unfold cmd_del in H. cbn [sexec]. rewrite abs_get.
  destruct (get key s) as [c|] eqn:Ek; cbn [option_map].
  - destruct (inv_get _ _ _ Hi Ek) as [Hne [Hcs HcF]].
    rewrite absc_get. destruct (get id c) as [o|] eqn:Eid; cbn [option_map].
    + fin H. rewrite (remove_abs s key c id Hi Ek). split; [reflexivity|].
      destruct (del_col_ok c id Hcs HcF). apply store_col_inv; assumption.
    + destruct e404; fin H; (split; [reflexivity | exact Hi]).
  - destruct e404; fin H; (split; [reflexivity | exact Hi]).
Qed.

(* ---------- DROP / FLUSHDB ---------- *)
Lemma drop_refines e s key : inv s -> refines e s (QDrop key).
Proof.
  intros Hi s' r u H. cbn [run_req] in H. fin H. rename H1 into H.
  unfold cmd_drop in H. cbn [sexec]. rewrite abs_get.
  destruct (get key s) as [c|] eqn:Ek; cbn [option_map]; fin H.
  - rewrite abs_del. split; [reflexivity | apply inv_del; exact Hi].
  - split; [reflexivity | exact Hi].
Qed.

Lemma flushdb_refines e s : inv s -> refines e s QFlushdb.
Proof. intros Hi s' r u H. cbn in H. fin H. cbn. split; [reflexivity | apply inv_nil]. Qed.

(* ---------- RENAME / RENAMENX ---------- *)
Lemma rename_refines e s nx key nk : inv s -> refines e s (QRename nx key nk).
Proof.
  intros Hi s' r u H. cbn [run_req] in H. fin H. rename H1 into H.
  unfold cmd_rename in H. cbn [sexec]. rewrite abs_get.
  destruct (get key s) as [c|] eqn:Ek; cbn [option_map].
  - destruct (hook_guard e key nk) as [msg|].
    + fin H. split; [reflexivity | exact Hi].
    + rewrite abs_get.
      assert (Hcok : col_ok (nk, c)) by (exact (inv_get _ _ _ Hi Ek)).
      destruct (get nk s) as [c2|] eqn:Enk; cbn [option_map].
      * destruct nx; cbn in H; fin H.
        -- split; [reflexivity | exact Hi].
        -- rewrite abs_set, !abs_del. split; [reflexivity|].
           apply inv_set; [apply inv_del; apply inv_del; exact Hi | exact Hcok].
      * cbn in H. fin H. rewrite abs_set, abs_del.
        assert (Hd : del nk (abs s) = abs s).
        { apply del_absent. rewrite abs_get, Enk. reflexivity. }
        rewrite Hd. split.
        -- destruct nx; reflexivity.
        -- apply inv_set; [apply inv_del; exact Hi | exact Hcok].
  - fin H. split; [reflexivity | exact Hi].
Qed.

(* ---------- EXPIRE / PERSIST ---------- *)
Lemma reobj_core s key c id o g ex fl :
  inv s -> get key s = Some c -> get id c = Some o -> msorted fl ->
  put (abs s) key id (mkSObj g fl ex) = abs (set key (set id (mkObj id g ex fl) c) s)
  /\ inv (set key (set id (mkObj id g ex fl) c) s).
Proof.
  intros Hi Ek Eid Hfl. destruct (inv_get _ _ _ Hi Ek) as [Hne [Hcs HcF]].
  split.
  - rewrite <- (abs_put_existing s key c id (mkObj id g ex fl) Ek). reflexivity.
  - apply inv_set; [exact Hi|]. apply col_ok_set; cbn; auto.
Qed.

Lemma expire_refines e s key id ex : inv s -> refines e s (QExpire key id ex).
Proof.
  intros Hi s' r u H. cbn [run_req] in H. fin H. rename H1 into H.
  unfold cmd_expire in H. cbn [sexec]. rewrite abs_lookup. unfold find.
  destruct (get key s) as [c|] eqn:Ek; cbn [option_map].
  - destruct (get id c) as [o|] eqn:Eid; cbn [option_map]; fin H.
    + destruct (inv_obj _ _ _ _ _ Hi Ek Eid) as [_ Hof].
      destruct (reobj_core s key c id o (o_geo o) ex (o_fields o) Hi Ek Eid Hof) as [Ha Hinv].
      cbn. rewrite Ha. split; [reflexivity | exact Hinv].
    + split; [reflexivity | exact Hi].
  - fin H. split; [reflexivity | exact Hi].
Qed.

Lemma persist_refines e s key id : inv s -> refines e s (QPersist key id).
Proof.
  intros Hi s' r u H. cbn [run_req] in H. fin H. rename H1 into H.
  unfold cmd_persist in H. cbn [sexec]. rewrite abs_lookup. unfold find.
  destruct (get key s) as [c|] eqn:Ek; cbn [option_map].
  - destruct (get id c) as [o|] eqn:Eid; cbn [option_map].
    + cbn. destruct (o_ex o =? 0)%Z eqn:Ez; cbn in H; fin H.
      * split; [reflexivity | exact Hi].
      * destruct (inv_obj _ _ _ _ _ Hi Ek Eid) as [_ Hof].
        destruct (reobj_core s key c id o (o_geo o) 0%Z (o_fields o) Hi Ek Eid Hof) as [Ha Hinv].
        rewrite Ha. split; [reflexivity | exact Hinv].
    + fin H. split; [reflexivity | exact Hi].
  - fin H. split; [reflexivity | exact Hi].
Qed.

(* ---------- reads ---------- *)
Lemma get_refines e s key id wf kind prec : inv s -> refines e s (QGet key id wf kind prec).
Proof.
  intros Hi s' r u H. cbn [run_req] in H. fin H. rename H1 into H.
  cbn [sexec]. rewrite abs_lookup.
  destruct (find s key id) as [o|]; cbn [option_map]; fin H; (split; [reflexivity | exact Hi]).
Qed.

Lemma ttl_refines e s key id : inv s -> refines e s (QTtl key id).
Proof.
  intros Hi s' r u H. cbn [run_req] in H. fin H. rename H1 into H.
  cbn [sexec]. rewrite abs_lookup.
  destruct (find s key id) as [o|]; cbn [option_map]; fin H; (split; [reflexivity | exact Hi]).
Qed.

Lemma jget_refines e s key id path raw : inv s -> refines e s (QJget key id path raw).
Proof.
  intros Hi s' r u H. cbn [run_req] in H. fin H. rename H1 into H.
  cbn [sexec]. rewrite abs_lookup.
  destruct (find s key id) as [o|]; cbn [option_map].
  - cbn. destruct (o_jget O (g_text (o_geo o)) path raw); fin H; (split; [reflexivity | exact Hi]).
  - fin H. split; [reflexivity | exact Hi].
Qed.

Lemma type_refines e s key : inv s -> refines e s (QType key).
Proof.
  intros Hi s' r u H. cbn [run_req] in H. fin H. rename H1 into H.
  cbn [sexec]. rewrite abs_get.
  destruct (get key s); cbn [option_map]; fin H; (split; [reflexivity | exact Hi]).
Qed.

Lemma exists_refines e s key id : inv s -> refines e s (QExists key id).
Proof.
  intros Hi s' r u H. cbn [run_req] in H. fin H. rename H1 into H.
  cbn [sexec]. rewrite abs_get.
  destruct (get key s) as [c|]; cbn [option_map]; fin H.
  - unfold mem. rewrite absc_get. destruct (get id c); cbn; (split; [reflexivity | exact Hi]).
  - split; [reflexivity | exact Hi].
Qed.

Lemma fget_refines e s key id fname : inv s -> refines e s (QFget key id fname).
Proof.
  intros Hi s' r u H. cbn [run_req] in H. fin H. rename H1 into H.
  cbn [sexec]. rewrite abs_get.
  destruct (get key s) as [c|] eqn:Ek; cbn [option_map].
  - rewrite absc_get. destruct (get id c) as [o|] eqn:Eid; cbn [option_map]; fin H.
    + destruct (inv_obj _ _ _ _ _ Hi Ek Eid) as [_ Hof].
      cbn. rewrite (fl_get_spec (o_f O) _ fname Hof). split; [reflexivity | exact Hi].
    + split; [reflexivity | exact Hi].
  - fin H. split; [reflexivity | exact Hi].
Qed.

Lemma fexists_refines e s key id fname : inv s -> refines e s (QFexists key id fname).
Proof.
  intros Hi s' r u H. cbn [run_req] in H. fin H. rename H1 into H.
  cbn [sexec]. rewrite abs_get.
  destruct (get key s) as [c|] eqn:Ek; cbn [option_map].
  - rewrite absc_get. destruct (get id c) as [o|] eqn:Eid; cbn [option_map]; fin H.
    + destruct (inv_obj _ _ _ _ _ Hi Ek Eid) as [_ Hof].
      cbn. rewrite (fl_get_spec (o_f O) _ fname Hof). split; [reflexivity | exact Hi].
    + split; [reflexivity | exact Hi].
  - fin H. split; [reflexivity | exact Hi].
Qed.

Lemma scan_pick_abs c ids : scan_pick (abs_col c) ids = smap_map abs_obj (scan_pick c ids).
Proof.
  unfold scan_pick, smap_map. induction ids as [|i ids IH]; cbn; [reflexivity|].
  rewrite absc_get. rewrite map_app, <- IH. destruct (get i c); reflexivity.
Qed.

Lemma scan_pick_ok c ids : Forall obj_ok c -> Forall obj_ok (scan_pick c ids).
Proof.
  intros HF. unfold scan_pick. induction ids as [|i ids IH]; cbn; [constructor|].
  apply Forall_app. split; [|exact IH].
  destruct (get i c) as [o|] eqn:E; [|constructor].
  constructor; [exact (Forall_get obj_ok i c o HF E) | constructor].
Qed.

Lemma scan_items out nf l : Forall obj_ok l ->
  map (scan_item_impl out nf) l = map (scan_item O out nf) (smap_map abs_obj l).
Proof.
  intros HF. unfold smap_map. rewrite map_map.
  apply map_ext_in. intros [i o] Hin. rewrite Forall_forall in HF. destruct (HF _ Hin) as [Hid _].
  cbn in Hid. unfold scan_item_impl, scan_item. cbn. rewrite Hid. reflexivity.
Qed.

Lemma count_shortcut n cursor lim :
  (if lim <? (if n <=? cursor then 0 else n - cursor) then lim else (if n <=? cursor then 0 else n - cursor)) = N.min (n - cursor) lim.
Proof. destruct (n <=? cursor) eqn:E1; destruct (lim <? _) eqn:E2; lia. Qed.

Lemma scan_refines e s key cursor limit globs desc out nofields :
  inv s -> refines e s (QScan key cursor limit globs desc out nofields).
Proof.
  intros Hi s' r u H. cbn [run_req] in H. cbn [sexec]. rewrite abs_get.
  destruct (get key s) as [c|] eqn:Ek; cbn [option_map]; [|fin H; split; [reflexivity | exact Hi]].
  assert (HcF : Forall obj_ok c) by (exact (proj2 (proj2 (inv_get _ _ _ Hi Ek)))).
  assert (Hk : keys (abs_col c) = keys c) by (unfold abs_col; apply keys_map).
  rewrite Hk, absc_length.
  destruct (out =? OUT_COUNT).
  - destruct (glob_everything globs).
    + fin H. cbv zeta. rewrite count_shortcut. split; [reflexivity | exact Hi].
    + destruct (scan_select matchesb (keys c) cursor (if limit =? 0 then max_uint64 else limit) globs desc) as [ids cur].
      fin H. split; [reflexivity | exact Hi].
  - destruct (scan_select matchesb (keys c) cursor (Cursor.eff_limit limit) globs desc) as [ids cur].
    fin H. rewrite scan_pick_abs. rewrite (scan_items out nofields _ (scan_pick_ok c ids HcF)).
    split; [reflexivity | exact Hi].
Qed.

(* ---------- FSET ---------- *)
Lemma fset_fold fields : forall l n, msorted l ->
  fold_left (fset_step O) fields (l, n) = fold_left (sf_fset_step (o_f O)) fields (l, n)
  /\ msorted (fst (fold_left (fset_step O) fields (l, n))).
Proof.
  induction fields as [|f fs IH]; intros l n Hs; cbn [fold_left].
  - split; [reflexivity | exact Hs].
  - assert (Hstep : fset_step O (l, n) f = sf_fset_step (o_f O) (l, n) f).
    { unfold fset_step, sf_fset_step. rewrite (fl_get_spec (o_f O) l (fst f) Hs).
      rewrite (fl_set_spec l f Hs).
      destruct (value_same (snd (sf_get (o_f O) l (fst f))) (snd f)); reflexivity. }
    rewrite Hstep.
    assert (Hs' : msorted (fst (sf_fset_step (o_f O) (l, n) f))).
    { unfold sf_fset_step. destruct (value_same (snd (sf_get (o_f O) l (fst f))) (snd f)); cbn [fst];
        [exact Hs | apply sf_set_sorted; exact Hs]. }
    destruct (sf_fset_step (o_f O) (l, n) f) as [l' n']. apply IH. exact Hs'.
Qed.

Lemma fset_fold2 fields l n l' n' : msorted l ->
  fold_left (fset_step O) fields (l, n) = (l', n') ->
  fold_left (sf_fset_step (o_f O)) fields (l, n) = (l', n') /\ msorted l'.
Proof.
  intros Hs H. destruct (fset_fold fields l n Hs) as [H1 H2]. rewrite H in H1, H2.
  split; [symmetry; exact H1 | exact H2].
Qed.

Lemma fset_refines e s key id xx rs fields : inv s -> refines e s (QFset key id xx rs fields).
Proof.
  intros Hi s' r u H. cbn [run_req] in H.
  unfold cmd_fset in H. cbn [sexec]. rewrite abs_get.
  destruct (get key s) as [c|] eqn:Ek; cbn [option_map].
  - rewrite absc_get. destruct (get id c) as [o|] eqn:Eid; cbn [option_map].
    + destruct (inv_obj _ _ _ _ _ Hi Ek Eid) as [_ Hof].
      cbn [abs_obj s_fields s_geo s_ex].
      destruct (fold_left (fset_step O) fields (o_fields o, 0%Z)) as [ofields n] eqn:Ef.
      destruct (fset_fold2 fields (o_fields o) 0%Z ofields n Hof Ef) as [Hfold Hsorted].
      rewrite Hfold.
      destruct (reobj_core s key c id o (o_geo o) (o_ex o) ofields Hi Ek Eid Hsorted) as [Ha Hinv].
      fin H. rewrite Ha. split; [reflexivity | exact Hinv].
    + destruct xx; cbn in H.
      * rewrite andb_false_r in H. fin H. split; [reflexivity | exact Hi].
      * fin H. split; [reflexivity | exact Hi].
  - fin H. split; [reflexivity | exact Hi].
Qed.

(* ---------- range-limited iteration (PDEL, KEYS) = C12's range_select ---------- *)
Lemma keys_drop_below {V} lo (m : smap V) : keys (Keyspace.drop_below lo m) = GlobProofs.drop_below lo (keys m).
Proof.
  unfold keys. induction m as [|[k v] r IH]; cbn; [reflexivity|].
  destruct (bytes_ltb k lo); [exact IH | reflexivity].
Qed.

Lemma keys_take_upto {V} hi incl (m : smap V) : keys (Keyspace.take_upto hi incl m) = GlobProofs.take_upto hi incl (keys m).
Proof.
  unfold keys. induction m as [|[k v] r IH]; cbn; [reflexivity|].
  destruct (if incl then bytes_gtb k hi else bytes_geb k hi); cbn; [reflexivity | rewrite IH; reflexivity].
Qed.

Lemma keys_filter {V} (P : bytes -> bool) (m : smap V) : keys (filter (fun io => P (fst io)) m) = filter P (keys m).
Proof.
  unfold keys. induction m as [|[k v] r IH]; cbn; [reflexivity|].
  destruct (P k); cbn; rewrite IH; reflexivity.
Qed.

Lemma range_scan_keys {V} pat incl (m : smap V) :
  msorted m -> prefix_ends_ff pat = false ->
  filter (matchesb pat) (keys (range_scan pat incl m)) = filter (matchesb pat) (keys m).
Proof.
  intros Hs Hff. pose proof (range_select_exact pat incl (keys m) Hs Hff) as H.
  unfold range_select in H. unfold range_scan.
  destruct (unlimited (parse pat false)); [reflexivity|].
  rewrite keys_take_upto, keys_drop_below. exact H.
Qed.

Lemma fold_del_cons {V} ids k (v : V) : forall r,
  (forall id, In id ids -> bytes_eqb id k = false) ->
  fold_left (fun c id => del id c) ids ((k, v) :: r) = (k, v) :: fold_left (fun c id => del id c) ids r.
Proof.
  induction ids as [|i ids IH]; intros r Hne; cbn [fold_left]; [reflexivity|].
  cbn [del]. rewrite (Hne i (or_introl eq_refl)). apply IH. intros id Hin. apply Hne. right; exact Hin.
Qed.

Lemma fold_del_filter {V} (P : bytes -> bool) (m : smap V) :
  msorted m ->
  fold_left (fun c id => del id c) (filter P (keys m)) m = filter (fun io => negb (P (fst io))) m.
Proof.
  induction m as [|[k v] r IH]; intros Hs; [reflexivity|].
  pose proof (msorted_inv _ _ _ Hs) as [Hr Hall].
  cbn [keys map fst filter]. destruct (P k) eqn:Pk; cbn [negb].
  - cbn [fold_left del]. rewrite bytes_eqb_refl. apply IH; exact Hr.
  - rewrite fold_del_cons.
    + f_equal. apply IH; exact Hr.
    + intros id Hin. apply filter_In in Hin. destruct Hin as [Hin _].
      rewrite Forall_forall in Hall. rewrite eqb_sym. apply ltb_eqb_false. apply Hall. exact Hin.
Qed.

Lemma fold_del_ok ids : forall c, msorted c -> Forall obj_ok c ->
  msorted (fold_left (fun c id => del id c) ids c) /\ Forall obj_ok (fold_left (fun c id => del id c) ids c).
Proof.
  induction ids as [|i ids IH]; intros c Hs HF; cbn [fold_left]; [split; assumption|].
  apply IH; [apply msorted_del; exact Hs | apply Forall_del; exact HF].
Qed.

Lemma absc_filter (P : bytes -> bool) c :
  abs_col (filter (fun io => P (fst io)) c) = filter (fun io => P (fst io)) (abs_col c).
Proof.
  unfold abs_col, smap_map. induction c as [|[k v] r IH]; cbn; [reflexivity|].
  destruct (P k); cbn; rewrite IH; reflexivity.
Qed.

Lemma filter_keys_length {V} (P : bytes -> bool) (m : smap V) :
  length (filter (fun io => P (fst io)) m) = length (filter P (keys m)).
Proof. rewrite <- keys_filter. unfold keys. rewrite map_length. reflexivity. Qed.

Lemma isempty_length {A} (l : list A) : isempty l = (length l =? 0)%nat.
Proof. destruct l; reflexivity. Qed.

Lemma pdel_refines e s key pat : inv s -> prefix_ends_ff pat = false -> refines e s (QPdel key pat).
Proof.
  intros Hi Hff s' r u H. cbn [run_req] in H. fin H. rename H1 into H.
  unfold cmd_pdel in H. cbn [sexec]. rewrite abs_get.
  destruct (get key s) as [c|] eqn:Ek; cbn [option_map].
  - destruct (inv_get _ _ _ Hi Ek) as [Hne [Hcs HcF]].
    assert (Hids : map fst (filter (fun io => matchesb pat (fst io)) (range_scan pat false c)) = filter (matchesb pat) (keys c)).
    { change (map fst ?x) with (keys x). rewrite keys_filter. apply range_scan_keys; assumption. }
    rewrite Hids in H.
    rewrite (fold_del_filter (matchesb pat) c Hcs) in H.
    fin H. rewrite abs_store_col.
    rewrite (absc_filter (fun k => negb (matchesb pat k)) c).
    assert (Hlen : length (filter (fun io => matchesb pat (fst io)) (abs_col c)) = length (filter (matchesb pat) (keys c))).
    { rewrite filter_keys_length. unfold abs_col. rewrite keys_map. reflexivity. }
    rewrite !isempty_length, Hlen.
    split; [destruct (filter (fun io : bytes * sobj => negb (matchesb pat (fst io))) (abs_col c)); reflexivity|].
    rewrite <- (fold_del_filter (matchesb pat) c Hcs).
    destruct (fold_del_ok (filter (matchesb pat) (keys c)) c Hcs HcF). apply store_col_inv; assumption.
  - fin H. split; [reflexivity | exact Hi].
Qed.

Lemma keys_refines e s pat : inv s -> prefix_ends_ff pat = false -> refines e s (QKeys pat).
Proof.
  intros Hi Hff s' r u H. cbn [run_req] in H. cbn [sexec]. rewrite abs_keys.
  pose proof Hi as [Hs HF]. rewrite (range_scan_keys pat true s Hs Hff) in H.
  fin H. split; [reflexivity | exact Hi].
Qed.

(* ---------- JSET / JDEL ---------- *)
Lemma parse_reentry e key id json :
  parse_set O e [kw_SET; key; id; kw_OBJECT; json] =
  match o_mkgeo O GK_OBJECT [json] with
  | GOk g => PReq (QSet key id [] 0%Z false false (mkRet false false RK_OBJECT 0%Z) g)
  | GErr msg => PErr msg
  end.
Proof.
  unfold parse_set. cbn. destruct (o_mkgeo O GK_OBJECT [json]); reflexivity.
Qed.

Lemma reenter_refines e s key c id o json :
  inv s -> get key s = Some c -> get id c = Some o ->
  forall s' r u, reenter_set O e s key id json = (s', r, u) ->
  match o_mkgeo O GK_OBJECT [json] with
  | GErr msg => (abs s, RErr msg, false)
  | GOk g => (put (abs s) key id (mkSObj g (o_fields o) 0%Z), ROk str_OK, true)
  end = (abs s', r, u) /\ inv s'.
Proof.
  intros Hi Ek Eid s' r u H. unfold reenter_set in H. rewrite parse_reentry in H.
  destruct (o_mkgeo O GK_OBJECT [json]) as [g|msg].
  - unfold cmd_set in H. rewrite Ek, Eid in H. cbn in H.
    destruct (inv_obj _ _ _ _ _ Hi Ek Eid) as [_ Hof].
    destruct (reobj_core s key c id o g 0%Z (o_fields o) Hi Ek Eid Hof) as [Ha Hinv].
    fin H. rewrite Ha. split; [reflexivity | exact Hinv].
  - fin H. split; [reflexivity | exact Hi].
Qed.

Lemma jset_refines e s key id path val raw : inv s -> refines e s (QJset key id path val raw).
Proof.
  intros Hi s' r u H. cbn [run_req] in H. fin H. rename H1 into H.
  unfold cmd_jset in H. cbn [sexec]. rewrite abs_lookup. unfold find.
  destruct (get key s) as [c|] eqn:Ek.
  - destruct (inv_get _ _ _ Hi Ek) as [Hne [Hcs HcF]].
    destruct (get id c) as [o|] eqn:Eid; cbn [option_map abs_obj s_geo s_fields s_ex].
    + destruct (o_sjson_set O raw (g_text (o_geo o)) path val) as [json'|msg].
      * destruct (g_spatial (o_geo o)).
        -- exact (reenter_refines e s key c id o json' Hi Ek Eid s' r u H).
        -- destruct (inv_obj _ _ _ _ _ Hi Ek Eid) as [_ Hof].
           destruct (reobj_core s key c id o (mkGeo false json') 0%Z (o_fields o) Hi Ek Eid Hof) as [Ha Hinv].
           fin H. rewrite Ha. split; [reflexivity | exact Hinv].
      * fin H. split; [reflexivity | exact Hi].
    + destruct (o_sjson_set O raw [] path val) as [json'|msg]; fin H.
      * rewrite <- (abs_put_existing s key c id (mkObj id (mkGeo false json') 0%Z []) Ek).
        split; [reflexivity|]. apply inv_set; [exact Hi|]. apply col_ok_set; cbn; auto; try apply msorted_nil.
      * split; [reflexivity | exact Hi].
  - cbn [option_map]. cbv beta iota zeta in H. cbn [get] in H. cbv beta iota zeta in H.
    destruct (o_sjson_set O raw [] path val) as [json'|msg]; fin H.
    + destruct Hi as [Hs HF]. rewrite (set_set key [] _ s Hs).
      pose proof (abs_put_new s key id (mkObj id (mkGeo false json') 0%Z []) Ek) as Hx.
      split; [apply (f_equal (fun a => (a, ROk str_OK, true))); exact Hx|].
      apply inv_set; [split; assumption|].
      exact (col_ok_new key id (mkObj id (mkGeo false json') 0%Z []) eq_refl msorted_nil).
    + split; [reflexivity | exact Hi].
Qed.

Lemma jdel_refines e s key id path : inv s -> refines e s (QJdel key id path).
Proof.
  intros Hi s' r u H. cbn [run_req] in H. fin H. rename H1 into H.
  unfold cmd_jdel in H. cbn [sexec]. rewrite abs_get.
  destruct (get key s) as [c|] eqn:Ek; cbn [option_map].
  - destruct (inv_get _ _ _ Hi Ek) as [Hne [Hcs HcF]].
    rewrite absc_get.
    destruct (get id c) as [o|] eqn:Eid; cbn [option_map abs_obj s_geo s_fields s_ex].
    + destruct (o_sjson_del O (g_text (o_geo o)) path) as [json'|msg].
      * destruct (bytes_eqb json' (g_text (o_geo o))).
        -- fin H. split; [reflexivity | exact Hi].
        -- destruct (g_spatial (o_geo o)).
           ++ exact (reenter_refines e s key c id o json' Hi Ek Eid s' r u H).
           ++ destruct (inv_obj _ _ _ _ _ Hi Ek Eid) as [_ Hof].
              destruct (reobj_core s key c id o (mkGeo false json') 0%Z (o_fields o) Hi Ek Eid Hof) as [Ha Hinv].
              fin H. rewrite Ha. split; [reflexivity | exact Hinv].
      * fin H. split; [reflexivity | exact Hi].
    + destruct (o_sjson_del O [] path) as [json'|msg].
      * destruct (bytes_eqb json' []); fin H.
        -- split; [reflexivity | exact Hi].
        -- rewrite <- (abs_put_existing s key c id (mkObj id (mkGeo false json') 0%Z []) Ek).
           split; [reflexivity|]. apply inv_set; [exact Hi|]. apply col_ok_set; cbn; auto; try apply msorted_nil.
      * fin H. split; [reflexivity | exact Hi].
  - fin H. split; [reflexivity | exact Hi].
Qed.

(* ---------- every request ---------- *)
Definition req_ok (q : req) : Prop :=
  match q with
  | QPdel _ pat => prefix_ends_ff pat = false
  | QKeys pat => prefix_ends_ff pat = false
  | _ => True
  end.

Theorem step_refines e s q : inv s -> req_ok q -> refines e s q.
Proof.
  intros Hi Hq. destruct q.
  - apply set_refines; exact Hi.
  - apply fset_refines; exact Hi.
  - apply del_refines; exact Hi.
  - apply pdel_refines; [exact Hi | exact Hq].
  - apply drop_refines; exact Hi.
  - apply rename_refines; exact Hi.
  - apply flushdb_refines; exact Hi.
  - apply expire_refines; exact Hi.
  - apply persist_refines; exact Hi.
  - apply jset_refines; exact Hi.
  - apply jdel_refines; exact Hi.
  - apply get_refines; exact Hi.
  - apply fget_refines; exact Hi.
  - apply exists_refines; exact Hi.
  - apply fexists_refines; exact Hi.
  - apply ttl_refines; exact Hi.
  - apply type_refines; exact Hi.
  - apply keys_refines; [exact Hi | exact Hq].
  - apply scan_refines; exact Hi.
  - apply jget_refines; exact Hi.
Qed.

(* the repaired handlers never reach the nil dereference *)
Theorem run_req_no_panic e s q : run_req O true e s q <> None.
Proof.
  destruct q; cbn [run_req]; try discriminate.
  unfold cmd_fset. destruct (get key s) as [c|]; [|discriminate].
  destruct (get id c); [|].
  - destruct (fold_left (fset_step O) fields (o_fields o, 0%Z)). discriminate.
  - destruct xx; cbn; [rewrite andb_false_r|]; discriminate.
Qed.

End Refine.
