(* Proofs/CollCountProofs.v — the COUNT shortcut of SCAN / SEARCH with CURSOR and LIMIT (Model/CollSel.v:
   coll_scan_count_at / coll_search_count_at) against the recomputation from the retrievable objects
   and against C11's counting iteration / page model (Model/Cursor.v), which is what the IDS form of
   the same query walks. *)
From Coq Require Import ZifyN ZifyNat ZifyBool Lia.
From T38 Require Import Base.Bytes Model.Glob Model.Collection Proofs.CollectionProofs Model.GlobSel
  Proofs.GlobSelProofs Model.CollSel Proofs.CollSelProofs.
From T38 Require Model.Cursor Proofs.CursorProofs.
Import ListNotations.
Open Scope N_scope.

Lemma shortcut_count_spec (n : nat) cursor limit :
  shortcut_count (Z.of_nat n) cursor limit = N.min limit (N.of_nat n - cursor).
Proof.
  unfold shortcut_count. rewrite <- nat_N_Z, N2Z.id. set (t := N.of_nat n).
  destruct (cursor <? t) eqn:E1.
  - destruct (limit <? t - cursor) eqn:E2; lia.
  - destruct (limit <? 0) eqn:E2; lia.
Qed.

Lemma cursor_shortcut_spec {A} (src : list A) cursor limit :
  Cursor.count_shortcut src cursor limit = N.min limit (N.of_nat (length src) - cursor).
Proof.
  unfold Cursor.count_shortcut. set (t := N.of_nat (length src)).
  destruct (t <=? cursor) eqn:E1.
  - destruct (limit <? 0) eqn:E2; lia.
  - destruct (limit <? t - cursor) eqn:E2; lia.
Qed.

(* min(max(n - cursor, 0), limit), n = the retrievable objects (SCAN) / the retrievable strings (SEARCH) *)
Theorem count_at_spec c cursor limit : Wf c ->
  coll_scan_count_at c cursor limit = N.min limit (N.of_nat (length (scan_ids c)) - cursor) /\
  coll_search_count_at c cursor limit =
    N.min limit (N.of_nat (length (filter (fun o => negb (o_spatial o)) (scan_ids c))) - cursor).
Proof.
  intros W. destruct (counters_are_lengths c W) as [Hs Hc].
  unfold coll_scan_count_at, coll_search_count_at, scan_count_shortcut, search_count_shortcut.
  rewrite Hs, Hc, !shortcut_count_spec, (values_length c W). split; reflexivity.
Qed.

(* ... which is what the counting iteration over the index returns and how many ids the IDS form of
   the same query (same CURSOR, same LIMIT, either direction) lists: Model.Cursor.page *)
Theorem count_at_is_page c (desc : bool) cursor limit : Wf c -> 1 <= limit ->
  let ids := dir desc (scan_ids c) in
  let vals := dir desc (search_values c) in
  coll_scan_count_at c cursor limit =
    N.of_nat (length (fst (Cursor.page (fun _ => true) (fun _ => false) ids cursor limit))) /\
  coll_search_count_at c cursor limit =
    N.of_nat (length (fst (Cursor.page (fun _ => true) (fun _ => false) vals cursor limit))).
Proof.
  intros W Hl ids vals. destruct (count_at_spec c cursor limit W) as [H1 H2].
  rewrite <- !(CursorProofs.count_eq_items (fun _ => true) (fun _ => false)) by exact Hl.
  rewrite <- !CursorProofs.count_shortcut_exact by exact Hl.
  rewrite !cursor_shortcut_spec, H1, H2. unfold ids, vals.
  assert (L : forall (l : list obj), length (dir desc l) = length l).
  { intros l. destruct desc; cbn [dir]; [apply rev_length | reflexivity]. }
  rewrite !L, (values_length c W). split; reflexivity.
Qed.
