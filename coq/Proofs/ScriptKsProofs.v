(* The instance Model/ScriptKs.v satisfies the two hypotheses of Proofs/ScriptProofs.v: they are not
   vacuous, and every theorem there holds for the model the C18 driver executes. *)
From Coq Require Import String List Bool.
From T38 Require Import Base.Bytes Base.SMap Model.Tables Gen.Mutators Model.Gate Model.Replay Model.Script Model.ScriptKs.
Import ListNotations.
Local Open Scope string_scope.

Ltac crunch :=
  repeat match goal with
         | |- context [match ?x with _ => _ end] => destruct x
         end;
  intros H; inversion H; subst; clear H; cbn; intros; try reflexivity; try discriminate.

Lemma ks_noupd fn s c s' r upd :
  khandler fn s c = (s', r, upd) -> is_ok r && upd = false -> s' = s.
Proof.
  unfold khandler, h_set, h_get, h_del, h_pdel, h_drop, h_rename, h_exists. crunch.
Qed.

Lemma ks_pure fn s c s' r upd :
  khandler fn s c = (s', r, upd) -> touches dataset_structs (fn_effects fn) = false -> s' = s.
Proof.
  unfold khandler.
  destruct (String.eqb_spec fn "cmdSET") as [->|_]; [intros _ H; vm_compute in H; discriminate|].
  destruct (String.eqb_spec fn "cmdGET") as [->|_]; [unfold h_get; crunch|].
  destruct (String.eqb_spec fn "cmdDEL") as [->|_]; [intros _ H; vm_compute in H; discriminate|].
  destruct (String.eqb_spec fn "cmdPDEL") as [->|_]; [intros _ H; vm_compute in H; discriminate|].
  destruct (String.eqb_spec fn "cmdDROP") as [->|_]; [intros _ H; vm_compute in H; discriminate|].
  destruct (String.eqb_spec fn "cmdRENAME") as [->|_]; [intros _ H; vm_compute in H; discriminate|].
  destruct (String.eqb_spec fn "cmdEXISTS") as [->|_]; [unfold h_exists; crunch|].
  intros H _. inversion H. reflexivity.
Qed.
