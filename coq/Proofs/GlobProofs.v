(* Lemmas about Model.Glob: a successful match forces the literal prefix; Parse's limits
   bound every string having that prefix (except when the prefix ends in 0xFF: known finding). *)
From T38 Require Import Base.Bytes Base.Utf8 Model.Glob.
From Coq Require Import ZifyN ZifyNat ZifyBool Sorted.
Open Scope N_scope.

(* ---------- literal prefix ---------- *)

Lemma is_meta_false c :
  is_meta c = false -> c <> LBR /\ c <> STAR /\ c <> QM /\ c <> BSL.
Proof. unfold is_meta, LBR, STAR, QM, BSL. intros H. lia. Qed.

Lemma lit_prefix_decomp p : exists r, p = lit_prefix p ++ r /\ (r = [] \/ exists c r', r = c :: r' /\ is_meta c = true).
Proof.
  induction p as [|c p [r [Hp Hr]]]; cbn.
  - exists []; split; [reflexivity | left; reflexivity].
  - destruct (is_meta c) eqn:E.
    + exists (c :: p). split; [reflexivity | right; exists c, p; auto].
    + exists r. split; [cbn; rewrite Hp at 1; reflexivity | exact Hr].
Qed.

Lemma lit_prefix_no_meta p : forallb (fun c => negb (is_meta c)) (lit_prefix p) = true.
Proof.
  induction p as [|c p IH]; cbn; [reflexivity|].
  destruct (is_meta c) eqn:E; cbn; [reflexivity|]. rewrite E; cbn; exact IH.
Qed.

(* scanning a non-meta literal keeps it at the head of the chunk *)
Lemma scan_body_lit l r :
  forallb (fun c => negb (is_meta c)) l = true ->
  exists c', fst (scan_body (l ++ r) false) = l ++ c'.
Proof.
  induction l as [|x l IH]; cbn [app]; intros H.
  - eexists; reflexivity.
  - cbn in H. apply andb_true_iff in H as [Hx Hl]. apply negb_true_iff in Hx.
    apply is_meta_false in Hx as [H1 [H2 [H3 H4]]].
    destruct (IH Hl) as [c' Hc'].
    cbn [scan_body].
    destruct (N.eqb_spec x BSL); [contradiction|].
    destruct (N.eqb_spec x LBR); [contradiction|].
    destruct (N.eqb_spec x RBR).
    + destruct (scan_body (l ++ r) false) as [c0 r0] eqn:E. cbn in *. exists c'. rewrite Hc'. reflexivity.
    + destruct (N.eqb_spec x STAR); [contradiction|].
      destruct (scan_body (l ++ r) false) as [c0 r0] eqn:E. cbn in *. exists c'. rewrite Hc'. reflexivity.
Qed.

(* matching a chunk that starts with a non-meta literal consumes exactly that literal *)
Lemma match_chunk_lit l : forall fuel c' s t,
  forallb (fun c => negb (is_meta c)) l = true ->
  match_chunk fuel (l ++ c') s = MOk t -> hasPrefix l s.
Proof.
  induction l as [|x l IH]; intros fuel c' s t Hl Hm.
  - exists s; reflexivity.
  - cbn in Hl. apply andb_true_iff in Hl as [Hx Hl]. apply negb_true_iff in Hx.
    apply is_meta_false in Hx as [H1 [H2 [H3 H4]]].
    destruct fuel as [|f]; [discriminate|].
    cbn [app match_chunk] in Hm.
    destruct s as [|s0 s']; [discriminate|].
    destruct (N.eqb_spec x LBR); [contradiction|].
    destruct (N.eqb_spec x QM); [contradiction|].
    destruct (N.eqb_spec x BSL); [contradiction|].
    destruct (N.eqb_spec x s0) as [->|]; [|discriminate].
    destruct (IH _ _ _ _ Hl Hm) as [r ->]. exists r; reflexivity.
Qed.

Lemma strip_stars_nostar x p : x <> STAR -> strip_stars (x :: p) = (false, x :: p).
Proof. intros H. cbn. destruct (N.eqb_spec x STAR); [contradiction|reflexivity]. Qed.

Theorem match_forces_lit_prefix p s :
  glob_match p s = WTrue -> hasPrefix (lit_prefix p) s.
Proof.
  unfold glob_match. intros H.
  destruct (lit_prefix p) as [|x l] eqn:El.
  - exists s; reflexivity.
  - pose proof (lit_prefix_no_meta p) as Hnm. rewrite El in Hnm.
    destruct (lit_prefix_decomp p) as [r [Hp _]]. rewrite El in Hp.
    assert (Hx : x <> STAR).
    { cbn in Hnm. apply andb_true_iff in Hnm as [Hx _]. apply negb_true_iff in Hx.
      apply is_meta_false in Hx; tauto. }
    rewrite Hp in H. cbn [length app wmatch] in H.
    change ((x :: l) ++ r) with (x :: (l ++ r)) in H.
    rewrite (strip_stars_nostar x (l ++ r) Hx) in H.
    change (x :: (l ++ r)) with ((x :: l) ++ r) in H.
    destruct (scan_body_lit (x :: l) r Hnm) as [c' Hc'].
    destruct (scan_body ((x :: l) ++ r) false) as [chunk rest] eqn:Esb. cbn [fst] in Hc'.
    cbn [andb] in H.
    unfold match_chunk0 in H.
    destruct (match_chunk (S (length chunk)) chunk s) as [t| | |] eqn:Em; try discriminate.
    subst chunk. eapply match_chunk_lit; eauto.
Qed.

(* ---------- order facts about prefixes ---------- *)

Lemma removelast_last_decomp (a : bytes) : a <> [] -> a = removelast a ++ [last a 0].
Proof. intros H. apply app_removelast_last; exact H. Qed.

Lemma prefix_lower pre s : hasPrefix pre s -> bytes_leb pre s = true.
Proof. intros [r ->]. apply bytes_leb_app. Qed.

Lemma prefix_upper_inc pre s :
  pre <> [] -> hasPrefix pre s -> bytes_ltb s (inc_last pre) = true.
Proof.
  intros Hne [r ->]. unfold inc_last, bytes_ltb.
  rewrite (removelast_last_decomp pre Hne) at 1.
  rewrite <- app_assoc. cbn [app].
  rewrite (bytes_cmp_app_lt (removelast pre) (last pre 0) (last pre 0 + 1) r []); [reflexivity | lia].
Qed.

Lemma strip_trailing_id_last v a :
  a <> [] -> length (strip_trailing v a) = length a -> last a 0 <> v.
Proof.
  intros Hne Hlen. destruct (strip_trailing_decomp v a) as [k Hk].
  assert (k = 0%nat).
  { apply (f_equal (@length N)) in Hk. rewrite app_length, repeat_length in Hk. lia. }
  subst k. cbn in Hk. rewrite app_nil_r in Hk.
  destruct (strip_trailing_last v a) as [q [x [Hq Hx]]].
  { rewrite <- Hk. exact Hne. }
  rewrite Hk, Hq. rewrite last_last. exact Hx.
Qed.

Lemma dec_last_lt a s : a <> [] -> last a 0 <> 0 -> bytes_cmp (dec_last a ++ s) a = Lt.
Proof.
  intros Hne Hl. unfold dec_last.
  rewrite (removelast_last_decomp a Hne) at 3.
  rewrite <- app_assoc. cbn [app].
  apply bytes_cmp_app_lt. lia.
Qed.

Lemma desc_low_le pre : pre <> [] -> bytes_leb (desc_low pre) pre = true.
Proof.
  intros Hpre. unfold desc_low, bytes_leb.
  destruct (Nat.eqb_spec (length (strip_trailing 0 pre)) (length pre)) as [Hlen|Hlen].
  - destruct pre as [|x pre']; [congruence|].
    assert (Hl : last (x :: pre') 0 <> 0) by (apply strip_trailing_id_last; [congruence | exact Hlen]).
    pose proof (dec_last_lt (x :: pre') [] ltac:(congruence) Hl) as H. rewrite app_nil_r in H.
    rewrite H; reflexivity.
  - destruct (strip_trailing 0 pre) as [|y q] eqn:Es.
    + destruct pre; reflexivity.
    + destruct (strip_trailing_decomp 0 pre) as [k Hk]. rewrite Es in Hk.
      destruct (strip_trailing_last 0 pre) as [q' [z [Hq Hz]]]; [rewrite Es; congruence|].
      rewrite Es in Hq.
      assert (Hk' : pre = (q' ++ [z]) ++ repeat 0 k) by (rewrite <- Hq; exact Hk).
      rewrite Hq. unfold dec_last. rewrite removelast_last, last_last.
      rewrite Hk'. rewrite <- !app_assoc. cbn [app].
      rewrite (bytes_cmp_app_lt q' (z - 1) z [255] (repeat 0 k)); [reflexivity | lia].
Qed.

(* ---------- Parse's limits ---------- *)

Definition prefix_ends_ff (p : bytes) : bool := last (lit_prefix p) 0 =? 255.

Lemma parse_limits_cover p d s :
  hasPrefix (lit_prefix p) s -> prefix_ends_ff p = false ->
  unlimited (parse p d) = true \/ in_limits (parse p d) d s = true.
Proof.
  intros Hpre Hff. unfold parse.
  destruct p as [|c0 p']; [left; reflexivity|].
  destruct (c0 =? STAR) eqn:Ec; [left; reflexivity|].
  set (p := c0 :: p') in *.
  destruct (lit_prefix p) as [|x l] eqn:El; [left; reflexivity|].
  right. unfold prefix_ends_ff in Hff. rewrite El in Hff.
  unfold upper_of. rewrite Hff.
  assert (Hne : x :: l <> []) by congruence.
  destruct d; unfold in_limits; cbn [g_lim0 g_lim1]; apply andb_true_iff; split.
  - eapply bytes_leb_trans; [apply desc_low_le; exact Hne | apply prefix_lower; exact Hpre].
  - apply prefix_upper_inc; assumption.
  - apply prefix_lower; exact Hpre.
  - apply prefix_upper_inc; assumption.
Qed.

Theorem limits_sound p d s :
  glob_match p s = WTrue -> prefix_ends_ff p = false ->
  unlimited (parse p d) = true \/ in_limits (parse p d) d s = true.
Proof.
  intros Hm Hff. apply parse_limits_cover; [apply match_forces_lit_prefix; exact Hm | exact Hff].
Qed.

(* the known finding: with a literal prefix ending in 0xFF the limits lose matching names *)
Lemma limits_ff_refuted :
  exists p s d, glob_match p s = WTrue /\ unlimited (parse p d) = false /\ in_limits (parse p d) d s = false.
Proof. exists [97; 255; STAR], [97; 255; 1], false. vm_compute. auto. Qed.

(* ---------- range-limited iteration over a sorted list of names ---------- *)

Fixpoint drop_below (lo : bytes) (l : list bytes) : list bytes :=
  match l with
  | [] => []
  | k :: l' => if bytes_ltb k lo then drop_below lo l' else l
  end.

(* Ascend(lo) ... stop when key > hi (KEYS, hooks) or key >= hi (ScanRange) *)
Fixpoint take_upto (hi : bytes) (incl : bool) (l : list bytes) : list bytes :=
  match l with
  | [] => []
  | k :: l' =>
      if (if incl then bytes_gtb k hi else bytes_geb k hi) then [] else k :: take_upto hi incl l'
  end.

Definition matches (p k : bytes) : bool := match glob_match p k with WTrue => true | _ => false end.

(* cmdKEYS / cmdPDEL / forEachHookByPattern / SCAN-with-MATCH iteration (ASC) *)
Definition range_select (p : bytes) (incl : bool) (names : list bytes) : list bytes :=
  let g := parse p false in
  if unlimited g then filter (matches p) names
  else filter (matches p) (take_upto (g_lim1 g) incl (drop_below (g_lim0 g) names)).

Definition sorted (l : list bytes) : Prop := StronglySorted (fun a b => bytes_ltb a b = true) l.

Lemma bytes_ltb_trans a b c : bytes_ltb a b = true -> bytes_ltb b c = true -> bytes_ltb a c = true.
Proof.
  unfold bytes_ltb. destruct (bytes_cmp a b) eqn:E1; try discriminate.
  destruct (bytes_cmp b c) eqn:E2; try discriminate. intros _ _.
  rewrite (bytes_cmp_lt_trans _ _ _ E1 E2). reflexivity.
Qed.

Lemma bytes_ltb_leb_trans a b c : bytes_ltb a b = true -> bytes_leb b c = true -> bytes_ltb a c = true.
Proof.
  unfold bytes_ltb, bytes_leb. destruct (bytes_cmp a b) eqn:E1; try discriminate.
  destruct (bytes_cmp b c) eqn:E2; try discriminate; intros _ _.
  - apply bytes_cmp_eq in E2; subst. rewrite E1; reflexivity.
  - rewrite (bytes_cmp_lt_trans _ _ _ E1 E2). reflexivity.
Qed.

Lemma bytes_ltb_irrefl a : bytes_ltb a a = false.
Proof. unfold bytes_ltb. rewrite bytes_cmp_refl. reflexivity. Qed.

Lemma bytes_leb_ltb_false a b : bytes_leb a b = true -> bytes_ltb b a = false.
Proof.
  unfold bytes_leb, bytes_ltb. rewrite (bytes_cmp_antisym a b).
  destruct (bytes_cmp a b); cbn; congruence.
Qed.

Lemma filter_drop_below P lo l :
  sorted l -> (forall k, P k = true -> bytes_leb lo k = true) ->
  filter P (drop_below lo l) = filter P l.
Proof.
  intros Hs HP. induction l as [|k l IH]; cbn; [reflexivity|].
  inversion Hs; subst.
  destruct (bytes_ltb k lo) eqn:E.
  - rewrite IH by assumption.
    destruct (P k) eqn:Pk; [|reflexivity].
    apply HP in Pk. apply bytes_leb_ltb_false in Pk. congruence.
  - reflexivity.
Qed.

Lemma filter_take_upto P hi incl l :
  sorted l -> (forall k, P k = true -> bytes_ltb k hi = true) ->
  filter P (take_upto hi incl l) = filter P l.
Proof.
  intros Hs HP. induction l as [|k l IH]; cbn; [reflexivity|].
  inversion Hs as [|? ? Hs' Hall]; subst.
  destruct (if incl then bytes_gtb k hi else bytes_geb k hi) eqn:E.
  - (* everything from k on is >= hi : nothing satisfies P *)
    assert (Hk : bytes_leb hi k = true).
    { destruct incl; [apply bytes_ltb_leb; exact E | exact E]. }
    assert (Hnone : forall x, In x (k :: l) -> P x = false).
    { intros x Hx. destruct (P x) eqn:Px; [|reflexivity]. exfalso.
      apply HP in Px.
      assert (Hkx : bytes_leb k x = true).
      { destruct Hx as [->|Hx]; [apply bytes_leb_refl|].
        apply bytes_ltb_leb. rewrite Forall_forall in Hall. apply Hall; exact Hx. }
      pose proof (bytes_leb_trans _ _ _ Hk Hkx) as H1.
      apply bytes_leb_ltb_false in H1. congruence. }
    cbn. rewrite (Hnone k (or_introl eq_refl)).
    symmetry. clear -Hnone. induction l as [|y l IHl]; cbn; [reflexivity|].
    rewrite (Hnone y (or_intror (or_introl eq_refl))).
    apply IHl. intros x Hx. apply Hnone. destruct Hx as [->|Hx]; [left; reflexivity | right; right; exact Hx].
  - cbn. rewrite IH by assumption. reflexivity.
Qed.

Lemma drop_below_sorted lo l : sorted l -> sorted (drop_below lo l).
Proof.
  intros Hs. induction l as [|k l IH]; cbn; [constructor|].
  inversion Hs; subst. destruct (bytes_ltb k lo); [apply IH; assumption | exact Hs].
Qed.

Theorem range_select_exact p incl names :
  sorted names -> prefix_ends_ff p = false ->
  range_select p incl names = filter (matches p) names.
Proof.
  intros Hs Hff. unfold range_select.
  destruct (unlimited (parse p false)) eqn:Eu; [reflexivity|].
  assert (Hin : forall k, matches p k = true -> in_limits (parse p false) false k = true).
  { intros k Hk. unfold matches in Hk. destruct (glob_match p k) eqn:Em; try discriminate.
    destruct (limits_sound p false k Em Hff) as [H|H]; [congruence | exact H]. }
  rewrite filter_take_upto.
  - apply filter_drop_below; [exact Hs|].
    intros k Hk. apply Hin in Hk. unfold in_limits in Hk. apply andb_true_iff in Hk. tauto.
  - apply drop_below_sorted; exact Hs.
  - intros k Hk. apply Hin in Hk. unfold in_limits in Hk. apply andb_true_iff in Hk. tauto.
Qed.

(* ---------- sanity facts about the matcher ---------- *)

Lemma match_star s : glob_match [STAR] s = WTrue.
Proof. reflexivity. Qed.

Lemma match_empty_pattern s : glob_match [] s = WTrue <-> s = [].
Proof. unfold glob_match; cbn. destruct s; cbn; split; congruence. Qed.
