(* C17 — the RESP printer's output re-parses to the value printed, with nothing left over. *)
From Coq Require Import ZifyN ZifyNat ZifyBool DecimalN.
From T38 Require Import Base.Bytes Model.RespOut.
Open Scope N_scope.

(* ---------- decimal numerals ---------- *)

Lemma uint_roundtrip u : uint_of_bytes (bytes_of_uint u) = Some u.
Proof. induction u; cbn [bytes_of_uint uint_of_bytes]; try rewrite IHu; reflexivity. Qed.

Lemma parse_print_N n : parse_N (print_N n) = Some n.
Proof. unfold parse_N, print_N. rewrite uint_roundtrip, DecimalN.Unsigned.of_to. reflexivity. Qed.

Definition digit_byte (c : N) : Prop := 48 <= c <= 57.

Lemma uint_digits u : Forall digit_byte (bytes_of_uint u).
Proof. induction u; cbn [bytes_of_uint]; constructor; auto; unfold digit_byte; lia. Qed.

Lemma print_N_digits n : Forall digit_byte (print_N n).
Proof. apply uint_digits. Qed.

Lemma print_N_nonempty p : print_N (Npos p) <> [].
Proof.
  intros E. pose proof (parse_print_N (Npos p)) as H. rewrite E in H. cbn in H. discriminate.
Qed.

Lemma parse_int_digits b : b <> [] -> Forall digit_byte b ->
  parse_int b = match parse_N b with Some n => Some (Z.of_N n) | None => None end.
Proof.
  intros Hne Hd. destruct b as [|c r]; [congruence|]. inversion Hd; subst.
  unfold parse_int. destruct (N.eqb_spec c 45); [unfold digit_byte in *; lia | reflexivity].
Qed.

Lemma parse_print_int z : parse_int (print_int z) = Some z.
Proof.
  destruct z as [|p|p]; cbn [print_int].
  - reflexivity.
  - rewrite parse_int_digits by (auto using print_N_nonempty, print_N_digits).
    rewrite parse_print_N. reflexivity.
  - cbn [parse_int]. change (45 =? 45) with true. cbn iota. rewrite parse_print_N. reflexivity.
Qed.

Definition not_cr (c : N) : Prop := c <> 13.

Lemma print_int_nocr z : Forall not_cr (print_int z).
Proof.
  assert (H : forall n, Forall not_cr (print_N n)).
  { intros n. eapply Forall_impl; [|apply print_N_digits]. unfold digit_byte, not_cr. intros; lia. }
  destruct z; cbn [print_int]; auto. constructor; [unfold not_cr; lia | auto].
Qed.

(* ---------- lines ---------- *)

Lemma read_line_app l rest :
  Forall not_cr l -> read_line (l ++ 13 :: 10 :: rest) = Some (l, rest).
Proof.
  induction 1 as [|c l Hc _ IH]; cbn [app read_line].
  - reflexivity.
  - destruct (N.eqb_spec c 13); [contradiction|]. cbn [andb]. rewrite IH. reflexivity.
Qed.

Lemma line_ok_nocr l : line_ok l = true -> Forall not_cr l.
Proof.
  unfold line_ok. rewrite forallb_forall, Forall_forall. intros H c Hc. specialize (H c Hc).
  apply negb_true_iff, orb_false_iff in H. destruct H as [H _]. apply N.eqb_neq in H. exact H.
Qed.

(* ---------- a better induction principle for nested values ---------- *)

Section RvalInd.
  Variable P : rval -> Prop.
  Hypothesis HS : forall s, P (RSimple s).
  Hypothesis HE : forall s, P (RErr s).
  Hypothesis HI : forall z, P (RInt z).
  Hypothesis HB : forall s, P (RBulk s).
  Hypothesis HN : P RNull.
  Hypothesis HNA : P RNullArr.
  Hypothesis HA : forall l, Forall P l -> P (RArr l).

  Fixpoint rval_ind' (v : rval) : P v :=
    match v with
    | RSimple s => HS s | RErr s => HE s | RInt z => HI z | RBulk s => HB s
    | RNull => HN | RNullArr => HNA
    | RArr l => HA l ((fix go (l : list rval) : Forall P l :=
                         match l with [] => Forall_nil P | x :: r => Forall_cons x (rval_ind' x) (go r) end) l)
    end.
End RvalInd.

Definition print_all (l : list rval) : bytes :=
  (fix go (l : list rval) : bytes := match l with [] => [] | x :: r => resp_print x ++ go r end) l.

Definition wf_all (l : list rval) : bool :=
  (fix all (l : list rval) : bool := match l with [] => true | x :: r => resp_wf x && all r end) l.

Definition depth_all (l : list rval) : nat :=
  (fix mx (l : list rval) : nat := match l with [] => O | x :: r => Nat.max (resp_depth x) (mx r) end) l.

Lemma header_parse n rest :
  read_line (print_N n ++ 13 :: 10 :: rest) = Some (print_N n, rest).
Proof.
  intros. apply read_line_app. eapply Forall_impl; [|apply print_N_digits].
  unfold digit_byte, not_cr; intros; lia.
Qed.

Lemma parse_int_print_N n : parse_int (print_N n) = Some (Z.of_N n).
Proof. destruct n as [|p]; [reflexivity|]. exact (parse_print_int (Zpos p)). Qed.

Lemma parse_elems_all f l : forall rest,
  Forall (fun v => resp_wf v = true -> forall rest, (resp_depth v <= f)%nat ->
                   resp_parse_fuel f (resp_print v ++ rest) = Some (v, rest)) l ->
  wf_all l = true -> (depth_all l <= f)%nat ->
  parse_elems (resp_parse_fuel f) (length l) (print_all l ++ rest) = Some (l, rest).
Proof.
  induction l as [|x l IH]; intros rest HF Hwf Hd; [reflexivity|].
  inversion HF as [|? ? Hx Hl]; subst.
  cbn [wf_all] in Hwf. apply andb_true_iff in Hwf. destruct Hwf as [Hwx Hwl].
  cbn [depth_all] in Hd.
  cbn [length parse_elems print_all]. rewrite <- app_assoc.
  rewrite (Hx Hwx) by lia.
  fold (print_all l). rewrite (IH rest Hl Hwl) by (unfold depth_all in *; lia). reflexivity.
Qed.

Lemma resp_roundtrip_fuel v : resp_wf v = true -> forall fuel rest,
  (resp_depth v <= fuel)%nat -> resp_parse_fuel fuel (resp_print v ++ rest) = Some (v, rest).
Proof.
  induction v as [s|s|z|s| | |l IHl] using rval_ind'; intros Hwf fuel rest Hf;
    (destruct fuel as [|f]; [cbn in Hf; lia|]).
  - (* simple *)
    cbn [resp_print resp_wf] in *. cbn [app resp_parse_fuel]. unfold crlf. rewrite <- app_assoc. cbn [app].
    rewrite read_line_app by (apply line_ok_nocr; exact Hwf).
    change (43 =? 43) with true. cbn iota. rewrite Hwf. reflexivity.
  - (* error *)
    cbn [resp_print resp_wf] in *. cbn [app resp_parse_fuel]. unfold crlf. rewrite <- app_assoc. cbn [app].
    rewrite read_line_app by (apply line_ok_nocr; exact Hwf).
    change (45 =? 43) with false. change (45 =? 45) with true. cbn iota. rewrite Hwf. reflexivity.
  - (* integer *)
    cbn [resp_print]. cbn [app resp_parse_fuel]. unfold crlf. rewrite <- app_assoc. cbn [app].
    rewrite read_line_app by apply print_int_nocr.
    change (58 =? 43) with false. change (58 =? 45) with false. change (58 =? 58) with true. cbn iota.
    rewrite parse_print_int. reflexivity.
  - (* bulk *)
    cbn [resp_print]. cbn [app resp_parse_fuel]. unfold crlf. rewrite <- !app_assoc. cbn [app].
    rewrite header_parse.
    change (36 =? 43) with false. change (36 =? 45) with false. change (36 =? 58) with false.
    change (36 =? 36) with true. cbn iota.
    rewrite parse_int_print_N.
    destruct (Z.eqb_spec (Z.of_N (N.of_nat (length s))) (-1)); [lia|].
    destruct (Z.ltb_spec (Z.of_N (N.of_nat (length s))) 0); [lia|].
    replace (Z.to_nat (Z.of_N (N.of_nat (length s)))) with (length s) by lia.
    rewrite firstn_app, Nat.sub_diag, firstn_all. cbn [firstn]. rewrite app_nil_r, Nat.eqb_refl.
    rewrite skipn_app, Nat.sub_diag, skipn_all. cbn [skipn app].
    change (13 =? 13) with true. change (10 =? 10) with true. reflexivity.
  - reflexivity.
  - reflexivity.
  - (* array *)
    cbn [resp_print]. fold (print_all l). cbn [app resp_parse_fuel]. unfold crlf. rewrite <- !app_assoc. cbn [app].
    rewrite header_parse.
    change (42 =? 43) with false. change (42 =? 45) with false. change (42 =? 58) with false.
    change (42 =? 36) with false. change (42 =? 42) with true. cbn iota.
    rewrite parse_int_print_N.
    destruct (Z.eqb_spec (Z.of_N (N.of_nat (length l))) (-1)); [lia|].
    destruct (Z.ltb_spec (Z.of_N (N.of_nat (length l))) 0); [lia|].
    replace (Z.to_nat (Z.of_N (N.of_nat (length l)))) with (length l) by lia.
    cbn [resp_wf] in Hwf. fold (wf_all l) in Hwf. cbn [resp_depth] in Hf. fold (depth_all l) in Hf.
    rewrite (parse_elems_all f l rest); [reflexivity| |exact Hwf|lia].
    eapply Forall_impl; [|exact IHl]. intros v Hv Hwv rest' Hd. apply Hv; assumption.
Qed.

Lemma print_nonempty v : (1 <= length (resp_print v))%nat.
Proof. destruct v; cbn [resp_print length]; lia. Qed.

Lemma depth_le_length v : (resp_depth v <= length (resp_print v))%nat.
Proof.
  induction v as [s|s|z|s| | |l IHl] using rval_ind'; try (cbn [resp_depth]; apply print_nonempty).
  cbn [resp_depth resp_print]. fold (depth_all l). fold (print_all l).
  cbn [length]. rewrite !app_length.
  assert (H : (depth_all l <= length (print_all l))%nat).
  { induction IHl as [|x l Hx _ IH]; [cbn; lia|].
    cbn [depth_all print_all]. rewrite app_length. fold (depth_all l). fold (print_all l). lia. }
  lia.
Qed.

Theorem resp_roundtrip_proof : forall v,
  resp_wf v = true -> forall rest, resp_parse_fuel (S (length (resp_print v ++ rest))) (resp_print v ++ rest) = Some (v, rest).
Proof.
  intros v Hwf rest. apply resp_roundtrip_fuel; [exact Hwf|].
  rewrite app_length. pose proof (depth_le_length v). lia.
Qed.

Theorem resp_valid_proof : forall v, resp_wf v = true -> resp_parse (resp_print v) = Some (v, []).
Proof.
  intros v Hwf. unfold resp_parse. pose proof (resp_roundtrip_proof v Hwf []) as H.
  rewrite app_nil_r in H. exact H.
Qed.

(* what resp.ErrorValue / resp.SimpleStringValue hand to the printer is always a single line *)
Lemma form_single_line_ok s : line_ok (form_single_line s) = true.
Proof.
  unfold line_ok, form_single_line. rewrite forallb_forall. intros c Hc.
  apply in_map_iff in Hc. destruct Hc as (x & <- & _).
  destruct (N.ltb_spec x 32); apply negb_true_iff, orb_false_iff; split; apply N.eqb_neq; lia.
Qed.

(* and a line that is not well-formed is indeed a problem: the printed reply does not parse back *)
Lemma crlf_in_simple_refuted :
  resp_parse (resp_print (RSimple [79; 75; 13; 10; 43; 88])) <> Some (RSimple [79; 75; 13; 10; 43; 88], []).
Proof. vm_compute. discriminate. Qed.
