(* The 0xFFFF-chunked loop of loadAOF equals one-shot parsing, for every way the reads cut the file.
   Needs: read_next never runs out of fuel, every Complete consumes at least one byte (progress),
   and the stability lemmas of RespProofs. *)
From Coq Require Import ZifyN ZifyNat ZifyBool.
From T38 Require Import Base.Bytes Model.Resp Model.Aof Proofs.RespProofs Proofs.AofProofs.
Local Open Scope Z_scope.

(* ---------- 64-bit wrap facts ---------- *)
Lemma wrap_add_wrap a b : wrap (a + wrap b) = wrap (a + b).
Proof.
  unfold wrap. f_equal.
  replace (a + ((b + 9223372036854775808) mod 18446744073709551616 - 9223372036854775808) + 9223372036854775808)
    with (a + (b + 9223372036854775808) mod 18446744073709551616) by lia.
  rewrite Z.add_mod_idemp_r by lia. f_equal. lia.
Qed.
Lemma wrap_nonneg_small z : 0 <= z < 13835058055282163712 -> 0 <= wrap z -> wrap z = z.
Proof. unfold wrap. intros H1 H2. Z.div_mod_to_equations. lia. Qed.

Lemma read_len_range p from s n i : read_len p from s = LOk n i -> 0 <= from <= i /\ i < len p.
Proof.
  unfold read_len. destruct (find_byte LF p from) as [k|] eqn:E; [|discriminate].
  destruct (getb p (k - 1)); [|discriminate]. destruct (negb _); [discriminate|].
  destruct (slice p s (k - 1)) as [ds|]; [|discriminate]. destruct (parse_int ds); [|discriminate].
  intros H; inversion H; subst. apply find_byte_range in E. lia.
Qed.

(* ---------- the RESP argument loop: enough fuel, and a Complete leaves a shorter rest ---------- *)
Lemma resp_args_good : forall fuel p count j i racc,
  i <= len p -> (i < 0 -> (1 <= fuel)%nat) -> (0 <= i -> len p - i < Z.of_nat fuel) ->
  match resp_args fuel p (len p) count j i racc with
  | Complete _ _ rest => len rest < len p
  | Fuel => False
  | _ => True
  end.
Proof.
  induction fuel as [|fuel IH]; intros p count j i racc Hi Hneg Hpos.
  { destruct (Z.ltb_spec i 0); [specialize (Hneg ltac:(lia)); lia|specialize (Hpos ltac:(lia)); lia]. }
  cbn [resp_args].
  destruct (Z.eqb_spec i (len p)) as [|Hne]; [exact I|].
  destruct (getb p i) as [c|] eqn:G; [|exact I].
  pose proof (getb_range _ _ _ G) as Hir. specialize (Hpos ltac:(lia)).
  destruct (negb (c =? 36)%N); [exact I|].
  destruct (read_len p i (i + 1)) as [| | |n i2] eqn:RL; try exact I.
  apply read_len_range in RL.
  destruct (count <=? 0); [exact I|].
  destruct (wrap (n + 2) <=? len p - (i2 + 1)); [|exact I].
  destruct (getb p (wrap (i2 + 1 + n))) as [a|] eqn:Ga; [|exact I].
  destruct (negb (a =? CR)%N); [exact I|].
  destruct (getb p (wrap (wrap (i2 + 1 + n) + 1))) as [b|] eqn:Gb; [|exact I].
  destruct (negb (b =? LF)%N); [exact I|].
  destruct (slice p (i2 + 1) (wrap (i2 + 1 + n))) as [arg|] eqn:Sl; [|exact I].
  apply slice_range in Sl. apply getb_range in Gb.
  set (e0 := wrap (i2 + 1 + n)) in *.
  pose proof (wrap_range (i2 + 1 + n)) as He0. fold e0 in He0.
  assert (Hg : wrap (e0 + 1) = e0 + 1) by (apply wrap_nonneg_small; lia).
  assert (Hi4 : wrap (i2 + 1 + wrap (n + 2)) = wrap (e0 + 2)).
  { rewrite wrap_add_wrap. replace (i2 + 1 + (n + 2)) with (2 + (i2 + 1 + n)) by lia.
    rewrite <- wrap_add_wrap. fold e0. f_equal. lia. }
  rewrite Hi4.
  destruct (j =? count - 1).
  - destruct (slice_from p (wrap (e0 + 2))) as [rest|] eqn:SF; [|exact I].
    apply slice_from_range in SF.
    assert (wrap (e0 + 2) = e0 + 2) by (apply wrap_nonneg_small; lia). lia.
  - destruct (Z.ltb_spec (wrap (e0 + 2)) 0) as [Hlt|Hge].
    + apply IH; try lia.
    + assert (wrap (e0 + 2) = e0 + 2) by (apply wrap_nonneg_small; lia).
      apply IH; try lia.
Qed.

Lemma read_resp_good p : match read_resp p with Complete _ _ rest => len rest < len p | Fuel => False | _ => True end.
Proof.
  unfold read_resp. destruct (read_len p 1 1) as [| | |count i] eqn:RL; try exact I.
  apply read_len_range in RL.
  destruct (count <? 0); [exact I|].
  destruct (count =? 0).
  - destruct (slice_from p (i + 1)) as [rest|] eqn:SF; [|exact I]. apply slice_from_range in SF. lia.
  - apply resp_args_good; try lia. rewrite len_spec. lia.
Qed.

(* ---------- native tokeniser: enough fuel ---------- *)
Lemma split_sp_shorter : forall l racc tok rest, split_sp l racc = (tok, Some rest) -> (length rest < length l)%nat.
Proof.
  induction l as [|c l IH]; intros racc tok rest H; cbn [split_sp] in H; [discriminate|].
  destruct (c =? 32)%N.
  - inversion H; subst. cbn [length]. lia.
  - apply IH in H. cbn [length]. lia.
Qed.
Lemma native_tok_no_fuel : forall fuel line racc, (length line < fuel)%nat -> native_tok fuel line racc <> TFuel.
Proof.
  induction fuel as [|fuel IH]; intros line racc Hf; [lia|].
  cbn [native_tok]. destruct line as [|c0 line']; [discriminate|].
  destruct (c0 =? 123)%N; [discriminate|].
  match goal with |- (if ?q then _ else _) <> _ => destruct q end.
  - destruct (slice (c0 :: line') 1 (len (c0 :: line') - 1)); discriminate.
  - destruct (split_sp (c0 :: line') []) as [tok [rest|]] eqn:Sp; [|discriminate].
    apply split_sp_shorter in Sp. apply IH. lia.
Qed.

Lemma read_native_good p : match read_native p with Complete _ _ rest => len rest < len p | Fuel => False | _ => True end.
Proof.
  unfold read_native.
  destruct (find_byte 32 p 1) as [i|] eqn:E; [|exact I]. apply find_byte_range in E.
  destruct (slice p 1 i) as [ds|]; [|exact I]. destruct (parse_int ds) as [n|]; [|exact I].
  destruct (n <? 0); [exact I|].
  destruct (wrap (wrap (i + 1 + n) + 2) <=? len p); [|exact I].
  destruct (getb p (wrap (i + 1 + n))) as [a|] eqn:Ga; [|exact I]. apply getb_range in Ga.
  destruct (negb (a =? CR)%N); [exact I|].
  destruct (getb p (wrap (wrap (i + 1 + n) + 1))); [|exact I].
  destruct (negb _); [exact I|].
  destruct (slice p (i + 1) (wrap (i + 1 + n))) as [line|]; [|exact I].
  pose proof (native_tok_no_fuel (S (length line)) line [] ltac:(lia)) as Hnf.
  destruct (native_tok (S (length line)) line []); try exact I; try congruence.
  destruct (slice_from p (wrap (wrap (i + 1 + n) + 2))) as [rest|] eqn:SF; [|exact I].
  apply slice_from_range in SF. pose proof (wrap_range (i + 1 + n)).
  assert (wrap (wrap (i + 1 + n) + 2) = wrap (i + 1 + n) + 2) by (apply wrap_nonneg_small; lia). lia.
Qed.

Lemma read_telnet_good p : match read_telnet p with Complete _ _ rest => len rest < len p | Fuel => False | _ => True end.
Proof.
  unfold read_telnet.
  destruct (find_byte LF p 0) as [i|] eqn:E; [|exact I]. apply find_byte_range in E.
  destruct (slice p 0 _) as [ln|]; [|exact I].
  destruct (tel_scan ln ln true false 0%N false [] []); [|exact I].
  destruct (slice_from p (i + 1)) as [rest|] eqn:SF; [|exact I]. apply slice_from_range in SF. lia.
Qed.

Lemma read_next_good p : match read_next p with Complete _ _ rest => len rest < len p | Fuel => False | _ => True end.
Proof.
  unfold read_next. destruct p as [|c p]; [exact I|].
  destruct (c =? 42)%N; [apply read_resp_good|]. destruct (c =? 36)%N; [apply read_native_good|apply read_telnet_good].
Qed.

(* ---------- drain: fuel, concatenation ---------- *)
Lemma len_lt_length (a b : bytes) : len a < len b -> (length a < length b)%nat.
Proof. rewrite !len_spec. lia. Qed.

Lemma drain_no_fuel : forall f d, (length d < f)%nat -> drain f d <> DFuel.
Proof.
  induction f as [|f IH]; intros d Hf; [lia|].
  rewrite drain_S. destruct d as [|[|p] d'].
  - cbn. discriminate.
  - apply IH. cbn [length] in Hf. lia.
  - pose proof (read_next_good (N.pos p :: d')) as G.
    destruct (read_next (N.pos p :: d')) as [args k rest| | | |]; try discriminate; [|contradiction].
    apply len_lt_length in G.
    pose proof (IH rest ltac:(lia)) as Hr.
    destruct (drain f rest); try discriminate; congruence.
Qed.

Lemma drain_mono : forall f d f', (f <= f')%nat -> drain f d <> DFuel -> drain f' d = drain f d.
Proof.
  induction f as [|f IH]; intros d f' Hle Hn; [cbn in Hn; congruence|].
  destruct f' as [|f']; [lia|]. rewrite !drain_S in *.
  destruct d as [|[|p] d']; [reflexivity|apply IH; [lia|assumption]|].
  destruct (read_next (N.pos p :: d')) as [args k rest| | | |]; try reflexivity.
  assert (Hrec : drain f rest <> DFuel -> drain f' rest = drain f rest) by (intros; apply IH; [lia|assumption]).
  destruct (drain f rest) eqn:D; rewrite Hrec by (try discriminate; congruence); reflexivity.
Qed.

Definition dprepend (cs : list (list bytes)) (r : drain_res) : drain_res :=
  match r with DOk cs' l => DOk (cs ++ cs') l | o => o end.
Lemma dprepend_nil r : dprepend [] r = r.
Proof. destruct r; reflexivity. Qed.

Lemma drain_app e : forall f d cs lo f2,
  drain f d = DOk cs lo -> drain f2 (lo ++ e) <> DFuel ->
  drain (f + f2) (d ++ e) = dprepend cs (drain f2 (lo ++ e)).
Proof.
  induction f as [|f IH]; intros d cs lo f2 H Hn; [cbn in H; discriminate|].
  rewrite drain_S in H. change (S f + f2)%nat with (S (f + f2)).
  destruct d as [|[|p] d'].
  - cbn in H. inversion H; subst. cbn [app] in *. rewrite dprepend_nil. apply drain_mono; [lia|assumption].
  - cbn [app]. rewrite drain_S. apply IH; assumption.
  - pose proof (read_next_ext (N.pos p :: d') e) as St.
    destruct (read_next (N.pos p :: d')) as [args k rest| | | |] eqn:R; try discriminate.
    + cbn [ext] in St. change ((N.pos p :: d') ++ e) with (N.pos p :: d' ++ e) in *.
      rewrite drain_S, St.
      destruct (drain f rest) as [cs' l'| | |] eqn:D; try discriminate.
      injection H as Hc Hl. subst cs lo.
      rewrite (IH rest cs' l' f2 D Hn).
      destruct (drain f2 (l' ++ e)); destruct args; reflexivity.
    + inversion H; subst. rewrite dprepend_nil. apply drain_mono; [lia|assumption].
Qed.

Lemma drain_err e : forall f d x, drain f d = DErr x -> drain f (d ++ e) = DErr x.
Proof.
  induction f as [|f IH]; intros d x H; [cbn in H; discriminate|].
  rewrite drain_S in H.
  destruct d as [|[|p] d'].
  - cbn in H. discriminate.
  - cbn [app]. rewrite drain_S. apply IH; assumption.
  - pose proof (read_next_ext (N.pos p :: d') e) as St.
    change ((N.pos p :: d') ++ e) with (N.pos p :: d' ++ e) in *. rewrite drain_S.
    destruct (read_next (N.pos p :: d')) as [args k rest| |x0| |] eqn:R; try discriminate.
    + cbn [ext] in St. rewrite St.
      destruct (drain f rest) as [cs' l'| | |] eqn:D; try discriminate.
      rewrite (IH rest x); [reflexivity|]. congruence.
    + cbn [ext] in St. rewrite St. congruence.
Qed.

(* ---------- the chunked loader ---------- *)
Lemma load_chunks_gen : forall chunks pre buf cmds,
  drain_all pre = DOk cmds buf ->
  (forall k, drain_all (firstn k (pre ++ concat chunks)) <> DPanic) ->
  load_chunks chunks buf (len pre) cmds = load_whole (pre ++ concat chunks).
Proof.
  induction chunks as [|c rest IH]; intros pre buf cmds Hpre Hnp.
  - cbn [concat load_chunks]. rewrite app_nil_r. unfold load_whole. rewrite Hpre. reflexivity.
  - cbn [concat load_chunks].
    pose proof (drain_no_fuel (S (length (buf ++ c))) (buf ++ c) ltac:(lia)) as Hnf.
    unfold drain_all in *.
    pose proof (drain_app c (S (length pre)) pre cmds buf (S (length (buf ++ c))) Hpre Hnf) as Happ.
    assert (Hall : drain (S (length (pre ++ c))) (pre ++ c) = dprepend cmds (drain (S (length (buf ++ c))) (buf ++ c))).
    { rewrite <- Happ. symmetry. apply drain_mono.
      - rewrite !app_length. lia.
      - apply drain_no_fuel. lia. }
    destruct (drain (S (length (buf ++ c))) (buf ++ c)) as [cs lo|x| |] eqn:D; cbn [dprepend] in Hall.
    + rewrite <- len_app. rewrite app_assoc. apply IH.
      * exact Hall.
      * intros k. rewrite <- app_assoc. apply Hnp.
    + (* error: the same error in the whole file *)
      unfold load_whole, drain_all.
      pose proof (drain_err (concat rest) _ _ _ Hall) as He. rewrite <- app_assoc in He.
      rewrite (drain_mono (S (length (pre ++ c))) (pre ++ c ++ concat rest) (S (length (pre ++ c ++ concat rest)))).
      * rewrite He. reflexivity.
      * rewrite !app_length. lia.
      * rewrite He. discriminate.
    + exfalso. apply (Hnp (length (pre ++ c))). cbn [concat].
      rewrite app_assoc. rewrite firstn_app. rewrite Nat.sub_diag. rewrite firstn_O, app_nil_r.
      rewrite firstn_all. exact Hall.
    + congruence.
Qed.

Theorem load_chunks_eq_whole chunks :
  (forall k, drain_all (firstn k (concat chunks)) <> DPanic) ->
  load_chunks chunks [] 0 [] = load_whole (concat chunks).
Proof. intros H. exact (load_chunks_gen chunks [] [] [] eq_refl H). Qed.

Lemma split_chunks_concat csz : (0 < csz)%nat -> forall fuel file, (length file <= fuel)%nat ->
  concat (split_chunks fuel csz file) = file.
Proof.
  intros Hc. induction fuel as [|f IH]; intros file Hf.
  - destruct file; [reflexivity|cbn [length] in Hf; lia].
  - cbn [split_chunks]. destruct file as [|x file]; [reflexivity|].
    cbn [concat]. rewrite IH.
    + apply firstn_skipn.
    + rewrite skipn_length. cbn [length] in *. lia.
Qed.

(* loadAOF's loop with any read size, in particular 0xFFFF, computes what one-shot parsing computes *)
Theorem load_aof_sz_eq_whole csz file : (0 < csz)%nat ->
  (forall k, drain_all (firstn k file) <> DPanic) ->
  load_aof_sz csz file = load_whole file.
Proof.
  intros Hc Hnp. unfold load_aof_sz.
  pose proof (split_chunks_concat csz Hc (length file) file (le_n _)) as E.
  rewrite (load_chunks_eq_whole (split_chunks (length file) csz file)); rewrite E; [reflexivity|exact Hnp].
Qed.

(* on logs of encoded commands no prefix makes the parser panic: the chunked loader, for every chunking,
   yields exactly the commands wholly inside the cut *)
Theorem load_chunks_cut cmds q s chunks :
  Forall cmd_ok cmds -> q ++ s = encs cmds -> concat chunks = q ->
  load_chunks chunks [] 0 [] =
  Loaded (firstn (inside cmds (len q)) cmds) (len (encs (firstn (inside cmds (len q)) cmds))).
Proof.
  intros Hok E Hq. rewrite <- (load_whole_cut cmds q s Hok E). rewrite <- Hq.
  apply load_chunks_eq_whole. rewrite Hq. intros k.
  assert (Ek : firstn k q ++ (skipn k q ++ s) = encs cmds) by (rewrite app_assoc, firstn_skipn; exact E).
  destruct (drain_cut cmds (firstn k q) (skipn k q ++ s) (S (length (firstn k q))) Hok Ek ltac:(lia)) as [lo [D _]].
  unfold drain_all. rewrite D. discriminate.
Qed.

Theorem load_aof_cut cmds q s :
  Forall cmd_ok cmds -> q ++ s = encs cmds ->
  load_aof q = Loaded (firstn (inside cmds (len q)) cmds) (len (encs (firstn (inside cmds (len q)) cmds))).
Proof.
  intros Hok E. unfold load_aof, load_aof_sz. apply (load_chunks_cut cmds q s); try assumption.
  apply split_chunks_concat; [|lia]. unfold chunk_size. lia.
Qed.
