(* The 0xFFFF-chunked loop of loadAOF equals one-shot parsing, for every way the reads cut the file.
   Needs: read_next never runs out of fuel, every Complete consumes at least one byte (progress),
   and the stability lemmas of RespProofs. *)
From Coq Require Import ZifyN ZifyNat ZifyBool.
From T38 Require Import Base.Bytes Model.Resp Model.Aof Proofs.RespProofs Proofs.AofProofs.
Local Open Scope Z_scope.

(* ---------- 64-bit wrap facts ---------- *)
Lemma wrap_add_wrap a b : wrap (a + wrap b) = wrap (a + b).
Proof.
  unfold wrap. f_equal.
  replace (a + ((b + 9223372036854775808) mod 18446744073709551616 - 9223372036854775808) + 9223372036854775808)
    with (a + (b + 9223372036854775808) mod 18446744073709551616) by lia.
  rewrite Z.add_mod_idemp_r by lia. f_equal. lia.
Qed.
Lemma wrap_nonneg_small z : 0 <= z < 13835058055282163712 -> 0 <= wrap z -> wrap z = z.
Proof. unfold wrap. intros H1 H2. Z.div_mod_to_equations. lia. Qed.

Lemma read_len_range p from s n i : read_len p from s = LOk n i -> 0 <= from <= i /\ i < len p.
Proof.
  unfold read_len. destruct (find_byte LF p from) as [k|] eqn:E; [|discriminate].
  destruct (getb p (k - 1)); [|discriminate]. destruct (negb _); [discriminate|].
  destruct (slice p s (k - 1)) as [ds|]; [|discriminate]. destruct (parse_int ds); [|discriminate].
  intros H; inversion H; subst. apply find_byte_range in E. lia.
Qed.

(* ---------- the RESP argument loop: enough fuel, and a Complete leaves a shorter rest ---------- *)
Lemma resp_args_good : forall fuel p count j i racc,
  i <= len p -> (i < 0 -> (1 <= fuel)%nat) -> (0 <= i -> len p - i < Z.of_nat fuel) ->
  match resp_args fuel p (len p) count j i racc with
  | Complete _ _ rest => len rest < len p
  | Fuel => False
  | _ => True
  end.
Proof.
  induction fuel as [|fuel IH]; intros p count j i racc Hi Hneg Hpos.
  { destruct (Z.ltb_spec i 0); [specialize (Hneg ltac:(lia)); lia|specialize (Hpos ltac:(lia)); lia]. }
  cbn [resp_args].
  destruct (Z.eqb_spec i (len p)) as [|Hne]; [exact I|].
  destruct (getb p i) as [c|] eqn:G; [|exact I].
  pose proof (getb_range _ _ _ G) as Hir. specialize (Hpos ltac:(lia)).
  destruct (negb (c =? 36)%N); [exact I|].
  destruct (read_len p i (i + 1)) as [| | |n i2] eqn:RL; try exact I.
  apply read_len_range in RL.
  destruct (count <=? 0); [exact I|].
  destruct (wrap (n + 2) <=? len p - (i2 + 1)); [|exact I].
  destruct (getb p (wrap (i2 + 1 + n))) as [a|] eqn:Ga; [|exact I].
  destruct (negb (a =? CR)%N); [exact I|].
  destruct (getb p (wrap (wrap (i2 + 1 + n) + 1))) as [b|] eqn:Gb; [|exact I].
  destruct (negb (b =? LF)%N); [exact I|].
  destruct (slice p (i2 + 1) (wrap (i2 + 1 + n))) as [arg|] eqn:Sl; [|exact I].
  apply slice_range in Sl. apply getb_range in Gb.
  set (e0 := wrap (i2 + 1 + n)) in *.
  pose proof (wrap_range (i2 + 1 + n)) as He0. fold e0 in He0.
  assert (Hg : wrap (e0 + 1) = e0 + 1) by (apply wrap_nonneg_small; lia).
  assert (Hi4 : wrap (i2 + 1 + wrap (n + 2)) = wrap (e0 + 2)).
  { rewrite wrap_add_wrap. replace (i2 + 1 + (n + 2)) with (2 + (i2 + 1 + n)) by lia.
    rewrite <- wrap_add_wrap. fold e0. f_equal. lia. }
  rewrite Hi4.
  destruct (j =? count - 1).
  - destruct (slice_from p (wrap (e0 + 2))) as [rest|] eqn:SF; [|exact I].
    apply slice_from_range in SF.
    assert (wrap (e0 + 2) = e0 + 2) by (apply wrap_nonneg_small; lia). lia.
  - destruct (Z.ltb_spec (wrap (e0 + 2)) 0) as [Hlt|Hge].
    + apply IH; try lia.
    + assert (wrap (e0 + 2) = e0 + 2) by (apply wrap_nonneg_small; lia).
      apply IH; try lia.
Qed.

Lemma read_resp_good p : match read_resp p with Complete _ _ rest => len rest < len p | Fuel => False | _ => True end.
Proof.
  unfold read_resp. destruct (read_len p 1 1) as [| | |count i] eqn:RL; try exact I.
  apply read_len_range in RL.
  destruct (count <? 0); [exact I|].
  destruct (count =? 0).
  - destruct (slice_from p (i + 1)) as [rest|] eqn:SF; [|exact I]. apply slice_from_range in SF. lia.
  - apply resp_args_good; try lia. rewrite len_spec. lia.
Qed.

(* ---------- native tokeniser: enough fuel ---------- *)
Lemma split_sp_shorter : forall l racc tok rest, split_sp l racc = (tok, Some rest) -> (length rest < length l)%nat.
Proof.
  induction l as [|c l IH]; intros racc tok rest H; cbn [split_sp] in H; [discriminate|].
  destruct (c =? 32)%N.
  - inversion H; subst. cbn [length]. lia.
  - apply IH in H. cbn [length]. lia.
Qed.
Lemma native_tok_no_fuel : forall fuel line racc, (length line < fuel)%nat -> native_tok fuel line racc <> TFuel.
Proof.
  induction fuel as [|fuel IH]; intros line racc Hf; [lia|].
  cbn [native_tok]. destruct line as [|c0 line']; [discriminate|].
  destruct (c0 =? 123)%N; [discriminate|].
  match goal with |- (if ?q then _ else _) <> _ => destruct q end.
  - destruct (slice (c0 :: line') 1 (len (c0 :: line') - 1)); discriminate.
  - destruct (split_sp (c0 :: line') []) as [tok [rest|]] eqn:Sp; [|discriminate].
    apply split_sp_shorter in Sp. apply IH. lia.
Qed.

Lemma read_native_good p : match read_native p with Complete _ _ rest => len rest < len p | Fuel => False | _ => True end.
Proof.
  unfold read_native.
  destruct (find_byte 32 p 1) as [i|] eqn:E; [|exact I]. apply find_byte_range in E.
  destruct (slice p 1 i) as [ds|]; [|exact I]. destruct (parse_int ds) as [n|]; [|exact I].
  destruct (n <? 0); [exact I|].
  destruct (wrap (wrap (i + 1 + n) + 2) <=? len p); [|exact I].
  destruct (getb p (wrap (i + 1 + n))) as [a|] eqn:Ga; [|exact I]. apply getb_range in Ga.
  destruct (negb (a =? CR)%N); [exact I|].
  destruct (getb p (wrap (wrap (i + 1 + n) + 1))); [|exact I].
  destruct (negb _); [exact I|].
  destruct (slice p (i + 1) (wrap (i + 1 + n))) as [line|]; [|exact I].
  pose proof (native_tok_no_fuel (S (length line)) line [] ltac:(lia)) as Hnf.
  destruct (native_tok (S (length line)) line []); try exact I; try congruence.
  destruct (slice_from p (wrap (wrap (i + 1 + n) + 2))) as [rest|] eqn:SF; [|exact I].
  apply slice_from_range in SF. pose proof (wrap_range (i + 1 + n)).
  assert (wrap (wrap (i + 1 + n) + 2) = wrap (i + 1 + n) + 2) by (apply wrap_nonneg_small; lia). lia.
Qed.

Lemma read_telnet_good p : match read_telnet p with Complete _ _ rest => len rest < len p | Fuel => False | _ => True end.
Proof.
  unfold read_telnet.
  destruct (find_byte LF p 0) as [i|] eqn:E; [|exact I]. apply find_byte_range in E.
  destruct (slice p 0 _) as [ln|]; [|exact I].
  destruct (tel_scan ln ln true false 0%N false [] []); [|exact I].
  destruct (slice_from p (i + 1)) as [rest|] eqn:SF; [|exact I]. apply slice_from_range in SF. lia.
Qed.

Lemma read_next_good p : match read_next p with Complete _ _ rest => len rest < len p | Fuel => False | _ => True end.
Proof.
  unfold read_next. destruct p as [|c p]; [exact I|].
  destruct (c =? 42)%N; [apply read_resp_good|]. destruct (c =? 36)%N; [apply read_native_good|apply read_telnet_good].
Qed.

(* ---------- drain: fuel, concatenation ---------- *)
Lemma len_lt_length (a b : bytes) : len a < len b -> (length a < length b)%nat.
Proof. rewrite !len_spec. lia. Qed.

Lemma drain_no_fuel : forall f d, (length d < f)%nat -> drain f d <> DFuel.
Proof.
  induction f as [|f IH]; intros d Hf; [lia|].
  rewrite drain_S. destruct d as [|[|p] d'].
  - cbn. discriminate.
  - apply IH. cbn [length] in Hf. lia.
  - pose proof (read_next_good (N.pos p :: d')) as G.
    destruct (read_next (N.pos p :: d')) as [args k rest| | | |]; try discriminate; [|contradiction].
    apply len_lt_length in G.
    pose proof (IH rest ltac:(lia)) as Hr.
    destruct (drain f rest); try discriminate; congruence.
Qed.

Lemma drain_mono : forall f d f', (f <= f')%nat -> drain f d <> DFuel -> drain f' d = drain f d.
Proof.
  induction f as [|f IH]; intros d f' Hle Hn; [cbn in Hn; congruence|].
  destruct f' as [|f']; [lia|]. rewrite !drain_S in *.
  destruct d as [|[|p] d']; [reflexivity|apply IH; [lia|assumption]|].
  destruct (read_next (N.pos p :: d')) as [args k rest| | | |]; try reflexivity.
  assert (Hrec : drain f rest <> DFuel -> drain f' rest = drain f rest) by (intros; apply IH; [lia|assumption]).
  destruct (drain f rest) eqn:D; rewrite Hrec by (try discriminate; congruence); reflexivity.
Qed.

Definition dprepend (cs : list (list bytes)) (r : drain_res) : drain_res :=
  match r with DOk cs' l => DOk (cs ++ cs') l | o => o end.
Lemma dprepend_nil r : dprepend [] r = r.
Proof. destruct r; reflexivity. Qed.

Lemma drain_app e : forall f d cs lo f2,
  drain f d = DOk cs lo -> drain f2 (lo ++ e) <> DFuel ->
  drain (f + f2) (d ++ e) = dprepend cs (drain f2 (lo ++ e)).
Proof.
  induction f as [|f IH]; intros d cs lo f2 H Hn; [cbn in H; discriminate|].
  rewrite drain_S in H. change (S f + f2)%nat with (S (f + f2)).
  destruct d as [|[|p] d'].
  - cbn in H. inversion H; subst. cbn [app] in *. rewrite dprepend_nil. apply drain_mono; [lia|assumption].
  - cbn [app]. rewrite drain_S. apply IH; assumption.
  - pose proof (read_next_ext (N.pos p :: d') e) as St.
    destruct (read_next (N.pos p :: d')) as [args k rest| | | |] eqn:R; try discriminate.
    + cbn [ext] in St. change ((N.pos p :: d') ++ e) with (N.pos p :: d' ++ e) in *.
      rewrite drain_S, St.
      destruct (drain f rest) as [cs' l'| | |] eqn:D; try discriminate.
      injection H as Hc Hl. subst cs lo.
      rewrite (IH rest cs' l' f2 D Hn).
      destruct (drain f2 (l' ++ e)); destruct args; reflexivity.
    + inversion H; subst. rewrite dprepend_nil. apply drain_mono; [lia|assumption].
Qed.

Lemma drain_err e : forall f d x, drain f d = DErr x -> drain f (d ++ e) = DErr x.
Proof.
  induction f as [|f IH]; intros d x H; [cbn in H; discriminate|].
  rewrite drain_S in H.
  destruct d as [|[|p] d'].
  - cbn in H. discriminate.
  - cbn [app]. rewrite drain_S. apply IH; assumption.
  - pose proof (read_next_ext (N.pos p :: d') e) as St.
    change ((N.pos p :: d') ++ e) with (N.pos p :: d' ++ e) in *. rewrite drain_S.
    destruct (read_next (N.pos p :: d')) as [args k rest| |x0| |] eqn:R; try discriminate.
    + cbn [ext] in St. rewrite St.
      destruct (drain f rest) as [cs' l'| | |] eqn:D; try discriminate.
      rewrite (IH rest x); [reflexivity|]. congruence.
    + cbn [ext] in St. rewrite St. congruence.
Qed.

(* ---------- the chunked loader ---------- *)
Lemma load_chunks_gen : forall chunks pre buf cmds,
  drain_all pre = DOk cmds buf ->
  (forall k, drain_all (firstn k (pre ++ concat chunks)) <> DPanic) ->
  load_chunks chunks buf (len pre) cmds = load_whole (pre ++ concat chunks).
Proof.
  induction chunks as [|c rest IH]; intros pre buf cmds Hpre Hnp.
  - cbn [concat load_chunks]. rewrite app_nil_r. unfold load_whole. rewrite Hpre. reflexivity.
  - cbn [concat load_chunks].
    pose proof (drain_no_fuel (S (length (buf ++ c))) (buf ++ c) ltac:(lia)) as Hnf.
    unfold drain_all in *.
    pose proof (drain_app c (S (length pre)) pre cmds buf (S (length (buf ++ c))) Hpre Hnf) as Happ.
    assert (Hall : drain (S (length (pre ++ c))) (pre ++ c) = dprepend cmds (drain (S (length (buf ++ c))) (buf ++ c))).
    { rewrite <- Happ. symmetry. apply drain_mono.
      - rewrite !app_length. lia.
      - apply drain_no_fuel. lia. }
    destruct (drain (S (length (buf ++ c))) (buf ++ c)) as [cs lo|x| |] eqn:D; cbn [dprepend] in Hall.
    + rewrite <- len_app. rewrite app_assoc. apply IH.
      * exact Hall.
      * intros k. rewrite <- app_assoc. apply Hnp.
    + (* error: the same error in the whole file *)
      unfold load_whole, drain_all.
      pose proof (drain_err (concat rest) _ _ _ Hall) as He. rewrite <- app_assoc in He.
      rewrite (drain_mono (S (length (pre ++ c))) (pre ++ c ++ concat rest) (S (length (pre ++ c ++ concat rest)))).
      * rewrite He. reflexivity.
      * rewrite !app_length. lia.
      * rewrite He. discriminate.
    + exfalso. apply (Hnp (length (pre ++ c))). cbn [concat].
      rewrite app_assoc. rewrite firstn_app. rewrite Nat.sub_diag. rewrite firstn_O, app_nil_r.
      rewrite firstn_all. exact Hall.
    + congruence.
Qed.

Theorem load_chunks_eq_whole chunks :
  (forall k, drain_all (firstn k (concat chunks)) <> DPanic) ->
  load_chunks chunks [] 0 [] = load_whole (concat chunks).
Proof. intros H. exact (load_chunks_gen chunks [] [] [] eq_refl H). Qed.

Lemma split_chunks_concat csz : (0 < csz)%nat -> forall fuel file, (length file <= fuel)%nat ->
  concat (split_chunks fuel csz file) = file.
Proof.
  intros Hc. induction fuel as [|f IH]; intros file Hf.
  - destruct file; [reflexivity|cbn [length] in Hf; lia].
  - cbn [split_chunks]. destruct file as [|x file]; [reflexivity|].
    cbn [concat]. rewrite IH.
    + apply firstn_skipn.
    + rewrite skipn_length. cbn [length] in *. lia.
Qed.

(* loadAOF's loop with any read size, in particular 0xFFFF, computes what one-shot parsing computes *)
Theorem load_aof_sz_eq_whole csz file : (0 < csz)%nat ->
  (forall k, drain_all (firstn k file) <> DPanic) ->
  load_aof_sz csz file = load_whole file.
Proof.
  intros Hc Hnp. unfold load_aof_sz.
  pose proof (split_chunks_concat csz Hc (length file) file (le_n _)) as E.
  rewrite (load_chunks_eq_whole (split_chunks (length file) csz file)); rewrite E; [reflexivity|exact Hnp].
Qed.

(* on logs of encoded commands no prefix makes the parser panic: the chunked loader, for every chunking,
   yields exactly the commands wholly inside the cut *)
Theorem load_chunks_cut cmds q s chunks :
  Forall cmd_ok cmds -> q ++ s = encs cmds -> concat chunks = q ->
  load_chunks chunks [] 0 [] =
  Loaded (firstn (inside cmds (len q)) cmds) (len (encs (firstn (inside cmds (len q)) cmds))).
Proof.
  intros Hok E Hq. rewrite <- (load_whole_cut cmds q s Hok E). rewrite <- Hq.
  apply load_chunks_eq_whole. rewrite Hq. intros k.
  assert (Ek : firstn k q ++ (skipn k q ++ s) = encs cmds) by (rewrite app_assoc, firstn_skipn; exact E).
  destruct (drain_cut cmds (firstn k q) (skipn k q ++ s) (S (length (firstn k q))) Hok Ek ltac:(lia)) as [lo [D _]].
  unfold drain_all. rewrite D. discriminate.
Qed.

Theorem load_aof_cut cmds q s :
  Forall cmd_ok cmds -> q ++ s = encs cmds ->
  load_aof q = Loaded (firstn (inside cmds (len q)) cmds) (len (encs (firstn (inside cmds (len q)) cmds))).
Proof.
  intros Hok E. unfold load_aof, load_aof_sz. apply (load_chunks_cut cmds q s); try assumption.
  apply split_chunks_concat; [|lia]. unfold chunk_size. lia.
Qed.

(* ---------- tear + padding together: any byte prefix of a log with zero runs at command boundaries ---------- *)
Lemma prefix_of_repeat (a : N) : forall n (q s : bytes), q ++ s = repeat a n -> q = repeat a (length q).
Proof.
  induction n as [|n IH]; intros q s E; cbn [repeat] in E.
  - apply app_eq_nil in E. destruct E as [-> _]. reflexivity.
  - destruct q as [|x q]; [reflexivity|]. cbn [app] in E. inversion E; subst. cbn [length repeat]. f_equal. eapply IH; eauto.
Qed.

Lemma drain_only_zeros k fuel : (k < fuel)%nat -> drain fuel (repeat 0%N k) = DOk [] [].
Proof.
  intros H. replace fuel with (k + (fuel - k))%nat by lia.
  rewrite <- (app_nil_r (repeat 0%N k)). rewrite drain_zeros.
  destruct (fuel - k)%nat eqn:G; [lia|]. reflexivity.
Qed.

Lemma drain_cut_padded : forall l ztail q s fuel,
  Forall (fun zc => cmd_ok (snd zc)) l -> q ++ s = padded l ++ repeat 0%N ztail -> (length q < fuel)%nat ->
  exists n z' lo,
    q = padded (firstn n l) ++ repeat 0%N z' ++ lo /\
    drain fuel q = DOk (map snd (firstn n l)) lo.
Proof.
  induction l as [|[z c] l IH]; intros ztail q s fuel Hok E Hf.
  - cbn [padded app] in E. apply prefix_of_repeat in E.
    exists O, (length q), []. cbn [firstn padded map app]. rewrite app_nil_r. split; [exact E|].
    set (k := length q) in *. rewrite E. apply drain_only_zeros. exact Hf.
  - inversion Hok as [|? ? [Hne Hbig] Hok']; subst. cbn [snd] in *.
    cbn [padded] in E. rewrite <- !app_assoc in E.
    assert (Hhead : exists t, enc c = 42%N :: t) by (unfold enc; eauto). destruct Hhead as [t Ht].
    apply app_eq_app in E. destruct E as [l1 [[Eq Es]|[Eq Es]]].
    + (* the zero run is inside q *)
      subst q. rewrite app_length, repeat_length in Hf.
      assert (Hcomplete : forall l2, l1 = enc c ++ l2 -> l2 ++ s = padded l ++ repeat 0%N ztail ->
        exists n z' lo, repeat 0%N z ++ l1 = padded (firstn n ((z, c) :: l)) ++ repeat 0%N z' ++ lo /\
                        drain fuel (repeat 0%N z ++ l1) = DOk (map snd (firstn n ((z, c) :: l))) lo).
      { intros l2 -> Es2. rewrite app_length in Hf.
        assert (1 <= length (enc c))%nat by (rewrite Ht; cbn [length]; lia).
        destruct (IH ztail l2 s (fuel - z - 1)%nat Hok' Es2 ltac:(lia)) as [n [z' [lo [Q D]]]].
        exists (S n), z', lo. cbn [firstn padded map snd]. split.
        - rewrite Q. rewrite <- !app_assoc. reflexivity.
        - replace fuel with (z + S (fuel - z - 1))%nat by lia. rewrite drain_zeros.
          rewrite Ht. cbn [app]. rewrite drain_star. change (42%N :: t ++ l2) with ((42%N :: t) ++ l2). rewrite <- Ht.
          rewrite read_next_enc by assumption. rewrite D. destruct c; [congruence|reflexivity]. }
      symmetry in Es. apply app_eq_app in Es. destruct Es as [l2 [[Eq2 Es2]|[Eq2 Es2]]].
      * apply (Hcomplete l2); congruence.
      * (* enc c = l1 ++ l2 : q ends inside (or exactly at the end of) the command *)
        destruct l2 as [|x l2].
        -- rewrite app_nil_r in Eq2. cbn [app] in Es2. apply (Hcomplete []); [rewrite app_nil_r; congruence|cbn [app]; congruence].
        -- exists O, z, l1. cbn [firstn padded map app]. split; [reflexivity|].
           replace fuel with (z + (fuel - z))%nat by lia. rewrite drain_zeros.
           destruct (fuel - z)%nat as [|g] eqn:G; [lia|].
           destruct l1 as [|y l1]; [reflexivity|].
           rewrite Ht in Eq2. cbn [app] in Eq2. inversion Eq2; subst y.
           rewrite drain_star.
           rewrite (read_next_enc_cut c (42%N :: l1) (x :: l2) Hne Hbig); [reflexivity| |discriminate].
           rewrite Ht. cbn [app]. congruence.
    + (* q ends inside the zero run *)
      symmetry in Eq. apply prefix_of_repeat in Eq.
      exists O, (length q), []. cbn [firstn padded map app]. rewrite app_nil_r. split; [exact Eq|].
      set (k := length q) in *. rewrite Eq. apply drain_only_zeros. exact Hf.
Qed.

Theorem load_whole_cut_padded l ztail q s :
  Forall (fun zc => cmd_ok (snd zc)) l -> q ++ s = padded l ++ repeat 0%N ztail ->
  exists n z' lo,
    q = padded (firstn n l) ++ repeat 0%N z' ++ lo /\
    load_whole q = Loaded (map snd (firstn n l)) (len (padded (firstn n l)) + Z.of_nat z').
Proof.
  intros Hok E. destruct (drain_cut_padded l ztail q s (S (length q)) Hok E ltac:(lia)) as [n [z' [lo [Q D]]]].
  exists n, z', lo. split; [exact Q|]. unfold load_whole, drain_all. rewrite D. f_equal.
  rewrite Q at 1. rewrite !len_app. rewrite (len_spec (repeat 0%N z')), repeat_length. lia.
Qed.

Lemma padded_prefix_no_panic l ztail q s : Forall (fun zc => cmd_ok (snd zc)) l ->
  q ++ s = padded l ++ repeat 0%N ztail -> forall k, drain_all (firstn k q) <> DPanic.
Proof.
  intros Hok E k.
  assert (Ek : firstn k q ++ (skipn k q ++ s) = padded l ++ repeat 0%N ztail) by (rewrite app_assoc, firstn_skipn; exact E).
  destruct (drain_cut_padded l ztail (firstn k q) (skipn k q ++ s) (S (length (firstn k q))) Hok Ek ltac:(lia)) as [n [z' [lo [_ D]]]].
  unfold drain_all. rewrite D. discriminate.
Qed.

Lemma chunk_size_pos : (0 < chunk_size)%nat.
Proof. unfold chunk_size. lia. Qed.

(* the same for loadAOF's own 0xFFFF-chunked loop *)
Theorem load_aof_cut_padded l ztail q s :
  Forall (fun zc => cmd_ok (snd zc)) l -> q ++ s = padded l ++ repeat 0%N ztail ->
  exists n z' lo,
    q = padded (firstn n l) ++ repeat 0%N z' ++ lo /\
    load_aof q = Loaded (map snd (firstn n l)) (len (padded (firstn n l)) + Z.of_nat z').
Proof.
  intros Hok E. destruct (load_whole_cut_padded l ztail q s Hok E) as [n [z' [lo [Q L]]]].
  exists n, z', lo. split; [exact Q|]. rewrite <- L.
  apply load_aof_sz_eq_whole; [apply chunk_size_pos|]. apply (padded_prefix_no_panic l ztail q s); assumption.
Qed.

Theorem load_aof_padded l ztail : Forall (fun zc => cmd_ok (snd zc)) l ->
  load_aof (padded l ++ repeat 0%N ztail) = Loaded (map snd l) (len (padded l ++ repeat 0%N ztail)).
Proof.
  intros Hok. rewrite <- (load_whole_padded l ztail Hok).
  apply load_aof_sz_eq_whole; [apply chunk_size_pos|].
  apply (padded_prefix_no_panic l ztail _ []); [assumption|apply app_nil_r].
Qed.

Theorem load_aof_after_append cmds q s more :
  Forall cmd_ok cmds -> Forall cmd_ok more -> q ++ s = encs cmds ->
  let kept := firstn (inside cmds (len q)) cmds in
  load_aof q = Loaded kept (len (encs kept)) /\
  load_aof (encs kept ++ encs more) = Loaded (kept ++ more) (len (encs kept ++ encs more)).
Proof.
  intros Hok Hmore E kept.
  destruct (load_after_append cmds q s more Hok Hmore E) as [_ L2]. fold kept in L2.
  split; [apply (load_aof_cut cmds q s); assumption|].
  rewrite <- L2. apply load_aof_sz_eq_whole; [apply chunk_size_pos|].
  rewrite <- encs_app. intros k.
  assert (Hk : Forall cmd_ok (kept ++ more)).
  { apply Forall_app; split; [|assumption]. unfold kept. clear - Hok.
    generalize (inside cmds (len q)) as n. intros n. revert n.
    induction Hok as [|c cs Hc Hcs IH]; intros [|n]; cbn [firstn]; constructor; auto. }
  assert (Ek : firstn k (encs (kept ++ more)) ++ skipn k (encs (kept ++ more)) = encs (kept ++ more)) by apply firstn_skipn.
  destruct (drain_cut (kept ++ more) _ _ (S (length (firstn k (encs (kept ++ more))))) Hk Ek ltac:(lia)) as [lo [D _]].
  unfold drain_all. rewrite D. discriminate.
Qed.

(* A torn command FOLLOWED by zero padding (what a crash during an append leaves on a file system
   that zero-extends) is not recovered: once enough NULs stand where the rest of the bulk and its
   CRLF should be, the parser reports "invalid bulk length" and loadAOF returns the error.
   Witness: SET k "hello world" torn after "hello", then 64 NULs. *)
Lemma torn_then_padded_fails :
  let c1 := [[83; 69; 84]; [107]; [118]]%N in
  let c2 := [[83; 69; 84]; [107]; [104; 101; 108; 108; 111; 32; 119; 111; 114; 108; 100]]%N in
  let q := firstn 53 (encs [c1; c2]) in
  cmd_ok c1 /\ cmd_ok c2 /\ (length q < length (encs [c1; c2]))%nat /\
  load_whole q = Loaded [c1] 27 /\
  load_aof (q ++ repeat 0%N 64) = LoadErr EBulk /\
  load_aof (q ++ repeat 0%N 5) = Loaded [c1] 27.
Proof. vm_compute. repeat split; congruence || lia. Qed.
