(* Model/HookReg.v — the hook registries of /repo/internal/server (hooks.go cmdSetHook,
   cmdDELHOOKop, cmdPDelHook, backgroundExpireHooks; crud.go cmdFLUSHDB) and candidate selection
   (aof.go getQueueCandidates).  No proofs here (Proofs/FenceRegProofs.v).

   Containers: Server.hooks / hooksOut are B-trees keyed by hook name, hookExpires a B-tree keyed
   by (expiry, name), hookTree / hookCross R-trees of (fence rectangle, *Hook).  They are modelled
   as plain lists; removal is by name (at most one hook of a name exists at a time, which is the
   first clause of the registry invariant).  Coordinates are integers ordering like the float64s. *)
From Coq Require Import List Bool ZArith.
From T38 Require Import Base.Bytes Model.Fence.
Import ListNotations.
Local Open Scope Z_scope.

Record rect := { minx : Z; miny : Z; maxx : Z; maxy : Z }.

(* rtree Search: closed-interval intersection *)
Definition overlaps (a b : rect) : bool :=
  (minx a <=? maxx b) && (minx b <=? maxx a) && (miny a <=? maxy b) && (miny b <=? maxy a).
(* math.Min / math.Max of the two object rectangles *)
Definition hull (a b : rect) : rect :=
  {| minx := Z.min (minx a) (minx b); miny := Z.min (miny a) (miny b);
     maxx := Z.max (maxx a) (maxx b); maxy := Z.max (maxy a) (maxy b) |}.

Record hook := {
  h_name : bytes;
  h_chan : bool;              (* SETCHAN vs SETHOOK *)
  h_key : bytes;
  h_detect : dset;            (* Fence.detect *)
  h_area : option rect;       (* Fence.obj.Rect(); None for a roaming fence (Fence.obj == nil) *)
  h_expires : bool            (* !expires.IsZero() *)
}.

Record reg := {
  hooks : list hook;
  hooksOut : list hook;
  hookTree : list hook;
  hookCross : list hook;
  hookExpires : list hook
}.

Definition reg_empty : reg := {| hooks := []; hooksOut := []; hookTree := []; hookCross := []; hookExpires := [] |}.

Definition named (n : bytes) (h : hook) : bool := bytes_eqb (h_name h) n.
Definition del_name (n : bytes) (l : list hook) : list hook := filter (fun h => negb (named n h)) l.
Definition set_name (h : hook) (l : list hook) : list hook := h :: del_name (h_name h) l.   (* btree Set *)
Definition get_name (n : bytes) (l : list hook) : option hook := find (named n) l.
Definition has_area (h : hook) : bool := match h_area h with Some _ => true | None => false end.

(* cmdSetHook after parsing.  equal_prev = prevHook.Equals(hook) *)
Definition reg_sethook (r : reg) (h : hook) (equal_prev : bool) : reg :=
  let prev := get_name (h_name h) (hooks r) in
  let stop :=
    match prev with
    | Some p => if negb (Bool.eqb (h_chan p) (h_chan h)) then true   (* "hooks and channels cannot share the same name" *)
                else equal_prev                                      (* nothing to do *)
    | None => false
    end in
  if stop then r else
  (* prevHook != nil: s.hooks.Delete, s.hooksOut.Delete, s.hookExpires.Delete *)
  let hooks1 := match prev with Some p => del_name (h_name p) (hooks r) | None => hooks r end in
  let out1 := match prev with Some p => del_name (h_name p) (hooksOut r) | None => hooksOut r end in
  let exp1 := match prev with
              | Some p => if h_expires p then del_name (h_name p) (hookExpires r) else hookExpires r
              | None => hookExpires r end in
  let hooks2 := set_name h hooks1 in
  let out2 := if detects (h_detect h) DOutside then set_name h out1 else out1 in
  (* remove previous hook from spatial index *)
  let tree1 := match prev with
               | Some p => if has_area p then del_name (h_name p) (hookTree r) else hookTree r
               | None => hookTree r end in
  let cross1 := match prev with
                | Some p => if has_area p && dmap (h_detect p) DCross then del_name (h_name p) (hookCross r) else hookCross r
                | None => hookCross r end in
  (* add hook to spatial index *)
  let tree2 := if has_area h then h :: tree1 else tree1 in
  let cross2 := if has_area h && dmap (h_detect h) DCross then h :: cross1 else cross1 in
  let exp2 := if h_expires h then set_name h exp1 else exp1 in
  {| hooks := hooks2; hooksOut := out2; hookTree := tree2; hookCross := cross2; hookExpires := exp2 |}.

(* cmdDELHOOKop *)
Definition reg_delhook (r : reg) (n : bytes) (chan : bool) : reg :=
  match get_name n (hooks r) with
  | None => r
  | Some h =>
      if negb (Bool.eqb (h_chan h) chan) then r else
      {| hooks := del_name n (hooks r);
         hooksOut := del_name n (hooksOut r);
         hookExpires := if h_expires h then del_name n (hookExpires r) else hookExpires r;
         hookTree := if has_area h then del_name n (hookTree r) else hookTree r;
         hookCross := if has_area h && dmap (h_detect h) DCross then del_name n (hookCross r) else hookCross r |}
  end.

(* cmdPDelHook: collect the matching hooks of that kind first, then delete one by one *)
Definition reg_pdelhook (r : reg) (pat : bytes -> bool) (chan : bool) : reg :=
  let names := map h_name (filter (fun h => Bool.eqb (h_chan h) chan && pat (h_name h)) (hooks r)) in
  fold_left (fun r n => reg_delhook r n chan) names r.

Inductive rop :=
| RSet (h : hook) (equal_prev : bool)      (* SETHOOK / SETCHAN *)
| RDel (n : bytes) (chan : bool)           (* DELHOOK / DELCHAN / hook expiry *)
| RPDel (pat : bytes -> bool) (chan : bool) (* PDELHOOK / PDELCHAN *)
| RFlush.                                  (* FLUSHDB *)

Definition reg_step (r : reg) (o : rop) : reg :=
  match o with
  | RSet h e => reg_sethook r h e
  | RDel n c => reg_delhook r n c
  | RPDel p c => reg_pdelhook r p c
  | RFlush => reg_empty
  end.

Definition reg_run (ops : list rop) : reg := fold_left reg_step ops reg_empty.

(* ---- getQueueCandidates ---- *)
Definition keyed (k : bytes) (h : hook) : bool := bytes_eqb (h_key h) k.
Definition search (tree : list hook) (q : rect) : list hook :=
  filter (fun h => match h_area h with Some a => overlaps a q | None => false end) tree.
Definition nonempty_hooks (l : list hook) : bool := match l with [] => false | _ => true end.

(* the candidate set (a Go map: order and multiplicity are immaterial) *)
Definition candidates (r : reg) (k : bytes) (old new : option rect) : list hook :=
  filter (keyed k) (hooksOut r) ++
  (match old, new with
   | Some r1, Some r2 =>
       if nonempty_hooks (hookCross r) then filter (keyed k) (search (hookCross r) (hull r1 r2)) else []
   | _, _ => []
   end) ++
  (match old with Some r1 => filter (keyed k) (search (hookTree r) r1) | None => [] end) ++
  (match new with Some r2 => filter (keyed k) (search (hookTree r) r2) | None => [] end).

(* ---- the three delivery paths (aof.go queueHooks / sortMsgs, pubsub Publish, hooks.go Hook.proc,
        live.go processLives / goLive) ---- *)

(* a notification tagged with the "hook" field it carries *)
Definition tagged : Type := (bytes * fmsg)%type.

(* sortMsgs' less function: by msgDetectCode, then by hook name *)
Definition tless (a b : tagged) : bool :=
  Nat.ltb (weight (snd a)) (weight (snd b)) ||
  (Nat.eqb (weight (snd a)) (weight (snd b)) && bytes_ltb (fst a) (fst b)).
(* sort.SliceStable: modelled by a stable insertion sort with that less function *)
Fixpoint tinsert (x : tagged) (l : list tagged) : list tagged :=
  match l with
  | [] => [x]
  | y :: t => if tless y x then y :: tinsert x t else x :: l
  end.
Definition sort_msgs (l : list tagged) : list tagged := fold_right tinsert [] l.

(* FenceMatch(hook.Name, hook.ScanWriter, hook.Fence, hook.Metas, d) for one candidate; cf / af give
   the abstract case and the COMMANDS verdict of each hook for the write at hand *)
Definition hook_msgs (cf : hook -> fcase) (af : hook -> bool) (h : hook) : list tagged :=
  match fence_match (af h) (h_detect h) (cf h) with
  | FOk l => map (fun m => (h_name h, m)) l
  | FFuel => []
  end.

(* queueHooks: cl is the candidate set in the order the Go map happens to be iterated; channel
   messages and webhook messages are collected and sorted separately *)
Definition queue_hooks (cl : list hook) (cf : hook -> fcase) (af : hook -> bool) : list tagged * list tagged :=
  (sort_msgs (flat_map (hook_msgs cf af) (filter h_chan cl)),
   sort_msgs (flat_map (hook_msgs cf af) (filter (fun h => negb (h_chan h)) cl))).

Definition tagged_for (n : bytes) (l : list tagged) : list fmsg :=
  map snd (filter (fun t => bytes_eqb (fst t) n) l).

(* a channel's subscribers receive the published messages whose channel is the hook name, in
   publication order; a webhook's manager (Hook.proc) sends the queued messages whose "hook"
   field is its name, in queue order *)
Definition channel_delivery (cl : list hook) cf af (n : bytes) : list fmsg := tagged_for n (fst (queue_hooks cl cf af)).
Definition webhook_delivery (cl : list hook) cf af (n : bytes) : list fmsg := tagged_for n (snd (queue_hooks cl cf af)).

(* a live fence connection: processLives hands every write of its key to the connection, which calls
   FenceMatch("", sw, fence, nil, details) - no candidate selection, no sorting *)
Definition live_delivery (live_key write_key : bytes) (acc : bool) (D : dset) (x : fcase) : list fmsg :=
  if bytes_eqb live_key write_key
  then match fence_match acc D x with FOk l => l | FFuel => [] end
  else [].
