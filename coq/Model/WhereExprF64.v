(* Model/WhereExprF64.v — the float64 instance of the oracle record of Model/WhereExpr.v on
   Flocq's binary64 (single-NaN variant: Go never looks at a NaN payload here).

     +  -  *  /          Bplus / Bminus / Bmult / Bdiv, round to nearest even
     <  ==               Bcompare (false on NaN, -0 == +0)
     float64(int)        binary_normalize of the integer
     conv.Ftoi           transcribed (NaN -> 0, clamp beyond +-(2^63 - 1024), truncation)
     math.Mod            exact remainder of the magnitudes, sign of x (what the Frexp/Ldexp loop of
                         math.mod computes); NaN for y = 0, x = +-Inf, NaN operands
     strconv.ParseFloat  decimal syntax  [+-] digits [. digits] [(e|E) [+-] digits], "inf",
                         "infinity", "nan" (any case, optional sign for the infinities); the value is
                         the exact rational rounded once to nearest even; overflow is an error.
                         Underscores and the 0x prefix are outside the vocabulary (None).
     conv.Ftoa           "NaN", "Infinity", "-Infinity", integers below 2^53 in magnitude, and
                         non-integers through the shortest digit string that parses back to the
                         same number (at most 17 digits); anything else is outside (None).
     =~  match()  gjson  outside (None): the driver answers them from tables sent by the harness.

   These are library semantics, not tile38 logic; the harness compares them with the Go library
   on every literal and every result it sees.  No proofs in this file. *)
From Coq Require Import List NArith ZArith Bool.
From Flocq Require Import Core BinarySingleNaN.
From T38 Require Import Base.Bytes Model.Float32 Model.WhereExpr.
Import ListNotations.
Local Open Scope Z_scope.

Definition f64_norm (m e : Z) (neg : bool) : f64 :=
  binary_normalize 53 1024 Hprec64 Hmax64 mode_NE m e neg.

Definition fadd (a b : f64) : f64 := Bplus mode_NE a b.
Definition fsub (a b : f64) : f64 := Bminus mode_NE a b.
Definition fmul (a b : f64) : f64 := Bmult mode_NE a b.
Definition fdiv (a b : f64) : f64 := Bdiv mode_NE a b.
Definition flt (a b : f64) : bool := match Bcompare a b with Some Lt => true | _ => false end.
Definition feq (a b : f64) : bool := match Bcompare a b with Some Eq => true | _ => false end.
Definition f_of_Z (z : Z) : f64 := f64_norm z 0 false.

(* conv.Ftoi *)
Definition f_to_Z (f : f64) : Z :=
  match f with
  | B754_nan => 0
  | B754_zero _ => 0
  | B754_infinity s => if s then - two63 else two63 - 1
  | B754_finite _ _ _ _ =>
      let t := Btrunc f in
      if two63 - 1024 <? t then two63 - 1
      else if t <? - (two63 - 1024) then - two63
      else t
  end.

(* math.Mod *)
Definition fmod (x y : f64) : f64 :=
  match x, y with
  | B754_nan, _ | _, B754_nan => B754_nan
  | B754_infinity _, _ => B754_nan
  | _, B754_zero _ => B754_nan
  | B754_zero s, _ => B754_zero s
  | B754_finite _ _ _ _, B754_infinity _ => x
  | B754_finite sx mx ex _, B754_finite _ my ey _ =>
      let e := Z.min ex ey in
      let X := Zpos mx * 2 ^ (ex - e) in
      let Y := Zpos my * 2 ^ (ey - e) in
      let r := X mod Y in
      if r =? 0 then B754_zero sx else f64_norm (if sx then - r else r) e sx
  end.

(* ---- strconv.ParseFloat on the decimal syntax ---- *)

Fixpoint digits_val (s : bytes) (acc : Z) (n : nat) : Z * nat * bytes :=
  match s with
  | c :: r => if isdigit c then digits_val r (acc * 10 + (Z.of_N c - 48)) (S n) else (acc, n, s)
  | [] => (acc, n, s)
  end.

Definition lower_bytes (s : bytes) : bytes := map lower s.

(* exact p / q (p >= 0, q > 0) rounded to nearest even, with sign *)
Definition round_ratio (neg : bool) (p q : Z) : f64 :=
  if p =? 0 then B754_zero neg
  else
    let k := Z.max 0 (70 + Z.log2 q - Z.log2 p) in
    let n := p * 2 ^ k in
    let qt := n / q in
    let sticky := if n mod q =? 0 then 0 else 1 in
    let m := 2 * qt + sticky in
    f64_norm (if neg then - m else m) (- k - 1) neg.

Definition is_finite_f (f : f64) : bool :=
  match f with B754_infinity _ | B754_nan => false | _ => true end.

Definition s_inf : bytes := [105; 110; 102]%N.
Definition s_infinity : bytes := [105; 110; 102; 105; 110; 105; 116; 121]%N.
Definition s_nan : bytes := [110; 97; 110]%N.

(* hexadecimal floats (0x after the optional sign) and digit separators are outside *)
Definition has_outside_char (s : bytes) : bool :=
  existsb (fun c => (c =? 95))%N s ||
  (let body := match s with c :: r => if ((c =? 45) || (c =? 43))%N then r else s | [] => s end in
   match body with
   | c0 :: c1 :: _ => ((c0 =? 48) && ((c1 =? 120) || (c1 =? 88)))%N
   | _ => false
   end).

Definition parse_float_dec (s : bytes) : option (option f64) :=
  if has_outside_char s then None
  else
    let '(neg, signed, body) :=
      match s with
      | c :: r => if (c =? 45)%N then (true, true, r) else if (c =? 43)%N then (false, true, r) else (false, false, s)
      | [] => (false, false, s)
      end in
    let lb := lower_bytes body in
    if bytes_eqb lb s_inf || bytes_eqb lb s_infinity then Some (Some (B754_infinity neg))
    else if bytes_eqb lb s_nan then (if signed then Some None else Some (Some B754_nan))
    else
      let '(ip, ni, r1) := digits_val body 0 0%nat in
      let '(m, nf, r2) :=
        match r1 with
        | c :: r => if (c =? 46)%N then digits_val r ip 0%nat else (ip, 0%nat, r1)
        | [] => (ip, 0%nat, r1)
        end in
      if (ni + nf =? 0)%nat then Some None
      else
        let finish (e10 : Z) : option (option f64) :=
          let E := e10 - Z.of_nat nf in
          let nd := Z.of_nat (ni + nf) in
          if m =? 0 then Some (Some (B754_zero neg))
          else if 400 <? nd + E then Some None
          else if nd + E <? -400 then Some (Some (B754_zero neg))
          else
            let v := if 0 <=? E then round_ratio neg (m * 10 ^ E) 1 else round_ratio neg m (10 ^ (- E)) in
            if is_finite_f v then Some (Some v) else Some None in
        match r2 with
        | [] => finish 0
        | c :: r =>
            if ((c =? 101) || (c =? 69))%N then
              let '(eneg, r3) :=
                match r with
                | d :: r' => if (d =? 45)%N then (true, r') else if (d =? 43)%N then (false, r') else (false, r)
                | [] => (false, r)
                end in
              let '(ev, ne, r4) := digits_val r3 0 0%nat in
              if (ne =? 0)%nat then Some None
              else match r4 with
                   | [] => finish (if eneg then - (Z.min ev 100000) else Z.min ev 100000)
                   | _ => Some None
                   end
            else Some None
        end.

(* ---- conv.Ftoa ---- *)

(* the exact value of a finite float as numerator / 2^k *)
Definition exact_frac (m : positive) (e : Z) : Z * Z :=
  if 0 <=? e then (Zpos m * 2 ^ e, 0) else (Zpos m, - e).

Fixpoint dec_digits_f (fuel : nat) (n : Z) (acc : bytes) : bytes :=
  match fuel with
  | O => acc
  | S f =>
      let d := Z.to_N (48 + n mod 10) in
      if n <? 10 then d :: acc else dec_digits_f f (n / 10) (d :: acc)
  end.

Fixpoint strip_zeros_rev (s : bytes) : bytes :=
  match s with
  | c :: r => if (c =? 48)%N then strip_zeros_rev r else s
  | [] => []
  end.

(* the digits D (an integer) and the exponent x with candidate value D * 10^x, spelled in the 'f' format *)
Definition spell_f (D x : Z) : bytes :=
  let ds := dec_digits_f 400 D [] in
  if 0 <=? x then ds ++ repeat 48%N (Z.to_nat x)
  else
    let n := Z.of_nat (length ds) in
    let fracn := - x in
    if fracn <? n then
      firstn (Z.to_nat (n - fracn)) ds ++ 46%N :: skipn (Z.to_nat (n - fracn)) ds
    else 48%N :: 46%N :: repeat 48%N (Z.to_nat (fracn - n)) ++ ds.

(* round the positive rational num / 2^k to d significant decimal digits (nearest, ties to even):
   (D, x) with value ~ D * 10^x, trailing zeros of D removed *)
Definition round_sig (num k : Z) (d : Z) : Z * Z :=
  (* decimal order of magnitude: 10^(g-1) <= v < 10^g approximately, corrected below *)
  let approx := (Z.log2 num - k) * 30103 / 100000 in
  let try (g : Z) : Z * Z :=
    let x := g - d in
    (* D = round(v / 10^x) = round(num / (2^k * 10^x)) *)
    let '(p, q) := if 0 <=? x then (num, 2 ^ k * 10 ^ x) else (num * 10 ^ (- x), 2 ^ k) in
    let fl := p / q in
    let r2 := 2 * (p mod q) in
    let D := if q <? r2 then fl + 1 else if r2 <? q then fl else (if Z.even fl then fl else fl + 1) in
    (D, x) in
  let '(D0, x0) := try (approx + 1) in
  let '(D, x) :=
    if D0 <? 10 ^ (d - 1) then try approx
    else if 10 ^ d <=? D0 then try (approx + 2)
    else (D0, x0) in
  (fix strip (fuel : nat) (D x : Z) : Z * Z :=
     match fuel with
     | O => (D, x)
     | S f => if (D mod 10 =? 0) && negb (D =? 0) then strip f (D / 10) (x + 1) else (D, x)
     end) 20%nat D x.

(* D * 10^x = num / 2^k *)
Definition cand_exact (D x num k : Z) : bool :=
  if 0 <=? x then D * 10 ^ x * 2 ^ k =? num else D * 2 ^ k =? num * 10 ^ (- x).

Definition is_pow2 (m : positive) : bool := Zpos m =? 2 ^ Z.log2 (Zpos m).

Definition f64_eqb (a b : f64) : bool :=
  match a, b with
  | B754_zero s, B754_zero t => Bool.eqb s t
  | B754_infinity s, B754_infinity t => Bool.eqb s t
  | B754_nan, B754_nan => true
  | B754_finite s m e _, B754_finite t n g _ => Bool.eqb s t && (Zpos m =? Zpos n) && (e =? g)
  | _, _ => false
  end.

Definition fmt_f64 (f : f64) : option bytes :=
  match f with
  | B754_nan => Some s_NaN
  | B754_infinity s => Some (if s then s_mInfinity else s_Infinity)
  | B754_zero s => Some (if s then [45; 48]%N else [48]%N)
  | B754_finite s m e _ =>
      let sign := if s then [45%N] else [] in
      let '(num, k) := exact_frac m e in
      if (k =? 0) || (num mod 2 ^ k =? 0) then
        let v := num / 2 ^ k in
        if v <? 2 ^ 53 then Some (sign ++ dec_digits_f 400 v []) else None
      else
        (fix search (fuel : nat) (d : Z) : option bytes :=
           match fuel with
           | O => None
           | S fu =>
               let '(D, x) := round_sig num k d in
               let txt := spell_f D x in
               match parse_float_dec txt with
               | Some (Some g) =>
                   if f64_eqb g (Babs f) then
                     (* next to a power of two the rounding interval is not symmetric: only an
                        exact spelling is accepted there *)
                     if is_pow2 m && negb (cand_exact D x num k) then None
                     else Some (sign ++ txt)
                   else search fu (d + 1)
               | _ => None
               end
           end) 17%nat 1
  end.

Definition ev := evalue f64.

Definition f64_oracle
    (rx : bytes -> bytes -> option (option bool))
    (gl : bytes -> bytes -> option bool)
    (jg : bytes -> bytes -> option ev) : oracle f64 :=
  mkOracle f64 fadd fsub fmul fdiv fmod flt feq f_of_Z f_to_Z
    B754_nan (B754_infinity false) (B754_infinity true)
    parse_float_dec fmt_f64 rx gl jg.

(* the instance without tables: =~, match() and JSON member access are outside *)
Definition f64_plain : oracle f64 :=
  f64_oracle (fun _ _ => None) (fun _ _ => None) (fun _ _ => None).
