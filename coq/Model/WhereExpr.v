(* Model/WhereExpr.v — executable transcription of the expression form of WHERE,

       SCAN / SEARCH / WITHIN / ... key WHERE "<expr>" ...

   The expression is not parsed into a tree by tile38.  internal/server/token.go
   (detectExprToken, case "where") stores the text; internal/server/scanner.go (fieldMatch) calls
   whereT.matchExpr (internal/server/expr.go) for every candidate object, and that calls
   github.com/tidwall/expr v0.14.0  expr.Eval(text, ctx)  with the extender of newExprPool
   (references = fields / id / type / this / JSON members, the method match(), the operator =~)
   and NoCase = true.  expr.Eval is a recursive *string splitter*: for every precedence level it
   scans the bytes of the current substring, skips quoted / bracketed groups with readGroup
   (squash), splits at the operators of that level, and evaluates the pieces with the next level;
   evalAtom handles literals, groups, identifiers and chains (.x, ?.x, [x], (args)).
   An error of Eval is logged at debug level and the object is not kept (matchExpr returns
   Undefined.Bool() = false).

   Transcribed here, function by function (same loops, same comparison directions, same early
   exits):
     expr.go (tidwall/expr)  trim, isspace, ishex, closech, squash, readGroup, readIDStart,
                             readIDContinue, readIdent, parseString, runeit, unescapeString,
                             appendRune (utf8.EncodeRune, utf16.IsSurrogate/DecodeRune), parseFloat,
                             evalAtom, multiExprsToArray, getRefValue, fact/evalFacts, sum/evalSums,
                             comp/evalComps, equal/evalEquality, bitwiseXOR/OR/AND + eval...,
                             logicalAND/OR + eval..., evalTerns, evalComma, evalAuto, evalExpr,
                             EvalForEach, Eval, opSteps, Value.Bool/Float64/Int64/String, doOp, add,
                             sub, mul, div, mod, bor, band, xor, lt, lte, gt, gte, eq, seq, neq,
                             sneq, and, or, coalesce, stringLessInsensitive, stringEqualInsensitive
     conv (tidwall/conv)     Ttof, Ttoi, Ftot, Itof, Utoi, Atot, Atof (parseFloat), Atoi
     strconv                 ParseUint / ParseInt (bases 10 and 16, 64 bit) as plain digit loops
     internal/server/expr.go objExpr, resultToValue (on classified values), the three extender
                             functions of newExprPool, exprPool.Get (NoCase = true), matchExpr
     internal/server/token.go detectExprToken
     internal/server/scanner.go the expression arm of scanWriter.fieldMatch

   Every index / slice expression whose bounds are not the loop guard itself goes through a
   checked accessor and yields [Panic] where Go would panic.  Loops that are not structural carry
   fuel and yield [NoFuel] when it runs out.  [Outside] means that an opaque library function was
   asked something the instance of the oracle record does not answer (the run lft the modelled
   vocabulary); it is never produced by the transcribed logic itself.

   Opaque (record [oracle]): float64 arithmetic and comparison, conversions float <-> integer,
   strconv.ParseFloat (slow path of number literals and string -> number coercion),
   strconv.FormatFloat (conv.Ftoa), regexp (=~), tidwall/match.MatchNoCase (match()),
   gjson.Get on JSON values.  The Flocq instance used by the driver is Model/WhereExprF64.v.

   The evaluator's recursion (evalExpr on the inside of a group, on the three parts of ?:, and
   EvalForEach on array / argument lists) is always on a strictly shorter string; it is the only
   non-structural recursion and is cut by [depth] fuel in [eval_expr]; everything else is written
   against an abstract callback [rec] (open recursion).

   ctx.iter (EvalForEach's iterator, used for array literals and call arguments) is a mutable
   field of the shared evalContext; evalComma disables it for every piece except the last one.
   The model threads it as the flag [it] and returns the values handed to the iterator next to
   the result (writer style): "[1,(2,3)]" is the array 1,2,3,3 in Go and here.

   No proofs in this file. *)
From Coq Require Import List NArith ZArith Bool.
From T38 Require Import Base.Bytes.
Import ListNotations.
Local Open Scope nat_scope.

(* ------------------------------------------------------------------ outcomes *)

Inductive eerr := ESyntax | EUndef | EOther.   (* EUndef = errEval{udef: true} *)

Inductive res (A : Type) : Type :=
| Ok (a : A) | Err (e : eerr) | Panic | NoFuel | Outside.
Arguments Ok {A} a.
Arguments Err {A} e.
Arguments Panic {A}.
Arguments NoFuel {A}.
Arguments Outside {A}.

Definition bind {A B} (r : res A) (f : A -> res B) : res B :=
  match r with
  | Ok a => f a | Err e => Err e | Panic => Panic | NoFuel => NoFuel | Outside => Outside
  end.
Notation "'do' x <- r ; k" := (bind r (fun x => k)) (at level 200, x pattern, r at level 100, k at level 200).

Definition opt_panic {A} (o : option A) : res A := match o with Some a => Ok a | None => Panic end.
Definition opt_outside {A} (o : option A) : res A := match o with Some a => Ok a | None => Outside end.

(* ------------------------------------------------------------------ bytes *)

(* s[i] *)
Definition bat (s : bytes) (i : nat) : option N := nth_error s i.
(* s[i-1] *)
Definition bat_pred (s : bytes) (i : nat) : option N := match i with 0 => None | S j => nth_error s j end.
(* s[a:b] *)
Definition slice (s : bytes) (a b : nat) : option bytes :=
  if (a <=? b) && (b <=? length s) then Some (firstn (b - a) (skipn a s)) else None.
(* s[a:] *)
Definition sfrom (s : bytes) (a : nat) : option bytes :=
  if a <=? length s then Some (skipn a s) else None.

Definition isspace (c : N) : bool :=
  ((c =? 9) || (c =? 10) || (c =? 11) || (c =? 12) || (c =? 13) || (c =? 32))%N.
Definition isdigit (c : N) : bool := ((48 <=? c) && (c <=? 57))%N.
Definition ishex (c : N) : bool :=
  (isdigit c || ((97 <=? c) && (c <=? 102)) || ((65 <=? c) && (c <=? 70)))%N.

Fixpoint trim_left (s : bytes) : bytes :=
  match s with
  | c :: r => if isspace c then trim_left r else s
  | [] => []
  end.
Definition trim (s : bytes) : bytes := rev (trim_left (rev (trim_left s))).

Definition closech (open : N) : N :=
  (if open =? 40 then 41 else if open =? 91 then 93 else if open =? 123 then 125 else open)%N.

Definition is_opener (c : N) : bool :=
  ((c =? 40) || (c =? 91) || (c =? 123) || (c =? 34) || (c =? 39))%N.   (* ( [ { dquote quote *)

(* ------------------------------------------------------------------ squash / readGroup *)

(* for j := i - 2; j > s2-1; j-- { if data[j] != '\\' { break }; n++ }      k = j + 1 *)
Fixpoint sq_count (data : bytes) (fuel k s2 n : nat) : res nat :=
  match fuel with
  | 0 => NoFuel
  | S fuel' =>
      if s2 <? k then
        do c <- opt_panic (bat_pred data k);
        if (c =? 92)%N then sq_count data fuel' (k - 1) s2 (S n) else Ok n
      else Ok n
  end.

(* the inner loop of squash that looks for the closing quote; returns the final i *)
Fixpoint sq_quote (data : bytes) (fuel i s2 : nat) (qch : N) : res nat :=
  match fuel with
  | 0 => NoFuel
  | S fuel' =>
      match bat data i with
      | None => Ok i
      | Some c =>
          if (92 <? c)%N then sq_quote data fuel' (S i) s2 qch
          else if (c =? qch)%N then
            do p <- opt_panic (bat_pred data i);
            if (p =? 92)%N then
              do n <- sq_count data (S (length data)) (i - 1) s2 0;
              if Nat.even n then sq_quote data fuel' (S i) s2 qch else Ok i
            else Ok i
          else sq_quote data fuel' (S i) s2 qch
      end
  end.

(* the outer loop; Some j: return data[:j+1], true    None: return data, false *)
Fixpoint sq_loop (data : bytes) (fuel i : nat) (depth : Z) : res (option nat) :=
  match fuel with
  | 0 => NoFuel
  | S fuel' =>
      match bat data i with
      | None => Ok None
      | Some c =>
          if ((c <? 34) || (125 <? c))%N then sq_loop data fuel' (S i) depth
          else if ((c =? 34) || (c =? 39))%N then
            do j <- sq_quote data (S (length data)) (S i) (S i) c;
            if (depth =? 0)%Z then (if length data <=? j then Ok None else Ok (Some j))
            else sq_loop data fuel' (S j) depth
          else if ((c =? 123) || (c =? 91) || (c =? 40))%N then sq_loop data fuel' (S i) (depth + 1)%Z
          else if ((c =? 125) || (c =? 93) || (c =? 41))%N then
            if (depth - 1 =? 0)%Z then Ok (Some i) else sq_loop data fuel' (S i) (depth - 1)%Z
          else sq_loop data fuel' (S i) depth
      end
  end.

Definition squash (data : bytes) : res (option nat) :=
  do c0 <- opt_panic (bat data 0);
  if ((c0 =? 34) || (c0 =? 39))%N then sq_loop data (S (length data)) 0 0%Z
  else sq_loop data (S (length data)) 1 1%Z.

Definition last_byte (g : bytes) : option N := bat_pred g (length g).

Definition read_group (data : bytes) : res bytes :=
  do r <- squash data;
  match r with
  | None => Err ESyntax
  | Some j =>
      do g <- opt_panic (slice data 0 (S j));
      if length g <? 2 then Err ESyntax
      else
        do l <- opt_panic (last_byte g);
        do c0 <- opt_panic (bat data 0);
        if negb (l =? closech c0)%N then Err ESyntax else Ok g
  end.

(* g[1:len(g)-1] *)
Definition group_inner (g : bytes) : res bytes := opt_panic (slice g 1 (length g - 1)).

(* ------------------------------------------------------------------ identifiers *)

Definition id_start (c : N) : bool :=
  ((c =? 36) || (c =? 95) || ((65 <=? c) && (c <=? 90)) || ((97 <=? c) && (c <=? 122)))%N.
Definition id_continue (c : N) : bool := id_start c || isdigit c.

Fixpoint id_rest (s : bytes) : bytes :=
  match s with
  | c :: r => if id_continue c then c :: id_rest r else []
  | [] => []
  end.

(* readIdent: None = (_, false) *)
Definition read_ident (s : bytes) : option bytes :=
  match s with
  | c :: r => if id_start c then Some (c :: id_rest r) else None
  | [] => None
  end.

(* ------------------------------------------------------------------ strconv integer parsers *)

Inductive pu := PUok (z : Z) | PUsyntax | PUrange.

Definition lower (c : N) : N := (if (65 <=? c) && (c <=? 90) then c + 32 else c)%N.

Definition digit_val (c : N) : option Z :=
  if isdigit c then Some (Z.of_N c - 48)%Z
  else let l := lower c in
       if ((97 <=? l) && (l <=? 122))%N then Some (Z.of_N l - 97 + 10)%Z else None.

Definition two64 : Z := 18446744073709551616%Z.
Definition two63 : Z := 9223372036854775808%Z.

Fixpoint pu_loop (base : Z) (s : bytes) (n : Z) : pu :=
  match s with
  | [] => PUok n
  | c :: r =>
      match digit_val c with
      | None => PUsyntax
      | Some d =>
          if (base <=? d)%Z then PUsyntax
          else let n1 := (n * base + d)%Z in
               if (two64 <=? n1)%Z then PUrange else pu_loop base r n1
      end
  end.

(* strconv.ParseUint(s, base, 64) for base 10 or 16 *)
Definition parse_uint (base : Z) (s : bytes) : pu :=
  match s with [] => PUsyntax | _ => pu_loop base s 0%Z end.

(* strconv.ParseInt(s, 10, 64) *)
Definition parse_int10 (s : bytes) : pu :=
  match s with
  | [] => PUsyntax
  | c :: r =>
      let neg := (c =? 45)%N in
      let body := if ((c =? 45) || (c =? 43))%N then r else s in
      match parse_uint 10 body with
      | PUok un =>
          if negb neg && (two63 <=? un)%Z then PUrange
          else if neg && (two63 <? un)%Z then PUrange
          else PUok (if neg then (- un)%Z else un)
      | e => e
      end
  end.

(* decimal spelling of an integer (strconv.FormatInt / FormatUint, base 10) *)
Fixpoint dec_digits (fuel : nat) (n : Z) (acc : bytes) : bytes :=
  match fuel with
  | 0 => acc
  | S f =>
      let d := Z.to_N (48 + n mod 10)%Z in
      if (n <? 10)%Z then d :: acc else dec_digits f (n / 10)%Z (d :: acc)
  end.
Definition dec_of_Z (z : Z) : bytes :=
  if (z <? 0)%Z then 45%N :: dec_digits 25 (- z)%Z [] else dec_digits 25 z [].

(* ------------------------------------------------------------------ utf8 / utf16 *)

(* utf8.EncodeRune on uint32(r) *)
Definition encode_rune (i : N) : bytes :=
  (if i <=? 127 then [i]
   else if i <=? 2047 then [192 + i / 64; 128 + i mod 64]
   else
     let three r := [224 + r / 4096; 128 + (r / 64) mod 64; 128 + r mod 64] in
     if (1114111 <? i) || ((55296 <=? i) && (i <=? 57343)) then three 65533
     else if i <=? 65535 then three i
     else [240 + i / 262144; 128 + (i / 4096) mod 64; 128 + (i / 64) mod 64; 128 + i mod 64])%N.

(* rune(x) for a uint64 x, kept as uint32(rune): the low 32 bits *)
Definition rune32 (x : Z) : N := Z.to_N (x mod 4294967296)%Z.

(* utf16.IsSurrogate(r): 0xd800 <= r && r < 0xe000 on the signed rune *)
Definition is_surrogate (r : N) : bool := ((55296 <=? r) && (r <? 57344))%N.

(* utf16.DecodeRune *)
Definition utf16_decode (r1 r2 : N) : N :=
  (if (55296 <=? r1) && (r1 <? 56320) && (56320 <=? r2) && (r2 <? 57344)
   then (r1 - 55296) * 1024 + (r2 - 56320) + 65536 else 65533)%N.

(* ------------------------------------------------------------------ string literals *)

(* x, _ = strconv.ParseUint(hex, 16, 64): the value, 0 on a syntax error, MaxUint64 on overflow *)
Definition pu_value (p : pu) : Z :=
  match p with PUok z => z | PUsyntax => 0%Z | PUrange => (two64 - 1)%Z end.

(* index of the first '}' in data, scanning from 0 *)
Fixpoint find_rbrace (data : bytes) (i : nat) : option nat :=
  match data with
  | [] => None
  | c :: r => if (c =? 125)%N then Some i else find_rbrace r (S i)
  end.

(* runeit(data, which) -> (uint32(rune), n) *)
Definition runeit (data : bytes) (is_x : bool) : res (N * nat) :=
  if is_x then
    do h <- opt_panic (slice data 0 2);
    Ok (rune32 (pu_value (parse_uint 16 h)), 2)
  else
    do c0 <- opt_panic (bat data 0);
    if (c0 =? 123)%N then
      (* s = 1; n = len(data); e = 0 unless a '}' is found *)
      let '(e, n) := match find_rbrace data 0 with Some i => (i, S i) | None => (0, length data) end in
      do h <- opt_panic (slice data 1 e);
      Ok (rune32 (pu_value (parse_uint 16 h)), n)
    else
      do h <- opt_panic (slice data 0 4);
      Ok (rune32 (pu_value (parse_uint 16 h)), 4).

(* unescapeString: the loop  for i := 0; i < len(data); i++ *)
Fixpoint unescape_loop (data : bytes) (fuel i : nat) (acc : bytes) : res bytes :=
  match fuel with
  | 0 => NoFuel
  | S fuel' =>
      match bat data i with
      | None => Ok acc
      | Some c =>
          if negb (c =? 92)%N then unescape_loop data fuel' (S i) (acc ++ [c])
          else
            let i := S i in
            do e <- opt_panic (bat data i);
            if (e =? 48)%N then unescape_loop data fuel' (S i) (acc ++ [0%N])
            else if (e =? 98)%N then unescape_loop data fuel' (S i) (acc ++ [8%N])
            else if (e =? 102)%N then unescape_loop data fuel' (S i) (acc ++ [12%N])
            else if (e =? 110)%N then unescape_loop data fuel' (S i) (acc ++ [10%N])
            else if (e =? 114)%N then unescape_loop data fuel' (S i) (acc ++ [13%N])
            else if (e =? 116)%N then unescape_loop data fuel' (S i) (acc ++ [9%N])
            else if (e =? 118)%N then unescape_loop data fuel' (S i) (acc ++ [11%N])
            else if (e =? 117)%N then
              let i := S i in
              do t <- opt_panic (sfrom data i);
              do rn <- runeit t false;
              let '(r, n) := rn in
              let i := i + n in
              if is_surrogate r then
                do t2 <- opt_panic (sfrom data i);
                if 6 <=? length t2 then
                  do d0 <- opt_panic (bat data i);
                  do d1 <- opt_panic (bat data (S i));
                  if ((d0 =? 92) && (d1 =? 117))%N then
                    let i := i + 2 in
                    do t3 <- opt_panic (sfrom data i);
                    do rn2 <- runeit t3 false;
                    let '(r2, n2) := rn2 in
                    let i := i + n2 in
                    (* i-- ; then the loop's i++ *)
                    unescape_loop data fuel' i (acc ++ encode_rune (utf16_decode r r2))
                  else unescape_loop data fuel' i (acc ++ encode_rune r)
                else unescape_loop data fuel' i (acc ++ encode_rune r)
              else unescape_loop data fuel' i (acc ++ encode_rune r)
            else if (e =? 120)%N then
              let i := S i in
              do t <- opt_panic (sfrom data i);
              do rn <- runeit t true;
              let '(r, n) := rn in
              unescape_loop data fuel' (i + n) (acc ++ encode_rune r)
            else unescape_loop data fuel' (S i) (acc ++ [e])
      end
  end.
Definition unescape_string (data : bytes) : res bytes := unescape_loop data (S (length data)) 0 [].

(* the  \u{...}  scan of parseString: for ; i < len(data); i++ { '}' -> end; !ishex -> fail } ;
   Some (Some i) = found '}' at i, Some None = ran off the end, None = a non-hex byte *)
Fixpoint ps_brace (data : bytes) (fuel i : nat) : res (option (option nat)) :=
  match fuel with
  | 0 => NoFuel
  | S fuel' =>
      match bat data i with
      | None => Ok (Some None)
      | Some c =>
          if (c =? 125)%N then Ok (Some (Some i))
          else if negb (ishex c) then Ok None
          else ps_brace data fuel' (S i)
      end
  end.

(* for j := 0; j < k; j++ { i++; if i >= len(data) || !ishex(data[i]) { fail } } ; Some i' / None *)
Fixpoint ps_hex (data : bytes) (k i : nat) : option nat :=
  match k with
  | 0 => Some i
  | S k' =>
      let i := S i in
      match bat data i with
      | None => None
      | Some c => if ishex c then ps_hex data k' i else None
      end
  end.

(* parseString's main loop; Some (out, rawlen) / None = (_, _, false) *)
Fixpoint ps_loop (data : bytes) (fuel i : nat) (qch : N) (esc : bool) : res (option (bytes * nat)) :=
  match fuel with
  | 0 => NoFuel
  | S fuel' =>
      match bat data i with
      | None => Ok None
      | Some c =>
          if (c <? 32)%N then Ok None
          else if (c =? 92)%N then
            let i := S i in
            match bat data i with
            | None => Ok None                       (* i == len(data) *)
            | Some e =>
                if (e =? 117)%N then
                  if (match bat data (S i) with Some c1 => (c1 =? 123)%N | None => false end) then
                    do r <- ps_brace data (S (length data)) (i + 2);
                    match r with
                    | Some (Some j) => ps_loop data fuel' (S j) qch true
                    | _ => Ok None
                    end
                  else
                    match ps_hex data 4 i with
                    | Some j => ps_loop data fuel' (S j) qch true
                    | None => Ok None
                    end
                else if (e =? 120)%N then
                  match ps_hex data 2 i with
                  | Some j => ps_loop data fuel' (S j) qch true
                  | None => Ok None
                  end
                else ps_loop data fuel' (S i) qch true
            end
          else if (c =? qch)%N then
            do s <- opt_panic (slice data 1 i);
            do s' <- (if esc then unescape_string s else Ok s);
            Ok (Some (s', S i))
          else ps_loop data fuel' (S i) qch esc
      end
  end.

Definition parse_string (data : bytes) : res (option (bytes * nat)) :=
  if length data <? 2 then Ok None
  else
    do q <- opt_panic (bat data 0);
    ps_loop data (S (length data)) 1 q false.

(* ------------------------------------------------------------------ values *)

Section WX.
Variable F : Type.

(* expr.Value.  Objects (objKind) are the scanned object itself (this) or a gjson.Result of type
   JSON, carried by its raw text.  An array is carried by the String() of each element: nothing
   in the evaluator or in tile38's extender looks at an element in any other way. *)
Inductive evalue :=
| VUndef | VNull | VBool (b : bool) | VFloat (f : F) | VInt (z : Z) | VUint (z : Z)
| VStr (s : bytes) | VFunc (name : bytes) | VThis | VJson (raw : bytes) | VArr (items : list bytes).

Record oracle := mkOracle {
  f_add : F -> F -> F;
  f_sub : F -> F -> F;
  f_mul : F -> F -> F;
  f_div : F -> F -> F;
  f_mod : F -> F -> F;                       (* math.Mod *)
  f_lt : F -> F -> bool;                     (* < on float64 *)
  f_eq : F -> F -> bool;                     (* == on float64 *)
  f_of_int : Z -> F;                         (* float64(x) for an int64 / uint64 x *)
  f_to_int : F -> Z;                         (* conv.Ftoi *)
  f_nan : F;
  f_inf : F;                                 (* math.Inf(+1) *)
  f_ninf : F;                                (* math.Inf(-1) *)
  f_parse : bytes -> option (option F);      (* strconv.ParseFloat(s, 64): Some None = error *)
  f_fmt : F -> option bytes;                 (* conv.Ftoa *)
  o_regex : bytes -> bytes -> option (option bool);  (* pattern, subject; Some None = does not compile *)
  o_glob : bytes -> bytes -> option bool;    (* match.MatchNoCase(str, pattern) *)
  o_json_get : bytes -> bytes -> option evalue  (* resultToValue(gjson.Parse(raw).Get(path)) *)
}.
Variable O : oracle.

(* the object a WHERE expression is evaluated against *)
Record eobj := mkObj {
  o_id : bytes;                          (* o.ID() *)
  o_type : option bytes;                 (* typeForObject: None = Undefined *)
  o_str : bytes;                         (* o.String() *)
  o_members : bytes -> option (option evalue);
                                         (* gjson.Get(o.Geo().Members(), ident): Some None = does not
                                            exist, None = the instance does not know (gjson path syntax) *)
  o_fields : list (bytes * evalue)       (* o.Fields() in Scan order, each value already
                                            resultToValue(gjson.Parse(f.Value().JSON())) *)
}.
Variable obj : eobj.

Definition f_zero : F := f_of_int O 0%Z.
Definition f_one : F := f_of_int O 1%Z.
Definition f_negone : F := f_of_int O (-1)%Z.

(* kind: undef 0, null 1, bool 2, float 3, int 4, uint 5, str 6, func 7, obj 8, arr 9 *)
Definition kind_of (v : evalue) : nat :=
  match v with
  | VUndef => 0 | VNull => 1 | VBool _ => 2 | VFloat _ => 3 | VInt _ => 4 | VUint _ => 5
  | VStr _ => 6 | VFunc _ => 7 | VThis => 8 | VJson _ => 8 | VArr _ => 9
  end.
Definition is_obj (v : evalue) : bool := kind_of v =? 8.
Definition is_undef (v : evalue) : bool := kind_of v =? 0.

Definition wrap_u64 (z : Z) : Z := (z mod two64)%Z.
Definition wrap_i64 (z : Z) : Z := ((z + two63) mod two64 - two63)%Z.

Definition s_true : bytes := [116; 114; 117; 101]%N.
Definition s_false : bytes := [102; 97; 108; 115; 101]%N.
Definition s_null : bytes := [110; 117; 108; 108]%N.
Definition s_undefined : bytes := [117; 110; 100; 101; 102; 105; 110; 101; 100]%N.
Definition s_NaN : bytes := [78; 97; 78]%N.
Definition s_Infinity : bytes := [73; 110; 102; 105; 110; 105; 116; 121]%N.
Definition s_pInfinity : bytes := 43%N :: s_Infinity.
Definition s_mInfinity : bytes := 45%N :: s_Infinity.
Definition s_this : bytes := [116; 104; 105; 115]%N.
Definition s_id : bytes := [105; 100]%N.
Definition s_type : bytes := [116; 121; 112; 101]%N.
Definition s_match : bytes := [109; 97; 116; 99; 104]%N.
Definition s_func_pre : bytes := [91; 70; 117; 110; 99; 116; 105; 111; 110; 58; 32]%N.   (* "[Function: " *)

Fixpoint join_comma (l : list bytes) : bytes :=
  match l with
  | [] => []
  | [x] => x
  | x :: r => x ++ 44%N :: join_comma r
  end.

(* Value.String() *)
Definition to_string (v : evalue) : res bytes :=
  match v with
  | VUndef => Ok s_undefined
  | VNull => Ok s_null
  | VBool b => Ok (if b then s_true else s_false)
  | VFloat f => opt_outside (f_fmt O f)
  | VInt z => Ok (dec_of_Z z)
  | VUint z => Ok (dec_of_Z z)
  | VStr s => Ok s
  | VFunc n => Ok (s_func_pre ++ n ++ [93%N])
  | VThis => Ok (o_str obj)              (* conv.Vtoa: *object.Object is a fmt.Stringer *)
  | VJson raw => Ok raw                  (* gjson.Result.String() of a JSON value is its raw text *)
  | VArr items => Ok (join_comma items)
  end.

Definition isnumch (c : N) : bool := isdigit c || (c =? 46)%N.

(* conv.parseFloat; None = error *)
Definition conv_parse_float (a : bytes) : res (option F) :=
  match a with
  | [] => Ok None
  | a0 :: t =>
      (* len(a) == 1 || isnumch(a[0]) || (a[0] == '-' && isnumch(a[1])) || (a[0] == '+' && isnumch(a[1])) *)
      let a1ok := match t with c :: _ => isnumch c | [] => false end in
      if (length a =? 1) || isnumch a0 || ((a0 =? 45)%N && a1ok) || ((a0 =? 43)%N && a1ok)
      then opt_outside (f_parse O a)
      else if bytes_eqb a s_pInfinity || bytes_eqb a s_Infinity then Ok (Some (f_inf O))
      else if bytes_eqb a s_mInfinity then Ok (Some (f_ninf O))
      else if bytes_eqb a s_NaN then Ok (Some (f_nan O))
      else Ok None
  end.

(* conv.Atof *)
Definition atof (a : bytes) : res F :=
  do r <- conv_parse_float a;
  Ok (match r with Some f => f | None => f_nan O end).

(* conv.Atoi *)
Definition atoi (a : bytes) : res Z :=
  match parse_int10 a with
  | PUok x => Ok x
  | _ =>
      do r <- conv_parse_float a;
      Ok (match r with Some f => f_to_int O f | None => 0%Z end)
  end.

(* Value.Float64() *)
Definition to_float (v : evalue) : res F :=
  match v with
  | VNull => Ok f_zero
  | VBool b => Ok (if b then f_one else f_zero)
  | VFloat f => Ok f
  | VInt z => Ok (f_of_int O z)
  | VUint z => Ok (f_of_int O z)
  | VStr s => atof s
  | VThis | VJson _ => Outside           (* conv.Vtof on an object: not reached, every operator hands objects to doOp first *)
  | VArr items => atof (join_comma items)
  | VUndef | VFunc _ => Ok (f_nan O)
  end.

(* conv.Ftot *)
Definition ftot (f : F) : bool := f_lt O f f_zero || f_lt O f_zero f.

(* Value.Bool() *)
Definition to_bool (v : evalue) : res bool :=
  match v with
  | VUndef | VNull => Ok false
  | VBool b => Ok b
  | VFloat f => Ok (ftot f)
  | VInt z => Ok (negb (z =? 0)%Z)
  | VUint z => Ok (negb (z =? 0)%Z)
  | VStr s => Ok (negb (length s =? 0))
  | VThis => Ok (negb (length (o_str obj) =? 0))     (* conv.Vtot: Stringer -> Atot(String()) *)
  | VJson _ => Ok false                              (* gjson.Result.Bool() of a JSON value *)
  | VFunc _ | VArr _ => do f <- to_float v; Ok (ftot f)
  end.

(* Value.Int64() *)
Definition to_int (v : evalue) : res Z :=
  match v with
  | VBool b => Ok (if b then 1 else 0)%Z
  | VFloat f => Ok (f_to_int O f)
  | VInt z => Ok z
  | VUint z => Ok (if (two63 - 1 <? z)%Z then (two63 - 1)%Z else z)     (* conv.Utoi *)
  | VStr s => atoi s
  | VThis | VJson _ => Outside           (* conv.Vtoi on an object: not reached *)
  | VArr items => atoi (join_comma items)
  | VUndef | VNull | VFunc _ => Ok 0%Z
  end.

(* ------------------------------------------------------------------ tile38's extender *)

Fixpoint assoc (l : list (bytes * evalue)) (k : bytes) : option evalue :=
  match l with
  | [] => None
  | (n, v) :: r => if bytes_eqb n k then Some v else assoc r k
  end.

(* objExpr *)
Definition obj_expr (ident : bytes) : res evalue :=
  do m <- opt_outside (o_members obj ident);
  match m with
  | Some v => Ok v
  | None =>
      if bytes_eqb ident s_id then Ok (VStr (o_id obj))
      else if bytes_eqb ident s_type then
        Ok (match o_type obj with Some t => VStr t | None => VUndef end)
      else Ok (match assoc (o_fields obj) ident with
               | Some v => v
               | None => VFloat f_zero
               end)
  end.

(* the ref function of newExprPool *)
Definition ext_ref (chain : bool) (lft : evalue) (ident : bytes) : res evalue :=
  if negb chain then
    if bytes_eqb ident s_this then Ok VThis else obj_expr ident
  else
    match lft with
    | VThis => obj_expr ident
    | VJson raw => opt_outside (o_json_get O raw ident)
    | _ => if bytes_eqb ident s_match then Ok (VFunc s_match) else Ok VUndef
    end.

(* getRefValue *)
Definition get_ref_value (chain : bool) (lft : evalue) (ident : bytes) (optChain : bool) : res evalue :=
  do v <- ext_ref chain lft ident;
  if is_undef v && is_undef lft then (if optChain then Ok VUndef else Err EUndef)
  else Ok v.

(* the call function of newExprPool; args as the String() of each argument *)
Definition ext_call (chain : bool) (value : evalue) (ident : bytes) (args : list bytes) : res evalue :=
  if chain && bytes_eqb ident s_match then
    do s <- to_string value;
    let a0 := match args with a :: _ => a | [] => s_undefined end in
    do t <- opt_outside (o_glob O s a0);
    Ok (VBool t)
  else Ok VUndef.

(* doOp with the op function of newExprPool: only =~ is implemented, everything else is
   (Undefined, nil) *)
Definition do_op_regex (a b : evalue) : res evalue :=
  do field <- to_string a;
  do pattern <- to_string b;
  do r <- opt_outside (o_regex O pattern field);
  match r with
  | None => Err EOther
  | Some t => Ok (VBool t)
  end.
Definition do_op_other : res evalue := Ok VUndef.

(* ------------------------------------------------------------------ operators *)

Definition either_obj (a b : evalue) : bool := is_obj a || is_obj b.
Definition same_kind (a b : evalue) : bool := kind_of a =? kind_of b.

Definition isnum (v : evalue) : bool :=
  match v with
  | VFloat _ | VInt _ | VUint _ | VBool _ | VNull | VUndef => true
  | _ => false
  end.

Definition float2 (op : F -> F -> F) (a b : evalue) : res evalue :=
  do x <- to_float a; do y <- to_float b; Ok (VFloat (op x y)).

Definition concat2 (a b : evalue) : res evalue :=
  do x <- to_string a; do y <- to_string b; Ok (VStr (x ++ y)).

Definition op_add (a b : evalue) : res evalue :=
  if either_obj a b then do_op_other
  else match a, b with
       | VFloat x, VFloat y => Ok (VFloat (f_add O x y))
       | VInt x, VInt y => Ok (VInt (wrap_i64 (x + y)))
       | VUint x, VUint y => Ok (VUint (wrap_u64 (x + y)))
       | VStr x, VStr y => Ok (VStr (x ++ y))
       | VBool _, VBool _ | VUndef, VUndef | VNull, VNull => float2 (f_add O) a b
       | _, _ =>
           if negb (same_kind a b) && isnum a && isnum b then float2 (f_add O) a b
           else concat2 a b
       end.

Definition op_sub (a b : evalue) : res evalue :=
  if either_obj a b then do_op_other
  else match a, b with
       | VFloat x, VFloat y => Ok (VFloat (f_sub O x y))
       | VInt x, VInt y => Ok (VInt (wrap_i64 (x - y)))
       | VUint x, VUint y => Ok (VUint (wrap_u64 (x - y)))
       | _, _ => float2 (f_sub O) a b
       end.

Definition op_mul (a b : evalue) : res evalue :=
  if either_obj a b then do_op_other
  else match a, b with
       | VFloat x, VFloat y => Ok (VFloat (f_mul O x y))
       | VInt x, VInt y => Ok (VInt (wrap_i64 (x * y)))
       | VUint x, VUint y => Ok (VUint (wrap_u64 (x * y)))
       | _, _ => float2 (f_mul O) a b
       end.

Definition op_div (a b : evalue) : res evalue :=
  if either_obj a b then do_op_other
  else match a, b with
       | VFloat x, VFloat y => Ok (VFloat (f_div O x y))
       | VInt x, VInt y => if (y =? 0)%Z then Ok (VFloat (f_nan O)) else Ok (VInt (wrap_i64 (Z.quot x y)))
       | VUint x, VUint y => if (y =? 0)%Z then Ok (VFloat (f_nan O)) else Ok (VUint (x / y)%Z)
       | _, _ => float2 (f_div O) a b
       end.

Definition op_mod (a b : evalue) : res evalue :=
  if either_obj a b then do_op_other
  else match a, b with
       | VInt x, VInt y => if (y =? 0)%Z then Ok (VFloat (f_nan O)) else Ok (VInt (Z.rem x y))
       | VUint x, VUint y => if (y =? 0)%Z then Ok (VFloat (f_nan O)) else Ok (VUint (x mod y)%Z)
       | _, _ => float2 (f_mod O) a b
       end.

Definition int2 (op : Z -> Z -> Z) (a b : evalue) : res evalue :=
  if either_obj a b then do_op_other
  else match a, b with
       | VInt x, VInt y => Ok (VInt (op x y))
       | VUint x, VUint y => Ok (VUint (op x y))
       | _, _ => do x <- to_int a; do y <- to_int b; Ok (VFloat (f_of_int O (op x y)))
       end.
Definition op_bor := int2 Z.lor.
Definition op_band := int2 Z.land.
Definition op_xor := int2 Z.lxor.

(* expr.go's stringLessInsensitive / stringEqualInsensitive (tolower on both sides) *)
Fixpoint str_less_nocase (a b : bytes) : bool :=
  match a, b with
  | x :: a', y :: b' =>
      let ca := lower x in let cb := lower y in
      if (ca <? cb)%N then true else if (cb <? ca)%N then false else str_less_nocase a' b'
  | _, _ => length a <? length b
  end.
Fixpoint str_eq_nocase_loop (a b : bytes) : bool :=
  match a, b with
  | x :: a', y :: b' => if negb (lower x =? lower y)%N then false else str_eq_nocase_loop a' b'
  | _, _ => true
  end.
Definition str_eq_nocase (a b : bytes) : bool :=
  if negb (length a =? length b) then false else str_eq_nocase_loop a b.

(* lt, with ctx.base.NoCase = true (exprPool.Get sets it) *)
Definition op_lt (a b : evalue) : res evalue :=
  if either_obj a b then do_op_other
  else match a, b with
       | VFloat x, VFloat y => Ok (VBool (f_lt O x y))
       | VInt x, VInt y => Ok (VBool (x <? y)%Z)
       | VUint x, VUint y => Ok (VBool (x <? y)%Z)
       | VStr x, VStr y => Ok (VBool (str_less_nocase x y))
       | _, _ => do x <- to_float a; do y <- to_float b; Ok (VBool (f_lt O x y))
       end.

Definition op_eq (a b : evalue) : res evalue :=
  if either_obj a b then do_op_other
  else match a, b with
       | VFloat x, VFloat y => Ok (VBool (f_eq O x y))
       | VInt x, VInt y => Ok (VBool (x =? y)%Z)
       | VUint x, VUint y => Ok (VBool (x =? y)%Z)
       | VStr x, VStr y => Ok (VBool (str_eq_nocase x y))
       | VBool x, VBool y => Ok (VBool (Bool.eqb x y))
       | VUndef, VUndef | VNull, VNull => Ok (VBool true)
       | _, _ =>
           if negb (same_kind a b) then
             do x <- to_float a; do y <- to_float b; Ok (VBool (f_eq O x y))   (* MARK: float equality *)
           else
             do t <- op_lt a b;
             do tb <- to_bool t;
             if tb then Ok (VBool false)
             else do t2 <- op_lt b a; do tb2 <- to_bool t2; Ok (VBool (negb tb2))
       end.

Definition op_lte (a b : evalue) : res evalue :=
  do t <- op_lt a b; do tb <- to_bool t; if tb then Ok t else op_eq a b.
Definition op_gt (a b : evalue) : res evalue := op_lt b a.
Definition op_gte (a b : evalue) : res evalue :=
  do t <- op_gt a b; do tb <- to_bool t; if tb then Ok t else op_eq a b.
Definition op_seq (a b : evalue) : res evalue :=
  if same_kind a b then op_eq a b else Ok (VBool false).
Definition op_neq (a b : evalue) : res evalue :=
  do v <- op_eq a b; do t <- to_bool v; Ok (VBool (negb t)).
Definition op_sneq (a b : evalue) : res evalue :=
  do v <- op_seq a b; do t <- to_bool v; Ok (VBool (negb t)).

Definition op_and (a b : evalue) : res evalue :=
  if either_obj a b then do_op_other
  else do x <- to_bool a; do y <- to_bool b; Ok (VBool (x && y)).
Definition op_or (a b : evalue) : res evalue :=
  if either_obj a b then do_op_other
  else do x <- to_bool a; do y <- to_bool b; Ok (VBool (x || y)).
Definition op_coalesce (a b : evalue) : res evalue :=
  if either_obj a b then do_op_other
  else match a with VUndef | VNull => Ok b | _ => Ok a end.

(* ------------------------------------------------------------------ number literals *)

(* the fast path of expr.go's parseFloat: Some n = all digits (after an optional '-'), as an
   integer; the float64 accumulation n = n*10 + d is exact below 10^15 < 2^53 *)
Fixpoint all_digits_val (s : bytes) (n : Z) : option Z :=
  match s with
  | [] => Some n
  | c :: r => if isdigit c then all_digits_val r (n * 10 + (Z.of_N c - 48))%Z else None
  end.

(* parseFloat (expr.go): None = !ok *)
Definition expr_parse_float (s : bytes) : res (option F) :=
  let slow := opt_outside (f_parse O s) in
  if 15 <? length s then slow
  else
    let '(sign, body) := match s with c :: r => if (c =? 45)%N then (true, r) else (false, s) | [] => (false, s) end in
    match body with
    | [] => slow                                       (* i == len(s) *)
    | _ =>
        match all_digits_val body 0%Z with
        | None => slow
        | Some n =>
            if sign then Ok (Some (f_mul O (f_of_int O n) f_negone)) else Ok (Some (f_of_int O n))
        end
    end.

Definition has_suffix_64 (s : bytes) : bool :=
  match rev s with 52%N :: 54%N :: _ => true | _ => false end.

(* the arm  case '-', '.', '1' ... '9'  of evalAtom's first switch (also reached from '0' by
   fallthrough): the u64 / i64 suffixes, then parseFloat *)
Definition atom_number_generic (e : bytes) : res evalue :=
  do suffix <-
    (if (3 <? length e) && has_suffix_64 e then
       do k <- opt_panic (bat e (length e - 3));
       if (k =? 117)%N then
         do h <- opt_panic (slice e 0 (length e - 3));
         match parse_uint 10 h with PUok x => Ok (Some (VUint x)) | _ => Err ESyntax end
       else if (k =? 105)%N then
         do h <- opt_panic (slice e 0 (length e - 3));
         match parse_int10 h with PUok x => Ok (Some (VInt x)) | _ => Err ESyntax end
       else Ok None
     else Ok None);
  match suffix with
  | Some v => Ok v
  | None =>
      do r <- expr_parse_float e;
      match r with Some x => Ok (VFloat x) | None => Err ESyntax end
  end.

(* the numeric arms of evalAtom's first switch; expr is trimmed, non-empty and starts with one of
   0-9 - . *)
Definition atom_number (e : bytes) : res evalue :=
  do c0 <- opt_panic (bat e 0);
  if (c0 =? 48)%N then
    match bat e 1 with
    | Some c1 =>
        if ((c1 =? 120) || (c1 =? 88))%N then
          do h <- opt_panic (sfrom e 2);
          match parse_uint 16 h with PUok x => Ok (VFloat (f_of_int O x)) | _ => Err ESyntax end
        else atom_number_generic e
    | None => atom_number_generic e
    end
  else atom_number_generic e.

(* ------------------------------------------------------------------ the evaluator *)

(* result of an evaluation: the value and what was handed to ctx.iter on the way *)
Definition R := res (evalue * list evalue).
Definition ret (v : evalue) : R := Ok (v, []).
Definition rbind (r : R) (f : evalue -> R) : R :=
  do ve <- r; let '(v, em) := ve in
  do we <- f v; let '(w, em2) := we in
  Ok (w, em ++ em2).
Notation "'dor' x <- r ; k" := (rbind r (fun x => k)) (at level 200, x name, r at level 100, k at level 200).
Definition lift (r : res evalue) : R := do v <- r; ret v.

(* opSteps *)
Definition op_steps (c : N) : N :=
  (if c =? 44 then 2                         (* ,  stepComma *)
   else if c =? 63 then 4 + 8                (* ?  stepTerns | stepLogicalOR *)
   else if c =? 58 then 4                    (* :  stepTerns *)
   else if c =? 124 then 8 + 32              (* |  stepLogicalOR | stepBitwiseOR *)
   else if c =? 38 then 16 + 128             (* &  stepLogicalAND | stepBitwiseAND *)
   else if c =? 94 then 64                   (* ^  stepBitwiseXOR *)
   else if c =? 61 then 512 + 256            (* =  stepComps | stepEquality *)
   else if c =? 33 then 256                  (* !  stepEquality *)
   else if c =? 60 then 512                  (* <  stepComps *)
   else if c =? 62 then 512                  (* >  stepComps *)
   else if c =? 43 then 1024                 (* +  stepSums *)
   else if c =? 45 then 1024                 (* -  stepSums *)
   else if c =? 42 then 2048                 (* *  stepFacts *)
   else if c =? 47 then 2048                 (* /  stepFacts *)
   else if c =? 37 then 2048                 (* %  stepFacts *)
   else if c =? 126 then 256                 (* ~  stepEquality *)
   else 0)%N.

Definition steps_of (e : bytes) : N := fold_left (fun acc c => N.lor acc (op_steps c)) e 0%N.

(* precedence levels, numbered by the number of levels that remain: evalAuto(step) with
   step = 1 << (12 - n);  11 comma, 10 terns, 9 logical or, 8 logical and, 7 bit or, 6 bit xor,
   5 bit and, 4 equality, 3 comparisons, 2 sums, 1 factors, 0 atom *)
Definition step_bit (n : nat) : N := N.shiftl 1 (N.of_nat (12 - n)).
Definition has_step (steps : N) (n : nat) : bool := (N.land steps (step_bit n) =? step_bit n)%N.

Inductive action := ANone | ASkip1 | ASplit (opch : N) (opsz : nat).

(* what the switch of the scanning loop of level n does on the byte c = expr[i] when c is not one
   of the five group openers (levels 9, 8, 7, 6, 5, 4, 3, 1: evalLogicalOR ... evalFacts) *)
Definition recog (n : nat) (e : bytes) (i : nat) (c : N) : res action :=
  let len := length e in
  match n with
  | 1 => (* evalFacts *)
      if ((c =? 42) || (c =? 47) || (c =? 37))%N then Ok (ASplit c 1) else Ok ANone
  | 3 => (* evalComps *)
      if ((c =? 60) || (c =? 62))%N then
        if i <? len - 1 then
          do c1 <- opt_panic (bat e (S i));
          if (c1 =? 61)%N then Ok (ASplit (c + 32)%N 2) else Ok (ASplit c 1)
        else Ok (ASplit c 1)
      else Ok ANone
  | 4 => (* evalEquality *)
      if (c =? 61)%N then
        do skip <- (if 0 <? i then
                      do p <- opt_panic (bat_pred e i); Ok ((p =? 62) || (p =? 60))%N
                    else Ok false);
        if skip then Ok ANone
        else if i =? len - 1 then Err ESyntax
        else
          do c1 <- opt_panic (bat e (S i));
          if negb (c1 =? 61)%N && negb (c1 =? 126)%N then Err ESyntax
          else if (c1 =? 126)%N then Ok (ASplit 126%N 2)
          else if i + 2 <? len then
            do c2 <- opt_panic (bat e (i + 2));
            if (c2 =? 61)%N then Ok (ASplit (c + 32)%N 3) else Ok (ASplit c 2)
          else Ok (ASplit c 2)
      else if (c =? 33)%N then
        if i =? len - 1 then Ok ANone
        else
          do c1 <- opt_panic (bat e (S i));
          if negb (c1 =? 61)%N then Ok ANone
          else if i + 2 <? len then
            do c2 <- opt_panic (bat e (i + 2));
            if (c2 =? 61)%N then Ok (ASplit (c + 32)%N 3) else Ok (ASplit c 2)
          else Ok (ASplit c 2)
      else Ok ANone
  | 5 => if (c =? 38)%N then Ok (ASplit c 1) else Ok ANone      (* evalBitwiseAND *)
  | 6 => if (c =? 94)%N then Ok (ASplit c 1) else Ok ANone      (* evalBitwiseXOR *)
  | 7 => if (c =? 124)%N then Ok (ASplit c 1) else Ok ANone     (* evalBitwiseOR *)
  | 8 => (* evalLogicalAND *)
      if (c =? 38)%N then
        if S i =? len then Err ESyntax
        else
          do c1 <- opt_panic (bat e (S i));
          if negb (c1 =? 38)%N then Ok ASkip1 else Ok (ASplit c 2)
      else Ok ANone
  | 9 => (* evalLogicalOR *)
      let pipe :=
        if S i =? len then Err ESyntax
        else
          do c1 <- opt_panic (bat e (S i));
          if negb (c1 =? c)%N then Ok ASkip1 else Ok (ASplit c 2) in
      if (c =? 63)%N then
        if S i <? len then
          do c1 <- opt_panic (bat e (S i));
          if (c1 =? 46)%N then Ok ASkip1 else pipe
        else pipe
      else if (c =? 124)%N then pipe
      else Ok ANone
  | _ => Ok ANone
  end.

(* the operator switch of fact / comp / equal / bitwise... / logical... after the rgt operand
   has been evaluated; op 0 = no operator yet *)
Definition apply_op (n : nat) (op : N) (lft rgt : evalue) : res evalue :=
  match n with
  | 1 => if (op =? 42)%N then op_mul lft rgt
         else if (op =? 47)%N then op_div lft rgt
         else if (op =? 37)%N then op_mod lft rgt else Ok rgt
  | 3 => if (op =? 60)%N then op_lt lft rgt
         else if (op =? 92)%N then op_lte lft rgt
         else if (op =? 62)%N then op_gt lft rgt
         else if (op =? 94)%N then op_gte lft rgt else Ok rgt
  | 4 => if (op =? 61)%N then op_eq lft rgt
         else if (op =? 33)%N then op_neq lft rgt
         else if (op =? 93)%N then op_seq lft rgt
         else if (op =? 65)%N then op_sneq lft rgt
         else if (op =? 126)%N then do_op_regex lft rgt else Ok rgt
  | 5 => if (op =? 38)%N then op_band lft rgt else Ok rgt
  | 6 => if (op =? 94)%N then op_xor lft rgt else Ok rgt
  | 7 => if (op =? 124)%N then op_bor lft rgt else Ok rgt
  | 8 => if (op =? 38)%N then op_and lft rgt else Ok rgt
  | 9 => if (op =? 124)%N then op_or lft rgt
         else if (op =? 63)%N then op_coalesce lft rgt else Ok rgt
  | _ => Ok rgt
  end.

(* equal()'s loop that strips leading '!' : (neg, boolit, rest) or a syntax error on "" *)
Fixpoint strip_bangs (fuel : nat) (e : bytes) (neg boolit : bool) : res (bool * bool * bytes) :=
  match fuel with
  | 0 => NoFuel
  | S fuel' =>
      match e with
      | [] => Err ESyntax
      | c :: r =>
          if negb (c =? 33)%N then Ok (neg, boolit, e)
          else strip_bangs fuel' (trim r) (negb neg) true
      end
  end.

Section Levels.
(* evalExpr on a strictly shorter string, with an evalContext whose steps / iter are given *)
Variable rec : N -> bool -> bytes -> R.
Variable steps : N.

(* EvalForEach(expr, iter, ctx.base) as called by multiExprsToArray: a fresh evalContext *)
Definition eval_for_each (it : bool) (e : bytes) : R :=
  let e := trim e in
  if length e =? 0 then ret VUndef
  else
    let st := steps_of e in
    let st := if it then N.lor st 2%N else st in
    rec st it e.

(* multiExprsToArray: the array of everything the iterator was given *)
Definition multi_exprs_to_array (e : bytes) : res (list bytes) :=
  do ve <- eval_for_each true e;
  let '(_, em) := ve in
  (fix strs (l : list evalue) : res (list bytes) :=
     match l with
     | [] => Ok []
     | v :: r => do s <- to_string v; do t <- strs r; Ok (s :: t)
     end) em.

(* the chain loop of evalAtom *)
Fixpoint atom_chain (fuel : nat) (it : bool) (e : bytes) (lft lftLft : evalue) (hasLeftLeft optChain : bool)
    : R :=
  match fuel with
  | 0 => NoFuel
  | S fuel' =>
      let e := trim e in
      match e with
      | [] => ret lft
      | c :: _ =>
          let member (e : bytes) (optChain : bool) : R :=
            (* case '.': expr = expr[1:] ... *)
            do e1 <- opt_panic (sfrom e 1);
            let e1 := trim e1 in
            match read_ident e1 with
            | None => Err ESyntax
            | Some ident =>
                do val <- get_ref_value true lft ident optChain;
                do e2 <- opt_panic (sfrom e1 (length ident));
                atom_chain fuel' it e2 val lft true optChain
            end in
          if (c =? 63)%N then
            (* if len(expr) == 1 || expr[1] != '.' *)
            if length e =? 1 then Err ESyntax
            else
              do c1 <- opt_panic (bat e 1);
              if negb (c1 =? 46)%N then Err ESyntax
              else do e1 <- opt_panic (sfrom e 1); member e1 true
          else if (c =? 46)%N then member e optChain
          else if ((c =? 40) || (c =? 91))%N then
            do g <- read_group e;
            do g0 <- opt_panic (bat g 0);
            do inner <- group_inner g;
            do rest <- opt_panic (sfrom e (length g));
            if (g0 =? 40)%N then
              match lft with
              | VFunc fname =>
                  do args <- multi_exprs_to_array inner;
                  do val <- ext_call hasLeftLeft lftLft fname args;
                  atom_chain fuel' it rest val lft true optChain
              | _ => Err EOther      (* Uncaught TypeError: ... is not a function *)
              end
            else
              dor last <- rec steps it inner;
              do ident <- to_string last;
              do val <- get_ref_value true lft ident optChain;
              atom_chain fuel' it rest val lft true optChain
          else Err ESyntax
      end
  end.

Definition kw_new : bytes := [110; 101; 119]%N.
Definition kw_typeof : bytes := [116; 121; 112; 101; 111; 102]%N.
Definition kw_void : bytes := [118; 111; 105; 100]%N.
Definition kw_await : bytes := [97; 119; 97; 105; 116]%N.
Definition kw_in : bytes := [105; 110]%N.
Definition kw_instanceof : bytes := [105; 110; 115; 116; 97; 110; 99; 101; 111; 102]%N.
Definition kw_yield : bytes := [121; 105; 101; 108; 100]%N.

(* evalAtom *)
Definition eval_atom (it : bool) (e : bytes) : R :=
  let e := trim e in
  match e with
  | [] => Err ESyntax
  | c :: _ =>
      let chain (lft : evalue) (rest : bytes) : R :=
        atom_chain (S (length rest)) it rest lft VUndef false false in
      if (c =? 48)%N || (c =? 45)%N || (c =? 46)%N || ((49 <=? c) && (c <=? 57))%N then lift (atom_number e)
      else if ((c =? 34) || (c =? 39))%N then
        do p <- parse_string e;
        match p with
        | None => Err ESyntax
        | Some (s, rawlen) => do rest <- opt_panic (sfrom e rawlen); chain (VStr s) rest
        end
      else if ((c =? 40) || (c =? 123) || (c =? 91))%N then
        do g <- read_group e;
        do g0 <- opt_panic (bat g 0);
        if (g0 =? 40)%N then
          do inner <- group_inner g;
          dor lft <- rec steps it inner;
          do rest <- opt_panic (sfrom e (length g));
          chain lft rest
        else if (g0 =? 91)%N then
          do inner <- group_inner g;
          do items <- multi_exprs_to_array inner;
          do rest <- opt_panic (sfrom e (length g));
          chain (VArr items) rest
        else Err ESyntax
      else
        match read_ident e with
        | None => Err ESyntax
        | Some ident =>
            do lft <-
              (if bytes_eqb ident kw_new || bytes_eqb ident kw_typeof || bytes_eqb ident kw_void
                  || bytes_eqb ident kw_await || bytes_eqb ident kw_in || bytes_eqb ident kw_instanceof
                  || bytes_eqb ident kw_yield then Err ESyntax
               else if bytes_eqb ident s_true then Ok (VBool true)
               else if bytes_eqb ident s_false then Ok (VBool false)
               else if bytes_eqb ident s_NaN then Ok (VFloat (f_nan O))
               else if bytes_eqb ident s_Infinity then Ok (VFloat (f_inf O))
               else if bytes_eqb ident s_undefined then Ok VUndef
               else if bytes_eqb ident s_null then Ok VNull
               else get_ref_value false VUndef ident false);
            do rest <- opt_panic (sfrom e (length ident));
            chain lft rest
        end
  end.

(* one generic operand function for fact / comp / bitwise... / logical...: trim, "" is a syntax
   error, evaluate with the next level, apply the pending operator.  equal() (n = 4) first strips
   the '!' prefixes. *)
Definition operand (n : nat) (next : bool -> bytes -> R) (it : bool) (lft : evalue) (op : N) (e : bytes) : R :=
  let e := trim e in
  if n =? 4 then
    do st <- strip_bangs (S (length e)) e false false;
    let '(neg, boolit, e') := st in
    dor rgt <- next it e';
    do rgt' <-
      (if boolit then
         do b <- (match rgt with VBool b => Ok b | _ => to_bool rgt end);
         Ok (VBool (if neg then negb b else b))
       else Ok rgt);
    lift (apply_op n op lft rgt')
  else
    match e with
    | [] => Err ESyntax
    | _ => dor rgt <- next it e; lift (apply_op n op lft rgt)
    end.

(* the scanning loop shared by evalFacts, evalComps, evalEquality, evalBitwiseXOR/OR/AND,
   evalLogicalAND/OR.  [em] collects what earlier operands emitted. *)
Fixpoint scan_level (n : nat) (next : bool -> bytes -> R) (it : bool) (e : bytes)
    (fuel i s : nat) (lft : evalue) (op : N) (em : list evalue) : R :=
  match fuel with
  | 0 => NoFuel
  | S fuel' =>
      match bat e i with
      | None =>
          do seg <- opt_panic (sfrom e s);
          do ve <- operand n next it lft op seg;
          let '(v, em2) := ve in Ok (v, em ++ em2)
      | Some c =>
          if is_opener c then
            do t <- opt_panic (sfrom e i);
            do g <- read_group t;
            scan_level n next it e fuel' (S (i + length g - 1)) s lft op em
          else
            do a <- recog n e i c;
            match a with
            | ANone => scan_level n next it e fuel' (S i) s lft op em
            | ASkip1 => scan_level n next it e fuel' (S (S i)) s lft op em
            | ASplit opch opsz =>
                do seg <- opt_panic (slice e s i);
                do ve <- operand n next it lft op seg;
                let '(v, em2) := ve in
                let i' := i + opsz - 1 in
                scan_level n next it e fuel' (S i') (S i') v opch (em ++ em2)
            end
      end
  end.

(* sum() *)
Definition sum_operand (next : bool -> bytes -> R) (it : bool) (lft : evalue) (op : N) (e : bytes) (neg : bool) : R :=
  let e := trim e in
  match e with
  | [] => Err ESyntax
  | _ =>
      dor rgt <- next it e;
      do rgt' <- (if neg then op_mul rgt (VFloat f_negone) else Ok rgt);
      if (op =? 43)%N then lift (op_add lft rgt')
      else if (op =? 45)%N then lift (op_sub lft rgt')
      else ret rgt'
  end.

(* if neg { if s > 0 && s < len(expr) && expr[s-1] == '-' && expr[s] >= '0' && expr[s] <= '9' { s--; neg = false } } *)
Definition sums_adjust (e : bytes) (s : nat) (neg : bool) : res (nat * bool) :=
  if neg then
    if (0 <? s) && (s <? length e) then
      do p <- opt_panic (bat_pred e s);
      do c <- opt_panic (bat e s);
      if (p =? 45)%N && isdigit c then Ok (s - 1, false) else Ok (s, neg)
    else Ok (s, neg)
  else Ok (s, neg).

(* evalSums *)
Fixpoint scan_sums (next : bool -> bytes -> R) (it : bool) (e : bytes)
    (fuel i s : nat) (lft : evalue) (op : N) (fill neg : bool) (em : list evalue) : R :=
  match fuel with
  | 0 => NoFuel
  | S fuel' =>
      match bat e i with
      | None =>
          do sn <- sums_adjust e s neg;
          let '(s, neg) := sn in
          do seg <- opt_panic (sfrom e s);
          do ve <- sum_operand next it lft op seg neg;
          let '(v, em2) := ve in Ok (v, em ++ em2)
      | Some c =>
          if ((c =? 45) || (c =? 43))%N then
            if negb fill then
              do dup <- (if 0 <? i then do p <- opt_panic (bat_pred e i); Ok (p =? c)%N else Ok false);
              if dup then Err ESyntax
              else scan_sums next it e fuel' (S i) (S i) lft op fill (if (c =? 45)%N then negb neg else neg) em
            else
              do sci <- (if 0 <? i then do p <- opt_panic (bat_pred e i); Ok ((p =? 101) || (p =? 69))%N else Ok false);
              if sci then scan_sums next it e fuel' (S i) s lft op fill neg em
              else
                do sn <- sums_adjust e s neg;
                let '(s, neg) := sn in
                do seg <- opt_panic (slice e s i);
                do ve <- sum_operand next it lft op seg neg;
                let '(v, em2) := ve in
                scan_sums next it e fuel' (S i) (S i) v c false false (em ++ em2)
          else if is_opener c then
            do t <- opt_panic (sfrom e i);
            do g <- read_group t;
            scan_sums next it e fuel' (S (i + length g - 1)) s lft op true neg em
          else
            scan_sums next it e fuel' (S i) s lft op (if negb fill && negb (isspace c) then true else fill) neg em
      end
  end.

(* evalTerns *)
Fixpoint scan_terns (next : bool -> bytes -> R) (it : bool) (e : bytes)
    (fuel i s : nat) (cond : bytes) (depth : Z) : R :=
  match fuel with
  | 0 => NoFuel
  | S fuel' =>
      match bat e i with
      | None => if (depth =? 0)%Z then next it e else Err ESyntax
      | Some c =>
          if (c =? 63)%N then
            do skip <- (if S i <? length e then
                          do c1 <- opt_panic (bat e (S i)); Ok ((c1 =? 63) || (c1 =? 46))%N
                        else Ok false);
            if skip then scan_terns next it e fuel' (S (S i)) s cond depth
            else if (depth =? 0)%Z then
              do cnd <- opt_panic (slice e 0 i);
              scan_terns next it e fuel' (S i) (S i) cnd (depth + 1)%Z
            else scan_terns next it e fuel' (S i) s cond (depth + 1)%Z
          else if (c =? 58)%N then
            if (depth - 1 =? 0)%Z then
              do l <- opt_panic (slice e s i);
              do r <- opt_panic (sfrom e (S i));
              dor cv <- rec steps it cond;
              do t <- to_bool cv;
              if t then rec steps it l else rec steps it r
            else scan_terns next it e fuel' (S i) s cond (depth - 1)%Z
          else if is_opener c then
            do t <- opt_panic (sfrom e i);
            do g <- read_group t;
            scan_terns next it e fuel' (S (i + length g - 1)) s cond depth
          else scan_terns next it e fuel' (S i) s cond depth
      end
  end.

(* evalComma: a piece that is not the last one runs with ctx.iter = nil; if there is an iterator
   the value of every piece is handed to it *)
Fixpoint scan_comma (next : bool -> bytes -> R) (it : bool) (e : bytes)
    (fuel i s : nat) (em : list evalue) : R :=
  match fuel with
  | 0 => NoFuel
  | S fuel' =>
      match bat e i with
      | None =>
          do seg <- opt_panic (sfrom e s);
          do ve <- next it seg;
          let '(v, em2) := ve in
          Ok (v, em ++ em2 ++ (if it then [v] else []))
      | Some c =>
          if (c =? 44)%N then
            do seg <- opt_panic (slice e s i);
            do ve <- next false seg;
            let '(v, em2) := ve in
            scan_comma next it e fuel' (S i) (S i) (em ++ em2 ++ (if it then [v] else []))
          else if is_opener c then
            do t <- opt_panic (sfrom e i);
            do g <- read_group t;
            scan_comma next it e fuel' (S (i + length g - 1)) s em
          else scan_comma next it e fuel' (S i) s em
      end
  end.

(* the eval... function of level n >= 1, given evalAuto of the level below *)
Definition level_scan (n : nat) (next : bool -> bytes -> R) (it : bool) (e : bytes) : R :=
  let fuel := S (length e) in
  match n with
  | 11 => scan_comma next it e fuel 0 0 []
  | 10 => scan_terns next it e fuel 0 0 [] 0%Z
  | 2 => scan_sums next it e fuel 0 0 VUndef 0%N false false []
  | _ => scan_level n next it e fuel 0 0 VUndef 0%N []
  end.

(* evalAuto(1 << (12 - n), expr, ctx): the first level at or below n whose bit is in ctx.steps *)
Fixpoint eval_auto (n : nat) (it : bool) (e : bytes) : R :=
  match n with
  | 0 => eval_atom it e
  | S m =>
      if has_step steps n then level_scan n (eval_auto m) it e
      else eval_auto m it e
  end.

End Levels.

(* evalExpr = evalAuto(stepComma, ...); the recursion through groups is on shorter strings *)
Fixpoint eval_expr (depth : nat) (steps : N) (it : bool) (e : bytes) : R :=
  match depth with
  | 0 => NoFuel
  | S d => eval_auto (eval_expr d) steps 11 it e
  end.

(* expr.Eval(expr, ctx) = EvalForEach(expr, nil, ctx) *)
Definition eval (e : bytes) : res evalue :=
  do ve <- eval_for_each (eval_expr (S (length e))) false e;
  Ok (fst ve).

(* whereT.matchExpr: res, err := expr.Eval(...); return res.Bool()  (res is Undefined on error) *)
Definition match_expr (e : bytes) : res bool :=
  match eval e with
  | Ok v => to_bool v
  | Err _ => Ok false
  | Panic => Panic | NoFuel => NoFuel | Outside => Outside
  end.

End WX.

(* ------------------------------------------------------------------ token.go *)

(* detectExprToken(vs): vs are the tokens after WHERE *)
Definition detect_expr_token (vs : list bytes) : res bool :=
  match vs with
  | [] => Ok false
  | [_] => Ok true
  | _ :: v :: _ =>
      match v with
      | [] => Ok true                                   (* len(vs[1]) == 0 *)
      | v0 :: _ =>
          if (((97 <=? v0) && (v0 <=? 122)) || ((65 <=? v0) && (v0 <=? 90)))%N then
            if ((v0 =? 105) || (v0 =? 73))%N && bytes_eqb (map lower v) [105; 110; 102]%N then Ok false
            else Ok true
          else Ok false
      end
  end.
