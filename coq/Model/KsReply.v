(* C17 (on C01's keyspace model) — the reply of every keyspace command in BOTH output modes.
   Executable, no proofs.

   internal/server crud.go / keys.go / json.go / server.go build, for one handler outcome, a RESP
   value and a JSON document side by side (`switch msg.OutputType` in every handler, nada() of
   cmdSET, the `if msg.OutputType == RESP { return resp.NullValue() } return retrerr(errKeyNotFound)`
   pairs, buildObjectResponse, writeErr).  Here the handler outcome is the abstract result [kres];

     resp_reply : kres -> reply                     the RESP arm (C01's reply type, Model/Spec.v)
     json_tree  : kres -> bytes -> jv               the JSON arm as a document tree (second argument: elapsed)
     json_doc   : bytes -> kres -> bytes -> option bytes
                                                    the JSON arm as the bytes written: an instantiation
                                                    ([tfill]) of the reply template REGENERATED from the
                                                    handler's source (coq/Gen/Templates.v, looked up by the
                                                    name of the function that writes it), so literals are
                                                    not re-typed here
     conveys_resp / conveys_json                    what a client that knows which command it sent reads
                                                    back from either reply ([conv])
     exec_k                                         one keyspace step with its abstract result: C01's
                                                    [dispatch] / [run_req] (state, log) + the result
                                                    classification [kres_of] that mirrors the handlers'
                                                    response phase.

   String encoders: jsonString (fast path or json.Marshal) for error texts, ids, TYPE, JGET values and
   field names; json.Marshal (always the escaped form, [marshal_string]) for KEYS and for string
   objects (collection.String.AppendJSON); gjson.AppendJSONString for string field values, which is
   byte for byte Go's escaping (control bytes, quote, backslash, < > &, U+2028/9, invalid UTF-8 ->
   �, lower-case hex) and is modelled by [marshal_string] too.
   Floats: RESP prints strconv.FormatFloat(f,'f',-1,64); JSON prints appendJSONFloat = the same text,
   or null for NaN / +Inf / -Inf ([jf]).  A spatial object's String() is string(AppendJSON(nil)) in
   every geojson type, so the JSON object member is the RESP text itself. *)
From Coq Require Import String.
From T38 Require Import Base.Bytes Base.Utf8 Base.SMap Model.Field Model.Object Model.Cursor Model.Spec Model.Glob Model.Keyspace.
From T38 Require Import Model.Json Model.Templates.
From T38 Require Model.RespOut.
From T38 Require Gen.Templates.
Local Open Scope N_scope.

(* ======================================================================================== *)
(* 1. instantiating a regenerated template *)

Inductive fill :=
| FStr (s : bytes)       (* HStr  <- jsonString s *)
| FInt (z : Z)           (* HInt  <- strconv.Itoa z *)
| FBool (b : bool)       (* HBool <- strconv.FormatBool b *)
| FSafe (t : bytes)      (* HDur / HRaw <- the text (inside a string literal) *)
| FJson (t : bytes)      (* HJson <- the text of one JSON value *)
| FL | FR                (* Alt: which branch *)
| FRep (n : nat).        (* Star: how many iterations *)

Definition t_true : bytes := [116; 114; 117; 101].
Definition t_false : bytes := [102; 97; 108; 115; 101].
Definition t_null : bytes := [110; 117; 108; 108].

(* Star: n iterations of the body *)
Fixpoint rep_fill (f : list fill -> option (bytes * list fill)) (n : nat) (fs : list fill) : option (bytes * list fill) :=
  match n with
  | O => Some ([], fs)
  | S n' =>
      match f fs with
      | Some (x, r1) => match rep_fill f n' r1 with Some (y, r2) => Some (x ++ y, r2) | None => None end
      | None => None
      end
  end.

(* left to right through the template, consuming one fill per hole / branch / loop *)
Fixpoint tfill (t : tmpl) (fs : list fill) : option (bytes * list fill) :=
  match t with
  | Lit s => Some (s, fs)
  | HStr => match fs with FStr s :: r => Some (json_string s, r) | _ => None end
  | HInt => match fs with FInt z :: r => Some (RespOut.print_int z, r) | _ => None end
  | HBool => match fs with FBool b :: r => Some ((if b then t_true else t_false), r) | _ => None end
  | HFloat => None
  | HDur | HRaw => match fs with FSafe x :: r => Some (x, r) | _ => None end
  | HJson => match fs with FJson x :: r => Some (x, r) | _ => None end
  | Seq a b =>
      match tfill a fs with
      | Some (x, r) => match tfill b r with Some (y, r') => Some (x ++ y, r') | None => None end
      | None => None
      end
  | Alt a b => match fs with FL :: r => tfill a r | FR :: r => tfill b r | _ => None end
  | Star a => match fs with FRep n :: r => rep_fill (tfill a) n r | _ => None end
  end.

(* the whole template, every fill used *)
Definition tinst (t : tmpl) (fs : list fill) : option bytes :=
  match tfill t fs with Some (v, []) => Some v | _ => None end.

Fixpoint lookup_named (n : bytes) (names : list bytes) (ts : list tmpl) : option tmpl :=
  match names, ts with
  | k :: names', t :: ts' => if bytes_eqb n k then Some t else lookup_named n names' ts'
  | _, _ => None
  end.

(* the reply document written by the function called n / the value helper called n *)
Definition doc_template (n : bytes) : option tmpl :=
  lookup_named n Gen.Templates.template_names Gen.Templates.templates.
Definition value_template (n : bytes) : option tmpl :=
  lookup_named n Gen.Templates.value_template_names Gen.Templates.value_templates.

Definition n_handleInputCommand : bytes := Eval compute in bs "handleInputCommand".

(* writeErr: the document of handleInputCommand that starts with {"ok":false *)
Fixpoint find_err_template (names : list bytes) (ts : list tmpl) : option tmpl :=
  match names, ts with
  | k :: names', t :: ts' =>
      if bytes_eqb k n_handleInputCommand &&
         (match tmpl_head t with Some s => hasPrefixb ok_false_prefix s | None => false end)
      then Some t else find_err_template names' ts'
  | _, _ => None
  end.
Definition err_template : option tmpl := find_err_template Gen.Templates.template_names Gen.Templates.templates.

(* handler functions whose templates are used *)
Definition h_set : bytes := Eval compute in bs "cmdSET".
Definition h_fset : bytes := Eval compute in bs "cmdFSET".
Definition h_del : bytes := Eval compute in bs "cmdDEL".
Definition h_pdel : bytes := Eval compute in bs "cmdPDEL".
Definition h_drop : bytes := Eval compute in bs "cmdDROP".
Definition h_rename : bytes := Eval compute in bs "cmdRENAME".
Definition h_flushdb : bytes := Eval compute in bs "cmdFLUSHDB".
Definition h_expire : bytes := Eval compute in bs "cmdEXPIRE".
Definition h_persist : bytes := Eval compute in bs "cmdPERSIST".
Definition h_jset : bytes := Eval compute in bs "cmdJset:buf".
Definition h_jdel : bytes := Eval compute in bs "cmdJdel:buf".
Definition h_bor : bytes := Eval compute in bs "buildObjectResponse:buf".
Definition h_fget : bytes := Eval compute in bs "cmdFGET:buf".
Definition h_exists : bytes := Eval compute in bs "cmdEXISTS".
Definition h_fexists : bytes := Eval compute in bs "cmdFEXISTS".
Definition h_ttl : bytes := Eval compute in bs "cmdTTL".
Definition h_type : bytes := Eval compute in bs "cmdTYPE".
Definition h_keys : bytes := Eval compute in bs "cmdKEYS".
Definition h_jget : bytes := Eval compute in bs "cmdJget:buf".
Definition h_simple_point : bytes := Eval compute in bs "appendJSONSimplePoint".
Definition h_simple_bounds : bytes := Eval compute in bs "appendJSONSimpleBounds".

(* the handlers whose success document is {"ok":true,"elapsed":"..."} and nothing else *)
Definition plain_handlers : list bytes :=
  [h_set; h_fset; h_del; h_pdel; h_drop; h_rename; h_flushdb; h_expire; h_persist; h_jset; h_jdel].

(* ======================================================================================== *)
(* 2. JSON documents as trees, and their (compact) printing *)

Inductive jv :=
| VStr (s : bytes)        (* a string written by jsonString / appendJSONString *)
| VMStr (s : bytes)       (* a string written by json.Marshal / gjson.AppendJSONString *)
| VRawStr (s : bytes)     (* a string written as "s" verbatim (geohash, elapsed, NaN / +Inf / -Inf fields) *)
| VTok (t : bytes)        (* the text of a JSON value written as it is: numbers, true / false / null,
                             geometry JSON, JSON-valued fields *)
| VArr (l : list jv)
| VObj (m : list (bytes * jv)).   (* member names are written by jsonString *)

Fixpoint jprint (j : jv) : bytes :=
  match j with
  | VStr s => json_string s
  | VMStr s => marshal_string s
  | VRawStr s => 34 :: s ++ [34]
  | VTok t => t
  | VArr l =>
      91 :: (fix go (first : bool) (l : list jv) : bytes :=
               match l with
               | [] => []
               | x :: r => (if first then [] else [44]) ++ jprint x ++ go false r
               end) true l ++ [93]
  | VObj m =>
      123 :: (fix go (first : bool) (m : list (bytes * jv)) : bytes :=
                match m with
                | [] => []
                | p :: r => (if first then [] else [44]) ++ json_string (fst p) ++ 58 :: jprint (snd p) ++ go false r
                end) true m ++ [125]
  end.

Fixpoint vget (k : bytes) (m : list (bytes * jv)) : option jv :=
  match m with
  | [] => None
  | p :: r => if bytes_eqb k (fst p) then Some (snd p) else vget k r
  end.

(* the content of a printed scalar: decoded string or token text *)
Definition vdata (j : jv) : option bytes :=
  match j with
  | VStr s | VMStr s | VRawStr s | VTok s => Some s
  | _ => None
  end.

Definition k_ok : bytes := Eval compute in bs "ok".
Definition k_err : bytes := Eval compute in bs "err".
Definition k_elapsed : bytes := Eval compute in bs "elapsed".
Definition k_object : bytes := Eval compute in bs "object".
Definition k_point : bytes := Eval compute in bs "point".
Definition k_hash : bytes := Eval compute in bs "hash".
Definition k_bounds : bytes := Eval compute in bs "bounds".
Definition k_fields : bytes := Eval compute in bs "fields".
Definition k_value : bytes := Eval compute in bs "value".
Definition k_exists : bytes := Eval compute in bs "exists".
Definition k_ttl : bytes := Eval compute in bs "ttl".
Definition k_type : bytes := Eval compute in bs "type".
Definition k_keys : bytes := Eval compute in bs "keys".
Definition k_lat : bytes := Eval compute in bs "lat".
Definition k_lon : bytes := Eval compute in bs "lon".
Definition k_z : bytes := Eval compute in bs "z".
Definition k_sw : bytes := Eval compute in bs "sw".
Definition k_ne : bytes := Eval compute in bs "ne".

(* ======================================================================================== *)
(* 3. printed values *)

Definition str_NaN : bytes := Eval compute in bs "NaN".
Definition str_pInf : bytes := Eval compute in bs "+Inf".
Definition str_nInf : bytes := Eval compute in bs "-Inf".
Definition is_nonfinite (t : bytes) : bool :=
  bytes_eqb t str_NaN || bytes_eqb t str_pInf || bytes_eqb t str_nInf.

(* the output language of strconv.FormatFloat(f, 'f', -1, 64) for a finite f:
   an optional minus sign, then 0 or a digit string without leading zero, then optionally a dot
   and at least one digit (the 'f' format never uses an exponent) *)
Definition is_dec_text (v : bytes) : bool :=
  let u := match v with c :: r => if c =? 45 then r else v | [] => v end in
  match split_dot u with
  | None => is_nat_text u
  | Some (i, f) => is_nat_text i && nonempty f && forallb Json.is_digit f
  end.
Definition float_text (t : bytes) : bool := is_nonfinite t || is_dec_text t.

(* appendJSONFloat applied to the float whose FormatFloat(f,'f',-1,64) text is t *)
Definition jf (t : bytes) : bytes := if is_nonfinite t then t_null else t.

(* field.Value.JSON() *)
Definition value_jv (v : value) : jv :=
  if v_kind v =? KNumber then (if is_nonfinite (v_data v) then VRawStr (v_data v) else VTok (v_data v))
  else if v_kind v =? KString then VMStr (v_data v)
  else if v_kind v =? KTrue then VTok t_true
  else if v_kind v =? KFalse then VTok t_false
  else if v_kind v =? KNull then (if isempty (v_data v) then VTok str_0 else VTok t_null)
  else if v_kind v =? KJSON then VTok (v_data v)
  else VTok str_0.

Definition value_json (v : value) : bytes := jprint (value_jv v).

(* o.Geo().AppendJSON(nil) *)
Definition obj_jv (g : geo) : jv := if g_spatial g then VTok (g_text g) else VMStr (g_text g).

(* appendJSONSimplePoint / appendJSONSimpleBounds as trees (coordinates as FormatFloat texts) *)
Definition point_jv (cs : list bytes) : jv :=
  match cs with
  | [lat; lon] => VObj [(k_lat, VTok (jf lat)); (k_lon, VTok (jf lon))]
  | [lat; lon; z] => VObj [(k_lat, VTok (jf lat)); (k_lon, VTok (jf lon)); (k_z, VTok (jf z))]
  | _ => VTok []
  end.

Definition bounds_jv (cs : list bytes) : jv :=
  match cs with
  | [a; b; c; d] =>
      VObj [(k_sw, VObj [(k_lat, VTok (jf a)); (k_lon, VTok (jf b))]);
            (k_ne, VObj [(k_lat, VTok (jf c)); (k_lon, VTok (jf d))])]
  | _ => VTok []
  end.

(* ... and as instances of the regenerated value templates *)
Definition point_doc (cs : list bytes) : option bytes :=
  match value_template h_simple_point, cs with
  | Some t, [lat; lon] => tinst t [FJson (jf lat); FJson (jf lon); FR]
  | Some t, [lat; lon; z] => tinst t [FJson (jf lat); FJson (jf lon); FL; FJson (jf z)]
  | _, _ => None
  end.

Definition bounds_doc (cs : list bytes) : option bytes :=
  match value_template h_simple_bounds, cs with
  | Some t, [a; b; c; d] => tinst t [FJson (jf a); FJson (jf b); FJson (jf c); FJson (jf d)]
  | _, _ => None
  end.

(* ======================================================================================== *)
(* 4. the abstract result of a keyspace command, and its two renderings *)

Inductive miss := MissKey | MissId.

(* the object part of buildObjectResponse, by kind *)
Inductive geoview :=
| GVObject (g : geo)             (* "object": o.Geo().String() / AppendJSON *)
| GVPoint (cs : list bytes)      (* "point": lat lon [z], z only when non-zero (both modes test z != 0) *)
| GVBounds (cs : list bytes)     (* "bounds": minlat minlon maxlat maxlon *)
| GVHash (h : bytes).            (* "hash": geohash of the centre *)

Inductive kres :=
| KErr (cmd msg : bytes)                   (* an error in both modes: writeErr(msg) for the dispatched command cmd *)
| KOk                                       (* +OK | {"ok":true}: SET, RENAME, FLUSHDB, JSET, JDEL on a geometry *)
| KInt (n : Z)                              (* :n  | {"ok":true}: DEL, PDEL, DROP, RENAMENX, FSET, EXPIRE, PERSIST, JDEL *)
| KNada (nx : bool)                         (* SET NX / XX not applied: nil | err "id already exists" / "id not found" *)
| KMiss (rf : reply) (m : miss)             (* missing key / id: rf (nil, :0, :-2, +none) | err "key not found" / "id not found" *)
| KNoPath                                   (* JDEL, nothing deleted: :0 | err "path not found" *)
| KObject (gv : geoview) (fields : option flist)  (* GET, SET / FSET .. RETURN; Some = WITHFIELDS *)
| KValue (v : value)                        (* FGET *)
| KExists (b : bool)                        (* EXISTS, FEXISTS *)
| KTtl (n : Z)
| KType (t : bytes)
| KKeys (l : list bytes)
| KJget (v : option bytes).                 (* JGET: the path's value, or res.Exists() = false *)

Definition err_id_exists : bytes := Eval compute in bs "id already exists".

Definition miss_msg (m : miss) : bytes :=
  match m with MissKey => err_key_not_found | MissId => err_id_not_found end.

(* ---------- RESP arm (before resp.Value.MarshalRESP) ---------- *)

Definition geoview_reply (gv : geoview) : reply :=
  match gv with
  | GVObject g => RBulk (g_text g)
  | GVPoint cs => RArr (map RBulk cs)
  | GVBounds cs => bounds_reply cs
  | GVHash h => RBulk h
  end.

Definition resp_reply (k : kres) : reply :=
  match k with
  | KErr cmd msg => RErr (write_err cmd msg)
  | KOk => ROk str_OK
  | KInt n => RInt n
  | KNada _ => RNil
  | KMiss rf _ => rf
  | KNoPath => RInt 0
  | KObject gv fo =>
      let v0 := geoview_reply gv in
      match fo with
      | Some fs => RArr (v0 :: match fs with [] => [] | _ => [RArr (fields_reply fs)] end)
      | None => v0
      end
  | KValue v => RBulk (v_data v)
  | KExists b => bool_reply b
  | KTtl n => RInt n
  | KType t => ROk t
  | KKeys l => RArr (map RBulk l)
  | KJget (Some v) => RBulk v
  | KJget None => RNil
  end.

(* the value handed to MarshalRESP (Model/RespOut.v); None for shapes outside the model *)
Fixpoint rval_of (r : reply) : option RespOut.rval :=
  match r with
  | RInt n => Some (RespOut.RInt n)
  | RBulk b => Some (RespOut.RBulk b)
  | RNil => Some RespOut.RNull
  | RArr l =>
      match (fix all (l : list reply) : option (list RespOut.rval) :=
               match l with
               | [] => Some []
               | x :: r => match rval_of x, all r with Some v, Some vs => Some (v :: vs) | _, _ => None end
               end) l with
      | Some vs => Some (RespOut.RArr vs)
      | None => None
      end
  | RErr line => Some (RespOut.RErr line)
  | ROk s => Some (RespOut.RSimple s)
  | RUnmodelled => None
  end.

(* ---------- JSON arm, as a tree ---------- *)

Definition jv_ok (b : bool) : bytes * jv := (k_ok, VTok (if b then t_true else t_false)).
Definition jv_elapsed (d : bytes) : bytes * jv := (k_elapsed, VRawStr d).

Definition jv_error (msg d : bytes) : jv := VObj [jv_ok false; (k_err, VStr msg); jv_elapsed d].

Definition geo_member (gv : geoview) : bytes * jv :=
  match gv with
  | GVObject g => (k_object, obj_jv g)
  | GVPoint cs => (k_point, point_jv cs)
  | GVBounds cs => (k_bounds, bounds_jv cs)
  | GVHash h => (k_hash, VRawStr h)
  end.

Definition fields_member (fo : option flist) : list (bytes * jv) :=
  match fo with
  | Some (f :: r) => [(k_fields, VObj (map (fun f => (fst f, value_jv (snd f))) (f :: r)))]
  | _ => []
  end.

Definition json_tree (k : kres) (d : bytes) : jv :=
  match k with
  | KErr _ msg => jv_error msg d
  | KOk | KInt _ => VObj [jv_ok true; jv_elapsed d]
  | KNada nx => jv_error (if nx then err_id_exists else err_id_not_found) d
  | KMiss _ m => jv_error (miss_msg m) d
  | KNoPath => jv_error err_path_not_found d
  | KObject gv fo => VObj ([jv_ok true; geo_member gv] ++ fields_member fo ++ [jv_elapsed d])
  | KValue v => VObj [jv_ok true; (k_value, value_jv v); jv_elapsed d]
  | KExists b => VObj [jv_ok true; (k_exists, VTok (if b then t_true else t_false)); jv_elapsed d]
  | KTtl n => VObj [jv_ok true; (k_ttl, VTok (RespOut.print_int n)); jv_elapsed d]
  | KType t => VObj [jv_ok true; (k_type, VStr t); jv_elapsed d]
  | KKeys l => VObj [jv_ok true; (k_keys, VArr (map VMStr l)); jv_elapsed d]
  | KJget (Some v) => VObj [jv_ok true; (k_value, VStr v); jv_elapsed d]
  | KJget None => VObj [jv_ok true; jv_elapsed d]
  end.

(* ---------- JSON arm, as the bytes written: instances of the regenerated templates ---------- *)

Definition error_doc (msg d : bytes) : option bytes :=
  match err_template with Some t => tinst t [FStr msg; FSafe d] | None => None end.

(* kind switch of buildObjectResponse: object | point | hash | bounds *)
Definition geo_fills (gv : geoview) : option (list fill) :=
  match gv with
  | GVObject g => Some [FL; FL; FL; FL; FJson (jprint (obj_jv g))]
  | GVPoint cs => match point_doc cs with Some p => Some [FL; FL; FL; FR; FJson p] | None => None end
  | GVHash h => Some [FL; FL; FR; FSafe h]
  | GVBounds cs => match bounds_doc cs with Some b => Some [FL; FR; FJson b] | None => None end
  end.

Definition field_fills (fs : flist) : list fill :=
  flat_map (fun f => [FStr (fst f); FJson (value_json (snd f))]) fs.

(* if withfields { if nfields > 0 { ,"fields":{ first (, next)* } } } *)
Definition fields_fills (fo : option flist) : list fill :=
  match fo with
  | None => [FR]
  | Some [] => [FL; FR]
  | Some (f :: r) => [FL; FL; FR; FStr (fst f); FJson (value_json (snd f)); FRep (length r)] ++ field_fills r
  end.

(* h = the function that writes the success document of this command *)
Definition json_doc (h : bytes) (k : kres) (d : bytes) : option bytes :=
  match k with
  | KErr _ msg => error_doc msg d
  | KNada nx => error_doc (if nx then err_id_exists else err_id_not_found) d
  | KMiss _ m => error_doc (miss_msg m) d
  | KNoPath => error_doc err_path_not_found d
  | KOk | KInt _ =>
      if is_one_of h plain_handlers then
        match doc_template h with Some t => tinst t [FSafe d] | None => None end
      else None
  | KObject gv fo =>
      match doc_template h_bor, geo_fills gv with
      | Some t, Some gf => tinst t (gf ++ fields_fills fo ++ [FSafe d])
      | _, _ => None
      end
  | KValue v => match doc_template h_fget with Some t => tinst t [FJson (value_json v); FSafe d] | None => None end
  | KExists b =>
      if bytes_eqb h h_exists || bytes_eqb h h_fexists then
        match doc_template h with Some t => tinst t [FBool b; FSafe d] | None => None end
      else None
  | KTtl n => match doc_template h_ttl with Some t => tinst t [FInt n; FSafe d] | None => None end
  | KType ty => match doc_template h_type with Some t => tinst t [FStr ty; FSafe d] | None => None end
  | KKeys l => match doc_template h_keys with Some t => tinst t [FJson (jprint (VArr (map VMStr l))); FSafe d] | None => None end
  | KJget (Some v) => match doc_template h_jget with Some t => tinst t [FL; FStr v; FSafe d] | None => None end
  | KJget None => match doc_template h_jget with Some t => tinst t [FR; FSafe d] | None => None end
  end.

(* ======================================================================================== *)
(* 5. what both modes convey *)

Inductive cgeo :=
| CGText (t : bytes)           (* the object: geometry JSON, or the string *)
| CGCoords (cs : list bytes)   (* point / bounds coordinates as JSON prints them (non-finite = null) *)
| CGHash (h : bytes).

Inductive conv :=
| CErr (line : bytes)          (* an error; the line RESP prints = writeErr of the text JSON prints *)
| CNeg                         (* negative: the key / id / path is not there, or the NX / XX condition failed *)
| CDone                        (* performed / acknowledged; nothing more is carried by both modes *)
| CObj (g : cgeo) (fields : list (bytes * bytes))   (* field name, field data *)
| CVal (d : bytes)
| CBool (b : bool)
| CInt (n : Z)
| CType (t : bytes)
| CKeys (l : list bytes)
| CJget (v : bytes).

(* what the client asked for: the command and the options that shape its reply *)
Inductive ask :=
| AAck                          (* RENAME, FLUSHDB, JSET *)
| ASet                          (* SET without RETURN *)
| ACount                        (* DEL, PDEL, DROP, RENAMENX, FSET without RETURN: RESP carries a count, JSON does not *)
| AFound                        (* EXPIRE *)
| APersist
| AJdel
| AObjGet (kind : N) (wf : bool)    (* GET *)
| AObjSet (kind : N) (wf : bool)    (* SET .. RETURN *)
| AObjFset (kind : N) (wf : bool)   (* FSET .. RETURN *)
| AFget | AExists | ATtl | AType | AKeys | AJget.

Definition ask_of (q : req) : option ask :=
  match q with
  | QSet _ _ _ _ _ _ rs _ => Some (if rs_ret rs then AObjSet (rs_kind rs) (rs_withfields rs) else ASet)
  | QFset _ _ _ rs _ => Some (if rs_ret rs then AObjFset (rs_kind rs) (rs_withfields rs) else ACount)
  | QDel _ _ _ | QPdel _ _ | QDrop _ => Some ACount
  | QRename nx _ _ => Some (if nx then ACount else AAck)
  | QFlushdb => Some AAck
  | QExpire _ _ _ => Some AFound
  | QPersist _ _ => Some APersist
  | QJset _ _ _ _ _ => Some AAck
  | QJdel _ _ _ => Some AJdel
  | QGet _ _ wf kind _ => Some (AObjGet kind wf)
  | QFget _ _ _ => Some AFget
  | QExists _ _ | QFexists _ _ _ => Some AExists
  | QTtl _ _ => Some ATtl
  | QType _ => Some AType
  | QKeys _ => Some AKeys
  | QScan _ _ _ _ _ _ _ => None
  | QJget _ _ _ _ => Some AJget
  end.

(* the error texts of JSON mode that stand for a negative answer of RESP mode *)
Definition neg_errs (a : ask) : list bytes :=
  match a with
  | ASet | AObjSet _ _ => [err_id_not_found; err_id_exists]
  | AObjGet _ _ | AJget | AFound | ATtl | APersist => [err_key_not_found; err_id_not_found]
  | AType => [err_key_not_found]
  | AJdel => [err_key_not_found; err_path_not_found]
  | _ => []
  end.

(* PERSIST: RESP answers 0 both for a missing object and for an object without deadline, JSON
   answers an error for the first and ok for the second; RESP answers 1 / 0 for cleared / not
   cleared, JSON ok for both.  Nothing but "no error" is carried by both. *)
Definition neg_conv (a : ask) : conv := match a with APersist => CDone | _ => CNeg end.

Definition pair_data (p : bytes * jv) : option (bytes * bytes) :=
  match vdata (snd p) with Some d => Some (fst p, d) | None => None end.

Fixpoint map_opt {A B} (f : A -> option B) (l : list A) : option (list B) :=
  match l with
  | [] => Some []
  | x :: r => match f x, map_opt f r with Some y, Some ys => Some (y :: ys) | _, _ => None end
  end.

Definition tok_data (j : jv) : option bytes := match j with VTok t => Some t | _ => None end.

Definition jpoint_coords (j : jv) : option (list bytes) :=
  match j with
  | VObj m =>
      match vget k_lat m, vget k_lon m, vget k_z m with
      | Some (VTok a), Some (VTok b), None => Some [a; b]
      | Some (VTok a), Some (VTok b), Some (VTok c) => Some [a; b; c]
      | _, _, _ => None
      end
  | _ => None
  end.

Definition jbounds_coords (j : jv) : option (list bytes) :=
  match j with
  | VObj m =>
      match vget k_sw m, vget k_ne m with
      | Some sw, Some ne =>
          match jpoint_coords sw, jpoint_coords ne with
          | Some [a; b], Some [c; d] => Some [a; b; c; d]
          | _, _ => None
          end
      | _, _ => None
      end
  | _ => None
  end.

(* the object part of a JSON reply; None = the member for this kind is absent *)
Definition jgeo (kind : N) (m : list (bytes * jv)) : option (option cgeo) :=
  if kind =? RK_POINT then
    match vget k_point m with
    | Some j => match jpoint_coords j with Some cs => Some (Some (CGCoords cs)) | None => None end
    | None => Some None
    end
  else if kind =? RK_BOUNDS then
    match vget k_bounds m with
    | Some j => match jbounds_coords j with Some cs => Some (Some (CGCoords cs)) | None => None end
    | None => Some None
    end
  else if kind =? RK_HASH then
    match vget k_hash m with
    | Some (VRawStr h) => Some (Some (CGHash h))
    | Some _ => None
    | None => Some None
    end
  else
    match vget k_object m with
    | Some j => match vdata j with Some t => Some (Some (CGText t)) | None => None end
    | None => Some None
    end.

Definition jfields (wf : bool) (m : list (bytes * jv)) : option (list (bytes * bytes)) :=
  if wf then
    match vget k_fields m with
    | Some (VObj fm) => map_opt pair_data fm
    | Some _ => None
    | None => Some []
    end
  else Some [].

Definition jobject (kind : N) (wf : bool) (m : list (bytes * jv)) : option conv :=
  match jgeo kind m, jfields wf m with
  | Some (Some g), Some fs => Some (CObj g fs)
  | Some None, Some _ => Some CDone          (* FSET .. XX RETURN on a missing id: {"ok":true} *)
  | _, _ => None
  end.

(* a client reading the JSON reply; c = the (lower-cased) command it sent *)
Definition conveys_json (c : bytes) (a : ask) (j : jv) : option conv :=
  match j with
  | VObj m =>
      match vget k_ok m with
      | Some (VTok t) =>
          if bytes_eqb t t_false then
            match vget k_err m with
            | Some (VStr msg) => Some (if is_one_of msg (neg_errs a) then neg_conv a else CErr (write_err c msg))
            | _ => None
            end
          else if bytes_eqb t t_true then
            match a with
            | AAck | ASet | ACount | AFound | APersist | AJdel => Some CDone
            | AObjGet kind wf | AObjSet kind wf | AObjFset kind wf => jobject kind wf m
            | AFget => match vget k_value m with
                       | Some v => match vdata v with Some d => Some (CVal d) | None => None end
                       | None => None
                       end
            | AExists => match vget k_exists m with
                         | Some (VTok b) => if bytes_eqb b t_true then Some (CBool true)
                                            else if bytes_eqb b t_false then Some (CBool false) else None
                         | _ => None
                         end
            | ATtl => match vget k_ttl m with
                      | Some (VTok n) => match RespOut.parse_int n with Some z => Some (CInt z) | None => None end
                      | _ => None
                      end
            | AType => match vget k_type m with Some (VStr t) => Some (CType t) | _ => None end
            | AKeys => match vget k_keys m with
                       | Some (VArr l) => match map_opt vdata l with Some ks => Some (CKeys ks) | None => None end
                       | _ => None
                       end
            | AJget => match vget k_value m with
                       | Some (VStr v) => Some (CJget v)
                       | Some _ => None
                       | None => Some CNeg
                       end
            end
          else None
      | _ => None
      end
  | _ => None
  end.

Fixpoint bulks (l : list reply) : option (list bytes) :=
  match l with
  | [] => Some []
  | RBulk b :: r => match bulks r with Some bs => Some (b :: bs) | None => None end
  | _ => None
  end.

Fixpoint rpairs (l : list reply) : option (list (bytes * bytes)) :=
  match l with
  | [] => Some []
  | RBulk n :: RBulk v :: r => match rpairs r with Some ps => Some ((n, v) :: ps) | None => None end
  | _ => None
  end.

Definition rgeo (kind : N) (v0 : reply) : option cgeo :=
  if kind =? RK_POINT then
    match v0 with RArr l => match bulks l with Some cs => Some (CGCoords (map jf cs)) | None => None end | _ => None end
  else if kind =? RK_BOUNDS then
    match v0 with
    | RArr [RArr [RBulk a; RBulk b]; RArr [RBulk c; RBulk d]] => Some (CGCoords (map jf [a; b; c; d]))
    | _ => None
    end
  else if kind =? RK_HASH then match v0 with RBulk h => Some (CGHash h) | _ => None end
  else match v0 with RBulk t => Some (CGText t) | _ => None end.

Definition robject (kind : N) (wf : bool) (r : reply) : option conv :=
  if wf then
    match r with
    | RArr [v0] => match rgeo kind v0 with Some g => Some (CObj g []) | None => None end
    | RArr [v0; RArr fv] =>
        match rgeo kind v0, rpairs fv with Some g, Some fs => Some (CObj g fs) | _, _ => None end
    | _ => None
    end
  else match rgeo kind r with Some g => Some (CObj g []) | None => None end.

(* a client reading the RESP reply *)
Definition conveys_resp (a : ask) (r : reply) : option conv :=
  match r with
  | RErr line => Some (CErr line)
  | RUnmodelled => None
  | _ =>
      match a with
      | AAck => match r with ROk _ => Some CDone | _ => None end
      | ASet => match r with ROk _ => Some CDone | RNil => Some CNeg | _ => None end
      | ACount | APersist => match r with RInt _ => Some CDone | _ => None end
      | AFound => match r with RInt n => Some (if (n =? 0)%Z then CNeg else CDone) | _ => None end
      | AJdel => match r with RInt n => Some (if (n =? 0)%Z then CNeg else CDone) | ROk _ => Some CDone | _ => None end
      | AObjGet kind wf | AObjSet kind wf | AObjFset kind wf =>
          match r with
          | RNil => Some CNeg
          | RInt _ => Some CDone
          | _ => robject kind wf r
          end
      | AFget => match r with RBulk d => Some (CVal d) | _ => None end
      | AExists => match r with RInt n => Some (CBool (negb (n =? 0)%Z)) | _ => None end
      | ATtl => match r with RInt n => Some (if (n =? -2)%Z then CNeg else CInt n) | _ => None end
      | AType => match r with ROk t => Some (if bytes_eqb t str_none then CNeg else CType t) | _ => None end
      | AKeys => match r with RArr l => match bulks l with Some ks => Some (CKeys ks) | None => None end | _ => None end
      | AJget => match r with RNil => Some CNeg | RBulk v => Some (CJget v) | _ => None end
      end
  end.

(* the conveyed result, read off the abstract result itself (the specification of both projections) *)
Definition conv_geo (gv : geoview) : cgeo :=
  match gv with
  | GVObject g => CGText (g_text g)
  | GVPoint cs | GVBounds cs => CGCoords (map jf cs)
  | GVHash h => CGHash h
  end.

Definition conv_of (a : ask) (k : kres) : conv :=
  match k with
  | KErr c msg => CErr (write_err c msg)
  | KOk => CDone
  | KInt n =>
      match a with
      | AFound | AJdel => if (n =? 0)%Z then CNeg else CDone
      | _ => CDone
      end
  | KNada _ | KNoPath => CNeg
  | KMiss _ _ => neg_conv a
  | KObject gv fo =>
      CObj (conv_geo gv) (match fo with Some fs => map (fun f => (fst f, v_data (snd f))) fs | None => [] end)
  | KValue v => CVal (v_data v)
  | KExists b => CBool b
  | KTtl n => CInt n
  | KType t => CType t
  | KKeys l => CKeys l
  | KJget (Some v) => CJget v
  | KJget None => CNeg
  end.

(* ======================================================================================== *)
(* 6. the keyspace step with its abstract result *)

Section Step.
Variable O : oracle.

Definition gv_of (g : geo) (kind : N) (prec : Z) : geoview :=
  if kind =? RK_POINT then GVPoint (o_point O g)
  else if kind =? RK_BOUNDS then GVBounds (o_bounds O g)
  else if kind =? RK_HASH then GVHash (o_hash O g prec)
  else GVObject g.

(* buildObjectResponse(msg, o, start, kind, precision, withfields, ...) *)
Definition res_obj (o : obj) (wf : bool) (kind : N) (prec : Z) : kres :=
  KObject (gv_of (o_geo o) kind prec) (if wf then Some (fl_scan (o_fields o)) else None).

(* each res_* mirrors the branches of the handler's ">> Operation" / ">> Response" phases (the state
   effect is C01's cmd_xxx functions); the first component names the function whose template writes a success *)
Definition res_set (c : bytes) (s : state) (key id : bytes) (fields : list field) (ex : Z) (nx xx : bool)
           (rs : retspec) (g : geo) : bytes * kres :=
  match (match get key s with
         | Some cl => Some cl
         | None => if xx then None else Some []
         end) with
  | None => (h_set, KNada nx)
  | Some cl =>
      if (xx || nx) && (match get id cl with None => xx | Some _ => nx end) then (h_set, KNada nx)
      else
        let flist0 := match get id cl with Some old => o_fields old | None => [] end in
        let flist := fold_left fl_set fields flist0 in
        let o := mkObj id g ex flist in
        if rs_ret rs then (h_bor, res_obj o (rs_withfields rs) (rs_kind rs) (rs_prec rs)) else (h_set, KOk)
  end.

Definition res_fset (c : bytes) (s : state) (key id : bytes) (xx : bool) (rs : retspec) (fields : list field) : bytes * kres :=
  match get key s with
  | None => (h_fset, KErr c err_key_not_found)
  | Some cl =>
      match get id cl with
      | None => if negb xx then (h_fset, KErr c err_id_not_found) else (h_fset, KInt 0)
      | Some o =>
          let '(ofields, n) := fold_left (fset_step O) fields (o_fields o, 0%Z) in
          let o' := mkObj id (o_geo o) (o_ex o) ofields in
          if rs_ret rs then (h_bor, res_obj o' (rs_withfields rs) (rs_kind rs) (rs_prec rs)) else (h_fset, KInt n)
      end
  end.

Definition res_del (c : bytes) (s : state) (key id : bytes) (erron404 : bool) : bytes * kres :=
  match get key s with
  | Some cl =>
      match get id cl with
      | Some _ => (h_del, KInt 1)
      | None => if erron404 then (h_del, KErr c err_id_not_found) else (h_del, KInt 0)
      end
  | None => if erron404 then (h_del, KErr c err_key_not_found) else (h_del, KInt 0)
  end.

Definition res_pdel (s : state) (key pat : bytes) : bytes * kres :=
  match get key s with
  | None => (h_pdel, KInt 0)
  | Some cl =>
      let ids := map fst (filter (fun io => matchesb pat (fst io)) (range_scan pat false cl)) in
      (h_pdel, KInt (Z.of_nat (length ids)))
  end.

Definition res_rename (c : bytes) (e : env) (s : state) (nx : bool) (key newkey : bytes) : bytes * kres :=
  match get key s with
  | None => (h_rename, KErr c err_key_not_found)
  | Some _ =>
      match hook_guard e key newkey with
      | Some msg => (h_rename, KErr c msg)
      | None =>
          let updated := match get newkey s with None => true | Some _ => negb nx end in
          (h_rename, if negb nx then KOk else if updated then KInt 1 else KInt 0)
      end
  end.

(* EXPIRE: JSON says which of the two is missing (col == nil first) *)
Definition res_expire (s : state) (key id : bytes) : bytes * kres :=
  match get key s with
  | Some cl =>
      match get id cl with
      | Some _ => (h_expire, KInt 1)
      | None => (h_expire, KMiss (RInt 0) MissId)
      end
  | None => (h_expire, KMiss (RInt 0) MissKey)
  end.

Definition res_persist (s : state) (key id : bytes) : bytes * kres :=
  match get key s with
  | None => (h_persist, KMiss (RInt 0) MissKey)
  | Some cl =>
      match get id cl with
      | None => (h_persist, KMiss (RInt 0) MissId)
      | Some o => (h_persist, if negb (o_ex o =? 0)%Z then KInt 1 else KInt 0)
      end
  end.

(* the re-entry of cmdJset / cmdJdel into cmdSET: the reply is cmdSET's *)
Definition res_reenter (c : bytes) (e : env) (s : state) (key id json : bytes) : option (bytes * kres) :=
  match parse_set O e [kw_SET; key; id; kw_OBJECT; json] with
  | PReq (QSet k i fs ex nx xx rs g) => Some (res_set c s k i fs ex nx xx rs g)
  | PErr msg => Some (h_set, KErr c msg)
  | _ => None
  end.

Definition res_jset (c : bytes) (e : env) (s : state) (key id path val : bytes) (raw : bool) : option (bytes * kres) :=
  let cl := match get key s with Some cl => cl | None => [] end in
  let o := get id cl in
  let geoobj := match o with Some o => g_spatial (o_geo o) | None => false end in
  let json := match o with Some o => g_text (o_geo o) | None => [] end in
  match o_sjson_set O raw json path val with
  | OErr msg => Some (h_jset, KErr c msg)
  | OOk json' => if geoobj then res_reenter c e s key id json' else Some (h_jset, KOk)
  end.

Definition res_jdel (c : bytes) (e : env) (s : state) (key id path : bytes) : option (bytes * kres) :=
  match get key s with
  | None => Some (h_jdel, KMiss (RInt 0) MissKey)
  | Some cl =>
      let o := get id cl in
      let geoobj := match o with Some o => g_spatial (o_geo o) | None => false end in
      let json := match o with Some o => g_text (o_geo o) | None => [] end in
      match o_sjson_del O json path with
      | OErr msg => Some (h_jdel, KErr c msg)
      | OOk njson =>
          if bytes_eqb njson json then Some (h_jdel, KNoPath)
          else if geoobj then res_reenter c e s key id njson
          else Some (h_jdel, KInt 1)
      end
  end.

(* col == nil is tested before col.Get(id) == nil *)
Definition find_miss (s : state) (key id : bytes) : obj + miss :=
  match get key s with
  | None => inr MissKey
  | Some cl => match get id cl with Some o => inl o | None => inr MissId end
  end.

(* None = a request outside this model (SCAN: Model/JsonScan.v) *)
Definition kres_of (c : bytes) (e : env) (s : state) (q : req) : option (bytes * kres) :=
  match q with
  | QSet key id fields ex nx xx rs g => Some (res_set c s key id fields ex nx xx rs g)
  | QFset key id xx rs fields => Some (res_fset c s key id xx rs fields)
  | QDel key id e404 => Some (res_del c s key id e404)
  | QPdel key pat => Some (res_pdel s key pat)
  | QDrop key => Some (h_drop, match get key s with Some _ => KInt 1 | None => KInt 0 end)
  | QRename nx key nk => Some (res_rename c e s nx key nk)
  | QFlushdb => Some (h_flushdb, KOk)
  | QExpire key id _ => Some (res_expire s key id)
  | QPersist key id => Some (res_persist s key id)
  | QJset key id path val raw => res_jset c e s key id path val raw
  | QJdel key id path => res_jdel c e s key id path
  | QGet key id wf kind prec =>
      Some (match find_miss s key id with
            | inr m => (h_bor, KMiss RNil m)
            | inl o => (h_bor, res_obj o wf kind prec)
            end)
  | QFget key id fname =>
      Some (match find_miss s key id with
            | inr m => (h_fget, KErr c (miss_msg m))
            | inl o => (h_fget, KValue (snd (fl_get (o_f O) (o_fields o) fname)))
            end)
  | QExists key id =>
      Some (match get key s with
            | None => (h_exists, KErr c err_key_not_found)
            | Some cl => (h_exists, KExists (mem id cl))
            end)
  | QFexists key id fname =>
      Some (match find_miss s key id with
            | inr m => (h_fexists, KErr c (miss_msg m))
            | inl o => (h_fexists, KExists (negb (isempty (fst (fl_get (o_f O) (o_fields o) fname)))))
            end)
  | QTtl key id =>
      Some (match find_miss s key id with
            | inr m => (h_ttl, KMiss (RInt (-2)) m)
            | inl o => (h_ttl, KTtl (match ttl_reply (e_now e) (o_ex o) with RInt n => n | _ => 0%Z end))
            end)
  | QType key =>
      Some (match get key s with
            | None => (h_type, KMiss (ROk str_none) MissKey)
            | Some _ => (h_type, KType str_hash)
            end)
  | QKeys pat => Some (h_keys, KKeys (filter (matchesb pat) (keys (range_scan pat true s))))
  | QScan _ _ _ _ _ _ _ => None
  | QJget key id path raw =>
      Some (match find_miss s key id with
            | inr m => (h_jget, KMiss RNil m)
            | inl o => (h_jget, KJget (o_jget O (g_text (o_geo o)) path raw))
            end)
  end.

(* handleInputCommand's gate and the handler's ">> Args" phase: an error here is writeErr in both modes *)
Inductive dkres := DKReq (c : bytes) (write : bool) (q : req) | DKOut (k : kres) | DKUnmodelled.

Definition dispatch_k (e : env) (args : list bytes) : dkres :=
  match args with
  | [] => DKUnmodelled
  | a0 :: _ =>
      let c := lower a0 in
      let gate :=
        match arm_of c with
        | ArmWrite =>
            if e_follower e then Some msg_not_leader
            else if e_readonly e then Some msg_read_only
            else None
        | ArmRead => if e_follower e && negb (e_caughtup e) then Some msg_catching_up else None
        | ArmOther => None
        end in
      match gate with
      | Some msg => DKOut (KErr c msg)
      | None =>
          match parse_cmd O e c args with
          | PReq q => DKReq c (match arm_of c with ArmWrite => true | _ => false end) q
          | PErr msg => DKOut (KErr c msg)
          | PUnmodelled => DKUnmodelled
          | PFuel => DKUnmodelled
          end
      end
  end.

Inductive koutcome :=
| KDone (s : state) (c : bytes) (a : option ask) (h : bytes) (k : kres) (log : list (list bytes))
| KUnmodelled
| KPanic.

(* one step: new state and log record from C01's run_req (repaired tree), the abstract result from kres_of *)
Definition exec_k (e : env) (s : state) (args : list bytes) : koutcome :=
  match dispatch_k e args with
  | DKUnmodelled => KUnmodelled
  | DKOut k => KDone s (match args with a0 :: _ => lower a0 | [] => [] end) None n_handleInputCommand k []
  | DKReq c write q =>
      match run_req O true e s q, kres_of c e s q with
      | None, _ => KPanic
      | Some _, None => KUnmodelled
      | Some (s', _, updated), Some (h, k) => KDone s' c (ask_of q) h k (if write && updated then [args] else [])
      end
  end.

End Step.
