(* Executable model of Server.loadAOF WITH the execution of the replayed commands and the
   loader's position (Server.aofsz) as part of the state the commands run on.

   loadAOF keeps its position in a field of the server (s.aofsz += n per read, s.aofsz -= len(buf);
   Truncate(s.aofsz); Seek(s.aofsz) at EOF) and calls s.command(&msg, nil) for every complete
   command in between, on the same *Server.  A handler that assigns that field while it is replayed
   moves the offset the file is cut back to.  Model/Aof.v leaves command execution out; here it is in:
     run       the handler's effect on everything but the position (None = an error that
               commandErrIsFatal makes loadAOF return)
     writes_pos, havoc
               whether the handler dispatched for a command name (transitively) assigns the
               position, and what it makes of it.  writes_pos for the real code is
               cmd_writes_pos over the tables t38x regenerates from /repo on every run
               (Gen/Dispatch.v: Server.command's switch; Gen/Mutators.v: per handler, the guarded
               server fields assigned through synchronous calls, "aofsz" among them).
   No proofs here. *)
From Coq Require Import String List Bool ZArith.
From T38 Require Import Base.Bytes Model.Resp Model.Aof Model.Tables.
Import ListNotations.
Local Open Scope Z_scope.
Local Open Scope list_scope.

(* ---- what the generated tables say about the position ---- *)

Definition pos_field : string := "aofsz"%string.

(* does the handler function fn assign the position (itself or through synchronous in-package calls)?
   A handler that has no entry in the effects table ("inline" arms, `go` arms) is not known to be safe. *)
Definition fn_writes_pos (effects : list (string * list mut)) (fn : string) : bool :=
  match assoc effects fn with
  | Some l => existsb (fun m => String.eqb (m_struct m) pos_field) l
  | None => true
  end.

(* Server.command: the handler of the arm the command name selects; an unknown name executes nothing *)
Definition cmd_writes_pos (disp : list handler) (effects : list (string * list mut)) (c : string) : bool :=
  match find_handler disp c with
  | Some h => fn_writes_pos effects (h_fn h)
  | None => false
  end.

(* the command names handleInputCommand appends to the log (arms with write = true) *)
Definition loggable (t : table) : list string :=
  flat_map a_cmds (filter a_write (t_arms t)).

(* ---- the loader with command execution ---- *)

Inductive xload_res (St : Type) :=
| XLoaded (s : St) (validsz : Z)      (* state after the replay; offset the file is cut back to *)
| XFatal                              (* a replayed command returned a fatal error *)
| XLoadErr (e : perr)
| XLoadPanic
| XLoadFuel.
Arguments XLoaded {St}.
Arguments XFatal {St}.
Arguments XLoadErr {St}.
Arguments XLoadPanic {St}.
Arguments XLoadFuel {St}.

Section Replay.
  Variable St : Type.
  Variable name_of : list bytes -> string.              (* msg.Command() *)
  Variable run : list bytes -> St -> option St.
  Variable havoc : list bytes -> St -> Z -> Z.
  Variable writes_pos : string -> bool.

  (* s.command(&msg, nil) on the server whose aofsz is the second component *)
  Definition exec1 (args : list bytes) (sz : St * Z) : option (St * Z) :=
    match run args (fst sz) with
    | None => None
    | Some s' => Some (s', if writes_pos (name_of args) then havoc args (fst sz) (snd sz) else snd sz)
    end.

  Fixpoint exec_all (cs : list (list bytes)) (sz : St * Z) : option (St * Z) :=
    match cs with
    | [] => Some sz
    | c :: r => match exec1 c sz with Some sz' => exec_all r sz' | None => None end
    end.

  Fixpoint run_all (cs : list (list bytes)) (s : St) : option St :=
    match cs with
    | [] => Some s
    | c :: r => match run c s with Some s' => run_all r s' | None => None end
    end.

  (* the outer read loop: s.aofsz += n, then the commands of this read are executed one by one *)
  Fixpoint load_chunks_x (chunks : list bytes) (buf : bytes) (sz : St * Z) : xload_res St :=
    match chunks with
    | [] => XLoaded (fst sz) (snd sz - len buf)         (* io.EOF: aofsz -= len(buf); Truncate; Seek *)
    | c :: rest =>
        match drain_all (buf ++ c) with
        | DOk cs lo =>
            match exec_all cs (fst sz, snd sz + len c) with
            | Some sz' => load_chunks_x rest lo sz'
            | None => XFatal
            end
        | DErr e => XLoadErr e
        | DPanic => XLoadPanic
        | DFuel => XLoadFuel
        end
    end.

  Definition load_aof_x (file : bytes) (s : St) : xload_res St :=
    load_chunks_x (split_chunks (length file) chunk_size file) [] (s, 0).
End Replay.
