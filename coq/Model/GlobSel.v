(* Model/GlobSel.v — the pattern-selecting iterations of C12 that sit above glob.Parse / glob.Match,
   and the SEARCH / SCAN count shortcut.  No proofs in this file.

   * scan_multi / search_multi : cmdScan / cmdSearch with one or several MATCH patterns
     (scan.go, search.go): limits := multiGlobParse(sw.globs, desc) (Model.Glob.multi_glob_parse);
     both limits empty -> Collection.Scan / SearchValues over everything, otherwise
     Collection.ScanRange / SearchValuesRange(limits[0], limits[1], desc) exactly as written in
     collection.go (pivot of Ascend / Descend, the early "return false" at the end of the range),
     each visited object filtered by scanWriter.globMatch (globEverything, else the first
     matching pattern wins).
   * hook_walk : Server.forEachHookByPattern (hooks.go) over the one name-ordered tree that
     holds hooks and channels: Ascend from Limits[0], stop at the first name above Limits[1]
     (when there is an upper limit), *skip* entries of the other kind, keep the matching ones.
     cmdHooks lists what the walk yields, cmdPDelHook deletes what it yields.
   * search_count_shortcut / scan_count_shortcut : the unfiltered COUNT answered from the
     collection counters (Model.Collection: StringCount() = nobjects, Count() = objects + nobjects)
     against the counting iteration it replaces (number of entries SearchValues / Scan visits). *)
From T38 Require Import Base.Bytes Model.Glob Model.Collection.
Import ListNotations.
Open Scope N_scope.

Definition gmatches (p k : bytes) : bool := match glob_match p k with WTrue => true | _ => false end.

(* newScanWriter: len(globs) == 0 || (len(globs) == 1 && globs[0] == "*") *)
Definition glob_everything (globs : list bytes) : bool :=
  match globs with
  | [] => true
  | [p] => bytes_eqb p [STAR]
  | _ => false
  end.

(* scanWriter.globMatch on the matched text (the id for SCAN, the string value for SEARCH) *)
Definition glob_test (globs : list bytes) (s : bytes) : bool :=
  glob_everything globs || existsb (fun p => gmatches p s) globs.

(* the B-tree walks: Ascend(pivot) / Descend(pivot) skip the entries before the pivot; the
   iterator's "return false" ends the walk *)
Fixpoint skip_while {A} (f : A -> bool) (l : list A) : list A :=
  match l with
  | [] => []
  | x :: r => if f x then skip_while f r else l
  end.

Fixpoint take_until {A} (stop : A -> bool) (l : list A) : list A :=
  match l with
  | [] => []
  | x :: r => if stop x then [] else x :: take_until stop r
  end.

(* Collection.ScanRange(start, end, desc) over the ids in ascending order:
   ASC : objs.Ascend(start)  = ids >= start, stop at the first id >= end
   DESC: objs.Descend(start) = ids <= start going down, stop at the first id <= end *)
Definition scan_range_visit (l0 l1 : bytes) (desc : bool) (ids : list bytes) : list bytes :=
  if desc then take_until (fun k => bytes_leb k l1) (skip_while (fun k => bytes_gtb k l0) (rev ids))
  else take_until (fun k => bytes_geb k l1) (skip_while (fun k => bytes_ltb k l0) ids).

(* cmdScan ... MATCH p1 MATCH p2 ... [DESC] IDS, without cursor / LIMIT (C11 has those) *)
Definition scan_multi (globs : list bytes) (desc : bool) (ids : list bytes) : list bytes :=
  let '(l0, l1) := multi_glob_parse globs desc in
  if isempty l0 && isempty l1 then filter (glob_test globs) (if desc then rev ids else ids)
  else filter (glob_test globs) (scan_range_visit l0 l1 desc ids).

(* the value index: entries (string value, id) ordered by value, then id (byValue) *)
Definition ventry : Type := (bytes * bytes)%type.
Definition ventry_ltb (a b : ventry) : bool :=
  match bytes_cmp (fst a) (fst b) with
  | Lt => true
  | Gt => false
  | Eq => bytes_ltb (snd a) (snd b)
  end.

(* Collection.SearchValuesRange(start, end, desc): pstart = ("", String(start)), pend likewise;
   ASC : values.Ascend(pstart)  = entries >= pstart, continue while bLT(item, pend)
   DESC: values.Descend(pstart) = entries <= pstart going down, continue while bGT(item, pend) *)
Definition search_range_visit (l0 l1 : bytes) (desc : bool) (vs : list ventry) : list ventry :=
  if desc then take_until (fun e => negb (ventry_ltb (l1, []) e))
                 (skip_while (fun e => ventry_ltb (l0, []) e) (rev vs))
  else take_until (fun e => negb (ventry_ltb e (l1, [])))
         (skip_while (fun e => ventry_ltb e (l0, [])) vs).

(* cmdSearch ... MATCH p1 MATCH p2 ... [DESC] IDS : the ids in reply order *)
Definition search_multi (globs : list bytes) (desc : bool) (vs : list ventry) : list bytes :=
  let '(l0, l1) := multi_glob_parse globs desc in
  let test := fun e : ventry => glob_test globs (fst e) in
  map snd (if isempty l0 && isempty l1 then filter test (if desc then rev vs else vs)
           else filter test (search_range_visit l0 l1 desc vs)).

(* ---- hooks and channels: one tree, entries (name, channel?) in name order ---- *)
Definition hentry : Type := (bytes * bool)%type.

Fixpoint hook_walk_from (pattern lim1 : bytes) (has_upper channel : bool) (l : list hentry) : list bytes :=
  match l with
  | [] => []
  | e :: r =>
      if has_upper && bytes_gtb (fst e) lim1 then []            (* return false: end of the range *)
      else if Bool.eqb (snd e) channel then
        if gmatches pattern (fst e) then fst e :: hook_walk_from pattern lim1 has_upper channel r
        else hook_walk_from pattern lim1 has_upper channel r
      else hook_walk_from pattern lim1 has_upper channel r      (* other kind: return true, go on *)
  end.

(* forEachHookByPattern with an iterator that always returns true (cmdHooks, cmdPDelHook) *)
Definition hook_walk (pattern : bytes) (channel : bool) (entries : list hentry) : list bytes :=
  let g := parse pattern false in
  hook_walk_from pattern (g_lim1 g) (negb (isempty (g_lim1 g))) channel
    (skip_while (fun e : hentry => bytes_ltb (fst e) (g_lim0 g)) entries).

(* cmdPDelHook: delete every hook the walk yields (the caller re-checks the kind); the reply is
   the number deleted, the registry keeps the rest *)
Definition pdel_hooks (pattern : bytes) (channel : bool) (entries : list hentry) : nat * list hentry :=
  let dead := hook_walk pattern channel entries in
  (length dead,
   filter (fun e : hentry => negb (Bool.eqb (snd e) channel && existsb (bytes_eqb (fst e)) dead)) entries).

(* ---- the COUNT shortcut ---- *)
(* cmdSearch / cmdScan, outputCount without filters: count := uint64(col.StringCount()) resp.
   uint64(col.Count()); cursor >= count -> 0, else count - cursor; capped by LIMIT *)
Definition shortcut_count (counter : Z) (cursor limit : N) : N :=
  let count := Z.to_N counter in   (* the counters are never negative on a well-formed collection *)
  let count := if cursor <? count then count - cursor else 0 in
  if limit <? count then limit else count.

Definition search_count_shortcut (c : coll) (cursor limit : N) : N := shortcut_count (cstring_count c) cursor limit.
Definition scan_count_shortcut (c : coll) (cursor limit : N) : N := shortcut_count (ccount c) cursor limit.

(* the counting iteration the shortcut replaces: the cursor skips entries, LIMIT caps the count *)
Definition iter_count {A} (visited : list A) (cursor limit : N) : N :=
  let n := N.of_nat (length visited) in
  let n := if cursor <? n then n - cursor else 0 in
  if limit <? n then limit else n.
