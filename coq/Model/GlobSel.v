(* Model/GlobSel.v — the pattern-selecting iterations of C12 that sit above glob.Parse / glob.Match,
   and the SEARCH / SCAN count shortcut.  No proofs in this file.

   * scan_multi / search_multi : cmdScan / cmdSearch with one or several MATCH patterns
     (scan.go, search.go): limits := multiGlobParse(sw.globs, desc) (Model.Glob.multi_glob_parse);
     both limits empty -> Collection.Scan / SearchValues over everything, otherwise
     Collection.ScanRange / SearchValuesRange(limits[0], limits[1], desc) exactly as written in
     collection.go (pivot of Ascend / Descend, the early "return false" at the end of the range),
     each visited object handed to scanWriter.pushObject -> testObject -> globMatch
     (scanner.go) with their (ok, keepGoing) results as written: the walk ends at the first
     keepGoing = false (LIMIT reached; nothing else in the code as it stands).
   * hook_walk : Server.forEachHookByPattern (hooks.go) over the one name-ordered tree that
     holds hooks and channels: Ascend from Limits[0], stop at the first name above Limits[1]
     (when there is an upper limit), *skip* entries of the other kind, keep the matching ones.
     cmdHooks lists what the walk yields, cmdPDelHook deletes what it yields.
   * search_count_shortcut / scan_count_shortcut : the unfiltered COUNT answered from the
     collection counters (Model.Collection: StringCount() = nobjects, Count() = objects + nobjects)
     against the counting iteration it replaces (number of entries SearchValues / Scan visits). *)
From T38 Require Import Base.Bytes Model.Glob Model.Collection.
Import ListNotations.
Open Scope N_scope.

Definition gmatches (p k : bytes) : bool := match glob_match p k with WTrue => true | _ => false end.

(* newScanWriter: len(globs) == 0 || (len(globs) == 1 && globs[0] == "*") *)
Definition glob_everything (globs : list bytes) : bool :=
  match globs with
  | [] => true
  | [p] => bytes_eqb p [STAR]
  | _ => false
  end.

(* scanWriter.globMatch on the matched text (the id for SCAN, the string value for SEARCH) *)
Definition glob_test (globs : list bytes) (s : bytes) : bool :=
  glob_everything globs || existsb (fun p => gmatches p s) globs.

(* the B-tree walks: Ascend(pivot) / Descend(pivot) skip the entries before the pivot; the
   iterator's "return false" ends the walk *)
Fixpoint skip_while {A} (f : A -> bool) (l : list A) : list A :=
  match l with
  | [] => []
  | x :: r => if f x then skip_while f r else l
  end.

Fixpoint take_until {A} (stop : A -> bool) (l : list A) : list A :=
  match l with
  | [] => []
  | x :: r => if stop x then [] else x :: take_until stop r
  end.

(* ---- scanWriter: globMatch / testObject / pushObject with their iteration-control results ----
   Every iterator callback of cmdScan / cmdSearch is
       keepGoing, err := sw.pushObject(ScanWriterParams{obj: o}); return keepGoing
   so the walk over the visited entries ends as soon as pushObject answers false.  The three
   functions are transcribed with both results (ok, keepGoing), for ids (SCAN: text = o.ID())
   and for values (SEARCH: sw.matchValues, text = o.String()). *)
Section Push.
  Context {A : Type}.
  Variable globs : list bytes.      (* sw.globs *)
  Variable text : A -> bytes.       (* o.ID() or, with matchValues, o.String() *)
  Variable fok : A -> bool.         (* sw.fieldMatch(o): WHERE / WHEREIN / WHEREEVAL (Model/Where.v) *)
  Variable limit : N.               (* sw.limit *)
  Variable count_out : bool.        (* sw.output == outputCount *)

  (* for _, pattern := range sw.globs { ok, _ := glob.Match(pattern, val); if ok { return true, true } }
     return false, true *)
  Fixpoint first_match (ps : list bytes) (val : bytes) : bool * bool :=
    match ps with
    | [] => (false, true)
    | p :: r => if gmatches p val then (true, true) else first_match r val
    end.

  (* scanWriter.globMatch: (ok, keepGoing) *)
  Definition glob_match_kg (o : A) : bool * bool :=
    if glob_everything globs then (true, true) else first_match globs (text o).

  (* scanWriter.testObject: (ok, keepGoing); the err result belongs to WHEREEVAL, not modelled *)
  Definition test_object (o : A) : bool * bool :=
    let '(m, kg) := glob_match_kg o in
    if negb m then (false, kg) else (fok o, true).

  (* the part of the scanWriter pushObject changes: sw.count, sw.filled (newest first), sw.numberItems *)
  Record swst := { sw_count : N; sw_filled : list A; sw_nitems : N }.
  Definition sw0 : swst := {| sw_count := 0; sw_filled := []; sw_nitems := 0 |}.

  (* scanWriter.pushObject (noTest = false): the new state and keepGoing *)
  Definition push_object (st : swst) (o : A) : swst * bool :=
    let '(ok, kg) := test_object o in
    if negb ok then (st, kg) else
    let c := sw_count st + 1 in
    if count_out then
      ({| sw_count := c; sw_filled := sw_filled st; sw_nitems := sw_nitems st |}, c <? limit)
    else
      let n := sw_nitems st + 1 in
      let st' := {| sw_count := c; sw_filled := o :: sw_filled st; sw_nitems := n |} in
      if n =? limit then (st', false)       (* sw.hitLimit = true; return false *)
      else (st', kg).

  (* the B-tree walk with that callback: it ends at the first keepGoing = false *)
  Fixpoint walk_push (st : swst) (l : list A) : swst :=
    match l with
    | [] => st
    | o :: r => let '(st', kg) := push_object st o in if kg then walk_push st' r else st'
    end.

  (* what the reply shows: the items in the order written, the COUNT *)
  Definition out_items (st : swst) : list A := rev (sw_filled st).
  Definition out_count (st : swst) : N := sw_count st.
End Push.

(* Collection.ScanRange(start, end, desc) over the ids in ascending order:
   ASC : objs.Ascend(start)  = ids >= start, stop at the first id >= end
   DESC: objs.Descend(start) = ids <= start going down, stop at the first id <= end *)
Definition scan_range_visit (l0 l1 : bytes) (desc : bool) (ids : list bytes) : list bytes :=
  if desc then take_until (fun k => bytes_leb k l1) (skip_while (fun k => bytes_gtb k l0) (rev ids))
  else take_until (fun k => bytes_geb k l1) (skip_while (fun k => bytes_ltb k l0) ids).

(* the entries cmdScan hands to pushObject, in order: limits := multiGlobParse(sw.globs, desc);
   both empty -> Collection.Scan, else Collection.ScanRange(limits[0], limits[1], desc) *)
Definition scan_visit (globs : list bytes) (desc : bool) (ids : list bytes) : list bytes :=
  let '(l0, l1) := multi_glob_parse globs desc in
  if isempty l0 && isempty l1 then (if desc then rev ids else ids)
  else scan_range_visit l0 l1 desc ids.

(* cmdScan key [MATCH p]... [WHERE ...] [DESC] [LIMIT n] IDS|COUNT, cursor 0 (C11 has cursors):
   the scanWriter state after the walk *)
Definition scan_multi (globs : list bytes) (fok : bytes -> bool) (limit : N) (count_out desc : bool)
           (ids : list bytes) : swst :=
  walk_push globs (fun id => id) fok limit count_out sw0 (scan_visit globs desc ids).

(* the value index: entries (string value, id) ordered by value, then id (byValue) *)
Definition ventry : Type := (bytes * bytes)%type.
Definition ventry_ltb (a b : ventry) : bool :=
  match bytes_cmp (fst a) (fst b) with
  | Lt => true
  | Gt => false
  | Eq => bytes_ltb (snd a) (snd b)
  end.

(* Collection.SearchValuesRange(start, end, desc): pstart = ("", String(start)), pend likewise;
   ASC : values.Ascend(pstart)  = entries >= pstart, continue while bLT(item, pend)
   DESC: values.Descend(pstart) = entries <= pstart going down, continue while bGT(item, pend) *)
Definition search_range_visit (l0 l1 : bytes) (desc : bool) (vs : list ventry) : list ventry :=
  if desc then take_until (fun e => negb (ventry_ltb (l1, []) e))
                 (skip_while (fun e => ventry_ltb (l0, []) e) (rev vs))
  else take_until (fun e => negb (ventry_ltb e (l1, [])))
         (skip_while (fun e => ventry_ltb e (l0, [])) vs).

Definition search_visit (globs : list bytes) (desc : bool) (vs : list ventry) : list ventry :=
  let '(l0, l1) := multi_glob_parse globs desc in
  if isempty l0 && isempty l1 then (if desc then rev vs else vs)
  else search_range_visit l0 l1 desc vs.

(* cmdSearch key [MATCH p]... [WHERE ...] [DESC] [LIMIT n] IDS|COUNT: the same scanWriter with
   matchValues = true — the patterns are applied to the string VALUE, which several ids may share *)
Definition search_multi (globs : list bytes) (fok : ventry -> bool) (limit : N) (count_out desc : bool)
           (vs : list ventry) : swst :=
  walk_push globs fst fok limit count_out sw0 (search_visit globs desc vs).

(* ---- hooks and channels: one tree, entries (name, channel?) in name order ---- *)
Definition hentry : Type := (bytes * bool)%type.

Fixpoint hook_walk_from (pattern lim1 : bytes) (has_upper channel : bool) (l : list hentry) : list bytes :=
  match l with
  | [] => []
  | e :: r =>
      if has_upper && bytes_gtb (fst e) lim1 then []            (* return false: end of the range *)
      else if Bool.eqb (snd e) channel then
        if gmatches pattern (fst e) then fst e :: hook_walk_from pattern lim1 has_upper channel r
        else hook_walk_from pattern lim1 has_upper channel r
      else hook_walk_from pattern lim1 has_upper channel r      (* other kind: return true, go on *)
  end.

(* forEachHookByPattern with an iterator that always returns true (cmdHooks, cmdPDelHook) *)
Definition hook_walk (pattern : bytes) (channel : bool) (entries : list hentry) : list bytes :=
  let g := parse pattern false in
  hook_walk_from pattern (g_lim1 g) (negb (isempty (g_lim1 g))) channel
    (skip_while (fun e : hentry => bytes_ltb (fst e) (g_lim0 g)) entries).

(* cmdPDelHook: delete every hook the walk yields (the caller re-checks the kind); the reply is
   the number deleted, the registry keeps the rest *)
Definition pdel_hooks (pattern : bytes) (channel : bool) (entries : list hentry) : nat * list hentry :=
  let dead := hook_walk pattern channel entries in
  (length dead,
   filter (fun e : hentry => negb (Bool.eqb (snd e) channel && existsb (bytes_eqb (fst e)) dead)) entries).

(* ---- the COUNT shortcut ---- *)
(* cmdSearch / cmdScan, outputCount without filters: count := uint64(col.StringCount()) resp.
   uint64(col.Count()); cursor >= count -> 0, else count - cursor; capped by LIMIT *)
Definition shortcut_count (counter : Z) (cursor limit : N) : N :=
  let count := Z.to_N counter in   (* the counters are never negative on a well-formed collection *)
  let count := if cursor <? count then count - cursor else 0 in
  if limit <? count then limit else count.

Definition search_count_shortcut (c : coll) (cursor limit : N) : N := shortcut_count (cstring_count c) cursor limit.
Definition scan_count_shortcut (c : coll) (cursor limit : N) : N := shortcut_count (ccount c) cursor limit.

(* the counting iteration the shortcut replaces: the cursor skips entries, LIMIT caps the count *)
Definition iter_count {A} (visited : list A) (cursor limit : N) : N :=
  let n := N.of_nat (length visited) in
  let n := if cursor <? n then n - cursor else 0 in
  if limit <? n then limit else n.
