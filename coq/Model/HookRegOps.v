(* Model/HookRegOps.v — cmdSetHook's registry updates as a statement list.

   t38x (t38x/sethookorder.go) re-reads, on every run, the statements of cmdSetHook (hooks.go) that
   touch Server.hooks / hooksOut / hookTree / hookCross / hookExpires after the early returns, in
   source order, each with the conditions of the if statements around it, into
   coq/Gen/SetHookOrder.v (sethook_stmts).  run_stmts executes such a list on the registry model
   of Model/HookReg.v; Proofs/RoamRegProofs.v proves that HookReg.reg_sethook IS the execution of
   the list read from the source, so the order of the statements (delete the previous hook of a
   name, THEN set the new one) is tied to the code.  No proofs here. *)
From Coq Require Import List Bool ZArith.
From T38 Require Import Base.Bytes Model.Fence Model.HookReg.
Import ListNotations.

Inductive cont := CHooks | COut | CTree | CCross | CExp.

(* conditions of the enclosing if statements, as they are written in cmdSetHook *)
Inductive guard :=
| GPrev        (* prevHook != nil *)
| GPrevExp     (* !prevHook.expires.IsZero() *)
| GOutside     (* hook.Fence.detect == nil || hook.Fence.detect["outside"] *)
| GPrevArea    (* prevHook != nil && prevHook.Fence != nil && prevHook.Fence.obj != nil *)
| GPrevCross   (* prevHook.Fence.detect["cross"] *)
| GNewArea     (* hook != nil && hook.Fence != nil && hook.Fence.obj != nil *)
| GNewCross    (* hook.Fence.detect["cross"] *)
| GNewExp.     (* !hook.expires.IsZero() *)

Inductive sop :=
| SDelPrev (c : cont)    (* s.<c>.Delete(.., prevHook) *)
| SSetNew (c : cont).    (* s.<c>.Set(hook) / s.<c>.Insert(.., hook) *)

Definition stmt : Type := (list guard * sop)%type.

Definition guard_holds (prev : option hook) (h : hook) (g : guard) : bool :=
  match g with
  | GPrev => match prev with Some _ => true | None => false end
  | GPrevExp => match prev with Some p => h_expires p | None => false end
  | GOutside => detects (h_detect h) DOutside
  | GPrevArea => match prev with Some p => has_area p | None => false end
  | GPrevCross => match prev with Some p => dmap (h_detect p) DCross | None => false end
  | GNewArea => has_area h
  | GNewCross => dmap (h_detect h) DCross
  | GNewExp => h_expires h
  end.

Definition get_cont (c : cont) (r : reg) : list hook :=
  match c with CHooks => hooks r | COut => hooksOut r | CTree => hookTree r | CCross => hookCross r | CExp => hookExpires r end.
Definition put_cont (c : cont) (l : list hook) (r : reg) : reg :=
  match c with
  | CHooks => {| hooks := l; hooksOut := hooksOut r; hookTree := hookTree r; hookCross := hookCross r; hookExpires := hookExpires r |}
  | COut => {| hooks := hooks r; hooksOut := l; hookTree := hookTree r; hookCross := hookCross r; hookExpires := hookExpires r |}
  | CTree => {| hooks := hooks r; hooksOut := hooksOut r; hookTree := l; hookCross := hookCross r; hookExpires := hookExpires r |}
  | CCross => {| hooks := hooks r; hooksOut := hooksOut r; hookTree := hookTree r; hookCross := l; hookExpires := hookExpires r |}
  | CExp => {| hooks := hooks r; hooksOut := hooksOut r; hookTree := hookTree r; hookCross := hookCross r; hookExpires := l |}
  end.

(* B-trees (hooks, hooksOut, hookExpires): Set replaces the entry of that name; R-trees: Insert adds *)
Definition exec_sop (prev : option hook) (h : hook) (o : sop) (r : reg) : reg :=
  match o with
  | SDelPrev c => match prev with
                  | Some p => put_cont c (del_name (h_name p) (get_cont c r)) r
                  | None => r
                  end
  | SSetNew c => match c with
                 | CTree | CCross => put_cont c (h :: get_cont c r) r
                 | _ => put_cont c (set_name h (get_cont c r)) r
                 end
  end.

Definition exec_stmt (prev : option hook) (h : hook) (r : reg) (s : stmt) : reg :=
  if forallb (guard_holds prev h) (fst s) then exec_sop prev h (snd s) r else r.

Definition run_stmts (l : list stmt) (prev : option hook) (h : hook) (r : reg) : reg :=
  fold_left (exec_stmt prev h) l r.

(* the early returns of cmdSetHook: a hook and a channel cannot share a name; an equal previous hook *)
Definition sethook_stops (r : reg) (h : hook) (equal_prev : bool) : bool :=
  match get_name (h_name h) (hooks r) with
  | Some p => if negb (Bool.eqb (h_chan p) (h_chan h)) then true else equal_prev
  | None => false
  end.

(* cmdSetHook as the execution of a statement list *)
Definition sethook_by (l : list stmt) (r : reg) (h : hook) (equal_prev : bool) : reg :=
  if sethook_stops r h equal_prev then r
  else run_stmts l (get_name (h_name h) (hooks r)) h r.

(* ---- roaming hooks ---- *)
Definition D_nodetect : dset :=
  {| d_nil := true; d_inside := false; d_outside := false; d_enter := false; d_exit := false; d_cross := false |}.
Definition D_inside_only : dset :=
  {| d_nil := false; d_inside := true; d_outside := false; d_enter := false; d_exit := false; d_cross := false |}.

(* SETCHAN / SETHOOK name NEARBY key [DETECT inside] FENCE ROAM ...: Fence.obj == nil *)
Definition roam_hook (name : bytes) (chan : bool) (key : bytes) (detect_nil : bool) : hook :=
  {| h_name := name; h_chan := chan; h_key := key;
     h_detect := if detect_nil then D_nodetect else D_inside_only;
     h_area := None; h_expires := false |}.

(* is the hook of that name among getQueueCandidates' candidates for a SET on key k *)
Definition selected (r : reg) (name k : bytes) (old new : option rect) : bool :=
  existsb (named name) (candidates r k old new).
