(* C09 — what a restart makes of the rewritten log: executable model (no proofs here).

   Three places where the log AOFSHRINK writes, or the directory it leaves, meets start-up code that
   is stricter than, or ordered differently from, the code that accepted the data:

   1. field names: cmdSET / cmdFSET refuse the reserved names z, lat, lon (isReservedFieldName) and
      field.Make stores strings.TrimSpace(name); the snapshot writes the STORED name, which the
      loader checks again.  Whether the check looks at the name as sent or as stored is read from
      the source (Gen/ShrinkFinal.v: reserved_tag, reserved_call_args).
   2. coordinates that are not finite: the snapshot writes a spatial object as "object <json>";
      JSON has no NaN / Infinity (AppendJSON prints null); the point parser reads null as NaN, every
      other geometry parser refuses it; "point ..." / "bounds ..." arguments are exact
      (FormatFloat / ParseFloat).
   3. start-up order: migrateAOF (legacy file "aof" -> appendonly.aof when the latter is missing),
      restoreShrinkBackup (<name>-bak -> <name> when the latter is missing), open, load — in the
      order Serve calls them (Gen/ShrinkFinal.v: startup_calls). *)
From Coq Require Import String Ascii.
From Coq Require Import List NArith ZArith Bool.
From T38 Require Import Base.Bytes Base.SMap Model.Shrink Gen.ShrinkFinal.
Import ListNotations.

Fixpoint bytes_of_string (s : string) : bytes :=
  match s with
  | EmptyString => []
  | String a r => N_of_ascii a :: bytes_of_string r
  end.

(* ---------------------------------------------------------------- 1. field names *)

(* strings.TrimSpace on the white space the harness uses: the ASCII ones (\t \n \v \f \r, space) and
   the two-byte U+0085 / U+00A0.  (The other Unicode spaces are trimmed by the real function too; the
   theorems are stated for any idempotent trim.) *)
Definition is_ws1 (b : N) : bool := (N.eqb b 32) || (N.leb 9 b && N.leb b 13).

Fixpoint trim_left (fuel : nat) (s : bytes) : bytes :=
  match fuel with
  | O => s
  | S f =>
      match s with
      | b :: r => if is_ws1 b then trim_left f r
                  else match s with
                       | 194%N :: c :: r2 => if (N.eqb c 133 || N.eqb c 160) then trim_left f r2 else s
                       | _ => s
                       end
      | [] => []
      end
  end.

(* from the right: the two-byte spaces end in 0x85 / 0xa0 preceded by 0xc2 *)
Fixpoint trim_right_rev (fuel : nat) (s : bytes) : bytes :=   (* s is reversed *)
  match fuel with
  | O => s
  | S f =>
      match s with
      | b :: r => if is_ws1 b then trim_right_rev f r
                  else match s with
                       | c :: 194%N :: r2 => if (N.eqb c 133 || N.eqb c 160) then trim_right_rev f r2 else s
                       | _ => s
                       end
      | [] => []
      end
  end.

Definition trim_ws (s : bytes) : bytes :=
  let l := trim_left (S (length s)) s in rev (trim_right_rev (S (length l)) (rev l)).

(* strings.ToLower on ASCII letters *)
Definition lower_ascii (s : bytes) : bytes :=
  map (fun b => if N.leb 65 b && N.leb b 90 then (b + 32)%N else b) s.

Definition reserved (n : bytes) : bool := existsb (fun r => bytes_eqb n (bytes_of_string r)) reserved_names.

Section Names.
Variable trim : bytes -> bytes.             (* strings.TrimSpace *)
(* what the reserved-name check of cmdSET / of cmdFSET compares with the reserved names: the name as
   sent after the string functions the site (and isReservedFieldName itself) applies to it *)
Variables f_set f_fset : bytes -> bytes.

(* field.Make(name, value) = Field{strings.TrimSpace(name), ...} *)
Definition norm_us (us : fupd) : fupd := map (fun u => (trim (fst u), snd u)) us.

Definition norm (c : cmd) : cmd :=
  match c with
  | CSet k i us ex geo => CSet k i (norm_us us) ex geo
  | CFset k i us => CFset k i (norm_us us)
  | _ => c
  end.

Definition us_ok (f : bytes -> bytes) (us : fupd) : bool := forallb (fun u => negb (reserved (f (fst u)))) us.

Definition cmd_ok (c : cmd) : bool :=
  match c with
  | CSet _ _ us _ _ => us_ok f_set us
  | CFset _ _ us => us_ok f_fset us
  | _ => true
  end.

(* a command as the server executes it: None = -ERR invalid argument, nothing happens *)
Definition exec_n (s : st) (c : cmd) : option (st * outcome) :=
  if cmd_ok c then Some (exec s (norm c)) else None.

(* loadAOF: an invalid argument is fatal — None: the server does not start *)
Fixpoint replay_n (l : list cmd) (s : st) : option st :=
  match l with
  | [] => Some s
  | c :: r => match exec_n s c with
              | Some (s', _) => replay_n r s'
              | None => None
              end
  end.

End Names.

(* the two checks as they are written in the source (Gen/ShrinkFinal.v: reserved_check_sites) *)
Inductive tx := TTrim | TLower.

Open Scope string_scope.
Definition tx_of (s : string) : option tx :=
  if String.eqb s "TrimSpace" then Some TTrim else if String.eqb s "ToLower" then Some TLower else None.

Fixpoint txs_of (l : list string) : option (list tx) :=
  match l with
  | [] => Some []
  | s :: r => match tx_of s, txs_of r with
              | Some t, Some ts => Some (t :: ts)
              | _, _ => None
              end
  end.

Fixpoint site_txs (site : string) (l : list (string * list string)) : option (list tx) :=
  match l with
  | [] => None
  | (k, v) :: r => if String.eqb k site then txs_of v else site_txs site r
  end.

Definition set_txs_src : option (list tx) := site_txs "cmdSET" reserved_check_sites.
Definition fset_txs_src : option (list tx) := site_txs "cmdFSET" reserved_check_sites.
(* no third site creates field names behind the check *)
Definition check_sites_src : list string := map fst reserved_check_sites.
Close Scope string_scope.

(* the function a list of string functions denotes (applied in list order) *)
Definition f_of (trim : bytes -> bytes) (txs : list tx) (n : bytes) : bytes :=
  fold_left (fun x t => match t with TTrim => trim x | TLower => lower_ascii x end) txs n.

(* ---------------------------------------------------------------- 2. coordinates that are not finite *)

(* a coordinate: a finite number (its text: opaque; inrange: inside the range the GeoJSON validator
   wants for its axis, -180..180 / -90..90; a third coordinate is never checked: inrange = true) or one
   of the three values JSON cannot express *)
Inductive num := Fin (t : bytes) (inrange : bool) | PInf | NInf | NaN.
Definition finite (n : num) : bool := match n with Fin _ _ => true | _ => false end.
Definition valid (n : num) : bool := match n with Fin _ ok => ok | _ => false end.   (* geometry.Point.Valid *)

(* spatial payloads as the rewrite distinguishes them *)
Inductive geo :=
| GPoint (y x : num)                          (* *geojson.SimplePoint, or *geojson.Point with two coordinates and nothing else *)
| GPointZ (y x z : num)                       (* *geojson.Point with three coordinates and nothing else *)
| GRect (miny minx maxy maxx : num)           (* *geojson.Rect (BOUNDS) *)
| GOther (kind : bytes) (cs : list num).      (* every other GeoJSON object: type and its coordinates in document order *)

(* a JSON coordinate *)
Inductive jnum := JNum (t : bytes) (inrange : bool) | JNull.
Definition jof (n : num) : jnum := match n with Fin t ok => JNum t ok | _ => JNull end.   (* AppendJSON *)

(* the payload arguments of a "set" record *)
Inductive payload :=
| PObject (kind : bytes) (cs : list jnum)     (* object {"type":kind,"coordinates":...} *)
| PPoint (args : list num)                    (* point lat lon [z] *)
| PBounds (args : list num).                  (* bounds minlat minlon maxlat maxlon *)

Definition k_point : bytes := bytes_of_string "Point".
Definition k_polygon : bytes := bytes_of_string "Polygon".

(* the coordinates of an object in document order ([lon, lat, z]); a rectangle prints as the
   five-corner polygon *)
Definition coords (g : geo) : bytes * list num :=
  match g with
  | GPoint y x => (k_point, [x; y])
  | GPointZ y x z => (k_point, [x; y; z])
  | GRect miny minx maxy maxx =>
      (k_polygon, [minx; miny; maxx; miny; maxx; maxy; minx; maxy; minx; miny])
  | GOther k cs => (k, cs)
  end.

(* pinned tree: values = append(values, "object", string(o.Geo().AppendJSON(nil))) *)
Definition enc_orig (g : geo) : payload := PObject (fst (coords g)) (map jof (snd (coords g))).

(* first repair: only non-finite coordinates are written with POINT / BOUNDS *)
Definition enc_finite (g : geo) : payload :=
  match g with
  | GPoint y x => if finite y && finite x then enc_orig g else PPoint [y; x]
  | GPointZ y x z => if finite y && finite x && finite z then enc_orig g else PPoint [y; x; z]
  | GRect a b c d => if finite a && finite b && finite c && finite d then enc_orig g else PBounds [a; b; c; d]
  | GOther _ _ => enc_orig g
  end.

(* repaired tree (shrinkGeoArgs): a point or rectangle the GeoJSON reader would not give back — a
   position that is not Valid() (out of range, NaN, infinite) or a third coordinate that is not
   finite — is written with POINT / BOUNDS *)
Definition enc (g : geo) : payload :=
  match g with
  | GPoint y x => if valid y && valid x then enc_orig g else PPoint [y; x]
  | GPointZ y x z => if valid y && valid x && finite z then enc_orig g else PPoint [y; x; z]
  | GRect a b c d => if valid a && valid b && valid c && valid d then enc_orig g else PBounds [a; b; c; d]
  | GOther _ _ => enc_orig g
  end.

Definition nof_point (j : jnum) : num := match j with JNum t ok => Fin t ok | JNull => NaN end.   (* parseJSONPointCoords: null -> NaN *)
Definition nof_strict (j : jnum) : option num := match j with JNum t ok => Some (Fin t ok) | JNull => None end.

Fixpoint all_some {A} (l : list (option A)) : option (list A) :=
  match l with
  | [] => Some []
  | Some a :: r => match all_some r with Some t => Some (a :: t) | None => None end
  | None :: _ => None
  end.

(* cmdSET on the payload; rv: the server runs with REQUIREVALID (geomParseOpts.RequireValid: the
   GeoJSON reader refuses an object that is not Valid(); POINT and BOUNDS arguments are never
   validated).  None = the record is refused (errCoordinatesInvalid: fatal at load) *)
Definition dec (rv : bool) (p : payload) : option geo :=
  match p with
  | PPoint [y; x] => Some (GPoint y x)
  | PPoint [y; x; z] => Some (GPointZ y x z)
  | PPoint _ => None
  | PBounds [a; b; c; d] => Some (GRect a b c d)
  | PBounds _ => None
  | PObject k cs =>
      if bytes_eqb k k_point then
        match cs with
        | [x; y] =>
            if rv && negb (valid (nof_point y) && valid (nof_point x)) then None
            else Some (GPoint (nof_point y) (nof_point x))
        | [x; y; z] =>
            if rv && negb (valid (nof_point y) && valid (nof_point x)) then None
            else Some (GPointZ (nof_point y) (nof_point x) (nof_point z))
        | _ => None
        end
      else match all_some (map nof_strict cs) with
           | Some l => if rv && negb (forallb valid l) then None else Some (GOther k l)
           | None => None
           end
  end.

Definition geo_finite (g : geo) : bool := forallb finite (snd (coords g)).

(* ---------------------------------------------------------------- 3. start-up order *)

Inductive sop := SMigrate | SRestore | SOpen | SLoad.

Open Scope string_scope.
Definition sop_of (s : string) : option sop :=
  if String.eqb s "migrateAOF" then Some SMigrate
  else if String.eqb s "restoreShrinkBackup" then Some SRestore
  else if String.eqb s "os.OpenFile" then Some SOpen
  else if String.eqb s "loadAOF" then Some SLoad
  else None.
Close Scope string_scope.

Fixpoint sops_of (l : list string) : option (list sop) :=
  match l with
  | [] => Some []
  | s :: r => match sop_of s, sops_of r with
              | Some o, Some t => Some (o :: t)
              | _, _ => None
              end
  end.

Definition startup_src : option (list sop) := sops_of startup_calls.

(* the repaired order *)
Definition startup_ops : list sop := [SRestore; SMigrate; SOpen; SLoad].
(* the order of the pinned tree + restoreShrinkBackup as first added *)
Definition startup_ops_orig : list sop := [SMigrate; SRestore; SOpen; SLoad].

(* migrateAOF: <dflt> (= <dir>/appendonly.aof) missing and the legacy file present: the legacy file is
   converted and renamed to <dflt>; the legacy file stays where it is *)
Definition migrate (dflt legacy : bytes) (fs : fsys) : fsys :=
  match get dflt fs with
  | Some _ => fs
  | None => match get legacy fs with
            | Some f => set dflt f fs
            | None => fs
            end
  end.

(* start-up as a sequence of operations on the file system; the log is opened under <name>
   (O_CREATE: an empty file when missing) and loaded *)
Definition sstate := (fsys * option st)%type.

Definition do_sop (dflt legacy name : bytes) (x : sstate) (o : sop) : sstate :=
  match o with
  | SMigrate => (migrate dflt legacy (fst x), snd x)
  | SRestore => (restore_backup name (fst x), snd x)
  | SOpen => (match get name (fst x) with Some _ => fst x | None => set name [] (fst x) end, snd x)
  | SLoad => (fst x, match get name (fst x) with Some f => Some (replay f []) | None => None end)
  end.

Definition startup (ops : list sop) (dflt legacy name : bytes) (fs : fsys) : option st :=
  snd (fold_left (do_sop dflt legacy name) ops (fs, None)).
