(* Model/WhereExprScan.v — the expression arm of scanWriter.fieldMatch next to the simple
   WHERE field min max arm (Model/Where.v), on objects whose fields are the classified values of
   Model/Where.v.

     internal/server/expr.go     objExpr: a stored field reaches the evaluator as
                                 resultToValue(gjson.Parse(field.Value().JSON()))
     internal/field/field.go     Value.JSON: a Number prints its text, except NaN / +Inf / -Inf,
                                 which print the JSON *strings* "NaN" "+Inf" "-Inf"
     internal/server/scanner.go  fieldMatch: the wheres loop, an expression clause calls matchExpr

   [value_to_expr] is that conversion on classified values: Null -> null, False / True -> booleans,
   String -> string, JSON -> object (raw text), Number -> float64, the three non-finite numbers ->
   strings.  A finite number is carried as thousandths in Model/Where.v; its float64 is the
   correctly rounded quotient by 1000 (= strconv.ParseFloat of the decimal text).  No proofs. *)
From Coq Require Import List NArith ZArith Bool.
From T38 Require Import Base.Bytes Model.Where Model.WhereExpr.
Import ListNotations.

Section Scan.
Variable F : Type.
Variable O : oracle F.
Variable mt : bytes -> bytes -> option (option (evalue F)).   (* object id, ident *)

Definition th_to_float (z : Z) : F := f_div F O (f_of_int F O z) (f_of_int F O 1000%Z).

Definition s_pInf : bytes := [43; 73; 110; 102]%N.     (* "+Inf" *)
Definition s_mInf : bytes := [45; 73; 110; 102]%N.     (* "-Inf" *)

Definition value_to_expr (v : value) : evalue F :=
  match v_kind v with
  | KNull => VNull F
  | KFalse => VBool F false
  | KTrue => VBool F true
  | KString => VStr F (v_data v)
  | KJSON => VJson F (v_data v)
  | KNumber =>
      match v_num v with
      | NaN => VStr F s_NaN
      | PosInf => VStr F s_pInf
      | NegInf => VStr F s_mInf
      | Fin z => VFloat F (th_to_float z)
      end
  end.

(* an object as a scan sees it: id, typeForObject, String(), field list *)
Record sobj := mkSobj { so_id : bytes; so_type : option bytes; so_str : bytes; so_fields : fields }.

(* POINT and string objects have no extra JSON members (Members() = ""): a plain identifier is
   never found there; any other text is gjson path syntax (multipaths, modifiers) and is left to
   the table [mt] of the oracle instance *)
Definition plain_ident (s : bytes) : bool :=
  match s with [] => false | _ => forallb id_continue s end.

Definition to_eobj (mt : bytes -> option (option (evalue F))) (o : sobj) : eobj F :=
  mkObj F (so_id o) (so_type o) (so_str o)
    (fun ident => if plain_ident ident then Some None else mt ident)
    (map (fun nv => (fst nv, value_to_expr (snd nv))) (so_fields o)).

(* one WHERE clause: the expression form or the field form *)
Inductive wclause := WExpr (e : bytes) | WRange (name : bytes) (w : whereT).

Definition clause_match (c : wclause) (o : sobj) : res bool :=
  match c with
  | WExpr e => match_expr F O (to_eobj (mt (so_id o)) o) e
  | WRange n w => Ok (match_field w (get_field (so_fields o) n))
  end.

(* the wheres loop of fieldMatch: the first rejecting clause returns false *)
Fixpoint clauses_match (cs : list wclause) (o : sobj) : res bool :=
  match cs with
  | [] => Ok true
  | c :: r =>
      match clause_match c o with
      | Ok b => if negb b then Ok false else clauses_match r o
      | e => e
      end
  end.

(* the ids a filtered SCAN writes over the objects in id order (DESC: the same list backwards) *)
Fixpoint keep_ids (cs : list wclause) (objs : list sobj) : res (list bytes) :=
  match objs with
  | [] => Ok []
  | o :: r =>
      match clauses_match cs o with
      | Ok b =>
          match keep_ids cs r with
          | Ok ids => Ok (if b then so_id o :: ids else ids)
          | e => e
          end
      | Err x => Err x | Panic => Panic | NoFuel => NoFuel | Outside => Outside
      end
  end.

Definition scan_expr_ids (desc : bool) (objs : list sobj) (cs : list wclause) : res (list bytes) :=
  keep_ids cs (if desc then rev objs else objs).

End Scan.
