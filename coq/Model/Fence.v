(* Model/Fence.v — executable transcription of the static-fence part of
   /repo/internal/server/fence.go (FenceMatch / fenceMatch) over the abstract domain of C05,
   the documented rule (doc_msgs) and the message weights of aof.go (msgDetectCode).
   No proofs here (Proofs/FenceProofs.v).

   Geometry and filters stay oracles; what the code looks at is abstracted to booleans:
     o_sp   fenceMatchObject(fence, o): the object is spatially inside the area
            (Intersects for NEARBY / INTERSECTS, Within for WITHIN)
     o_flt  sw.fieldMatch(o): the object passes the fence's WHERE / WHEREIN / WHEREEVAL filters
            (testObject = globMatch && fieldMatch; the glob was already checked on the id)
     c_cross the straight line between the two centres hits the area *)
From Coq Require Import List Bool.
Import ListNotations.

Inductive dkind := DInside | DOutside | DEnter | DExit | DCross.

(* fence.detect: a nil map (no DETECT clause) or a set of kinds *)
Record dset := { d_nil : bool; d_inside : bool; d_outside : bool; d_enter : bool; d_exit : bool; d_cross : bool }.

(* fence.detect[k]  (false on the nil map) *)
Definition dmap (D : dset) (k : dkind) : bool :=
  negb (d_nil D) &&
  match k with
  | DInside => d_inside D | DOutside => d_outside D | DEnter => d_enter D
  | DExit => d_exit D | DCross => d_cross D
  end.
(* fence.detect == nil || fence.detect[k] *)
Definition detects (D : dset) (k : dkind) : bool := d_nil D || dmap D k.

(* details.command: "set", "fset", "del", "drop", or anything else that carries an object
   ("expire", "persist", ...: neither of the four, treated by fenceMatch like a set) *)
Inductive cmd := CSet | CFset | CDel | CDrop | COther.

Record otest := { o_sp : bool; o_flt : bool }.

Inductive fmsg := FM (k : dkind) | FDel | FDrop.

Record fcase := {
  c_cmd : cmd;
  c_obj : option otest;     (* details.obj (nil for drop / rename / flushdb) *)
  c_old : option otest;     (* details.old (nil on first appearance, always nil for fset) *)
  c_glob : bool;            (* multiGlobMatch(fence.globs, obj.ID()) *)
  c_spatial : bool;         (* objIsSpatial(obj.Geo()) *)
  c_nofields : bool;        (* sw.nofields *)
  c_cross : bool;           (* the line old centre -> new centre hits the area *)
  c_written : bool          (* sw.writeObject produced output (false for COUNT output) *)
}.

Inductive fres := FOk (msgs : list fmsg) | FFuel.

Definition is_fset (c : cmd) : bool := match c with CFset => true | _ => false end.

(* the match1 / match2 / nocross block; None = "return nil" *)
Definition classify (c : cmd) (old : option otest) (new : otest) (cross : bool) : option dkind :=
  let nocross := false in
  let match1 := match old with Some o => o_sp o | None => false end in      (* fenceMatchObject(fence, old) *)
  let '(match1, nocross) :=
    if match1 then
      let m := match old with Some o => o_flt o | None => false end in      (* sw.testObject(old) *)
      (m, negb m)
    else (match1, nocross) in
  let match2 := o_sp new in                                                 (* fenceMatchObject(fence, obj) *)
  let '(match2, nocross) :=
    if match2 then (o_flt new, negb (o_flt new)) else (match2, nocross) in  (* sw.testObject(obj) *)
  if match1 && match2 then Some DInside
  else if match1 && negb match2 then Some DExit
  else if negb match1 && match2 then
    Some (if is_fset c then DInside else DEnter)
  else
    if negb (is_fset c) then
      if negb (o_flt new) then None                                         (* sw.fieldMatch(obj) fails *)
      else
        if negb nocross && (match old with Some _ => true | None => false end) then
          if cross then Some DCross else Some DOutside
        else Some DOutside
    else Some DOutside.

(* for { if detect != nil && !detect[k] { enter->inside; exit,cross->outside; else return nil } break } *)
Inductive fb := FbKind (k : dkind) | FbNil | FbFuel.
Fixpoint fallback (fuel : nat) (D : dset) (k : dkind) : fb :=
  match fuel with
  | O => FbFuel
  | S f =>
      if negb (d_nil D) && negb (dmap D k) then
        match k with
        | DEnter => fallback f D DInside
        | DExit | DCross => fallback f D DOutside
        | _ => FbNil
        end
      else FbKind k
  end.

(* fenceMatch for a non-roaming fence *)
Definition fence_match_inner (D : dset) (x : fcase) : fres :=
  match c_cmd x with
  | CDrop => FOk [FDrop]
  | _ =>
    match c_obj x with
    | None => FOk []
    | Some new =>
      if negb (c_glob x) then FOk []
      else if negb (c_spatial x) then FOk []
      else if is_fset (c_cmd x) && c_nofields x then FOk []
      else match c_cmd x with
      | CDel => FOk [FDel]
      | _ =>
        match classify (c_cmd x) (c_old x) new (c_cross x) with
        | None => FOk []
        | Some k0 =>
          match fallback 3 D k0 with
          | FbFuel => FFuel
          | FbNil => FOk []
          | FbKind k =>
            if negb (c_written x) then FOk []                       (* sw.wr.Len() == 0 *)
            else
              let main := if detects D k then [FM k] else [] in
              let trail :=
                match k with
                | DEnter => if detects D DInside then [FM DInside] else []
                | DExit | DCross => if detects D DOutside then [FM DOutside] else []
                | _ => []
                end in
              FOk (main ++ trail)
          end
        end
      end
    end
  end.

(* FenceMatch: the COMMANDS filter. Every message of one write carries that write's command,
   so the filter keeps all or none: accept_ok = (len(fence.accept) == 0 || fence.accept[command]) *)
Definition fence_match (accept_ok : bool) (D : dset) (x : fcase) : fres :=
  match fence_match_inner D x with
  | FOk l => if accept_ok then FOk l else FOk []
  | FFuel => FFuel
  end.

(* ---- the documented rule ---- *)
(* "inside" = spatially inside and passing the filters.  Stated refinements of the real code:
   R1  outside -> outside: the event is dropped when the NEW object fails the filters;
   R2  "cross" is considered only when the previous object was spatially outside the area (an
       object that sat inside the area's geometry but failed the filters does not "cross" it);
   R3  FSET carries no previous object: [inside] when inside, otherwise [outside] (no filter
       condition, no cross). *)
Definition is_in (o : otest) : bool := o_sp o && o_flt o.
Definition doc_all (c : cmd) (old : option otest) (new : otest) (cross : bool) : list dkind :=
  if is_fset c then (if is_in new then [DInside] else [DOutside])
  else
    let in1 := match old with Some o => is_in o | None => false end in
    let in2 := is_in new in
    match in1, in2 with
    | true, true => [DInside]
    | false, true => [DEnter; DInside]
    | true, false => [DExit; DOutside]
    | false, false =>
        if negb (o_flt new) then []                                                   (* R1 *)
        else if cross && match old with Some o => negb (o_sp o) | None => false end   (* R2 *)
             then [DCross; DOutside] else [DOutside]
    end.
Definition doc_msgs (D : dset) (c : cmd) (old : option otest) (new : otest) (cross : bool) : list dkind :=
  filter (detects D) (doc_all c old new cross).

(* msgDetectCode: "cross" has no case of its own and gets the default weight 0 *)
Definition weight (m : fmsg) : nat :=
  match m with
  | FM DExit => 1 | FM DOutside => 2 | FM DEnter => 3 | FM DInside => 4
  | _ => 0
  end.
