(* C05 — the webhook path end to end.

   A webhook's notifications do not go straight to its endpoint: queueHooks (aof.go) stores the
   sorted webhook messages of a write in the hook queue, and the hook's manager (hooks.go
   Hook.manager / Hook.proc) takes them out, sends them one by one and, when a send fails, puts
   the failed message and all following ones back.  This file composes the two existing models:

     Model/HookReg.v  queue_hooks    what one write hands to the channels and to the hook queue
     Model/Queues.v   Enq / Mgr      the hook queue and the two halves of Hook.proc (C10's model)

   so that "what the endpoint of a webhook has accepted" can be compared with what the subscribers
   of a channel and a live connection with the same fence definition receive, for every endpoint
   failure pattern.  No proofs in this file. *)
From Coq Require Import List NArith ZArith Bool.
From T38 Require Import Base.Bytes Model.Fence Model.HookReg Model.Queues.
Import ListNotations.

(* the body of a queued notification, as far as C05 looks at it (hook / meta / group / time are
   masked): its fmsg.  The queue model carries message ids. *)
Definition msg_code (m : fmsg) : msgid :=
  match m with
  | FDel => 0 | FDrop => 1
  | FM DInside => 2 | FM DOutside => 3 | FM DEnter => 4 | FM DExit => 5 | FM DCross => 6
  end%N.

Definition msg_decode (n : msgid) : fmsg :=
  match n with
  | 0 => FDel | 2 => FM DInside | 3 => FM DOutside | 4 => FM DEnter | 5 => FM DExit | 6 => FM DCross
  | _ => FDrop
  end%N.

(* one write as queueHooks sees it: the time, the key, the candidate set in the order the Go map
   happens to be iterated, and per candidate the abstract case and the COMMANDS verdict *)
Record fwrite := mkFW {
  w_now : Z;
  w_key : bytes;
  w_cl : list hook;
  w_cf : hook -> fcase;
  w_af : hook -> bool
}.

(* a history: writes interleaved with the halves of Hook.proc of the webhooks' managers; outs =
   the results of the successive sends of that half (true = an endpoint accepted the message) *)
Inductive sev :=
| SWrite (w : fwrite)
| SProc (n : bytes) (now : Z) (outs : list bool).

(* nm: the identity of a hook in the queue ("hook" member of the stored JSON = Hook.Name) *)
Definition enq_of (nm : bytes -> hookid) (w : fwrite) : qev :=
  Enq (w_now w) (map (fun t : tagged => (nm (fst t), msg_code (snd t)))
                     (snd (queue_hooks (w_cl w) (w_cf w) (w_af w)))).

Definition qev_of (nm : bytes -> hookid) (e : sev) : qev :=
  match e with
  | SWrite w => enq_of nm w
  | SProc n now outs => Mgr (nm n) now outs
  end.

Definition hist (nm : bytes -> hookid) (evs : list sev) : list qev := map (qev_of nm) evs.

Definition writes_of (evs : list sev) : list fwrite :=
  flat_map (fun e => match e with SWrite w => [w] | SProc _ _ _ => [] end) evs.

Definition bodies (l : list entry) : list fmsg := map (fun e => msg_decode (e_msg e)) l.

(* the bodies the endpoint of webhook n has accepted, in the order it accepted them *)
Definition webhook_accepted (nm : bytes -> hookid) (evs : list sev) (n : bytes) : list fmsg :=
  bodies (q_delivered (qrun hq_init (hist nm evs)) (nm n)).

(* ... and what is still owed to it (being sent, or queued) *)
Definition webhook_owed (nm : bytes -> hookid) (evs : list sev) (n : bytes) : list fmsg :=
  bodies (pending (qrun hq_init (hist nm evs)) (nm n)).

(* what the writes of the history queued for webhook n / published on channel n, in write order *)
Definition webhook_stream (evs : list sev) (n : bytes) : list fmsg :=
  flat_map (fun w => webhook_delivery (w_cl w) (w_cf w) (w_af w) n) (writes_of evs).

Definition channel_stream (evs : list sev) (n : bytes) : list fmsg :=
  flat_map (fun w => channel_delivery (w_cl w) (w_cf w) (w_af w) n) (writes_of evs).

(* a live connection on key k with DETECT value D whose definition is that of hook hx (so that its
   abstract case and COMMANDS verdict for a write are hx's) *)
Definition live_stream (k : bytes) (D : dset) (hx : hook) (evs : list sev) : list fmsg :=
  flat_map (fun w => live_delivery k (w_key w) (w_af w hx) D (w_cf w hx)) (writes_of evs).
