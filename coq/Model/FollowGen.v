(* C06 — follow generations (s.followc) and followers without a log (--appendonly no): executable
   model, definitions only.

   Part 1: a small abstract interpreter for the statement lists t38x renders from the source
   (coq/Gen/FollowSteps.v: every leaf statement of followStep / followCheckSome /
   followHandleCommand / followStartOver with the conditions that enclose it and with what it does
   to the server object).  It answers two questions:
     - [stale_run]: what does an attempt whose generation is no longer s.followc reach first - a
       return of errNoLongerFollowing, or a statement that touches the server?  The answers for the
       five places where an attempt comes back from the network are the configuration [gcfg] of the
       transition system below ([cfg_of]);
     - [so_run]: which operations does followStartOver perform when the server has / has not a log?
   Part 2: the transition system.  Every FOLLOW that changes the leader increments s.followc and
   starts a follow() goroutine for the new generation; the goroutines of earlier generations are not
   cancelled, they end where they compare their generation with s.followc.  An attempt (one follow()
   goroutine) walks through followStep: unlocked test at the top, lock+clear the flag, dial/AUTH/SERVER
   (unlocked network round trips), followCheckSome (locked; the resync decision of Model/Follow.v
   [check_some] and its effect on log, dataset and aofsz), REPLCONF/AOF (unlocked) + first caught-up
   test, then the read loop (followHandleCommand per record, then the caught-up test).  The leader's
   log is supplied by the environment at every step that talks to the leader, so the theorems
   quantify over every leader behaviour (appends, AOFSHRINK between two steps, another leader).
   [w_aof] is the follower's --appendonly setting: without a log nothing is appended, aofsz stays 0
   and every followCheckSome starts over. *)
From Coq Require Import List ZArith Bool String Arith.
From T38 Require Import Base.Bytes Model.Follow.
Import ListNotations.

(* ================= Part 1: abstract runs of generated statement lists ================= *)
Open Scope string_scope.

Definition gstmt := (list string * string * list string)%type.

Fixpoint mem_str (x : string) (l : list string) : bool :=
  match l with [] => false | y :: t => String.eqb x y || mem_str x t end.

Definition ends_with (suf s : string) : bool :=
  let n := String.length s in let m := String.length suf in
  Nat.leb m n && String.eqb (substring (n - m) m s) suf.

Definition is_return (t : string) : bool := String.eqb t "return" || prefix "return " t.

(* what does not change the server: taking and releasing s.mu, reading the configuration and the
   generation counter, authenticating on a connection *)
Definition harmless_effs : list string :=
  ["call s.mu.Lock"; "call s.mu.Unlock"; "defer call s.mu.Unlock"; "call s.config.leaderAuth";
   "call s.config.announcePort"; "call s.config.announceIP"; "call s.config.serverID";
   "call s.followDoLeaderAuth"; "call s.followc.Load"].
Definition harmless (effs : list string) : bool := forallb (fun e => mem_str e harmless_effs) effs.

Inductive tv := TTrue | TFalse | TUnknown.

(* an attempt whose generation is stale, on the path without errors and without debug logging *)
Definition stale_guard (g : string) : tv :=
  if String.eqb g "int(s.followc.Load()) != followc" then TTrue   (* = gen_guard *)
  else if String.eqb g "err != nil" then TFalse
  else if String.eqb g "s.opts.ShowDebugMessages" then TFalse
  else if String.eqb g "for" then TTrue
  else TUnknown.

Fixpoint guards_tv (v : string -> tv) (gs : list string) : tv :=
  match gs with
  | [] => TTrue
  | g :: t =>
      match v g with
      | TFalse => TFalse
      | TTrue => guards_tv v t
      | TUnknown => match guards_tv v t with TFalse => TFalse | _ => TUnknown end
      end
  end.

Inductive sres :=
| SEnds (ret : string)      (* returns errNoLongerFollowing: follow() ends this generation *)
| SReturns (ret : string)   (* returns something else before touching the server *)
| SEffect (stmt : string)   (* reaches (or may reach) a statement that touches the server *)
| SFallsOff.

Definition gen_guard : string := "int(s.followc.Load()) != followc".

Fixpoint is_prefix (p l : list string) : bool :=
  match p, l with
  | [], _ => true
  | x :: p', y :: l' => String.eqb x y && is_prefix p' l'
  | _ :: _, [] => false
  end.

(* the conditions around a block whose innermost condition is the generation test *)
Fixpoint ctx_of (gs : list string) : option (list string) :=
  match gs with
  | [] => None
  | [g] => if String.eqb g gen_guard then Some [] else None
  | g :: t => match ctx_of t with Some c => Some (g :: c) | None => None end
  end.

(* [dead]: blocks (given by their enclosing conditions) in which the stale attempt has returned
   errNoLongerFollowing under the generation test: whether such a block is entered is unknown, but if it is, the
   attempt ends there, so the statements of the block that follow are not reached by it *)
Fixpoint stale_run_d (dead : list (list string)) (l : list gstmt) : sres :=
  match l with
  | [] => SFallsOff
  | (gs, t, effs) :: rest =>
      if existsb (fun c => is_prefix c gs) dead then stale_run_d dead rest
      else
      match guards_tv stale_guard gs with
      | TFalse => stale_run_d dead rest
      | TTrue =>
          if negb (harmless effs) then SEffect t
          else if is_return t then (if ends_with "errNoLongerFollowing" t then SEnds t else SReturns t)
          else stale_run_d dead rest
      | TUnknown =>
          if negb (harmless effs) then SEffect t
          else if is_return t && ends_with "errNoLongerFollowing" t then
                 match ctx_of gs with
                 | Some c => stale_run_d (c :: dead) rest
                 | None => stale_run_d dead rest
                 end
          else stale_run_d dead rest
      end
  end.
Definition stale_run (l : list gstmt) : sres := stale_run_d [] l.

(* the statements after the first release of s.mu that is not part of a generation test *)
Fixpoint after_plain_unlock (l : list gstmt) : list gstmt :=
  match l with
  | [] => []
  | (gs, t, effs) :: rest =>
      if mem_str "call s.mu.Unlock" effs && negb (mem_str gen_guard gs) then rest else after_plain_unlock rest
  end.

Fixpoint after_call (c : string) (l : list gstmt) : list gstmt :=
  match l with
  | [] => []
  | (gs, t, effs) :: rest => if mem_str c effs then rest else after_call c rest
  end.

Definition outside_loop (l : list gstmt) : list gstmt :=
  filter (fun x : gstmt => negb (mem_str "for" (fst (fst x)))) l.

(* is the generation compared with s.followc, before anything touches the server, ... *)
Record gcfg := {
  c_top : bool;     (* ... at the top of followStep *)
  c_check : bool;   (* ... in followCheckSome after s.mu is taken *)
  c_cmd : bool;     (* ... in followHandleCommand after s.mu is taken *)
  c_aofg : bool;    (* ... between followCheckSome's return and the first caught-up test after AOF *)
  c_flagg : bool }. (* ... between followHandleCommand's return and the write of faofsz, AND in the caught-up block
                       of the read loop before flushAOF / setCaughtUp(true) *)

Definition ends (r : sres) : bool := match r with SEnds _ => true | _ => false end.
Definition no_effect (r : sres) : bool := match r with SEffect _ => false | _ => true end.

Definition cfg_of (step check cmd : list gstmt) : gcfg :=
  {| c_top := ends (stale_run step);
     c_check := ends (stale_run check);
     c_cmd := ends (stale_run cmd);
     c_aofg := ends (stale_run (outside_loop (after_call "call s.followCheckSome" step)));
     c_flagg := ends (stale_run (after_call "call s.followHandleCommand" step)) &&
                no_effect (stale_run (after_plain_unlock (after_call "call s.followHandleCommand" step))) |}.

(* the configuration the theorems of Props/C06gen.v are stated for: the source as it is - the working tree with
   proposed_fixes/C06-stale-generation-flag.diff: all five places are guarded
   (Proofs/FollowGenProofs.v gen_guards_transcribed: cfg_of <generated lists> = proved_cfg) *)
Definition proved_cfg : gcfg :=
  {| c_top := true; c_check := true; c_cmd := true; c_aofg := true; c_flagg := true |}.

(* the code before that repair: faofsz and the caught-up flag were written after the AOF reply and in the read loop
   without a generation test (refuted: Props/C06gen.v c06g_stale_flag_pinned_refuted) *)
Definition pinned_cfg : gcfg :=
  {| c_top := true; c_check := true; c_cmd := true; c_aofg := false; c_flagg := false |}.

(* ---- followStartOver ---- *)
Inductive so_op :=
| ORecreate   (* the log file is recreated empty *)
| OReset      (* followReset: FLUSHDB + reset(): dataset, hooks, channels cleared, aofsz = 0 *)
| ONilDeref.  (* a method of s.aof is called although s.aof is nil *)

Definition so_guard (aof : bool) (g : string) : option bool :=
  if String.eqb g "s.aof != nil" then Some aof
  else if String.eqb g "s.aof == nil" then Some (negb aof)
  else if String.eqb g "err != nil" then Some false
  else None.

Fixpoint so_guards (aof : bool) (gs : list string) : option bool :=
  match gs with
  | [] => Some true
  | g :: t =>
      match so_guard aof g with
      | None => None
      | Some false => Some false
      | Some true => so_guards aof t
      end
  end.

Fixpoint so_effs (aof : bool) (effs : list string) : option (list so_op) :=
  match effs with
  | [] => Some []
  | e :: t =>
      let here :=
        if String.eqb e "call s.followReset" then Some [OReset]
        else if String.eqb e "set s.aof" then Some [ORecreate]
        else if String.eqb e "call s.aof.Name" || String.eqb e "call s.aof.Close" then Some (if aof then [] else [ONilDeref])
        else if mem_str e harmless_effs then Some []
        else None in
      match here, so_effs aof t with
      | Some a, Some b => Some (a ++ b)%list
      | _, _ => None
      end
  end.

Fixpoint so_run (aof : bool) (l : list gstmt) : option (list so_op) :=
  match l with
  | [] => Some []
  | (gs, t, effs) :: rest =>
      match so_guards aof gs with
      | None => None
      | Some false => so_run aof rest
      | Some true =>
          match so_effs aof effs with
          | None => None
          | Some ops =>
              if is_return t then Some ops
              else match so_run aof rest with Some r => Some (ops ++ r)%list | None => None end
          end
      end
  end.

(* the operations the theorems are stated for (Proofs: so_run aof <generated list> = Some (proved_ops aof)) *)
Definition proved_ops (aof : bool) : list so_op := if aof then [ORecreate; OReset] else [OReset].

Definition all_effs (l : list gstmt) : list string := flat_map (fun x : gstmt => snd x) l.

(* is c called by a statement that no condition encloses? *)
Definition calls_unguarded (c : string) (l : list gstmt) : bool :=
  existsb (fun x : gstmt => match fst (fst x) with [] => mem_str c (snd x) | _ => false end) l.

Close Scope string_scope.

(* ================= Part 2: attempts of several follow generations ================= *)
Open Scope Z_scope.

Section Gen.
  Variable digest : Type.
  Variable md5 : bytes -> digest.
  Variable digest_eqb : digest -> digest -> bool.
  Variable csz : Z.
  Variable st : Type.
  Variable st0 : st.
  Variable app : record -> st -> st * bool.

  Variable cfg : gcfg.
  Variable aof : bool.              (* --appendonly yes / no *)
  Variable ops : bool -> list so_op. (* followStartOver *)

  Record gdata := { d_file : file; d_mem : st; d_aofsz : Z }.

  Definition apply_so (d : gdata) (o : so_op) : gdata :=
    match o with
    | ORecreate => {| d_file := []; d_mem := d_mem d; d_aofsz := d_aofsz d |}
    | OReset => {| d_file := d_file d; d_mem := st0; d_aofsz := 0 |}
    | ONilDeref => d
    end.
  Definition start_over (os : list so_op) (d : gdata) : gdata := fold_left apply_so os d.

  (* followCheckSome below the generation test: the decision of Model/Follow.v check_some (mode
     Repaired) and what it does to log, dataset and aofsz; None = an error (follow() retries) *)
  Definition resync (d : gdata) (l : file) : gdata * option Z :=
    match fst (check_some digest md5 digest_eqb csz Repaired (d_file d) (d_aofsz d) l) with
    | CSStartOverSmall | CSStartOver => (start_over (ops aof) d, Some 0)
    | CSIntact pos => (d, Some pos)
    | CSTruncate pos keep =>
        let fl := firstn keep (d_file d) in
        ({| d_file := fl; d_mem := replay st st0 app fl; d_aofsz := pos |}, Some pos)
    | CSError | CSFuel => (d, None)
    end.

  Record gses := { gs_rest : file;    (* records of the stream not yet handled *)
                   gs_size : Z;       (* aof_size of the SERVER reply of this attempt *)
                   gs_cu : bool;      (* followStep's local caughtUp *)
                   gs_lpos : Z;
                   gs_done : file;    (* ghost: records handed over so far *)
                   gs_pend : bool }.  (* the read loop is between followHandleCommand and setCaughtUp(true) *)

  Inductive phase :=
  | PNew                    (* follow(): about to call followStep *)
  | PTop                    (* passed the unlocked test at the top of followStep *)
  | PHand                   (* flag cleared; dialling / AUTH *)
  | PServer (sz : Z)        (* SERVER answered: the leader's aof_size was sz *)
  | PChecked (sz pos : Z)   (* followCheckSome returned pos; REPLCONF / AOF pos under way *)
  | PStream (s : gses)      (* AOF accepted: the read loop *)
  | PDead.                  (* follow() returned (errNoLongerFollowing) *)

  Record att := { a_gen : nat; a_ph : phase }.

  Record world := { w_data : gdata; w_cup : bool; w_cur : nat; w_atts : list att }.

  Fixpoint set_nth {A : Type} (l : list A) (i : nat) (x : A) : list A :=
    match l, i with
    | [], _ => []
    | _ :: t, O => x :: t
    | y :: t, S k => y :: set_nth t k x
    end.

  Definition set_ph (w : world) (i : nat) (a : att) (p : phase) : world :=
    {| w_data := w_data w; w_cup := w_cup w; w_cur := w_cur w;
       w_atts := set_nth (w_atts w) i {| a_gen := a_gen a; a_ph := p |} |}.
  Definition set_cup (w : world) (b : bool) : world :=
    {| w_data := w_data w; w_cup := b; w_cur := w_cur w; w_atts := w_atts w |}.
  Definition set_data (w : world) (d : gdata) : world :=
    {| w_data := d; w_cup := w_cup w; w_cur := w_cur w; w_atts := w_atts w |}.
  Definition with_att (w : world) (i : nat) (k : att -> world) : world :=
    match nth_error (w_atts w) i with Some a => k a | None => w end.
  Definition stale (w : world) (a : att) : bool := negb (Nat.eqb (a_gen a) (w_cur w)).

  Inductive gev :=
  | GFollow                       (* cmdFollow accepted another leader: followc++, go follow(new generation) *)
  | GUnfollow                     (* FOLLOW no one: followc++ *)
  | GTopCheck (i : nat)           (* followStep: the unlocked generation test at the top *)
  | GClear (i : nat)              (* lock; faofsz = 0; setCaughtUp(false); unlock *)
  | GServer (i : nat) (l : file)  (* dial, AUTH, SERVER answered by a leader whose log is l *)
  | GCheck (i : nat) (l : file)   (* followCheckSome against a leader whose log is l *)
  | GAof (i : nat) (l : file)     (* REPLCONF, AOF pos accepted by a leader whose log is l; first caught-up test *)
  | GFeed (i : nat) (r : record)  (* the leader logs r: liveAOF pushes it into this attempt's stream *)
  | GDeliver (i : nat)            (* read loop: followHandleCommand on the next record, lpos += n, caught-up test *)
  | GFlag (i : nat)               (* read loop: lock; flushAOF; setCaughtUp(true); unlock *)
  | GFail (i : nat).              (* an error / a dropped connection: followStep returns, follow() loops *)

  Definition actor (e : gev) : option nat :=
    match e with
    | GFollow | GUnfollow => None
    | GTopCheck i | GClear i | GServer i _ | GCheck i _ | GAof i _ | GFeed i _ | GDeliver i | GFlag i | GFail i => Some i
    end.

  Definition gstep (w : world) (e : gev) : world :=
    match e with
    | GFollow =>
        {| w_data := w_data w; w_cup := w_cup w; w_cur := S (w_cur w);
           w_atts := w_atts w ++ [{| a_gen := S (w_cur w); a_ph := PNew |}] |}
    | GUnfollow =>
        {| w_data := w_data w; w_cup := w_cup w; w_cur := S (w_cur w); w_atts := w_atts w |}
    | GTopCheck i =>
        with_att w i (fun a =>
          match a_ph a with
          | PNew => if c_top cfg && stale w a then set_ph w i a PDead else set_ph w i a PTop
          | _ => w
          end)
    | GClear i =>
        with_att w i (fun a =>
          match a_ph a with
          | PTop => set_cup (set_ph w i a PHand) false
          | _ => w
          end)
    | GServer i l =>
        with_att w i (fun a =>
          match a_ph a with
          | PHand => set_ph w i a (PServer (flen l))
          | _ => w
          end)
    | GCheck i l =>
        with_att w i (fun a =>
          match a_ph a with
          | PServer sz =>
              if c_check cfg && stale w a then set_ph w i a PDead
              else
                match resync (w_data w) l with
                | (d', Some pos) => set_data (set_ph w i a (PChecked sz pos)) d'
                | (d', None) => set_data (set_ph w i a PNew) d'
                end
          | _ => w
          end)
    | GAof i l =>
        with_att w i (fun a =>
          match a_ph a with
          | PChecked sz pos =>
              if c_aofg cfg && stale w a then set_ph w i a PDead
              else
                match drop_bytes l pos with
                | None => set_ph w i a PNew     (* "pos is too big" / a stream that does not parse: error, retry *)
                | Some rest =>
                    let cu := sz <=? pos in
                    set_cup (set_ph w i a (PStream {| gs_rest := rest; gs_size := sz; gs_cu := cu; gs_lpos := pos;
                                                     gs_done := []; gs_pend := false |}))
                            (w_cup w || cu)
                end
          | _ => w
          end)
    | GFeed i r =>
        with_att w i (fun a =>
          match a_ph a with
          | PStream s =>
              set_ph w i a (PStream {| gs_rest := gs_rest s ++ [r]; gs_size := gs_size s; gs_cu := gs_cu s;
                                       gs_lpos := gs_lpos s; gs_done := gs_done s; gs_pend := gs_pend s |})
          | _ => w
          end)
    | GDeliver i =>
        with_att w i (fun a =>
          match a_ph a with
          | PStream s =>
              match gs_pend s, gs_rest s with
              | false, r :: rest =>
                  if c_cmd cfg && stale w a then set_ph w i a PDead
                  else
                    let d := w_data w in
                    let '(mem', upd) := app r (d_mem d) in
                    let logged := aof && upd in
                    let d' := {| d_file := if logged then d_file d ++ [r] else d_file d; d_mem := mem';
                                 d_aofsz := if logged then d_aofsz d + blen r else d_aofsz d |} in
                    let lpos := gs_lpos s + blen r in
                    let hit := negb (gs_cu s) && (gs_size s <=? lpos) in
                    set_data (set_ph w i a (PStream {| gs_rest := rest; gs_size := gs_size s; gs_cu := gs_cu s || hit;
                                                       gs_lpos := lpos; gs_done := gs_done s ++ [r]; gs_pend := hit |})) d'
              | _, _ => w
              end
          | _ => w
          end)
    | GFlag i =>
        with_att w i (fun a =>
          match a_ph a with
          | PStream s =>
              if gs_pend s then
                if c_flagg cfg && stale w a then set_ph w i a PDead
                else set_cup (set_ph w i a (PStream {| gs_rest := gs_rest s; gs_size := gs_size s; gs_cu := gs_cu s;
                                                       gs_lpos := gs_lpos s; gs_done := gs_done s; gs_pend := false |})) true
              else w
          | _ => w
          end)
    | GFail i =>
        with_att w i (fun a =>
          match a_ph a with
          | PDead => w
          | _ => set_ph w i a PNew
          end)
    end.

  Definition grun (w : world) (es : list gev) : world := fold_left gstep es w.

  Definition gens (w : world) : list nat := map a_gen (w_atts w).

  Definition phase_of (w : world) (i : nat) : option phase :=
    match nth_error (w_atts w) i with Some a => Some (a_ph a) | None => None end.

  (* the records the leader pushed into the streams during es *)
  Fixpoint fed (es : list gev) : file :=
    match es with
    | [] => []
    | GFeed _ r :: t => r :: fed t
    | _ :: t => fed t
    end.
End Gen.
