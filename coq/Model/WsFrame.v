(* C17 — the WebSocket wrapping of a reply (internal/server/server.go WriteWebSocketMessage) and a
   client-side decoder of one unmasked server frame (RFC 6455 section 5.2).  Executable, no proofs. *)
From T38 Require Import Base.Bytes.
Open Scope N_scope.

(* binary.BigEndian.PutUint16 / PutUint64: k bytes, most significant first *)
Fixpoint be_bytes (k : nat) (n : N) : bytes :=
  match k with
  | O => []
  | S k' => (n / 256 ^ N.of_nat k') mod 256 :: be_bytes k' n
  end.

Fixpoint be_val (b : bytes) (acc : N) : N :=
  match b with
  | [] => acc
  | x :: r => be_val r (acc * 256 + x)
  end.

(* buf[0] = 129 (FIN + TEXT); then the three cases of the length switch, in the order and with the
   comparisons of the Go code:  len <= 125 | len <= 0xFFFF | else *)
Definition ws_header (n : N) : bytes :=
  if n <=? 125 then [129; n]
  else if n <=? 65535 then 129 :: 126 :: be_bytes 2 n
  else 129 :: 127 :: be_bytes 8 n.

Definition ws_frame (payload : bytes) : bytes :=
  ws_header (N.of_nat (length payload)) ++ payload.

(* what a conforming client makes of the bytes of one complete frame: FIN + text, no mask, 7-bit
   length, or 126 + 16-bit length, or 127 + 64-bit length (minimal form required), and exactly
   that many payload bytes *)
Definition ws_decode (f : bytes) : option bytes :=
  match f with
  | b0 :: b1 :: r =>
      if negb (b0 =? 129) then None
      else if b1 <=? 125 then (if N.of_nat (length r) =? b1 then Some r else None)
      else if b1 =? 126 then
        if (length r <? 2)%nat then None
        else let n := be_val (firstn 2 r) 0 in
             let p := skipn 2 r in
             if n <? 126 then None else if N.of_nat (length p) =? n then Some p else None
      else if b1 =? 127 then
        if (length r <? 8)%nat then None
        else let n := be_val (firstn 8 r) 0 in
             let p := skipn 8 r in
             if n <? 65536 then None else if N.of_nat (length p) =? n then Some p else None
      else None
  | _ => None
  end.
