(* Start-up with errors (C03): loadAOF applies every record it reads with s.command; when the command
   returns an error the load STOPS (Serve returns it, main does log.Fatal: the server does not start)
   unless commandErrIsFatal says the error is harmless. Model/Replay.v has no errors at all (its
   `replay` is the loader that never stops); this file adds them.

   Transcribed (internal/server/aof.go):

     if _, _, err := s.command(&msg, nil); err != nil {
         if commandErrIsFatal(err) { return err }
     }

   [exec] now also says which error the command returned; [fatal] is commandErrIsFatal. For the
   keyspace instance [fatal] is [fatal_msg]: the table coq/Gen/ReplayTol.v that t38x regenerates from
   commandErrIsFatal on every run (the function evaluated on every error sentinel of the package),
   looked up by error text; an error that is none of the sentinels (errInvalidArgument(..), an sjson
   or geojson error, ...) gets the function's verdict for "any other error". *)
From Coq Require Import String List Bool NArith ZArith.
From T38 Require Import Base.Bytes Model.Spec Model.Replay Gen.ReplayTol.
Import ListNotations.

Section ReplayTol.
Variable S : Type.
Variable err : Type.
Variable exec : S -> cmd -> S * bool * option err.   (* new state, d.updated, the error returned *)
Variable fatal : err -> bool.                        (* commandErrIsFatal *)

Definition xstate (s : S) (c : cmd) : S := fst (fst (exec s c)).
Definition xupd (s : S) (c : cmd) : bool := snd (fst (exec s c)).
Definition xerr (s : S) (c : cmd) : option err := snd (exec s c).

(* the command loop of loadAOF: inr = the load stopped, the server refuses to start *)
Fixpoint load (l : list cmd) (s : S) : S + err :=
  match l with
  | [] => inl s
  | c :: l' =>
      match xerr s c with
      | Some x => if fatal x then inr x else load l' (xstate s c)
      | None => load l' (xstate s c)
      end
  end.

(* the same without the stop: what Model/Replay.replay computes *)
Definition apply_all (l : list cmd) (s : S) : S := fold_left xstate l s.

(* the error of a record does not stop the load *)
Definition harmless (o : option err) : bool :=
  match o with Some x => negb (fatal x) | None => true end.

(* a record a live server can have written: some state in which the command reported `updated` *)
Definition logged (good : S -> Prop) (c : cmd) : Prop := exists s, good s /\ xupd s c = true.

End ReplayTol.

(* ---------- commandErrIsFatal as data ---------- *)

Definition fatal_in (table : list (string * string * bool)) (other : bool) (m : bytes) : bool :=
  match find (fun r => bytes_eqb (bs (snd (fst r))) m) table with
  | Some r => snd r
  | None => other
  end.

(* the verdict of the current source for an error with text m *)
Definition fatal_msg (m : bytes) : bool := fatal_in replay_err_table replay_err_other_fatal m.

(* the sentinels the current source tolerates *)
Definition tolerated_names : list string :=
  map (fun r => fst (fst r)) (filter (fun r => negb (snd r)) replay_err_table).
