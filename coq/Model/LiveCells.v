(* C07 — the entries of the live-fence hand-over queue are REFERENCES.

   writeAOF appends the pointer it was given to Server.lstack; processLives / goLive read what it
   points to later, after the writer has released the server lock (live.go: FenceMatch(..., details)
   under a lock acquisition of its own). So what the consumer reads for entry i is the details of
   write i only if the cell behind entry i is still the one write i filled.

   Model: a store of cells, a queue of cell references. A push from site `site` fills a cell with the
   details v and appends a reference to it; WHICH cell is decided by what t38x read at that site
   (Gen.Mutators.queue_cells): a fresh site uses a cell no other push uses (one variable per call /
   a new literal), any other site uses one cell for all its pushes (a variable that outlives the
   iteration). A delivery pops the first reference and reads the store then.
   The order of the queue itself is Model/LiveQueue.v's subject; here it is first-in first-out.
   No proofs here. *)
From Coq Require Import String List NArith Bool Arith.
From T38 Require Import Gen.Mutators.
From T38 Require Model.Tables.
Import ListNotations.
Open Scope list_scope.

Definition cell := (string * nat)%type.

Definition cell_eqb (a b : cell) : bool := String.eqb (fst a) (fst b) && Nat.eqb (snd a) (snd b).

Record cq := mkCQ {
  cq_store : list (cell * N);     (* latest assignment first *)
  cq_queue : list cell;
  cq_out : list N;                (* what the consumer has read, in delivery order *)
  cq_npush : nat
}.

Inductive cev :=
| CPush (site : string) (v : N)   (* a logged write: the site fills its cell and hands it to writeAOF *)
| CDeliver.                       (* goLive: FenceMatch on the first pending entry *)

Fixpoint cq_read (st : list (cell * N)) (c : cell) : N :=
  match st with
  | [] => 0%N
  | (c', v) :: r => if cell_eqb c' c then v else cq_read r c
  end.

Definition site_fresh_in (tbl : list (string * (bool * string))) (site : string) : bool :=
  match Tables.assoc tbl site with Some (b, _) => b | None => false end.

Definition cq_step (tbl : list (string * (bool * string))) (s : cq) (ev : cev) : cq :=
  match ev with
  | CPush site v =>
      let c := (site, if site_fresh_in tbl site then cq_npush s else 0) in
      mkCQ ((c, v) :: cq_store s) (cq_queue s ++ [c]) (cq_out s) (S (cq_npush s))
  | CDeliver =>
      match cq_queue s with
      | [] => s
      | c :: r => mkCQ (cq_store s) r (cq_out s ++ [cq_read (cq_store s) c]) (cq_npush s)
      end
  end.

Definition cq_init : cq := mkCQ [] [] [] 0.

Definition cq_run (tbl : list (string * (bool * string))) (evs : list cev) : cq :=
  fold_left (cq_step tbl) evs cq_init.

Fixpoint cq_pushed (evs : list cev) : list N :=
  match evs with
  | [] => []
  | CPush _ v :: r => v :: cq_pushed r
  | CDeliver :: r => cq_pushed r
  end.

Definition cev_site_in (tbl : list (string * (bool * string))) (ev : cev) : bool :=
  match ev with
  | CPush site _ => existsb (String.eqb site) (map fst tbl)
  | CDeliver => true
  end.

(* what the consumer has read, followed by what it would read now for the pending entries *)
Definition cq_view (s : cq) : list N := cq_out s ++ map (cq_read (cq_store s)) (cq_queue s).
