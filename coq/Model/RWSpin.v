(* The rwspinlock of internal/server/server.go as a transition system: the atomic micro-steps
   Load / CompareAndSwap / Add of Lock, Unlock, RLock, RUnlock, for any number of threads and any
   schedule.  int32 wrap-around (more than 2^31 simultaneous readers) is not modelled. *)
From Coq Require Import List ZArith Bool Lia.
Import ListNotations.
Open Scope Z_scope.

Inductive tstate :=
| Idle
| WantW (loaded : option Z)   (* inside Lock(): before / after state.Load() *)
| InW                         (* holds the write lock *)
| WantR (loaded : option Z)   (* inside RLock() *)
| InR.                        (* holds a read lock *)

(* what an idle thread decides to do next is chosen by the schedule *)
Inductive choice := GoW | GoR.

Record sys := mkSys { lockstate : Z; threads : list tstate; panicked : bool }.

Definition set_nth {A} (n : nat) (x : A) (l : list A) : list A :=
  firstn n l ++ match skipn n l with [] => [] | _ :: r => x :: r end.

(* one micro-step of thread i *)
Definition step (s : sys) (i : nat) (c : choice) : sys :=
  match nth_error (threads s) i with
  | None => s
  | Some t =>
      let upd t' st' p' := mkSys st' (set_nth i t' (threads s)) (panicked s || p') in
      match t with
      | Idle => upd (match c with GoW => WantW None | GoR => WantR None end) (lockstate s) false
      | WantW None => upd (WantW (Some (lockstate s))) (lockstate s) false          (* state := l.state.Load() *)
      | WantW (Some v) =>
          if (v =? 0) && (lockstate s =? v)                                          (* state == 0 && CAS(state, -1) *)
          then upd InW (-1) false
          else upd (WantW None) (lockstate s) false                                  (* Gosched, retry *)
      | InW =>                                                                       (* Unlock: Add(1) > 0 panics *)
          let n := lockstate s + 1 in upd Idle n (0 <? n)
      | WantR None => upd (WantR (Some (lockstate s))) (lockstate s) false
      | WantR (Some v) =>
          if (0 <=? v) && (lockstate s =? v)                                         (* state >= 0 && CAS(state, state+1) *)
          then upd InR (v + 1) false
          else upd (WantR None) (lockstate s) false
      | InR =>                                                                       (* RUnlock: Add(-1) < 0 panics *)
          let n := lockstate s - 1 in upd Idle n (n <? 0)
      end
  end.

Definition run (s : sys) (sched : list (nat * choice)) : sys :=
  fold_left (fun s ic => step s (fst ic) (snd ic)) sched s.

Definition init (n : nat) : sys := mkSys 0 (repeat Idle n) false.

Definition is_inw (t : tstate) : bool := match t with InW => true | _ => false end.
Definition is_inr (t : tstate) : bool := match t with InR => true | _ => false end.

Definition count (f : tstate -> bool) (l : list tstate) : Z := Z.of_nat (length (filter f l)).
Definition writers (s : sys) : Z := count is_inw (threads s).
Definition readers (s : sys) : Z := count is_inr (threads s).
