(* Executable model of the connection reader (internal/server/server.go):
     readNextCommand  — HTTP sniffing on G/P/O + first CRLF line ending in " HTTP/x.y", else redcon
     ReadMessages     — data = buf ++ chunk; parse until incomplete / error; leftover -> buf
     the per-connection loop of netServe as far as framing goes (stop at the first error).
   readNextHTTPCommand is a parameter `http` (its stability is a stated hypothesis of the C16
   theorems and is exercised black-box by the harness).
   read_cmd_fixed models the proposed repair (proposed_fixes/C16-parser-panic): a run-time panic
   of the framing parser is recovered into a protocol error.  No proofs here. *)
From T38 Require Import Base.Bytes Model.Resp.
Local Open Scope Z_scope.

Inductive ckind := KRedis | KNative | KTelnet | KHttp.
Inductive cerr := EParse (e : perr) | EPanicRecovered | EHttp (code : N).
Inductive cres :=
| CComplete (args : list bytes) (k : ckind) (rest : bytes)
| CIncomplete
| CErr (e : cerr)
| CPanic
| CFuel.

Definition of_kind (k : kind) : ckind :=
  match k with Redis => KRedis | Tile38 => KNative | Telnet => KTelnet end.
Definition of_result (r : result) : cres :=
  match r with
  | Complete a k rest => CComplete a (of_kind k) rest
  | Incomplete => CIncomplete
  | Err e => CErr (EParse e)
  | Panic => CPanic
  | Fuel => CFuel
  end.

(* first i >= 1 with p[i] = '\n' and p[i-1] = '\r'  (prev = p[i-1], s = p[i:]) *)
Fixpoint find_crlf (s : bytes) (prev : N) (i : Z) : option Z :=
  match s with
  | [] => None
  | x :: s' => if ((x =? LF) && (prev =? CR))%N then Some i else find_crlf s' x (i + 1)
  end.
Definition w_http : bytes := [32; 72; 84; 84; 80; 47]%N.   (* " HTTP/" *)

Inductive sniffres := SIncomplete | SHttp | SRedcon | SPanic.
Definition sniff (p : bytes) : sniffres :=
  match p with
  | [] => SPanic                                             (* packet[0] on an empty packet *)
  | c :: s =>
      if ((c =? 71) || (c =? 80) || (c =? 79))%N then
        match find_crlf s c 1 with
        | None => SIncomplete
        | Some i =>
            (* line = packet[:i+1]; len(line) > 11 && line[len-11:len-5] == " HTTP/" *)
            let ll := i + 1 in
            if 11 <? ll then
              match slice p (ll - 11) (ll - 5) with
              | None => SPanic
              | Some w => if bytes_eqb w w_http then SHttp else SRedcon
              end
            else SRedcon
        end
      else SRedcon
  end.

Definition read_cmd (http : bytes -> cres) (p : bytes) : cres :=
  match sniff p with
  | SPanic => CPanic
  | SIncomplete => CIncomplete
  | SHttp => http p
  | SRedcon => of_result (read_next p)
  end.

(* proposed repair: recover() around the framing parser *)
Definition recovered (r : cres) : cres := match r with CPanic => CErr EPanicRecovered | _ => r end.
Definition read_cmd_fixed (http : bytes -> cres) (p : bytes) : cres :=
  match p with [] => CIncomplete | _ => recovered (read_cmd http p) end.

Record msg := { m_args : list bytes; m_kind : ckind }.

Inductive rm_res :=
| RM (msgs : list msg) (buf : bytes) (err : option cerr)
| RMAbort            (* `return nil, errInvalidHTTP`: messages of this call dropped, buf untouched *)
| RMPanic
| RMFuel.

(* for len(data) > 0 { ... } of ReadMessages *)
Fixpoint rm_loop (parse : bytes -> cres) (fuel : nat) (data : bytes) : rm_res :=
  match fuel with
  | O => RMFuel
  | S f =>
      match data with
      | [] => RM [] [] None
      | _ =>
          match parse data with
          | CErr e => RM [] data (Some e)
          | CIncomplete => RM [] data None
          | CPanic => RMPanic
          | CFuel => RMFuel
          | CComplete args k rest =>
              match k, args with
              | KHttp, [] => RMAbort
              | _, _ =>
                  match rm_loop parse f rest with
                  | RM ms b e => RM (match args with [] => ms | _ => {| m_args := args; m_kind := k |} :: ms end) b e
                  | r => r
                  end
              end
          end
      end
  end.
Definition rm_step (parse : bytes -> cres) (buf chunk : bytes) : rm_res :=
  let data := buf ++ chunk in rm_loop parse (S (length data)) data.

(* the connection: one ReadMessages per network read; the first error closes it *)
Inductive conn_res :=
| Open (msgs : list msg) (buf : bytes)
| Closed (msgs : list msg) (e : cerr)
| Aborted (msgs : list msg)
| Crashed
| NoFuel.
Fixpoint conn_run (parse : bytes -> cres) (chunks : list bytes) (buf : bytes) (acc : list msg) : conn_res :=
  match chunks with
  | [] => Open acc buf
  | c :: rest =>
      match rm_step parse buf c with
      | RM ms b None => conn_run parse rest b (acc ++ ms)
      | RM ms b (Some e) => Closed (acc ++ ms) e
      | RMAbort => Aborted acc
      | RMPanic => Crashed
      | RMFuel => NoFuel
      end
  end.
