(* Executable model of the connection reader (internal/server/server.go):
     readNextCommand  — HTTP sniffing on G/P/O + first CRLF line ending in " HTTP/x.y", else redcon
     ReadMessages     — data = buf ++ chunk; parse until incomplete / error; leftover -> buf
     the per-connection loop of netServe as far as framing goes (stop at the first error).
   readNextHTTPCommand is a parameter `http` (its stability is a stated hypothesis of the C16
   theorems and is exercised black-box by the harness).
   read_cmd_fixed models the proposed repair (proposed_fixes/C16-parser-panic): a run-time panic
   of the framing parser is recovered into a protocol error.  No proofs here. *)
From T38 Require Import Base.Bytes Model.Resp.
Local Open Scope Z_scope.

Inductive ckind := KRedis | KNative | KTelnet | KHttp.
Inductive cerr := EParse (e : perr) | EPanicRecovered | EHttp (code : N).
Inductive cres :=
| CComplete (args : list bytes) (k : ckind) (rest : bytes)
| CIncomplete
| CErr (e : cerr)
| CPanic
| CFuel.

Definition of_kind (k : kind) : ckind :=
  match k with Redis => KRedis | Tile38 => KNative | Telnet => KTelnet end.
Definition of_result (r : result) : cres :=
  match r with
  | Complete a k rest => CComplete a (of_kind k) rest
  | Incomplete => CIncomplete
  | Err e => CErr (EParse e)
  | Panic => CPanic
  | Fuel => CFuel
  end.

(* first i >= 1 with p[i] = '\n' and p[i-1] = '\r'  (prev = p[i-1], s = p[i:]) *)
Fixpoint find_crlf (s : bytes) (prev : N) (i : Z) : option Z :=
  match s with
  | [] => None
  | x :: s' => if ((x =? LF) && (prev =? CR))%N then Some i else find_crlf s' x (i + 1)
  end.
Definition w_http : bytes := [32; 72; 84; 84; 80; 47]%N.   (* " HTTP/" *)

Inductive sniffres := SIncomplete | SHttp | SRedcon | SPanic.
Definition sniff (p : bytes) : sniffres :=
  match p with
  | [] => SPanic                                             (* packet[0] on an empty packet *)
  | c :: s =>
      if ((c =? 71) || (c =? 80) || (c =? 79))%N then
        match find_crlf s c 1 with
        | None => SIncomplete
        | Some i =>
            (* line = packet[:i+1]; len(line) > 11 && line[len-11:len-5] == " HTTP/" *)
            let ll := i + 1 in
            if 11 <? ll then
              match slice p (ll - 11) (ll - 5) with
              | None => SPanic
              | Some w => if bytes_eqb w w_http then SHttp else SRedcon
              end
            else SRedcon
        end
      else SRedcon
  end.

(* ---------- readNextHTTPCommand ----------
   Outcomes that only differ in fields the framing does not depend on (msg.Auth, msg.AcceptEncoding,
   ConnType HTTP vs WebSocket) are not distinguished.  The two side-effecting branches are marked:
   OPTIONS writes the CORS head and reports "not ready" (CIncomplete here; the write is repeated on every
   later call, which is outside the theorems), a websocket upgrade writes the 101 head once and
   completes like a plain request.  EHttp 0 = errInvalidHTTP, 1 = strconv.ParseUint syntax error,
   2 = strconv.ParseUint range error. *)

(* readcrlfline: first i >= 1 with p[i] = '\n' and p[i-1] = '\r'; line = p[:i-1], leftover = p[i+1:] *)
Fixpoint crlf_go (s : bytes) (prev : N) (rline : bytes) : option (bytes * bytes) :=
  match s with
  | [] => None
  | x :: s' => if ((x =? LF) && (prev =? CR))%N then Some (rev rline, s') else crlf_go s' x (prev :: rline)
  end.
Definition readcrlf (p : bytes) : option (bytes * bytes) :=
  match p with [] => None | c :: s => crlf_go s c [] end.

Inductive hdrres := HNotReady | HOk (headers : list bytes) (rest : bytes) | HFuel.
Fixpoint read_headers (fuel : nat) (p : bytes) (racc : list bytes) : hdrres :=
  match fuel with
  | O => HFuel
  | S f =>
      match readcrlf p with
      | None => HNotReady
      | Some (line, rest) =>
          match line with
          | [] => HOk (rev racc) rest
          | _ => read_headers f rest (line :: racc)
          end
      end
  end.

(* strings.Split(s, " ") *)
Fixpoint split_on (c : N) (l : bytes) (rcur : bytes) : list bytes :=
  match l with
  | [] => [rev rcur]
  | x :: l' => if (x =? c)%N then rev rcur :: split_on c l' [] else split_on c l' (x :: rcur)
  end.

(* url.QueryUnescape *)
Definition ishex (c : N) : bool :=
  (((48 <=? c) && (c <=? 57)) || ((97 <=? c) && (c <=? 102)) || ((65 <=? c) && (c <=? 70)))%N.
Definition unhex (c : N) : N :=
  (if (48 <=? c) && (c <=? 57) then c - 48 else if (97 <=? c) && (c <=? 102) then c - 97 + 10 else c - 65 + 10)%N.
Fixpoint escapes_ok (l : bytes) : bool :=
  match l with
  | [] => true
  | 37%N :: r => match r with a :: b :: r' => ishex a && ishex b && escapes_ok r | _ => false end
  | _ :: r => escapes_ok r
  end.
Fixpoint unescape_q (fuel : nat) (l : bytes) : bytes :=
  match fuel with
  | O => []
  | S f =>
      match l with
      | [] => []
      | 37%N :: a :: b :: r => (unhex a * 16 + unhex b)%N :: unescape_q f r
      | 43%N :: r => 32%N :: unescape_q f r
      | c :: r => c :: unescape_q f r
      end
  end.
Definition query_unescape (l : bytes) : option bytes :=
  if escapes_ok l then Some (unescape_q (length l) l) else None.

(* headerValue(header, name): the header text after "name:" and blanks, case-insensitive (ASCII) *)
Fixpoint hv_match (hdr name : bytes) : option bytes :=
  match name with
  | [] => Some hdr
  | b :: name' =>
      match hdr with
      | [] => None
      | a :: hdr' => if (lower_byte a =? lower_byte b)%N then hv_match hdr' name' else None
      end
  end.
Fixpoint skip_blanks (l : bytes) : bytes :=
  match l with
  | c :: r => if ((c =? 32) || (c =? 9))%N then skip_blanks r else l
  | [] => []
  end.
Definition header_value (hdr name : bytes) : option bytes :=
  match hv_match hdr name with
  | Some (58%N :: rest) => Some (skip_blanks rest)
  | _ => None
  end.

(* strings.TrimSpace: ASCII \t \n \v \f \r ' ' and the UTF-8 encodings of U+0085 U+00A0 U+1680 U+2000..200A
   U+2028 U+2029 U+202F U+205F U+3000 *)
Definition ascii_space (c : N) : bool := (((9 <=? c) && (c <=? 13)) || (c =? 32))%N.
Fixpoint trim_left (fuel : nat) (l : bytes) : bytes :=
  match fuel with
  | O => l
  | S f =>
      match l with
      | c :: r =>
          if ascii_space c then trim_left f r else
          match l with
          | 194%N :: x :: r2 => if ((x =? 133) || (x =? 160))%N then trim_left f r2 else l
          | 225%N :: 154%N :: 128%N :: r3 => trim_left f r3
          | 226%N :: 128%N :: x :: r3 =>
              if (((128 <=? x) && (x <=? 138)) || (x =? 168) || (x =? 169) || (x =? 175))%N then trim_left f r3 else l
          | 226%N :: 129%N :: 159%N :: r3 => trim_left f r3
          | 227%N :: 128%N :: 128%N :: r3 => trim_left f r3
          | _ => l
          end
      | [] => []
      end
  end.
(* the same from the end: on the reversed string with reversed encodings *)
Fixpoint trim_left_rev (fuel : nat) (l : bytes) : bytes :=
  match fuel with
  | O => l
  | S f =>
      match l with
      | c :: r =>
          if ascii_space c then trim_left_rev f r else
          match l with
          | x :: 194%N :: r2 => if ((x =? 133) || (x =? 160))%N then trim_left_rev f r2 else
              match l with
              | 128%N :: 154%N :: 225%N :: r3 => trim_left_rev f r3
              | _ => l
              end
          | 128%N :: 154%N :: 225%N :: r3 => trim_left_rev f r3
          | x :: 128%N :: 226%N :: r3 =>
              if (((128 <=? x) && (x <=? 138)) || (x =? 168) || (x =? 169) || (x =? 175))%N then trim_left_rev f r3 else
              match l with
              | 128%N :: 128%N :: 227%N :: r4 => trim_left_rev f r4
              | _ => l
              end
          | 159%N :: 129%N :: 226%N :: r3 => trim_left_rev f r3
          | 128%N :: 128%N :: 227%N :: r3 => trim_left_rev f r3
          | _ => l
          end
      | [] => []
      end
  end.
Definition trim_space (l : bytes) : bytes :=
  let a := trim_left (length l) l in rev (trim_left_rev (length a) (rev a)).

(* strconv.ParseUint(s, 10, 64) *)
Inductive uintres := UOk (n : Z) | USyntax | URange.
(* the digit loop of strconv.ParseUint: the first offending byte decides (a non-digit -> syntax error,
   n >= cutoff or n*10+d > MaxUint64 -> range error) *)
Fixpoint parse_uint_go (l : bytes) (n : Z) : uintres :=
  match l with
  | [] => UOk n
  | c :: r =>
      if is_digit c then
        if 1844674407370955162 <=? n then URange else
        let n1 := n * 10 + Z.of_N (c - 48) in
        if 18446744073709551615 <? n1 then URange else parse_uint_go r n1
      else USyntax
  end.
Definition parse_uint (l : bytes) : uintres :=
  match l with [] => USyntax | _ => parse_uint_go l 0 end.
(* int(n) for a uint64 n *)
Definition int_of_uint (n : Z) : Z := if n <? 9223372036854775808 then n else n - 18446744073709551616.

Definition w_accept_encoding : bytes := [65;99;99;101;112;116;45;69;110;99;111;100;105;110;103]%N.
Definition w_authorization : bytes := [65;117;116;104;111;114;105;122;97;116;105;111;110]%N.
Definition w_upgrade : bytes := [85;112;103;114;97;100;101]%N.
Definition w_ws_version : bytes := [83;101;99;45;87;101;98;115;111;99;107;101;116;45;86;101;114;115;105;111;110]%N.
Definition w_ws_key : bytes := [83;101;99;45;87;101;98;115;111;99;107;101;116;45;75;101;121]%N.
Definition w_content_length : bytes := [67;111;110;116;101;110;116;45;76;101;110;103;116;104]%N.
Definition w_websocket : bytes := [119;101;98;115;111;99;107;101;116]%N.
Definition w_options : bytes := [79;80;84;73;79;78;83]%N.
Definition w_get : bytes := [71;69;84]%N.
Definition w_post : bytes := [80;79;83;84]%N.

Record hstate := { h_cl : Z; h_ws : bool; h_wsver : Z; h_wskey : bool }.
Inductive hfold := HState (st : hstate) | HErr (code : N).
(* for _, hdr := range headers[1:] { ... } *)
Fixpoint fold_headers (hs : list bytes) (st : hstate) : hfold :=
  match hs with
  | [] => HState st
  | hdr :: hs' =>
      match header_value hdr w_accept_encoding with
      | Some _ => fold_headers hs' st
      | None =>
      match header_value hdr w_authorization with
      | Some _ => fold_headers hs' st
      | None =>
      match header_value hdr w_upgrade with
      | Some v =>
          fold_headers hs' (if bytes_eqb (to_lower (trim_space v)) w_websocket
                            then {| h_cl := h_cl st; h_ws := true; h_wsver := h_wsver st; h_wskey := h_wskey st |} else st)
      | None =>
      match header_value hdr w_ws_version with
      | Some v =>
          match parse_uint (trim_space v) with
          | UOk n => fold_headers hs' {| h_cl := h_cl st; h_ws := h_ws st; h_wsver := int_of_uint n; h_wskey := h_wskey st |}
          | USyntax => HErr 1 | URange => HErr 2
          end
      | None =>
      match header_value hdr w_ws_key with
      | Some v =>
          fold_headers hs' {| h_cl := h_cl st; h_ws := h_ws st; h_wsver := h_wsver st;
                              h_wskey := match trim_space v with [] => false | _ => true end |}
      | None =>
      match header_value hdr w_content_length with
      | Some v =>
          match parse_uint (trim_space v) with
          | UOk n => fold_headers hs' {| h_cl := int_of_uint n; h_ws := h_ws st; h_wsver := h_wsver st; h_wskey := h_wskey st |}
          | USyntax => HErr 1 | URange => HErr 2
          end
      | None => fold_headers hs' st
      end end end end end end
  end.

Definition http_finish (path : bytes) (rest : bytes) : cres :=
  match path with
  | [] => CComplete [] KHttp rest
  | _ =>
      match native_tok (S (length path)) path [] with
      | TOk args => CComplete args KHttp rest
      | TPanic => CPanic
      | TFuel => CFuel
      end
  end.

Definition http_parse (p : bytes) : cres :=
  match read_headers (S (length p)) p [] with
  | HFuel => CFuel
  | HNotReady => CIncomplete
  | HOk [] _ => CPanic                                        (* headers[0] *)
  | HOk (first :: hs) rest =>
      match split_on 32 first [] with
      | [method; rawpath; _] =>
          if bytes_eqb method w_options then CIncomplete       (* CORS head written; "not ready" *)
          else
          match rawpath with
          | 47%N :: escaped =>
              match query_unescape escaped with
              | None => CErr (EHttp 0)
              | Some path =>
                  if negb (bytes_eqb method w_get || bytes_eqb method w_post) then CErr (EHttp 0) else
                  match fold_headers hs {| h_cl := 0; h_ws := false; h_wsver := 0; h_wskey := false |} with
                  | HErr c => CErr (EHttp c)
                  | HState st =>
                      if h_ws st && (13 <=? h_wsver st) && h_wskey st then http_finish path rest
                      else if 0 <? h_cl st then
                        if len rest <? h_cl st then CIncomplete else
                        match slice rest 0 (h_cl st), slice_from rest (h_cl st) with
                        | Some body, Some rest' => http_finish (path ++ body) rest'
                        | _, _ => CPanic
                        end
                      else http_finish path rest
                  end
              end
          | _ => CErr (EHttp 0)
          end
      | _ => CErr (EHttp 0)
      end
  end.

Definition read_cmd (http : bytes -> cres) (p : bytes) : cres :=
  match sniff p with
  | SPanic => CPanic
  | SIncomplete => CIncomplete
  | SHttp => http p
  | SRedcon => of_result (read_next p)
  end.

(* proposed repair: recover() around the framing parser *)
Definition recovered (r : cres) : cres := match r with CPanic => CErr EPanicRecovered | _ => r end.
Definition read_cmd_fixed (http : bytes -> cres) (p : bytes) : cres :=
  match p with [] => CIncomplete | _ => recovered (read_cmd http p) end.

Record msg := { m_args : list bytes; m_kind : ckind }.

Inductive rm_res :=
| RM (msgs : list msg) (buf : bytes) (err : option cerr)
| RMPanic
| RMFuel.

(* for len(data) > 0 { ... } of ReadMessages *)
Fixpoint rm_loop (parse : bytes -> cres) (fuel : nat) (data : bytes) : rm_res :=
  match fuel with
  | O => RMFuel
  | S f =>
      match data with
      | [] => RM [] [] None
      | _ =>
          match parse data with
          | CErr e => RM [] data (Some e)
          | CIncomplete => RM [] data None
          | CPanic => RMPanic
          | CFuel => RMFuel
          | CComplete args k rest =>
              match k, args with
              | KHttp, [] => RM [] data (Some (EHttp 0))      (* err = errInvalidHTTP; break *)
              | _, _ =>
                  match rm_loop parse f rest with
                  | RM ms b e => RM (match args with [] => ms | _ => {| m_args := args; m_kind := k |} :: ms end) b e
                  | r => r
                  end
              end
          end
      end
  end.
Definition rm_step (parse : bytes -> cres) (buf chunk : bytes) : rm_res :=
  let data := buf ++ chunk in rm_loop parse (S (length data)) data.

(* the connection: one ReadMessages per network read; the first error closes it *)
Inductive conn_res :=
| Open (msgs : list msg) (buf : bytes)
| Closed (msgs : list msg) (e : cerr)
| Crashed
| NoFuel.
Fixpoint conn_run (parse : bytes -> cres) (chunks : list bytes) (buf : bytes) (acc : list msg) : conn_res :=
  match chunks with
  | [] => Open acc buf
  | c :: rest =>
      match rm_step parse buf c with
      | RM ms b None => conn_run parse rest b (acc ++ ms)
      | RM ms b (Some e) => Closed (acc ++ ms) e
      | RMPanic => Crashed
      | RMFuel => NoFuel
      end
  end.

(* ---------- netServe's read loop around ReadMessages: socket read size vs pipeline buffer size ----------
   packet := make([]byte, sock_read_size); n := conn.Read(packet); data := client.in.Begin(packet[:n]);
   rdbuf := bytes.NewBuffer(data); ONE pr.ReadMessages(), which does ONE rd.Read(rd.packet[:]) of at most
   pipeline_buf_size bytes; the unread tail of rdbuf goes to client.in.End and is only looked at again with
   the NEXT socket read.  Both sizes are constants of the source; the harness compares them with the
   literals in internal/server/server.go on every run. *)
Definition sock_read_size : N := 65535.       (* netServe: packet := make([]byte, 0xFFFF) *)
Definition pipeline_buf_size : N := 65535.    (* PipelineReader: packet [0xFFFF]byte *)

Inductive serve_res :=
| SOpen (msgs : list msg) (buf : bytes) (parked : bytes)   (* parked = client.in.b: bytes received, not yet parsed *)
| SClosed (msgs : list msg) (e : cerr)
| SCrashed
| SNoFuel.

Fixpoint serve_reads (parse : bytes -> cres) (psz : nat) (reads : list bytes) (parked buf : bytes) (acc : list msg) : serve_res :=
  match reads with
  | [] => SOpen acc buf parked
  | r :: rest =>
      let packet := parked ++ r in                      (* InputStream.Begin *)
      let chunk := firstn psz packet in                  (* the single Read of ReadMessages *)
      let parked' := skipn psz packet in                 (* InputStream.End(packet[len(packet)-rdbuf.Len():]) *)
      match rm_step parse buf chunk with
      | RM ms b None => serve_reads parse psz rest parked' b (acc ++ ms)
      | RM ms b (Some e) => SClosed (acc ++ ms) e
      | RMPanic => SCrashed
      | RMFuel => SNoFuel
      end
  end.
