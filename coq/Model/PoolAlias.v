(* C11 — replies and recycled memory.

   C11 speaks about what ONE client receives while it pages through an unchanging collection. The
   handler of a read command builds its reply in memory of its own and returns it; the bytes are put
   on the wire later, by handleInputCommand (serializeOutput), after the handler has returned and
   while other connections run their own read commands under the shared lock. That is sound as long
   as nobody else can write to the memory the returned reply refers to. Memory that a function has
   handed back to a pool (sync.Pool.Put) is exactly memory that somebody else may be writing to.

   Part 1: the shape of the tables t38x extracts (coq/Gen/PkgVars.v, t38x/pkgvars.go) and the
           conditions on them.
   Part 2: an executable machine — buffers, a free list, handlers of the three kinds the table can
           describe, and the deferred serialisation — on which the condition is shown to be the right
           one (Proofs/PoolAliasProofs.v): without an aliasing row every client is sent its own page
           under every interleaving; with one there is an interleaving that sends it another
           client's page.
   No proofs in this file. *)
From Coq Require Import String List Bool NArith Arith.
Import ListNotations.
Open Scope string_scope.

(* ---------- Part 1: tables ---------- *)

(* (function, ((pool, deferred | inline), (the memory is a parameter of the function,
    ways in which something that may still reference the memory leaves the function))) *)
Definition put_row := (string * ((string * string) * (bool * list string)))%type.
Definition pr_fn (r : put_row) : string := fst r.
Definition pr_pool (r : put_row) : string := fst (fst (snd r)).
Definition pr_mode (r : put_row) : string := snd (fst (snd r)).
Definition pr_wrapper (r : put_row) : bool := fst (snd (snd r)).
Definition pr_escapes (r : put_row) : list string := snd (snd (snd r)).

(* nothing that may reference the memory leaves the function that gave it back *)
Definition put_ok (r : put_row) : bool := match pr_escapes r with [] => true | _ :: _ => false end.
Definition alias_residue (t : list put_row) : list put_row := filter (fun r => negb (put_ok r)) t.

(* (variable, (function and site, (how, guard))) *)
Definition write_row := (string * (string * (string * string)))%type.
Definition wr_var (w : write_row) : string := fst w.
Definition wr_guard (w : write_row) : string := snd (snd (snd w)).
Definition write_guarded (w : write_row) : bool := negb (String.eqb (wr_guard w) "").
Definition declared (vars : list (string * string)) (w : write_row) : bool :=
  existsb (fun v => String.eqb (fst v) (wr_var w)) vars.
Definition unguarded_residue (vars : list (string * string)) (t : list write_row) : list write_row :=
  filter (fun w => negb (write_guarded w && declared vars w)) t.

(* how a function's result relates to pooled memory, read off the table *)
Inductive kind := KFresh   (* no pool: the reply lives in memory allocated for it *)
                | KCopy    (* pooled scratch memory, nothing that references it is returned *)
                | KAlias.  (* the result may reference memory the function has given back *)

Definition returns_pooled (r : put_row) : bool := existsb (String.eqb "return") (pr_escapes r).
Definition rows_of (t : list put_row) (fn : string) : list put_row :=
  filter (fun r => String.eqb (pr_fn r) fn) t.
Definition kind_of (t : list put_row) (fn : string) : kind :=
  if existsb returns_pooled (rows_of t fn) then KAlias
  else match rows_of t fn with [] => KFresh | _ :: _ => KCopy end.

(* ---------- Part 2: the machine ---------- *)

Definition page := list N.

(* what a handler returned: a reference to a buffer (resp.BytesValue(wr.Bytes())) or a value that
   owns its bytes *)
Inductive reply := Ref (id : nat) | Val (v : page).

Record st := mkSt {
  heap : nat -> page;              (* buffer contents *)
  pool : list nat;                 (* buffers handed back (sync.Pool) *)
  next : nat;                      (* allocation counter: buffers >= next do not exist yet *)
  rep  : nat -> option reply;      (* per client: the reply its handler returned, not yet serialised *)
  want : nat -> page;              (* per client: the page its last request computed (ghost) *)
  sent : list (nat * (page * page)) (* (client, (bytes put on the wire, page its request computed)) *)
}.

Definition upd {A} (f : nat -> A) (k : nat) (v : A) : nat -> A :=
  fun x => if Nat.eqb x k then v else f x.

Definition init : st := mkSt (fun _ => []) [] 0 (fun _ => None) (fun _ => []) [].

(* Pool.Get: a recycled buffer when there is one, a new one otherwise *)
Definition take (s : st) : nat * (list nat * nat) :=
  match pool s with
  | id :: p => (id, (p, next s))
  | [] => (next s, ([], S (next s)))
  end.

Inductive ev :=
| Run (c : nat) (fn : string) (p : page)  (* client c's request runs handler fn, which computes page p *)
| Ser (c : nat).                          (* handleInputCommand serialises client c's pending reply *)

Definition step (kd : string -> kind) (s : st) (e : ev) : st :=
  match e with
  | Run c fn p =>
      match kd fn with
      | KFresh =>
          let id := next s in
          mkSt (upd (heap s) id p) (pool s) (S id) (upd (rep s) c (Some (Ref id))) (upd (want s) c p) (sent s)
      | KCopy =>
          let '(id, (rest, n)) := take s in
          let h := upd (heap s) id p in
          (* the reply is copied out of the buffer, then the buffer goes back *)
          mkSt h (id :: rest) n (upd (rep s) c (Some (Val (h id)))) (upd (want s) c p) (sent s)
      | KAlias =>
          let '(id, (rest, n)) := take s in
          (* the buffer goes back (deferred Put) and the reply still refers to it *)
          mkSt (upd (heap s) id p) (id :: rest) n (upd (rep s) c (Some (Ref id))) (upd (want s) c p) (sent s)
      end
  | Ser c =>
      match rep s c with
      | None => s
      | Some r =>
          let bytes := match r with Ref id => heap s id | Val v => v end in
          mkSt (heap s) (pool s) (next s) (upd (rep s) c None) (want s) ((c, (bytes, want s c)) :: sent s)
      end
  end.

Definition run (kd : string -> kind) (evs : list ev) : st := fold_left (step kd) evs init.

Definition own_page (x : nat * (page * page)) : Prop := fst (snd x) = snd (snd x).
