(* Model/Roam.v — executable transcription of the roaming-fence code of
   /repo/internal/server/fence.go (fenceMatchNearbys, fenceMatchRoam, sortRoamMatches, the
   "roam" arm of fenceMatch) and of the ROAM clause parsing in search.go.
   No proofs here (Proofs/RoamProofs.v).

   Opaque geometry enters as Section variables (they become function arguments of the
   extracted code, instantiated by the harness from tables computed with the library itself):
     G        geometries (geojson.Object)
     dist a b a.Distance(b), as an integer that orders like the float64 result
              (the harness passes the IEEE bit pattern of the non-negative float)
     in_rect c r o   "o's rectangle intersects geo.RectFromCenter(c.Center(), r)":
              what col.Intersects(geojson.NewRect(rect), ...) visits.
   The model is the REPAIRED code (proposed_fixes/C20-roam-radius.diff): the radius test
   measures the moving object against the candidate.  The pinned code measured the candidate
   against itself (always 0); see docs/notes/C20.md for the refutation of that version. *)
From Coq Require Import List NArith ZArith Bool Arith.
From T38 Require Import Base.Bytes Model.Glob.
Import ListNotations.

(* glob.IsGlob (internal/glob/glob.go), the pattern-vs-literal decision of the ROAM clause:
     for i := 0; i < len(pattern); i++ {
       switch pattern[i] {
       case '[', '*', '?':
         _, err := Match(pattern, "whatever")
         return err == nil
       }
     }
     return false
   metas = the bytes of the case list (ISGLOB_METAS for the code as it is; the list is a parameter so
   that Proofs/RoamPatProofs.v can refute the variants that forget one of them).  The case list
   and the probe string are re-read from the source on every run (coq/Gen/GlobMeta.v) and compared
   with ISGLOB_METAS / WHATEVER by c20_isglob_source_tied. *)
Definition is_glob_meta (c : N) : bool := (N.eqb c LBR) || (N.eqb c STAR) || (N.eqb c QM).
Definition ISGLOB_METAS : list N := [LBR; STAR; QM].
Fixpoint is_glob_loop (metas : list N) (whole p : bytes) : bool :=
  match p with
  | [] => false                                                      (* return false *)
  | c :: p' =>
      if existsb (N.eqb c) metas
      then match glob_match whole WHATEVER with WBad => false | _ => true end   (* return err == nil *)
      else is_glob_loop metas whole p'
  end.
Definition is_glob_with (metas : list N) (p : bytes) : bool := is_glob_loop metas p p.
Definition is_glob (p : bytes) : bool := is_glob_with ISGLOB_METAS p.

(* swap-remove of a slice element:  l[i] = l[len(l)-1]; l = l[:len(l)-1]  *)
Definition set_nth {A} (i : nat) (x : A) (l : list A) : list A := firstn i l ++ x :: skipn (S i) l.
Definition swap_remove {A} (i : nat) (l : list A) : list A :=
  match nth_error l (length l - 1) with
  | Some z => removelast (set_nth i z l)
  | None => l
  end.

(* extendRoamMessage prints math.Floor(meters*1000)/1000: on metres scaled to integer micrometres
   this is the floor to whole millimetres *)
Definition round_mm (d_um : Z) : Z := Z.div d_um 1000.

(* extendRoamMessage's "scan" member (ROAM key pattern meters SCAN glob): the matched neighbour itself
   first (marked self) when it still exists, then the objects of the roam collection, in id order,
   whose id matches  match.id ++ glob, except the neighbour itself.  ids = the collection's ids in
   ascending order (col.Scan / col.ScanRange over the range glob.Parse allows: C12) *)
Definition scan_ids (ids : list bytes) (mid scan : bytes) : list (bool * bytes) :=
  (if existsb (bytes_eqb mid) ids then [(true, mid)] else []) ++
  map (fun i => (false, i))
      (filter (fun i => negb (bytes_eqb i mid) &&
                        match glob_match (mid ++ scan) i with WTrue => true | _ => false end) ids).

Section Roam.
  Variable G : Type.
  Variable dist : G -> G -> Z.
  Variable in_rect : G -> Z -> G -> bool.

  Record robj := { o_id : bytes; o_geo : G }.
  Record rmatch := { m_id : bytes; m_geo : G; m_meters : Z }.
  (* fence.roam.id / .pattern / .meters and fence.nodwell; rs_detect_nil: no DETECT clause *)
  Record roamsw := { rs_id : bytes; rs_pattern : bool; rs_meters : Z; rs_nodwell : bool; rs_detect_nil : bool }.

  (* search.go, case "roam": pattern = glob.IsGlob(id) *)
  Definition roam_parse (id : bytes) (meters : Z) (nodwell detect_nil : bool) : roamsw :=
    {| rs_id := id; rs_pattern := is_glob id; rs_meters := meters; rs_nodwell := nodwell;
       rs_detect_nil := detect_nil |}.

  Definition id_match (sw : roamsw) (i : bytes) : bool :=
    if rs_pattern sw
    then match glob_match (rs_id sw) i with WTrue => true | _ => false end   (* idMatch, _ = glob.Match *)
    else bytes_eqb (rs_id sw) i.

  (* the iterator body of fenceMatchNearbys, one visited object *)
  Definition visit (sw : roamsw) (ob : robj) (acc : list rmatch) (o : robj) : list rmatch :=
    if bytes_eqb (o_id o) (o_id ob) then acc                         (* skip self *)
    else
      let meters := dist (o_geo ob) (o_geo o) in
      if Z.gtb meters (rs_meters sw) then acc                        (* skip outside radius *)
      else if negb (id_match sw (o_id o)) then acc                   (* skip non-id match *)
      else acc ++ [{| m_id := o_id o; m_geo := o_geo o; m_meters := dist (o_geo ob) (o_geo o) |}].

  (* fenceMatchNearbys: obj == nil -> nil; an absent roam collection is col = [] *)
  Definition nearbys (col : list robj) (sw : roamsw) (obj : option robj) : list rmatch :=
    match obj with
    | None => []
    | Some ob =>
        fold_left (visit sw ob)
                  (filter (fun o => in_rect (o_geo ob) (rs_meters sw) (o_geo o)) col) []
    end.

  (* for ; j < len(newNearbys); j++ { if newNearbys[j].id == oldNearbys[i].id { match; break } } *)
  Fixpoint find_id (i : bytes) (l : list rmatch) (j : nat) : option nat :=
    match l with
    | [] => None
    | m :: t => if bytes_eqb (m_id m) i then Some j else find_id i t (S j)
    end.

  (* the outer loop of fenceMatchRoam; on a match i is decremented and then incremented by the
     for statement, i.e. stays *)
  Fixpoint dwell_loop (fuel : nat) (nodwell : bool) (i : nat) (oldN newN : list rmatch)
    : option (list rmatch * list rmatch) :=
    match fuel with
    | O => None
    | S f =>
        match nth_error oldN i with
        | None => Some (oldN, newN)                                   (* i >= len(oldNearbys) *)
        | Some oi =>
            match find_id (m_id oi) newN 0 with
            | Some j =>
                dwell_loop f nodwell i (swap_remove i oldN)
                           (if nodwell then swap_remove j newN else newN)
            | None => dwell_loop f nodwell (S i) oldN newN
            end
        end
    end.

  (* sortRoamMatches' less function *)
  Definition roam_less (a b : rmatch) : bool :=
    if Z.ltb (m_meters a) (m_meters b) then true
    else if Z.gtb (m_meters a) (m_meters b) then false
    else bytes_ltb (m_id a) (m_id b).

  (* sort.Slice is a library routine: modelled by insertion sort with the same less function *)
  Fixpoint insert_match (x : rmatch) (l : list rmatch) : list rmatch :=
    match l with
    | [] => [x]
    | y :: t => if roam_less y x then y :: insert_match x t else x :: l
    end.
  Definition sort_matches (l : list rmatch) : list rmatch := fold_right insert_match [] l.

  Inductive roam_res := RoamDone (near far : list rmatch) | RoamFuel.

  Definition remeasure (obj : robj) (m : rmatch) : rmatch :=
    {| m_id := m_id m; m_geo := m_geo m; m_meters := dist (m_geo m) (o_geo obj) |}.

  Definition fence_match_roam (col : list robj) (sw : roamsw) (obj : robj) (old : option robj) : roam_res :=
    let oldN := nearbys col sw old in
    let newN := nearbys col sw (Some obj) in
    match dwell_loop (S (length oldN)) (rs_nodwell sw) 0 oldN newN with
    | None => RoamFuel
    | Some (faraways, nearbys') =>
        (* ensure the faraways distances are to the new object *)
        RoamDone (sort_matches nearbys') (sort_matches (map (remeasure obj) faraways))
    end.

  (* fenceMatch, roam arm, command "set": no matches -> no message; a DETECT clause (which can
     only name inside/outside/enter/exit/cross) filters "roam" out; otherwise one message per
     nearby, then one per faraway *)
  Inductive roam_kind := Nearby | Faraway.
  Definition roam_msgs (col : list robj) (sw : roamsw) (obj : robj) (old : option robj)
    : option (list (roam_kind * rmatch)) :=
    match fence_match_roam col sw obj old with
    | RoamFuel => None
    | RoamDone near far =>
        if rs_detect_nil sw
        then Some (map (fun m => (Nearby, m)) near ++ map (fun m => (Faraway, m)) far)
        else Some []
    end.
End Roam.
