(* The interpreter pool and the per-interpreter eval mode (C18).

   Transcribed from /repo/internal/server:
     scripts.go  lStatePool.Get        pops the LAST saved interpreter, or makes a new one when none is idle
                 lStatePool.Put        appends to saved
                 lStatePool.Prune      drops interpreters from the FRONT of saved
                 cmdEvalUnified        Get; (argument errors return here: only the deferred Put runs);
                                       evalcmd.Store(state, msg.Command()); defer evalcmd.Delete(state); run;
                                       deferred: Delete, clear KEYS/ARGV, Put
                 cmdScriptLoad         Get; defer Put; compile
                 lStatePool.New        getArgs: evalCmd = the registry entry of the running interpreter, "" when
                                       there is none; call / pcall hand it to luaTile38Call
                 luaTile38Call         switch evalcmd: the three groups of Gen/ScriptTables.v, otherwise
                                       `command not supported in scripts`
     token.go    parseSearchScanBaseTokens   WHEREEVAL / WHEREEVALSHA: Get, no registry access; the interpreter
                                       stays out for the whole search and goes back in whereevalT.Close
                                       (filters are closed in the order they were parsed, so two filters come
                                       back in the other order than they were taken)
   What each user of the pool does to the registry is NOT re-typed: whether a user Stores a mode and
   whether that Store is directly followed by the deferred Delete is read from Gen/LuaPool.v, which t38x
   regenerates from the source on every run (so is the default of the lookup).

   A history is any sequence of these operations by any number of concurrent users (requests).
   No proofs here. *)
From Coq Require Import String List Bool Arith.
From T38 Require Import Model.Tables Gen.ScriptTables Gen.LuaPool.
Import ListNotations.
Open Scope string_scope.

(* (registers a mode, removes it again on every way out) of the Go function fn *)
Definition user_flags (fn : string) : bool * bool :=
  match assoc pool_users fn with Some f => fst f | None => (false, false) end.

Record holder := mkHolder {
  h_user : nat;            (* the request *)
  h_state : nat;           (* the interpreter it took *)
  h_fn : string;           (* the Go function that took it *)
  h_mode : string;         (* msg.Command() of the request *)
  h_stored : bool }.       (* past the Store statement *)

(* ghost: one tile38.call / pcall: who, from which function, past its Store?, its mode, what getArgs found *)
Record lcall := mkCall { c_user : nat; c_fn : string; c_stored : bool; c_mode : string; c_found : option string }.

Record pool := mkPool {
  saved : list nat;                    (* idle interpreters; the last one is handed out next *)
  fresh : nat;                         (* number of interpreters ever made *)
  reg : list (nat * string);           (* evalcmd *)
  held : list holder;
  calls : list lcall }.

Inductive op :=
| OGet (u : nat) (fn mode : string)    (* luapool.Get() in fn, for a request whose command word is mode *)
| OStore (u : nat)                     (* evalcmd.Store(state, msg.Command()) - if fn has that statement *)
| OCall (u : nat)                      (* the Lua code running on u's interpreter calls tile38.call / pcall *)
| OExit (u : nat)                      (* the way out: deferred Delete (if registered by the source), Put *)
| OPrune (k : nat).                    (* Prune drops k idle interpreters *)

Fixpoint reg_get (r : list (nat * string)) (x : nat) : option string :=
  match r with
  | [] => None
  | (y, m) :: rest => if Nat.eqb y x then Some m else reg_get rest x
  end.

Fixpoint reg_del (r : list (nat * string)) (x : nat) : list (nat * string) :=
  match r with
  | [] => []
  | (y, m) :: rest => if Nat.eqb y x then reg_del rest x else (y, m) :: reg_del rest x
  end.

Definition reg_set (r : list (nat * string)) (x : nat) (m : string) : list (nat * string) := (x, m) :: reg_del r x.

Fixpoint find_holder (l : list holder) (u : nat) : option holder :=
  match l with
  | [] => None
  | h :: rest => if Nat.eqb (h_user h) u then Some h else find_holder rest u
  end.

Fixpoint drop_holder (l : list holder) (u : nat) : list holder :=
  match l with
  | [] => []
  | h :: rest => if Nat.eqb (h_user h) u then drop_holder rest u else h :: drop_holder rest u
  end.

Section Pool.
(* the registry discipline of every pool user, by Go function name (the instance is user_flags) *)
Variable fl : string -> bool * bool.

Definition pstep (p : pool) (o : op) : pool :=
  match o with
  | OGet u fn mode =>
      match find_holder (held p) u with
      | Some _ => p                                           (* one interpreter per request *)
      | None =>
          match rev (saved p) with
          | x :: rest => mkPool (rev rest) (fresh p) (reg p) (mkHolder u x fn mode false :: held p) (calls p)
          | [] => mkPool [] (S (fresh p)) (reg p) (mkHolder u (fresh p) fn mode false :: held p) (calls p)
          end
      end
  | OStore u =>
      match find_holder (held p) u with
      | Some h =>
          if fst (fl (h_fn h))
          then mkPool (saved p) (fresh p) (reg_set (reg p) (h_state h) (h_mode h))
                      (mkHolder u (h_state h) (h_fn h) (h_mode h) true :: drop_holder (held p) u) (calls p)
          else p
      | None => p
      end
  | OCall u =>
      match find_holder (held p) u with
      | Some h => mkPool (saved p) (fresh p) (reg p) (held p)
                         (calls p ++ [mkCall u (h_fn h) (h_stored h) (h_mode h) (reg_get (reg p) (h_state h))])
      | None => p
      end
  | OExit u =>
      match find_holder (held p) u with
      | Some h =>
          let r := if h_stored h && snd (fl (h_fn h)) then reg_del (reg p) (h_state h) else reg p in
          mkPool (saved p ++ [h_state h]) (fresh p) r (drop_holder (held p) u) (calls p)
      | None => p
      end
  | OPrune k => mkPool (skipn k (saved p)) (fresh p) (reg p) (held p) (calls p)
  end.

Definition prun (p : pool) (ops : list op) : pool := fold_left pstep ops p.

End Pool.

(* newPool: iniLuaPoolSize idle interpreters, nothing registered *)
Definition pinit (n : nat) : pool := mkPool (seq 0 n) n [] [] [].

(* what luaTile38Call does with what getArgs found: the variant table, or a refusal (None) *)
Definition route (found : option string) : option table :=
  match found with
  | Some m => assoc script_variant m
  | None => if mode_lookup_defaults_to_empty then assoc script_variant "" else assoc script_variant "eval"
  end.

(* the pool as the source has it *)
Definition src_step := pstep user_flags.
Definition src_run := prun user_flags.
