(* Executable model of the command gates of handleInputCommand / the script tables, built on the
   tables regenerated from /repo (Gen/*.v).  No proofs here. *)
From Coq Require Import String List Bool.
From T38 Require Import Model.Tables Gen.LockTable Gen.Dispatch Gen.ScriptTables Gen.AuthGate Gen.Mutators.
Import ListNotations.
Open Scope string_scope.

(* structures that make up the dataset (collections, objects, hooks and channels) *)
Definition dataset_structs : list string :=
  ["cols"; "Collection"; "hooks"; "hooksOut"; "hookTree"; "hookCross"; "hookExpires"].

(* structures guarded by the server lock *)
Definition guarded_structs : list string :=
  (dataset_structs ++ ["groupHooks"; "groupObjects"; "aofbuf"; "aofsz"; "shrinklog"; "shrinking"])%list.

Definition read_struct : string := "read:Collection".

Definition fn_effects (fn : string) : list mut :=
  match assoc effects fn with Some l => l | None => [] end.

Definition handler_effects (hs : list handler) (c : string) : list mut :=
  match find_handler hs c with Some h => fn_effects (h_fn h) | None => [] end.

Definition touches (structs : list string) (ms : list mut) : bool :=
  existsb (fun m => in_strs (m_struct m) structs) ms.

(* the command's handler can modify the dataset *)
Definition changes (c : string) : bool := touches dataset_structs (handler_effects dispatch c).
Definition changes_script (c : string) : bool := touches dataset_structs (handler_effects dispatch_script c).
(* the command's handler hands out stored objects *)
Definition reads_objects (c : string) : bool := touches [read_struct] (handler_effects dispatch c).
Definition reads_objects_script (c : string) : bool := touches [read_struct] (handler_effects dispatch_script c).

Definition fn_takes_lock (fn : string) : bool :=
  match assoc takes_lock fn with Some b => b | None => false end.

(* ---- the gate as a fold over the statement order recorded in Gen/AuthGate.v ---- *)

Record env := mkEnv {
  e_loading : bool; e_follower : bool; e_caughtup : bool; e_readonly : bool; e_requirepass : bool }.

(* per message: is the connection authenticated, does the message carry HTTP credentials
   (Some ok?), and for an AUTH command: does its argument equal the password *)
Record cred := mkCred { k_authd : bool; k_http_auth : option bool; k_auth_arg_ok : bool }.

Inductive errkind := ELoading | EUnknownCmd | EAuthRequired | EInvalidPassword | ENotLeader | EReadOnly | ECatchingUp.

Inductive verdict :=
| VEarly                                   (* answered before any gate: ping / echo *)
| VErr (e : errkind)
| VAuthOK                                  (* AUTH accepted: +OK, nothing else runs *)
| VRun (l : lockk) (write : bool) (fn : string).   (* the handler runs under lock l *)

Definition arm_verdict (a : arm) (e : env) : option errkind :=
  if a_chk_follower a && e_follower e then Some ENotLeader
  else if a_chk_readonly a && e_readonly e then Some EReadOnly
  else if a_chk_caughtup a && e_follower e && negb (e_caughtup e) then Some ECatchingUp
  else None.

(* outer = the command word as received (`cmd`), inner = msg.Command() after the TIMEOUT rewrite *)
Fixpoint run_gate (steps : list gate_step) (outer inner : string) (e : env) (k : cred) (authd : bool) : verdict :=
  match steps with
  | [] => VErr EUnknownCmd
  | st :: rest =>
      match st with
      | GEarlyReply => if in_strs outer early_reply_cmds then VEarly else run_gate rest outer inner e k authd
      | GLoading =>
          if e_loading e && negb (in_strs inner loading_exempt) then VErr ELoading
          else run_gate rest outer inner e k authd
      | GHello => if String.eqb outer "hello" then VErr EUnknownCmd else run_gate rest outer inner e k authd
      | GTimeoutRewrite => run_gate rest outer inner e k authd
      | GAuth =>
          if (negb authd || String.eqb outer "auth") && negb (in_strs outer auth_exempt) then
            if e_requirepass e then
              match (if String.eqb outer "auth" then Some (k_auth_arg_ok k) else None), k_http_auth k with
              | None, None => VErr EAuthRequired
              | _, Some ok => if ok then run_gate rest outer inner e k true else VErr EInvalidPassword
              | Some ok, None => if ok then VAuthOK else VErr EInvalidPassword
              end
            else if String.eqb inner "auth" then VErr EInvalidPassword
            else run_gate rest outer inner e k authd
          else run_gate rest outer inner e k authd
      | GLockSwitch =>
          match arm_verdict (arm_of lock_table inner) e with
          | Some err => VErr err
          | None => run_gate rest outer inner e k authd
          end
      | GCommand =>
          match find_handler dispatch inner with
          | Some h => VRun (a_lock (arm_of lock_table inner)) (a_write (arm_of lock_table inner)) (h_fn h)
          | None => VErr EUnknownCmd
          end
      | GWriteAOF => run_gate rest outer inner e k authd
      end
  end.

Definition gate (outer inner : string) (e : env) (k : cred) : verdict :=
  run_gate gate_order outer inner e k (k_authd k).

(* ---- the connection's authd flag ----
   The value of client.authd after the message has gone through handleInputCommand. The source has
   ONE statement that changes the field (Gen.AuthGate.authd_assignments, every other write is a
   recogniser error of t38x): `client.authd = true` in the requirePass() != "" branch, after the
   password comparison. Same walk over the statement order as run_gate; every return before that
   statement leaves the flag as it was. *)
Fixpoint run_gate_authd (steps : list gate_step) (outer inner : string) (e : env) (k : cred) (authd : bool) : bool :=
  match steps with
  | [] => authd
  | st :: rest =>
      match st with
      | GEarlyReply => if in_strs outer early_reply_cmds then authd else run_gate_authd rest outer inner e k authd
      | GLoading =>
          if e_loading e && negb (in_strs inner loading_exempt) then authd
          else run_gate_authd rest outer inner e k authd
      | GHello => if String.eqb outer "hello" then authd else run_gate_authd rest outer inner e k authd
      | GAuth =>
          if (negb authd || String.eqb outer "auth") && negb (in_strs outer auth_exempt) then
            if e_requirepass e then
              match (if String.eqb outer "auth" then Some (k_auth_arg_ok k) else None), k_http_auth k with
              | None, None => authd
              | _, Some ok => if ok then run_gate_authd rest outer inner e k true else authd
              | Some ok, None => if ok then true else authd
              end
            else if String.eqb inner "auth" then authd
            else run_gate_authd rest outer inner e k authd
          else run_gate_authd rest outer inner e k authd
      | GTimeoutRewrite | GLockSwitch | GCommand | GWriteAOF => run_gate_authd rest outer inner e k authd
      end
  end.

Definition gate_authd (outer inner : string) (e : env) (k : cred) : bool :=
  run_gate_authd gate_order outer inner e k (k_authd k).

(* a connection = a sequence of messages, each seen under the server configuration of its moment
   (requirepass may be set or cleared between two messages by CONFIG SET on another connection) *)
Record cmsg := mkCmsg {
  cm_outer : string; cm_inner : string; cm_env : env; cm_http_auth : option bool; cm_auth_arg_ok : bool }.

Definition cmsg_cred (authd : bool) (m : cmsg) : cred := mkCred authd (cm_http_auth m) (cm_auth_arg_ok m).

(* authd after the whole history, starting from `authd` (false for a new connection: new(Client)) *)
Fixpoint conn_authd (ms : list cmsg) (authd : bool) : bool :=
  match ms with
  | [] => authd
  | m :: rest => conn_authd rest (gate_authd (cm_outer m) (cm_inner m) (cm_env m) (cmsg_cred authd m))
  end.

(* ---- script sub-commands (tile38.call from EVAL / EVALRO / EVALNA) ---- *)

Inductive sverdict :=
| SErrNotSupported | SErrReadOnly | SErrNotLeader | SErrCatchingUp | SErrUnknown
| SRun (l : lockk) (write : bool) (fn : string).

Definition script_gate (t : table) (c : string) (e : env) : sverdict :=
  if in_strs c script_deny then SErrNotSupported else
  let a := arm_of t c in
  match a_reject a with
  | RNotSupported => SErrNotSupported
  | RReadOnly => SErrReadOnly
  | RNo =>
      match arm_verdict a e with
      | Some ENotLeader => SErrNotLeader
      | Some EReadOnly => SErrReadOnly
      | Some ECatchingUp => SErrCatchingUp
      | Some _ => SErrUnknown
      | None =>
          match find_handler dispatch_script c with
          | Some h => SRun (a_lock a) (a_write a) (h_fn h)
          | None => SErrUnknown
          end
      end
  end.

(* every command name that occurs in any table *)
Definition all_command_names : list string :=
  (map h_cmd dispatch ++ map h_cmd dispatch_script ++
   flat_map a_cmds (t_arms lock_table) ++ script_deny)%list.

(* ---- checks over the regenerated tables (decidable, used by the theorems) ---- *)

(* every mutation of a guarded structure reachable from the handler of c happens under the
   exclusive server lock: the arm's lock or one taken locally around the site *)
Definition cmd_lock_sound (c : string) : bool :=
  let a := arm_of lock_table c in
  let ms := (handler_effects dispatch c ++ (if a_write a then fn_effects "writeAOF" else []))%list in
  forallb (fun m => negb (in_strs (m_struct m) guarded_structs) ||
                    is_excl (ctx_max (ctx_of_lock (a_lock a)) (m_ctx m))) ms.

Definition entry_lock_sound (fn : string) : bool :=
  forallb (fun m => negb (in_strs (m_struct m) guarded_structs) || is_excl (m_ctx m)) (fn_effects fn).

(* goroutine roots exempt from the own-locking rule: none. The per-connection goroutine dispatches
   through handleInputCommand, where t38x cuts the call graph (the lock table covers the handlers:
   cmd_lock_sound); what it does around the dispatch (pre-write flush, going live) is checked here
   like every other goroutine *)
Definition dispatcher_entries : list string := [].

Definition script_cmd_lock_sound (t : table) (outer_lock : lockk) (c : string) : bool :=
  let a := arm_of t c in
  match a_reject a with
  | RNo =>
      let ms := (handler_effects dispatch_script c ++ (if a_write a then fn_effects "writeAOF" else []))%list in
      forallb (fun m => negb (in_strs (m_struct m) guarded_structs) ||
                        is_excl (ctx_max (ctx_max (ctx_of_lock outer_lock) (ctx_of_lock (a_lock a))) (m_ctx m))) ms
  | _ => true
  end.
