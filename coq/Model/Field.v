(* internal/field: Value, Field, List (list_binary.go) — executable model, no proofs.

   A field value is (kind, data); Go's third component num is strconv.ParseFloat(data) at every
   place a Value is built (ValueOf, bfield), so it is a function of data and is not stored here.
   A List is the sequence of entries exactly as Scan yields them (the packed byte layout —
   uvarint lengths, shared-name numbers — is abstracted to this sequence; entries of kinds
   Null/False/True carry no data in the packed form and are re-materialised by bfield on every
   read, which is what [bfield] does here).

   Opaque library behaviour (strings.TrimSpace, strconv.ParseFloat+gjson.Valid+pretty.Ugly inside
   ValueOf, gjson.Get) is the record [foracle].

   MODELLED TREE = /repo with proposed_fixes/C01-field-get-dotted.diff and
   proposed_fixes/C01-field-same.diff applied.  The pinned behaviour is kept as [fl_get_old] and
   [value_equals_ci] for the refutation theorems. *)
From T38 Require Import Base.Bytes Base.SMap.

Definition KNull : N := 0.
Definition KFalse : N := 1.
Definition KNumber : N := 2.
Definition KString : N := 3.
Definition KTrue : N := 4.
Definition KJSON : N := 5.

Record value := mkValue { v_kind : N; v_data : bytes }.

Definition field := (bytes * value)%type.
Definition flist := list field.

Record foracle := mkFOracle {
  fo_valueof : bytes -> value;                 (* field.ValueOf(data) as (kind, data) *)
  fo_trim : bytes -> bytes;                    (* strings.TrimSpace *)
  fo_gjson : bytes -> bytes -> option value    (* gjson.Get(json, path): None iff !Exists(), else (Kind(res.Type), res.String()) *)
}.

Definition str_0 : bytes := [48].
Definition str_null : bytes := [110; 117; 108; 108].
Definition str_false : bytes := [102; 97; 108; 115; 101].
Definition str_true : bytes := [116; 114; 117; 101].

Definition zero_value : value := mkValue KNumber str_0.
Definition zero_field : field := ([], zero_value).

(* Value.IsZero: (kind == Number && data == "0" && num == 0) || v == Value{} *)
Definition is_zero (v : value) : bool :=
  ((v_kind v =? KNumber) && bytes_eqb (v_data v) str_0) ||
  ((v_kind v =? KNull) && bytes_eqb (v_data v) []).

(* Value.Same (proposed fix C01-field-same): same kind, same data *)
Definition value_same (a b : value) : bool :=
  (v_kind a =? v_kind b) && bytes_eqb (v_data a) (v_data b).

Definition datakind (k : N) : bool := (k =? KNumber) || (k =? KString) || (k =? KJSON).

(* bfield(name, kind, data): what a stored entry reads back as *)
Definition bfield (v : value) : value :=
  if v_kind v =? KNull then mkValue KNull str_null
  else if v_kind v =? KFalse then mkValue KFalse str_false
  else if v_kind v =? KTrue then mkValue KTrue str_true
  else v.

(* field.Make *)
Definition make_field (O : foracle) (name data : bytes) : field := (fo_trim O name, fo_valueof O data).

(* List.Set: scan the name-sorted entries; insert before the first larger name; on an equal name
   delete (zero value) / keep (same value) / replace; append at the end. A zero value is never stored. *)
Fixpoint fl_set (l : flist) (f : field) : flist :=
  match l with
  | [] => if is_zero (snd f) then [] else [f]
  | (name, v) :: rest =>
      if bytes_ltb (fst f) name then
        (if is_zero (snd f) then l else f :: l)
      else if bytes_eqb name (fst f) then
        (if is_zero (snd f) then rest
         else if value_same (bfield v) (snd f) then l
         else f :: rest)
      else (name, v) :: fl_set rest f
  end.

Definition DOT : N := 46.

(* strings.IndexByte(name, '.') : name[:dot], name[dot+1:] *)
Fixpoint split_dot (name : bytes) : option (bytes * bytes) :=
  match name with
  | [] => None
  | c :: r =>
      if c =? DOT then Some ([], r)
      else match split_dot r with
           | Some (j, p) => Some (c :: j, p)
           | None => None
           end
  end.

(* List.Get, repaired loop body:
     if kind == JSON && isj && fname == jname { res := gjson.Get(data, jpath); if res.Exists() { return } }
     if name < fname { break }
     if fname == name { return bfield(name, kind, data) } *)
Fixpoint fl_get_loop (O : foracle) (isj : bool) (jname jpath name : bytes) (l : flist) : field :=
  match l with
  | [] => zero_field
  | (fname, v) :: rest =>
      match (if (v_kind v =? KJSON) && isj && bytes_eqb fname jname then fo_gjson O (v_data v) jpath else None) with
      | Some r => (name, bfield r)
      | None =>
          if bytes_ltb name fname then zero_field
          else if bytes_eqb fname name then (name, bfield v)
          else fl_get_loop O isj jname jpath name rest
      end
  end.

Definition fl_get (O : foracle) (l : flist) (name : bytes) : field :=
  match split_dot name with
  | Some (j, p) => fl_get_loop O true j p name l
  | None => fl_get_loop O false [] [] name l
  end.

(* List.Get as in the pinned tree (finding F2): inside the JSON branch the loop breaks on
   jname < fname and never looks at the exact name. *)
Fixpoint fl_get_loop_old (O : foracle) (isj : bool) (jname jpath name : bytes) (l : flist) : field :=
  match l with
  | [] => zero_field
  | (fname, v) :: rest =>
      if (v_kind v =? KJSON) && isj then
        if bytes_ltb jname fname then zero_field
        else if bytes_eqb fname jname then
          match fo_gjson O (v_data v) jpath with
          | Some r => (name, bfield r)
          | None => fl_get_loop_old O isj jname jpath name rest
          end
        else fl_get_loop_old O isj jname jpath name rest
      else
        if bytes_ltb name fname then zero_field
        else if bytes_eqb fname name then (name, bfield v)
        else fl_get_loop_old O isj jname jpath name rest
  end.

Definition fl_get_old (O : foracle) (l : flist) (name : bytes) : field :=
  match split_dot name with
  | Some (j, p) => fl_get_loop_old O true j p name l
  | None => fl_get_loop_old O false [] [] name l
  end.

(* List.Scan / Len *)
Definition fl_scan (l : flist) : flist := map (fun f => (fst f, bfield (snd f))) l.
Definition fl_len (l : flist) : nat := length l.

(* MakeList *)
Definition fl_make (fs : list field) : flist := fold_left fl_set fs [].

(* ---- the pinned Value.Equals on strings (finding C01-eq): case-insensitive ---- *)
Definition is_upper (c : N) : bool := (65 <=? c) && (c <=? 90).

(* stringLessInsensitive *)
Fixpoint str_less_ci (a b : bytes) : bool :=
  match a, b with
  | x :: a', y :: b' =>
      let x' := if is_upper x then (if is_upper y then x else x + 32) else x in
      let y' := if is_upper y then (if is_upper x then y else y + 32) else y in
      if x' <? y' then true else if y' <? x' then false else str_less_ci a' b'
  | [], _ :: _ => true
  | _, _ => false
  end.

(* Equals for two String values in the pinned tree *)
Definition str_equals_ci (a b : bytes) : bool := negb (str_less_ci a b) && negb (str_less_ci b a).
