(* C17 — CLIENT LIST in both modes (internal/server/client.go cmdCLIENT, case "list").
   RESP mode returns the text buf: one line per connection,
       fmt.Sprintf("id=%d addr=%s name=%s age=%d idle=%d\n", ...)
   JSON mode RE-PARSES that text: strings.Split(buf, "\n"), TrimSpace, strings.Split(line, " "),
   TrimSpace, and each piece is cut at "=" into a member name and a value (tryParseType then guesses
   int / float / bool / string); a line without any member is dropped; json.Marshal prints each map.
   A connection name (CLIENT SETNAME) may be any bytes from '!' to '~', '=' included.
   Executable, no proofs. *)
From Coq Require Import String Ascii.
From T38 Require Import Base.Bytes.
Open Scope N_scope.

Definition SP : N := 32.
Definition EQ : N := 61.
Definition NL : N := 10.

(* strings.Split(s, sep) for a one-byte separator: never empty *)
Fixpoint split_on (sep : N) (s : bytes) : list bytes :=
  match s with
  | [] => [[]]
  | c :: r =>
      if c =? sep then [] :: split_on sep r
      else match split_on sep r with
           | h :: t => (c :: h) :: t
           | [] => [[c]]
           end
  end.

(* unicode.IsSpace on the bytes that are whole runes: \t \n \v \f \r and space *)
Definition is_space (c : N) : bool := ((9 <=? c) && (c <=? 13)) || (c =? 32).

Fixpoint drop_space (s : bytes) : bytes :=
  match s with
  | c :: r => if is_space c then drop_space r else s
  | [] => []
  end.

(* strings.TrimSpace *)
Definition trim_space (s : bytes) : bytes := rev (drop_space (rev (drop_space s))).

(* split := strings.SplitN(kv, "=", 2); len(split) == 2 : cut at the FIRST separator *)
Fixpoint cut_first (sep : N) (s : bytes) : option (bytes * bytes) :=
  match s with
  | [] => None
  | c :: r =>
      if c =? sep then Some ([], r)
      else match cut_first sep r with Some (a, b) => Some (c :: a, b) | None => None end
  end.

(* split := strings.Split(kv, "="); len(split) == 2 : exactly one separator (seeded change C17/12) *)
Definition cut_only (sep : N) (s : bytes) : option (bytes * bytes) :=
  match split_on sep s with [a; b] => Some (a, b) | _ => None end.

(* one connection, numbers as fmt prints them *)
Record cinfo := mkC { ci_id : bytes; ci_addr : bytes; ci_name : bytes; ci_age : bytes; ci_idle : bytes }.

Definition bs (s : string) : bytes := map (fun a => N_of_ascii a) (list_ascii_of_string s).
Definition k_id : bytes := Eval compute in bs "id".
Definition k_addr : bytes := Eval compute in bs "addr".
Definition k_name : bytes := Eval compute in bs "name".
Definition k_age : bytes := Eval compute in bs "age".
Definition k_idle : bytes := Eval compute in bs "idle".

(* what RESP mode shows of a connection *)
Definition resp_fields (c : cinfo) : list (bytes * bytes) :=
  [(k_id, ci_id c); (k_addr, ci_addr c); (k_name, ci_name c); (k_age, ci_age c); (k_idle, ci_idle c)].

Fixpoint join (sep : N) (l : list bytes) : bytes :=
  match l with
  | [] => []
  | [x] => x
  | x :: r => x ++ sep :: join sep r
  end.

(* the Sprintf line without its newline, and the whole text *)
Definition client_line (c : cinfo) : bytes := join SP (map (fun kv => fst kv ++ EQ :: snd kv) (resp_fields c)).
Definition list_text (cs : list cinfo) : bytes := concat (map (fun c => client_line c ++ [NL]) cs).

(* the JSON arm: the members of one line, in the order they are put into the map *)
Definition entry_fields (cut : N -> bytes -> option (bytes * bytes)) (line : bytes) : list (bytes * bytes) :=
  flat_map (fun kv => match cut EQ (trim_space kv) with Some p => [p] | None => [] end)
           (split_on SP (trim_space line)).

Definition json_entries (cut : N -> bytes -> option (bytes * bytes)) (buf : bytes) : list (list (bytes * bytes)) :=
  filter (fun m => match m with [] => false | _ => true end) (map (entry_fields cut) (split_on NL buf)).

(* CLIENT SETNAME: every byte from '!' to '~' *)
Definition name_ok (s : bytes) : bool := forallb (fun c => (33 <=? c) && (c <=? 126)) s.
(* the other values: digits, ip:port — no white space *)
Definition no_space (s : bytes) : bool := forallb (fun c => negb (is_space c)) s.

Definition client_wf (c : cinfo) : bool :=
  no_space (ci_id c) && no_space (ci_addr c) && name_ok (ci_name c) && no_space (ci_age c) && no_space (ci_idle c).
