(* C06 — errors of a STREAMED command (followHandleCommand), definitions only.

     _, d, err := s.command(msg, nil)
     if err != nil { if commandErrIsFatal(err) { return s.aofsz, err } }
     ... writeAOF(args, &d)            // appended only when d.updated

   The follower applies every record of the leader's stream with s.command.  When the command returns
   an error the follower either SKIPS the record and carries on (the error is tolerated: the same table
   commandErrIsFatal that loadAOF consults, coq/Gen/ReplayTol.v) or the attempt FAILS (followStep returns,
   follow() retries a second later, the caught-up flag is cleared at the top of the next attempt and the
   stream is fetched again from the position followCheckSome verifies).
   Model/Follow.v and Model/FollowGen.v see one step [app r s = (s', updated)] and no errors; this file
   refines that step: [xapp] also depends on a LOCAL condition of the executing server that is not part of
   the replicated dataset (its memory state against its own 'maxmemory', its role, its interpreter pool, a
   deadline) and may return an error (the name of the sentinel).
   A record the leader logged is one the leader executed successfully under ITS local condition; the
   follower executes it under its own. *)
From Coq Require Import List Bool String.
Import ListNotations.
Open Scope string_scope.

Fixpoint mem_name (x : string) (l : list string) : bool :=
  match l with [] => false | y :: t => String.eqb x y || mem_name x t end.

(* errors whose occurrence depends only on the dataset and the command (a true copy executing the same
   command meets them exactly when the leader does).  Everything else - errOOM (the executing server's heap
   against its own maxmemory), errTimeout, errReadOnly, errNotLeader, errCatchingUp, errNoLuasAvailable,
   errNoLongerFollowing, protocol errors, errors that are no sentinel - depends on the executing server.
   Trusted classification (read off the return sites: each of these is returned after a lookup in s.cols /
   s.hooks / the object's JSON or an arity / shape test of the arguments only). *)
Definition state_only_errs : list string :=
  ["errKeyNotFound"; "errIDNotFound"; "errKeyHasHooksSet"; "errKeyHasChannelsSet"; "errHookChanSameName";
   "errIDAlreadyExists"; "errPathNotFound"; "errNotRectangle"; "errInvalidNumberOfArguments"].
Definition state_only_name (e : string) : bool := mem_name e state_only_errs.

(* commandErrIsFatal as data: (sentinel, text, fatal?) rows + the verdict for any other error *)
Definition tol_of_table (table : list (string * string * bool)) (other_fatal : bool) (e : string) : bool :=
  match find (fun r : string * string * bool => String.eqb (fst (fst r)) e) table with
  | Some r => negb (snd r)
  | None => negb other_fatal
  end.

Definition tolerated_of_table (table : list (string * string * bool)) : list string :=
  map (fun r : string * string * bool => fst (fst r)) (filter (fun r : string * string * bool => negb (snd r)) table).

Definition table_state_only (table : list (string * string * bool)) : bool :=
  forallb (fun r : string * string * bool => snd r || state_only_name (fst (fst r))) table.

(* the tolerated set the theorems are stated for (Proofs: tolerated_of_table <generated table> = proved_tolerated) *)
Definition proved_tolerated : list string :=
  ["errHookChanSameName"; "errIDNotFound"; "errKeyHasChannelsSet"; "errKeyHasHooksSet"; "errKeyNotFound"].

(* does followHandleCommand consult commandErrIsFatal for the error of s.command, and nothing else?
   (over the guarded statements of Gen/FollowSteps.v: the statement after the one that calls s.command must be
   `return ..., err` under exactly the conditions err != nil, commandErrIsFatal(err)) *)
Definition ends_in_err (t : string) : bool :=
  let n := String.length t in Nat.leb 5 n && String.eqb (substring (n - 5) 5 t) ", err".
Fixpoint consults_table (l : list (list string * string * list string)) : bool :=
  match l with
  | [] => false
  | (_, _, effs) :: rest =>
      if mem_name "call s.command" effs then
        match rest with
        | (gs, t, effs') :: _ =>
            match gs with
            | [g1; g2] => String.eqb g1 "err != nil" && String.eqb g2 "commandErrIsFatal(err)" && prefix "return " t && ends_in_err t
                          && match effs' with [] => true | _ => false end
            | _ => false
            end
        | [] => false
        end
      else consults_table rest
  end.

Close Scope string_scope.

Section Tol.
  Variable st : Type.
  Variable rec : Type.
  Variable loc : Type.                                        (* local, non-replicated condition of a server *)
  Variable xapp : loc -> rec -> st -> (st * bool) + string.   (* inr = the sentinel returned *)
  Variable tolerated : string -> bool.                        (* negb (commandErrIsFatal err) *)

  Inductive outcome := Applied (s : st) (upd : bool) | Skipped | Failed (e : string).

  Definition fdeliver (lc : loc) (r : rec) (s : st) : outcome :=
    match xapp lc r s with
    | inl (s', u) => Applied s' u
    | inr e => if tolerated e then Skipped else Failed e
    end.

  (* one stream item: the leader's local condition when it executed the record, the follower's when it
     applies it, the record *)
  Definition item := (loc * loc * rec)%type.

  (* the leader executed every record successfully *)
  Fixpoint lrun (ts : list item) (s : st) : option st :=
    match ts with
    | [] => Some s
    | (ll, _, r) :: t => match xapp ll r s with inl (s', _) => lrun t s' | inr _ => None end
    end.

  (* the follower's read loop over the same records: inl = the whole stream was handled (the follower stays
     connected and, having consumed the stream up to the leader's size, reports caught up);
     inr = the attempt failed at a record with that error *)
  Fixpoint fstream (ts : list item) (s : st) : st + (string * st) :=
    match ts with
    | [] => inl s
    | (_, lf, r) :: t =>
        match fdeliver lf r s with
        | Applied s' _ => fstream t s'
        | Skipped => fstream t s
        | Failed e => inr (e, s)
        end
    end.
End Tol.

(* a toy instance: the dataset is the list of ids set so far; SET n is refused with errOOM when the executing
   server is over its maxmemory (loc = true), DEL of an absent id is errIDNotFound *)
Inductive toy_rec := TSet (n : nat) | TDel (n : nat).
Definition toy_xapp (oom : bool) (r : toy_rec) (s : list nat) : (list nat * bool) + string :=
  match r with
  | TSet n => if oom then inr "errOOM"%string else inl (n :: s, true)
  | TDel n => if existsb (Nat.eqb n) s then inl (filter (fun m => negb (Nat.eqb n m)) s, true) else inr "errIDNotFound"%string
  end.
