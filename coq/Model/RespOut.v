(* C17 — the RESP printer used for every RESP-mode reply (github.com/tidwall/resp Value.MarshalRESP:
   marshalSimpleRESP / marshalBulkRESP / marshalArrayRESP, transcribed) and a strict RESP2 reply
   parser.  Executable, no proofs. *)
From Coq Require Import DecimalN.
From T38 Require Import Base.Bytes.
Open Scope N_scope.

Inductive rval :=
| RSimple (s : bytes)      (* +s CRLF   resp.SimpleStringValue *)
| RErr (s : bytes)         (* -s CRLF   resp.ErrorValue *)
| RInt (z : Z)             (* :z CRLF   resp.IntegerValue / BoolValue *)
| RBulk (s : bytes)        (* $len CRLF s CRLF   resp.StringValue / BytesValue / FloatValue *)
| RNull                    (* $-1 CRLF  resp.NullValue *)
| RNullArr                 (* *-1 CRLF *)
| RArr (l : list rval).    (* *n CRLF elements   resp.ArrayValue *)

Definition crlf : bytes := [13; 10].

(* strconv.FormatInt(_, 10) through the standard library's decimal numerals *)
Fixpoint bytes_of_uint (u : Decimal.uint) : bytes :=
  match u with
  | Decimal.Nil => []
  | Decimal.D0 u => 48 :: bytes_of_uint u
  | Decimal.D1 u => 49 :: bytes_of_uint u
  | Decimal.D2 u => 50 :: bytes_of_uint u
  | Decimal.D3 u => 51 :: bytes_of_uint u
  | Decimal.D4 u => 52 :: bytes_of_uint u
  | Decimal.D5 u => 53 :: bytes_of_uint u
  | Decimal.D6 u => 54 :: bytes_of_uint u
  | Decimal.D7 u => 55 :: bytes_of_uint u
  | Decimal.D8 u => 56 :: bytes_of_uint u
  | Decimal.D9 u => 57 :: bytes_of_uint u
  end.

Fixpoint uint_of_bytes (b : bytes) : option Decimal.uint :=
  match b with
  | [] => Some Decimal.Nil
  | c :: r =>
      match uint_of_bytes r with
      | None => None
      | Some u =>
          if c =? 48 then Some (Decimal.D0 u) else if c =? 49 then Some (Decimal.D1 u)
          else if c =? 50 then Some (Decimal.D2 u) else if c =? 51 then Some (Decimal.D3 u)
          else if c =? 52 then Some (Decimal.D4 u) else if c =? 53 then Some (Decimal.D5 u)
          else if c =? 54 then Some (Decimal.D6 u) else if c =? 55 then Some (Decimal.D7 u)
          else if c =? 56 then Some (Decimal.D8 u) else if c =? 57 then Some (Decimal.D9 u)
          else None
      end
  end.

Definition print_N (n : N) : bytes := bytes_of_uint (N.to_uint n).

Definition parse_N (b : bytes) : option N :=
  match uint_of_bytes b with Some u => Some (N.of_uint u) | None => None end.

Definition print_int (z : Z) : bytes :=
  match z with
  | Z0 => print_N 0
  | Zpos p => print_N (Npos p)
  | Zneg p => 45 :: print_N (Npos p)
  end.

Definition parse_int (b : bytes) : option Z :=
  match b with
  | c :: r =>
      if c =? 45 then (match parse_N r with Some n => Some (- Z.of_N n)%Z | None => None end)
      else (match parse_N b with Some n => Some (Z.of_N n) | None => None end)
  | [] => None
  end.

(* resp.formSingleLine: what ErrorValue and SimpleStringValue do to their text *)
Definition form_single_line (s : bytes) : bytes := map (fun c => if c <? 32 then 32 else c) s.

Fixpoint resp_print (v : rval) : bytes :=
  match v with
  | RSimple s => 43 :: s ++ crlf
  | RErr s => 45 :: s ++ crlf
  | RInt z => 58 :: print_int z ++ crlf
  | RBulk s => 36 :: print_N (N.of_nat (length s)) ++ crlf ++ s ++ crlf
  | RNull => [36; 45; 49; 13; 10]
  | RNullArr => [42; 45; 49; 13; 10]
  | RArr l =>
      42 :: print_N (N.of_nat (length l)) ++ crlf ++
      (fix go (l : list rval) : bytes := match l with [] => [] | x :: r => resp_print x ++ go r end) l
  end.

(* ---------- strict parser of one reply value ---------- *)

(* the line up to the first CR LF, and what follows it *)
Fixpoint read_line (b : bytes) : option (bytes * bytes) :=
  match b with
  | [] => None
  | c :: r =>
      if (c =? 13) && (match r with d :: _ => d =? 10 | [] => false end) then Some ([], tl r)
      else match read_line r with Some (l, r') => Some (c :: l, r') | None => None end
  end.

(* a simple string / error line may not contain a bare CR or LF either *)
Definition line_ok (l : bytes) : bool := forallb (fun c => negb ((c =? 13) || (c =? 10))) l.

Fixpoint parse_elems (p : bytes -> option (rval * bytes)) (k : nat) (b : bytes) : option (list rval * bytes) :=
  match k with
  | O => Some ([], b)
  | S k' =>
      match p b with
      | Some (v, b') =>
          match parse_elems p k' b' with
          | Some (vs, b'') => Some (v :: vs, b'')
          | None => None
          end
      | None => None
      end
  end.

(* fuel bounds the nesting depth only *)
Fixpoint resp_parse_fuel (fuel : nat) (b : bytes) : option (rval * bytes) :=
  match fuel with
  | O => None
  | S f =>
      match b with
      | [] => None
      | t :: r =>
          match read_line r with
          | None => None
          | Some (l, r') =>
              if t =? 43 then (if line_ok l then Some (RSimple l, r') else None)
              else if t =? 45 then (if line_ok l then Some (RErr l, r') else None)
              else if t =? 58 then (match parse_int l with Some z => Some (RInt z, r') | None => None end)
              else if t =? 36 then
                match parse_int l with
                | Some z =>
                    if (z =? -1)%Z then Some (RNull, r')
                    else if (z <? 0)%Z then None
                    else
                      let n := Z.to_nat z in
                      let s := firstn n r' in
                      let e := skipn n r' in
                      if (Nat.eqb (length s) n) then
                        match e with
                        | c :: d :: e' => if (c =? 13) && (d =? 10) then Some (RBulk s, e') else None
                        | _ => None
                        end
                      else None
                | None => None
                end
              else if t =? 42 then
                match parse_int l with
                | Some z =>
                    if (z =? -1)%Z then Some (RNullArr, r')
                    else if (z <? 0)%Z then None
                    else match parse_elems (resp_parse_fuel f) (Z.to_nat z) r' with
                         | Some (vs, e) => Some (RArr vs, e)
                         | None => None
                         end
                | None => None
                end
              else None
          end
      end
  end.

Definition resp_parse (b : bytes) : option (rval * bytes) := resp_parse_fuel (S (length b)) b.

(* well-formed reply values: simple strings and errors are single lines *)
Fixpoint resp_wf (v : rval) : bool :=
  match v with
  | RSimple s | RErr s => line_ok s
  | RArr l => (fix all (l : list rval) : bool := match l with [] => true | x :: r => resp_wf x && all r end) l
  | _ => true
  end.

Fixpoint resp_depth (v : rval) : nat :=
  match v with
  | RArr l => S ((fix mx (l : list rval) : nat := match l with [] => O | x :: r => Nat.max (resp_depth x) (mx r) end) l)
  | _ => 1%nat
  end.

(* the image test used by the harness on real replies: b is exactly resp_print of some value *)
Definition resp_in_image (b : bytes) : bool :=
  match resp_parse b with
  | Some (v, []) => bytes_eqb (resp_print v) b
  | _ => false
  end.
