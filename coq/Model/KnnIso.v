(* C13 — the assumption "the R-tree does not change during one NEARBY" as a decidable check over
   the tables t38x regenerates from /repo (Gen/LockTable.v, Dispatch.v, ScriptTables.v, Mutators.v).

   Model/Knn.v runs rtree.Nearby on ONE tree value: the theorems of Props/C13.v say nothing about a
   traversal whose nodes are rewritten under it (Collection.Set / Delete compact, split and dissolve
   R-tree nodes in place while the traversal's queue holds pointers to them).  The server excludes
   that by its lock: every mutation of a collection runs under the EXCLUSIVE server lock, every
   traversal under at least the SHARED lock, held from before the handler starts until after it
   returns.  The definitions below state that discipline site by site; Proofs/KnnIsoProofs.v
   computes it for every command string, every goroutine and every script sub-command.

   Definitions only; no proofs here. *)
From Coq Require Import String List Bool.
From T38 Require Import Model.Tables Gen.LockTable Gen.Dispatch Gen.ScriptTables Gen.Mutators Model.Gate.
Import ListNotations.
Open Scope string_scope.

(* what a traversal reads: the indexes of a collection (the R-tree, the id / value / expiry
   B-trees: t38x records every Collection.Set / Collection.Delete call site as "Collection") and the
   key -> collection map through which the collection is reached ("cols") *)
Definition index_structs : list string := ["Collection"; "cols"].

(* a traversal site: a call of Collection.Nearby / Within / Intersects / Scan* / SearchValues* /
   Get / ScanExpires (t38x: "read:Collection") *)
Definition is_index_mut (m : mut) : bool := in_strs (m_struct m) index_structs.
Definition is_traversal (m : mut) : bool := String.eqb (m_struct m) read_struct.

Definition at_least_shared (c : ctx) : bool := match c with CNone => false | _ => true end.

(* one site, reached while `held` is held around the whole handler: a mutation needs the exclusive
   lock, a traversal at least the shared one; the lock taken locally around the site counts too *)
Definition site_isolated (held : ctx) (m : mut) : bool :=
  (negb (is_index_mut m) || is_excl (ctx_max held (m_ctx m))) &&
  (negb (is_traversal m) || at_least_shared (ctx_max held (m_ctx m))).

(* a handler entered with lock `held`.  The lock of the caller covers the WHOLE handler only if
   neither the handler nor anything it calls synchronously contains a call of a server lock method
   (fn_takes_lock: Lock / Unlock / RLock / RUnlock all count): otherwise the handler could give the
   lock up half-way through a traversal, and only the regions it takes itself are counted *)
Definition held_throughout (held : lockk) (fn : string) : ctx :=
  if fn_takes_lock fn then CNone else ctx_of_lock held.

Definition handler_isolated (held : lockk) (fn : string) : bool :=
  forallb (site_isolated (held_throughout held fn)) (fn_effects fn).

(* a command received on a connection: its handler under the lock of its arm of
   handleInputCommand's switch, and writeAOF (which evaluates the fences: ROAM runs a kNN
   traversal of another collection) when the arm logs *)
Definition cmd_isolated (c : string) : bool :=
  let a := arm_of lock_table c in
  match find_handler dispatch c with
  | Some h => handler_isolated (a_lock a) (h_fn h)
  | None => true
  end &&
  (if a_write a then handler_isolated (a_lock a) "writeAOF" else true).

(* a goroutine: nothing is held when it starts *)
Definition entry_isolated (fn : string) : bool := handler_isolated LNone fn.

(* a sub-command of a script: the table's arm may take a lock around the call (EVALNA), the outer
   command may hold one for the whole script (EVAL exclusive, EVALRO shared) *)
Definition lock_max (a b : lockk) : lockk :=
  match a, b with
  | LExcl, _ | _, LExcl => LExcl
  | LShared, _ | _, LShared => LShared
  | _, _ => LNone
  end.

Definition script_cmd_isolated (t : table) (outer : lockk) (c : string) : bool :=
  let a := arm_of t c in
  if in_strs c script_deny then true else
  match a_reject a with
  | RNo =>
      match find_handler dispatch_script c with
      | Some h => handler_isolated (lock_max outer (a_lock a)) (h_fn h)
      | None => true
      end &&
      (if a_write a then handler_isolated (lock_max outer (a_lock a)) "writeAOF" else true)
  | _ => true
  end.

(* the script variants with the lock their outer command holds *)
Definition script_variants_held : list (table * lockk) :=
  [(script_rw, LExcl); (script_ro, LShared); (script_na, LNone)].

(* what the statements are about: does the handler of c reach a mutation / a traversal at all *)
Definition mutates_index (c : string) : bool := existsb is_index_mut (handler_effects dispatch c).
Definition traverses (c : string) : bool := existsb is_traversal (handler_effects dispatch c).

(* the commands of the property and the writes that can race with them *)
Definition search_cmds : list string := ["nearby"; "within"; "intersects"; "scan"; "search"].
Definition object_write_cmds : list string :=
  ["set"; "fset"; "del"; "pdel"; "expire"; "persist"; "jset"; "jdel"; "drop"; "flushdb"; "rename"; "renamenx"].
