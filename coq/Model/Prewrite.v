(* C08 — executable model of the pre-write protocol of tile38
   (internal/server/server.go netServe, aof.go writeAOF / flushAOF, backgroundSyncAOF).

   Shared state: the append buffer (Server.aofbuf), the file (Server.aof), the dirty flag
   (Server.aofdirty, an atomic.Bool read WITHOUT the lock), the holder of Server.mu, and a ghost
   list of the commands whose success reply has been written to a socket.

   One thread per client connection; its program is a list of batches (one batch = the commands
   found in one packet, answered by one socket write).  The micro-steps, in source order, are

     per write command (handleInputCommand + writeAOF):
        CMD  s.mu.Lock()                      (blocks while another thread holds the lock)
        L2   s.aofdirty.Store(true)
        L3   s.aofbuf = append(s.aofbuf, cmd)
        L4   s.mu.Unlock()                    (deferred; the reply is appended to client.out)
     after the batch (netServe, `if len(client.out) > 0`):
        P1   b := s.aofdirty.Load()           (b = false: go to P6)
        P2   s.mu.Lock()
        P3   s.flushAOF(false)                (file += buf; buf := [])
        P4   [variant store_locked:     s.aofdirty.Store(false)]
        P4U  s.mu.Unlock()                    (deferred)
        P5   [variant not store_locked: s.aofdirty.Store(false)]
        P6   conn.Write(client.out)           (the acknowledgement of every command of the batch)

   A batch with no write command (a read, PING, ...) starts at P1: it still runs the pre-write.
   A `detach` batch is one whose last message makes the connection go live (SUBSCRIBE, a FENCE
   search): netServe then writes client.out in the goingLive branch; in the variant
   `detach_prewrite = false` that branch has no pre-write (it goes from L4 straight to P6).

   The background flusher loops F1 lock; F2 flushAOF(true); F3 unlock.  (In the variant
   `flusher_swap` F1 is the flag swap and FL the lock.)

   `variant` selects between the statement orders; the harness checks on every run which one the
   source has (harness/cmd/c08: parse of netServe).  No proofs in this file. *)
From Coq Require Import List NArith Bool Arith.
Import ListNotations.

Definition cmd := N.
Definition tid := nat.

Record variant := mkVariant {
  v_store_locked : bool;     (* aofdirty.Store(false) is inside the locked region (before the unlock) *)
  v_detach_prewrite : bool;  (* the goingLive branch runs the pre-write before writing client.out *)
  v_flusher_swap : bool;     (* backgroundSyncAOF starts with `if !s.aofdirty.Swap(false) { return }`,
                                before it takes the lock (not the case in tile38; a recognised other order) *)
  v_flag_in_writeaof : bool; (* s.aofdirty.Store(true) is inside writeAOF, before the append; false: it is
                                in handleInputCommand after writeAOF returned, so the writes a Lua script
                                makes through luaTile38AtomicRW / luaTile38NonAtomic never raise it *)
  v_detach_store_locked : bool; (* the goingLive copy of the pre-write clears the flag before its unlock;
                                false: that copy unlocks right after flushAOF (explicit s.mu.Unlock())
                                and clears the flag afterwards *)
  v_flusher_store : bool     (* every round of backgroundSyncAOF starts with an unconditional
                                `s.aofdirty.Store(false)` before it takes the lock ("the flush below leaves
                                the buffer empty"); not the case in tile38, a recognised other order.  The
                                flusher's F1 is then the store (no lock) and FL the lock; at boot the first
                                store finds the flag false, so the thread starts at FL *)
}.

(* tile38 at the pinned commit *)
Definition v_pinned : variant := mkVariant false false false true true false.
(* tile38 with proposed_fixes/C08-prewrite-order.diff applied (what /repo's working tree holds) *)
Definition v_fixed : variant := mkVariant true true false true true false.

Inductive pc := CMD | L2 | L3 | L4 | P1 | P2 | P3 | P4 | P4U | P5 | P6 | DONE | F1 | FL | F2 | F3.

(* b_script: the write commands of the batch are issued from inside Lua scripts (EVAL / EVALNA ...
   tile38.call('set', ...)): same lock / writeAOF / unlock steps (handleInputCommand's eval arm or
   luaTile38NonAtomic takes s.mu), but writeAOF is called by scripts.go, not by handleInputCommand *)
Record batch := mkBatch { b_cmds : list cmd; b_detach : bool; b_script : bool }.

Record thread := mkThread {
  t_pc : pc;
  t_cur : list cmd;      (* commands of the current batch not yet executed *)
  t_detach : bool;       (* the current batch ends by going live *)
  t_script : bool;       (* the commands of the current batch are written by scripts *)
  t_rest : list batch;   (* batches not yet received *)
  t_pend : list cmd      (* commands logged by this connection, reply still in client.out *)
}.

Record state := mkState {
  threads : tid -> thread;
  lock : option tid;
  dirty : bool;
  buf : list cmd;
  file : list cmd;
  acked : list cmd
}.

Inductive prog := PConn (bs : list batch) | PFlusher.

Definition upd (f : tid -> thread) (t : tid) (x : thread) : tid -> thread :=
  fun i => if Nat.eqb i t then x else f i.

(* where a connection stands once the commands of its batch have run *)
Definition after_cmds (v : variant) (detach : bool) : pc :=
  if detach && negb (v_detach_prewrite v) then P6 else P1.

Definition enter (v : variant) (cur : list cmd) (detach : bool) : pc :=
  match cur with [] => after_cmds v detach | _ :: _ => CMD end.

Definition done_thread : thread := mkThread DONE [] false false [] [].

(* load the next batch (after the socket write, or at start) *)
Definition next_batch (v : variant) (was_detach : bool) (rest : list batch) : thread :=
  if was_detach then done_thread else
  match rest with
  | [] => done_thread
  | b :: r => mkThread (enter v (b_cmds b) (b_detach b)) (b_cmds b) (b_detach b) (b_script b) r []
  end.

Definition set_pc (th : thread) (p : pc) : thread :=
  mkThread p (t_cur th) (t_detach th) (t_script th) (t_rest th) (t_pend th).

Definition step (v : variant) (st : state) (t : tid) : state :=
  let th := threads st t in
  let T := threads st in
  match t_pc th with
  | CMD =>
      match lock st with
      | None => mkState (upd T t (set_pc th L2)) (Some t) (dirty st) (buf st) (file st) (acked st)
      | Some _ => st
      end
  | L2 => mkState (upd T t (set_pc th L3)) (lock st) (if v_flag_in_writeaof v then true else dirty st)
                  (buf st) (file st) (acked st)
  | L3 =>
      match t_cur th with
      | c :: cur' =>
          mkState (upd T t (mkThread L4 cur' (t_detach th) (t_script th) (t_rest th) (t_pend th ++ [c])))
                  (lock st) (dirty st) (buf st ++ [c]) (file st) (acked st)
      | [] => mkState (upd T t (set_pc th L4)) (lock st) (dirty st) (buf st) (file st) (acked st)
      end
  | L4 =>
      (* variant flag-in-dispatcher: handleInputCommand raises the flag after writeAOF, just before its
         deferred unlock; a script's writeAOF is not followed by that statement *)
      mkState (upd T t (set_pc th (enter v (t_cur th) (t_detach th)))) None
              (if negb (v_flag_in_writeaof v) && negb (t_script th) then true else dirty st)
              (buf st) (file st) (acked st)
  | P1 =>
      mkState (upd T t (set_pc th (if dirty st then P2 else P6))) (lock st) (dirty st) (buf st) (file st) (acked st)
  | P2 =>
      match lock st with
      | None => mkState (upd T t (set_pc th P3)) (Some t) (dirty st) (buf st) (file st) (acked st)
      | Some _ => st
      end
  | P3 =>
      (* in the goingLive copy of the variant `detach_store_locked = false` the unlock follows the
         flush directly (flush and unlock form one step: nothing can come between them) *)
      mkState (upd T t (set_pc th P4))
              (if negb (v_detach_store_locked v) && t_detach th then None else lock st)
              (dirty st) [] (file st ++ buf st) (acked st)
  | P4 =>
      (* the goingLive copy has the store here in every variant; the reply block has it here iff store_locked *)
      mkState (upd T t (set_pc th P4U)) (lock st)
              (if v_store_locked v || t_detach th then false else dirty st) (buf st) (file st) (acked st)
  | P4U =>
      mkState (upd T t (set_pc th P5))
              (if negb (v_detach_store_locked v) && t_detach th then lock st else None)
              (dirty st) (buf st) (file st) (acked st)
  | P5 =>
      mkState (upd T t (set_pc th P6)) (lock st)
              (if negb (v_store_locked v) && negb (t_detach th) then false else dirty st) (buf st) (file st) (acked st)
  | P6 =>
      mkState (upd T t (next_batch v (t_detach th) (t_rest th))) (lock st) (dirty st) (buf st) (file st)
              (acked st ++ t_pend th)
  | DONE => st
  | F1 =>
      if v_flusher_store v then
        (* `s.aofdirty.Store(false)` with no lock held, then on to the lock *)
        mkState (upd T t (set_pc th FL)) (lock st) false (buf st) (file st) (acked st)
      else
      if v_flusher_swap v then
        (* `if !s.aofdirty.Swap(false) { return }` with no lock held *)
        mkState (upd T t (set_pc th (if dirty st then FL else F1))) (lock st) false (buf st) (file st) (acked st)
      else
      match lock st with
      | None => mkState (upd T t (set_pc th F2)) (Some t) (dirty st) (buf st) (file st) (acked st)
      | Some _ => st
      end
  | FL =>
      match lock st with
      | None => mkState (upd T t (set_pc th F2)) (Some t) (dirty st) (buf st) (file st) (acked st)
      | Some _ => st
      end
  | F2 => mkState (upd T t (set_pc th F3)) (lock st) (dirty st) [] (file st ++ buf st) (acked st)
  | F3 => mkState (upd T t (set_pc th F1)) None (dirty st) (buf st) (file st) (acked st)
  end.

Definition run_from (v : variant) (st : state) (sched : list tid) : state :=
  fold_left (step v) sched st.

Definition init_thread (v : variant) (p : prog) : thread :=
  match p with
  | PConn bs => next_batch v false bs
  | PFlusher => mkThread (if v_flusher_store v then FL else F1) [] false false [] []
  end.

Definition init (v : variant) (progs : list prog) : state :=
  mkState (fun i => match nth_error progs i with Some p => init_thread v p | None => done_thread end)
          None false [] [] [].

Definition run_sched (v : variant) (progs : list prog) (sched : list tid) : state :=
  run_from v (init v progs) sched.

(* the property, as a boolean: every acknowledged command is in the file *)
Definition mem (c : cmd) (l : list cmd) : bool := existsb (N.eqb c) l.
Definition acked_in_file (st : state) : bool := forallb (fun c => mem c (file st)) (acked st).

(* all states visited by a schedule, for the correspondence harness *)
Fixpoint trace (v : variant) (st : state) (sched : list tid) : list state :=
  match sched with
  | [] => []
  | t :: r => let st' := step v st t in st' :: trace v st' r
  end.

(* the schedule of DESIGN.md (finding F13): A = thread 0, C = thread 1, one command each *)
Definition f13_progs : list prog :=
  [PConn [mkBatch [1%N] false false]; PConn [mkBatch [2%N] false false]].
Definition f13_sched : list tid :=
  [0;0;0;0; 0; 0;0;0;0;  1;1;1;1;  0;  1; 1]%nat.
(*  A:CMD..L4 P1 P2..P4U  C:CMD..L4 A:P5 C:P1 C:P6 *)

(* second witness: one connection, a write followed in the same packet by a message that goes live *)
Definition f13b_progs : list prog := [PConn [mkBatch [1%N] true false]].
Definition f13b_sched : list tid := [0;0;0;0; 0]%nat.

(* a flusher that consumes the flag before it holds the lock: B logs, the flusher swaps, B tests the flag *)
Definition fswap_progs : list prog := [PConn [mkBatch [1%N] false false]; PFlusher].
Definition fswap_sched : list tid := [0;0;0;0; 1; 0;0]%nat.

(* a flusher that clears the flag unconditionally at the start of every round, before its lock: one
   (empty) round, B logs while the flusher sleeps, the next round starts (store), B tests the flag *)
Definition fstore_progs : list prog := [PConn [mkBatch [1%N] false false]; PFlusher].
Definition fstore_sched : list tid := [1;1;1; 0;0;0;0; 1; 0;0]%nat.
(*  flusher: FL F2 F3   B: CMD L2 L3 L4   flusher: F1 (store)   B: P1 (false) P6 *)

(* the flag raised by the dispatcher instead of writeAOF: one connection, one write made by a script *)
Definition fdisp_progs : list prog := [PConn [mkBatch [1%N] false true]].
Definition fdisp_sched : list tid := [0;0;0;0; 0;0]%nat.

(* the goingLive copy of the pre-write unlocks before it clears the flag: A = [SET][SUBSCRIBE] in one
   packet, C writes in the window between A's unlock and A's clear *)
Definition fdet_progs : list prog :=
  [PConn [mkBatch [1%N] true false]; PConn [mkBatch [2%N] false false]].
Definition fdet_sched : list tid := [0;0;0;0; 0;0;0;  1;1;1;1;  0;  1;1]%nat.
