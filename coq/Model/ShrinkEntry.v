(* The entry section and the deferred epilogue of aofshrink() read back from the statement lists that
   t38x regenerates from /repo on every run (Gen/ShrinkEntry.v), as functions on Model/Shrink.v's
   run state (s.shrinking, s.shrinklog; the dataset and the rewrite's position are not touched by
   these statements).  No proofs here.

   A statement is one of
     - `s.shrinking = true|false`, `s.shrinklog = nil`;
     - the guard `if s.aof == nil || s.shrinking {s.mu.Unlock(); return}`: the function returns;
     - anything that does not mention the two fields and cannot leave the function (no if / for /
       return / block): skipped;
     - anything else: not understood (None) — the obligations of Proofs/ShrinkEntryProofs.v then fail. *)
From Coq Require Import String List Bool.
From T38 Require Import Model.Shrink.
Import ListNotations.
Open Scope string_scope.

Fixpoint contains (sub s : string) : bool :=
  String.prefix sub s ||
  match s with
  | EmptyString => false
  | String _ r => contains sub r
  end.

Inductive eff := ESkip | ESetFlag (b : bool) | EResetLog | EGuard | EUnknown.

Definition stmt_eff (s : string) : eff :=
  if String.eqb s "s.shrinking = true" then ESetFlag true
  else if String.eqb s "s.shrinking = false" then ESetFlag false
  else if String.eqb s "s.shrinklog = nil" then EResetLog
  else if String.eqb s "if s.aof == nil || s.shrinking {s.mu.Unlock(); return}" then EGuard
  else if contains "s.shrink" s || String.prefix "if " s || String.prefix "for " s || String.prefix "return" s
          || String.prefix "{" s || String.prefix "?" s || String.prefix "go " s || String.prefix "switch " s
          || String.prefix "select " s || String.prefix "goto " s then EUnknown
  else ESkip.

(* aof_open: s.aof != nil *)
Fixpoint exec_section (aof_open : bool) (stmts : list string) (r : run) : option run :=
  match stmts with
  | [] => Some r
  | s :: rest =>
      match stmt_eff s with
      | ESkip => exec_section aof_open rest r
      | ESetFlag b => exec_section aof_open rest (mkRun (r_live r) (r_sh r) (r_log r) b)
      | EResetLog => exec_section aof_open rest (mkRun (r_live r) (r_sh r) [] (r_shrinking r))
      | EGuard => if negb aof_open || r_shrinking r then Some r else exec_section aof_open rest r
      | EUnknown => None
      end
  end.

(* the writes of the two fields anywhere in internal/server that the model accounts for: the entry
   section and the epilogue of aofshrink(), and writeAOF's append *)
Definition expected_state_writes : list string :=
  ["Server.aofshrink: s.shrinking = false"; "Server.aofshrink: s.shrinking = true";
   "Server.aofshrink: s.shrinklog = nil"; "Server.aofshrink: s.shrinklog = nil";
   "Server.writeAOF: s.shrinklog = append(s.shrinklog, nargs)"].
