(* The entry section and the deferred epilogue of aofshrink() read back from the statement lists that
   t38x regenerates from /repo on every run (Gen/ShrinkEntry.v), as functions on Model/Shrink.v's
   run state (s.shrinking, s.shrinklog; the dataset and the rewrite's position are not touched by
   these statements).  No proofs here.

   A statement is one of
     - `s.shrinking = true|false`, `s.shrinklog = nil`;
     - the guard `if s.aof == nil || s.shrinking {s.mu.Unlock(); return}`: the function returns;
     - anything that does not mention the two fields and cannot leave the function (no if / for /
       return / block): skipped (this includes other fields of the rewrite's state, e.g. the abort
       flag s.shrinkrst of proposed_fixes/C09-follow-reset-aborts-shrink.diff);
     - anything else: not understood (None) — the obligations of Proofs/ShrinkEntryProofs.v then fail. *)
From Coq Require Import String List Bool.
From T38 Require Import Model.Shrink.
Import ListNotations.
Open Scope string_scope.

Fixpoint contains (sub s : string) : bool :=
  String.prefix sub s ||
  match s with
  | EmptyString => false
  | String _ r => contains sub r
  end.

Inductive eff := ESkip | ESetFlag (b : bool) | EResetLog | EGuard | EUnknown.

Definition stmt_eff (s : string) : eff :=
  if String.eqb s "s.shrinking = true" then ESetFlag true
  else if String.eqb s "s.shrinking = false" then ESetFlag false
  else if String.eqb s "s.shrinklog = nil" then EResetLog
  else if String.eqb s "if s.aof == nil || s.shrinking {s.mu.Unlock(); return}" then EGuard
  else if contains "s.shrinking" s || contains "s.shrinklog" s || String.prefix "if " s || String.prefix "for " s || String.prefix "return" s
          || String.prefix "{" s || String.prefix "?" s || String.prefix "go " s || String.prefix "switch " s
          || String.prefix "select " s || String.prefix "goto " s then EUnknown
  else ESkip.

(* aof_open: s.aof != nil *)
Fixpoint exec_section (aof_open : bool) (stmts : list string) (r : run) : option run :=
  match stmts with
  | [] => Some r
  | s :: rest =>
      match stmt_eff s with
      | ESkip => exec_section aof_open rest r
      | ESetFlag b => exec_section aof_open rest (mkRun (r_live r) (r_sh r) (r_log r) b)
      | EResetLog => exec_section aof_open rest (mkRun (r_live r) (r_sh r) [] (r_shrinking r))
      | EGuard => if negb aof_open || r_shrinking r then Some r else exec_section aof_open rest r
      | EUnknown => None
      end
  end.

(* the writes of the two fields anywhere in internal/server that the model accounts for: the entry
   section and the epilogue of aofshrink(), and writeAOF's append *)
Definition expected_state_writes : list string :=
  ["Server.aofshrink: s.shrinking = false"; "Server.aofshrink: s.shrinking = true";
   "Server.aofshrink: s.shrinklog = nil"; "Server.aofshrink: s.shrinklog = nil";
   "Server.writeAOF: s.shrinklog = append(s.shrinklog, nargs)"].

(* Any other write of a field s.shrink* must be one of:
     - the abort flag: `s.shrinkrst = true` anywhere (it can only make the running rewrite give up: the
       old file stays the log), `s.shrinkrst = false` in aofshrink() itself;
     - a reset of the log outside aofshrink(): only by a function that raises the abort flag as well,
       and only if the final section gives up on that flag before it appends the shrinklog to the new
       file (so the emptied log is never what the server keeps).  On the repaired tree this is the
       follower's followReset. *)
Fixpoint index_str (x : string) (l : list string) : option nat :=
  match l with
  | [] => None
  | y :: r => if String.eqb x y then Some 0 else option_map S (index_str x r)
  end.

Definition before_str (a b : string) (l : list string) : bool :=
  match index_str a l, index_str b l with
  | Some i, Some j => Nat.ltb i j
  | _, _ => false
  end.

Definition in_list (x : string) (l : list string) : bool := existsb (String.eqb x) l.

Definition split_site (w : string) : option (string * string) :=
  match String.index 0 ": " w with
  | Some i => Some (String.substring 0 i w, String.substring (i + 2) (String.length w - (i + 2)) w)
  | None => None
  end.

Definition rewrite_gives_up_on_reset (final : list string) : bool :=
  before_str "if s.shrinkrst return" "range s.shrinklog: assign aofbuf" final.

Definition write_ok (all final : list string) (w : string) : bool :=
  in_list w expected_state_writes ||
  match split_site w with
  | Some (fn, stmt) =>
      String.eqb stmt "s.shrinkrst = true" ||
      (String.eqb fn "Server.aofshrink" && String.eqb stmt "s.shrinkrst = false") ||
      (String.eqb stmt "s.shrinklog = nil" && negb (String.eqb fn "Server.aofshrink") &&
       in_list (fn ++ ": s.shrinkrst = true") all && rewrite_gives_up_on_reset final)
  | None => false
  end.
