(* Model/GlobSelEsc.v — C12, round 5.  No proofs in this file.

   * pdel_select : the ids cmdPDEL (crud.go) deletes, as written: g := glob.Parse(pattern, false);
     both limits empty -> col.Scan over everything, else col.ScanRange(g.Limits[0], g.Limits[1], false);
     the iterator keeps the ids glob.Match(pattern, id) accepts.  There is no separate path for
     "plain" patterns: an escape is a pattern feature glob.Match interprets (the pattern CORP\\alice selects
     the id CORP\alice, the pattern CORP\bob selects the id CORPbob).
   * pdel_select_plain : the variant with a literal-lookup shortcut guarded by glob.IsGlob
     (Model/Roam.v is_glob: only '[', '*', '?' count) — col.Get(pattern) instead of the walk.
     It is what the code must NOT do; kept to state exactly when it would be right.
   * transport_words : the argument vector of a command sent as one text line (HTTP GET path,
     POST body, the $n-line native framing) = Model/Resp.v native_tok (readNativeMessageLine,
     server.go), given enough fuel; over RESP / telnet the client's words arrive as they are. *)
From T38 Require Import Base.Bytes Model.Glob Model.Roam Model.Resp Model.GlobSel.
Import ListNotations.
Open Scope N_scope.

Definition pdel_select (pattern : bytes) (ids : list bytes) : list bytes :=
  let g := parse pattern false in
  if isempty (g_lim0 g) && isempty (g_lim1 g) then filter (gmatches pattern) ids
  else filter (gmatches pattern) (scan_range_visit (g_lim0 g) (g_lim1 g) false ids).

Definition pdel_select_plain (pattern : bytes) (ids : list bytes) : list bytes :=
  if negb (is_glob pattern) then (if existsb (bytes_eqb pattern) ids then [pattern] else [])
  else pdel_select pattern ids.

(* a command line made of words separated by one blank *)
Fixpoint join_sp (ws : list bytes) : bytes :=
  match ws with
  | [] => []
  | [w] => w
  | w :: r => w ++ 32 :: join_sp r
  end.

Definition transport_words (line : bytes) : tokres := native_tok (S (length line)) line [].

(* a word the line splitter treats like any other: not empty, no blank inside, not opening with
   '{' (JSON runs to the end of the line) nor with a double quote (the SET ... STRING quoting rule) *)
Definition plain_word (w : bytes) : bool :=
  match w with
  | [] => false
  | c :: _ => negb (c =? 123) && negb (c =? 34) && negb (existsb (N.eqb 32) w)
  end.
