(* Types of the tables that t38x regenerates from /repo (coq/Gen/*.v), and lookups over them. *)
From Coq Require Import String List Bool.
Import ListNotations.
Open Scope string_scope.

Inductive lockk := LExcl | LShared | LNone.
Inductive ctx := CExcl | CShared | CNone.
Inductive reject := RNo | RReadOnly | RNotSupported.

(* one arm of a `switch msg.Command()` lock/gate table *)
Record arm := mkArm {
  a_cmds : list string;
  a_lock : lockk;            (* server lock taken for the whole handler *)
  a_write : bool;            (* write = true : the command is appended to the log when it updated *)
  a_chk_follower : bool;     (* returns "not the leader" on a follower *)
  a_chk_readonly : bool;     (* returns "read only" on a read-only server *)
  a_chk_caughtup : bool;     (* returns "catching up to leader" on a follower that never caught up *)
  a_reject : reject          (* script tables: the arm refuses unconditionally *)
}.

Record table := mkTable {
  t_arms : list arm;
  t_default : arm;
  t_logs_on_write : bool     (* `if write { writeAOF }` follows the command call *)
}.

Record handler := mkH { h_cmd : string; h_fn : string; h_details : bool }.

Record mut := mkMut { m_struct : string; m_ctx : ctx; m_site : string }.

Inductive gate_step := GEarlyReply | GLoading | GHello | GTimeoutRewrite | GAuth | GLockSwitch | GCommand | GWriteAOF.

Definition gate_step_eqb (a b : gate_step) : bool :=
  match a, b with
  | GEarlyReply, GEarlyReply | GLoading, GLoading | GHello, GHello | GTimeoutRewrite, GTimeoutRewrite
  | GAuth, GAuth | GLockSwitch, GLockSwitch | GCommand, GCommand | GWriteAOF, GWriteAOF => true
  | _, _ => false
  end.

Definition in_strs (s : string) (l : list string) : bool := existsb (String.eqb s) l.

Fixpoint find_arm (arms : list arm) (c : string) : option arm :=
  match arms with
  | [] => None
  | a :: rest => if in_strs c (a_cmds a) then Some a else find_arm rest c
  end.

(* the arm a command falls into (the default arm when no case lists it) *)
Definition arm_of (t : table) (c : string) : arm :=
  match find_arm (t_arms t) c with Some a => a | None => t_default t end.

Fixpoint find_handler (hs : list handler) (c : string) : option handler :=
  match hs with
  | [] => None
  | h :: rest => if String.eqb (h_cmd h) c then Some h else find_handler rest c
  end.

Fixpoint assoc {A} (l : list (string * A)) (k : string) : option A :=
  match l with
  | [] => None
  | (k', v) :: rest => if String.eqb k' k then Some v else assoc rest k
  end.

Definition ctx_of_lock (l : lockk) : ctx := match l with LExcl => CExcl | LShared => CShared | LNone => CNone end.

(* the stronger of two lock contexts *)
Definition ctx_max (a b : ctx) : ctx :=
  match a, b with
  | CExcl, _ | _, CExcl => CExcl
  | CShared, _ | _, CShared => CShared
  | _, _ => CNone
  end.

Definition is_excl (c : ctx) : bool := match c with CExcl => true | _ => false end.

Fixpoint index_of (g : gate_step) (l : list gate_step) : option nat :=
  match l with
  | [] => None
  | x :: r => if gate_step_eqb x g then Some 0 else option_map S (index_of g r)
  end.

Definition before (a b : gate_step) (l : list gate_step) : bool :=
  match index_of a l, index_of b l with
  | Some i, Some j => Nat.ltb i j
  | _, _ => false
  end.
