(* Executable model of the command framing used by tile38:
     enc        = redcon.AppendArray + AppendBulkString per argument (what writeAOF appends)
     read_next  = redcon.ReadNextCommand (resp.go, redcon v1.6.2) with its three sub-parsers
                  (RESP "*", tile38-native "$", telnet) and parseInt (redcon.go).
   Go `int` is 64 bit: arithmetic on data-dependent values (the parsed lengths) wraps (wrap64);
   plain position increments below len(packet) do not wrap (a Go slice is shorter than 2^63).
   Every data-dependent index / slice expression is checked; a Go run-time panic is the outcome
   Panic.  No proofs here. *)
From T38 Require Import Base.Bytes.
Local Open Scope Z_scope.

(* ---------- Go ints and slices ---------- *)
Definition wrap (z : Z) : Z := (z + 9223372036854775808) mod 18446744073709551616 - 9223372036854775808.
Fixpoint len_acc (p : bytes) (acc : Z) : Z :=
  match p with [] => acc | _ :: p' => len_acc p' (acc + 1) end.
Definition len (p : bytes) : Z := len_acc p 0.

(* Z-indexed list access: cost proportional to the index, never to a huge out-of-range value *)
Fixpoint nthZ (p : bytes) (i : Z) : option N :=
  match p with [] => None | x :: p' => if i =? 0 then Some x else nthZ p' (i - 1) end.
Fixpoint dropZ (p : bytes) (i : Z) : option bytes :=
  match p with
  | [] => if i =? 0 then Some [] else None
  | _ :: p' => if i =? 0 then Some p else dropZ p' (i - 1)
  end.
Fixpoint takeZ (p : bytes) (k : Z) : option bytes :=
  if k =? 0 then Some [] else
  match p with
  | [] => None
  | x :: p' => match takeZ p' (k - 1) with Some r => Some (x :: r) | None => None end
  end.

(* p[i] : None = index out of range (panic) *)
Definition getb (p : bytes) (i : Z) : option N := if i <? 0 then None else nthZ p i.
(* p[i:] : None = slice bounds out of range (panic) *)
Definition slice_from (p : bytes) (i : Z) : option bytes := if i <? 0 then None else dropZ p i.
(* p[a:b] : None = slice bounds out of range (panic).  The upper bound is checked against len, not
   cap: every use below is preceded by an index check on a larger index. *)
Definition slice (p : bytes) (a b : Z) : option bytes :=
  if (a <? 0) || (b <? a) then None else
  match dropZ p a with None => None | Some s => takeZ s (b - a) end.

(* first index >= i holding byte c, scanning the suffix s = p[i:] *)
Fixpoint index_from (c : N) (s : bytes) (i : Z) : option Z :=
  match s with
  | [] => None
  | x :: s' => if (x =? c)%N then Some i else index_from c s' (i + 1)
  end.
(* for ; i < len(p); i++ { if p[i] == c ... *)
Definition find_byte (c : N) (p : bytes) (i : Z) : option Z :=
  match slice_from p i with None => None | Some s => index_from c s i end.

(* ---------- parseInt (redcon.go) ---------- *)
Definition is_digit (c : N) : bool := ((48 <=? c) && (c <=? 57))%N.
Fixpoint parse_digits (b : bytes) (n : Z) : option Z :=
  match b with
  | [] => Some n
  | c :: b' => if is_digit c then parse_digits b' (wrap (n * 10 + Z.of_N (c - 48))) else None
  end.
Definition parse_int_slow (b : bytes) : option Z :=
  match b with
  | 45%N :: b' => match parse_digits b' 0 with Some n => Some (wrap (n * -1)) | None => None end
  | _ => parse_digits b 0
  end.
Definition parse_int (b : bytes) : option Z :=
  match b with
  | [c] => if is_digit c then Some (Z.of_N (c - 48)) else parse_int_slow b
  | _ => parse_int_slow b
  end.

(* ---------- encoder ---------- *)
Fixpoint dec_aux (fuel : nat) (n : N) (acc : bytes) : bytes :=
  match fuel with
  | O => acc
  | S f => let acc' := (48 + n mod 10)%N :: acc in
           if (n / 10 =? 0)%N then acc' else dec_aux f (n / 10)%N acc'
  end.
(* strconv.AppendInt for n >= 0 (appendPrefix's one-digit fast path writes the same bytes) *)
Definition dec (n : N) : bytes := dec_aux (S (N.to_nat (N.size n))) n [].

Definition CR : N := 13%N.
Definition LF : N := 10%N.
Definition bulk (a : bytes) : bytes := 36%N :: dec (N.of_nat (length a)) ++ [CR; LF] ++ a ++ [CR; LF].
Definition bulks (args : list bytes) : bytes := flat_map bulk args.
Definition enc (args : list bytes) : bytes := 42%N :: dec (N.of_nat (length args)) ++ [CR; LF] ++ bulks args.
Definition encs (cmds : list (list bytes)) : bytes := flat_map enc cmds.

(* ---------- results ---------- *)
Inductive kind := Redis | Tile38 | Telnet.
Inductive perr :=
| EMultiBulk            (* "invalid multibulk length" *)
| EBulk                 (* "invalid bulk length" *)
| EExpected (c : N)     (* "expected '$', got 'c'" *)
| EMessage              (* "invalid message" *)
| EQuotes.              (* "unbalanced quotes in request" *)
Inductive result :=
| Complete (args : list bytes) (k : kind) (rest : bytes)
| Incomplete
| Err (e : perr)
| Panic
| Fuel.

(* ---------- "<digits>\r\n" headers of the RESP path ----------
   for ; i < len(packet); i++ { if packet[i] == '\n' { if packet[i-1] != '\r' -> error;
        n, ok := parseInt(packet[s:i-1]); if !ok -> error ... *)
Inductive lenres := LNone | LBad | LPanic | LOk (n : Z) (i : Z).
Definition read_len (p : bytes) (from s : Z) : lenres :=
  match find_byte LF p from with
  | None => LNone
  | Some i =>
      match getb p (i - 1) with
      | None => LPanic
      | Some c =>
          if negb (c =? CR)%N then LBad else
          match slice p s (i - 1) with
          | None => LPanic
          | Some ds => match parse_int ds with None => LBad | Some n => LOk n i end
          end
      end
  end.

(* nextArg: for j := 0; j < count; j++ { ... }   (args accumulated in reverse; lp = len(packet)) *)
Fixpoint resp_args (fuel : nat) (p : bytes) (lp : Z) (count j i : Z) (racc : list bytes) : result :=
  match fuel with
  | O => Fuel
  | S fuel' =>
      if i =? lp then Incomplete else
      match getb p i with
      | None => Panic
      | Some c =>
          if negb (c =? 36)%N then Err (EExpected c) else
          match read_len p i (i + 1) with
          | LNone => Incomplete
          | LBad => Err EBulk
          | LPanic => Panic
          | LOk n i2 =>
              if count <=? 0 then Err EBulk else
              let i3 := i2 + 1 in
              if wrap (n + 2) <=? lp - i3 then
                match getb p (wrap (i3 + n)) with
                | None => Panic
                | Some a =>
                    if negb (a =? CR)%N then Err EBulk else
                    match getb p (wrap (wrap (i3 + n) + 1)) with
                    | None => Panic
                    | Some b =>
                        if negb (b =? LF)%N then Err EBulk else
                        match slice p i3 (wrap (i3 + n)) with
                        | None => Panic
                        | Some arg =>
                            let i4 := wrap (i3 + wrap (n + 2)) in
                            if j =? count - 1 then
                              match slice_from p i4 with
                              | None => Panic
                              | Some rest => Complete (rev (arg :: racc)) Redis rest
                              end
                            else resp_args fuel' p lp count (j + 1) i4 (arg :: racc)
                        end
                    end
                end
              else Incomplete
          end
      end
  end.

Definition read_resp (p : bytes) : result :=
  match read_len p 1 1 with
  | LNone => Incomplete
  | LBad => Err EMultiBulk
  | LPanic => Panic
  | LOk count i =>
      if count <? 0 then Err EMultiBulk else
      let i := i + 1 in
      if count =? 0 then
        match slice_from p i with None => Panic | Some rest => Complete [] Redis rest end
      else resp_args (S (length p)) p (len p) count 0 i []
  end.

(* ---------- tile38 native "$<len> <line>\r\n" ---------- *)
Definition lower_byte (c : N) : N := if ((65 <=? c) && (c <=? 90))%N then (c + 32)%N else c.
(* strings.ToLower restricted to what can equal an ASCII word: ASCII letters, U+0130 -> i, U+212A -> k *)
Fixpoint to_lower (b : bytes) : bytes :=
  match b with
  | 196%N :: 176%N :: r => 105%N :: to_lower r
  | 226%N :: 132%N :: 170%N :: r => 107%N :: to_lower r
  | c :: r => lower_byte c :: to_lower r
  | [] => []
  end.
Definition w_set : bytes := [115; 101; 116]%N.
Definition w_string : bytes := [115; 116; 114; 105; 110; 103]%N.

(* token before the first space and the rest after it (None: no space) *)
Fixpoint split_sp (l : bytes) (racc : bytes) : bytes * option bytes :=
  match l with
  | [] => (rev racc, None)
  | c :: l' => if (c =? 32)%N then (rev racc, Some l') else split_sp l' (c :: racc)
  end.

Inductive tokres := TOk (args : list bytes) | TPanic | TFuel.
Definition first_arg (racc : list bytes) : bytes := last racc [].
Fixpoint native_tok (fuel : nat) (line : bytes) (racc : list bytes) : tokres :=
  match fuel with
  | O => TFuel
  | S fuel' =>
      match line with
      | [] => TOk (rev racc)
      | c0 :: _ =>
          if (c0 =? 123)%N then TOk (rev (line :: racc)) else
          let quoted :=
            (c0 =? 34)%N && (last line 0 =? 34)%N &&
            match racc with
            | [] => false
            | lastarg :: _ => bytes_eqb (to_lower (first_arg racc)) w_set && bytes_eqb (to_lower lastarg) w_string
            end in
          if quoted then
            match slice line 1 (len line - 1) with
            | None => TPanic
            | Some v => TOk (rev (v :: racc))
            end
          else
            match split_sp line [] with
            | (_, None) => TOk (rev (line :: racc))
            | (tok, Some rest) =>
                native_tok fuel' rest (match tok with [] => racc | _ => tok :: racc end)
            end
      end
  end.

Definition read_native (p : bytes) : result :=
  match find_byte 32 p 1 with
  | None => Incomplete
  | Some i =>
      match slice p 1 i with
      | None => Panic
      | Some ds =>
          match parse_int ds with
          | None => Err EMessage
          | Some n =>
              if n <? 0 then Err EMessage else
              let i := i + 1 in
              if wrap (wrap (i + n) + 2) <=? len p then
                match getb p (wrap (i + n)) with
                | None => Panic
                | Some a =>
                    if negb (a =? CR)%N then Err EMessage else
                    match getb p (wrap (wrap (i + n) + 1)) with
                    | None => Panic
                    | Some b =>
                        if negb (b =? LF)%N then Err EMessage else
                        match slice p i (wrap (i + n)) with
                        | None => Panic
                        | Some line =>
                            match native_tok (S (length line)) line [] with
                            | TPanic => Panic
                            | TFuel => Fuel
                            | TOk args =>
                                match slice_from p (wrap (wrap (i + n) + 2)) with
                                | None => Panic
                                | Some rest => Complete args Tile38 rest
                                end
                            end
                        end
                    end
                end
              else Incomplete
          end
      end
  end.

(* ---------- telnet ---------- *)
Definition nonemptyb {A} (l : list A) : bool := match l with [] => false | _ => true end.
Definition unescape (c : N) : N :=
  if (c =? 110)%N then 10%N else if (c =? 114)%N then 13%N else if (c =? 116)%N then 9%N else c.

(* one pass over the line; `continue outer` = restart with lstart := remaining line, i0 := true.
   nline is accumulated in reverse.  None = errUnbalancedQuotes. *)
Fixpoint tel_scan (l lstart : bytes) (i0 quote : bool) (qch : N) (esc : bool)
         (rnline : bytes) (racc : list bytes) : option (list bytes) :=
  match l with
  | [] =>
      if quote then None
      else Some (rev (if nonemptyb lstart then lstart :: racc else racc))
  | c :: l' =>
      if negb quote then
        if (c =? 32)%N then
          tel_scan l' l' true false qch esc [] (if nonemptyb rnline then rev rnline :: racc else racc)
        else if ((c =? 34) || (c =? 39))%N then
          if negb i0 then None else tel_scan l' l' true true c esc [] racc
        else tel_scan l' lstart false quote qch esc (c :: rnline) racc
      else
        if esc then tel_scan l' lstart false quote qch false (unescape c :: rnline) racc
        else if (c =? qch)%N then
          match l' with
          | x :: _ => if negb (x =? 32)%N then None
                      else tel_scan l' l' true false 0%N false [] (rev rnline :: racc)
          | [] => tel_scan l' l' true false 0%N false [] (rev rnline :: racc)
          end
        else if (c =? 92)%N then tel_scan l' lstart false quote qch true rnline racc
        else tel_scan l' lstart false quote qch false (c :: rnline) racc
  end.

Definition read_telnet (p : bytes) : result :=
  match find_byte LF p 0 with
  | None => Incomplete
  | Some i =>
      let cr := match getb p (i - 1) with Some c => (0 <? i) && (c =? CR)%N | None => false end in
      match slice p 0 (if cr then i - 1 else i) with
      | None => Panic
      | Some line =>
          match tel_scan line line true false 0%N false [] [] with
          | None => Err EQuotes
          | Some args =>
              match slice_from p (i + 1) with
              | None => Panic
              | Some rest => Complete args Telnet rest
              end
          end
      end
  end.

(* ---------- ReadNextCommand ---------- *)
Definition read_next (p : bytes) : result :=
  match p with
  | [] => Incomplete
  | c :: _ =>
      if (c =? 42)%N then read_resp p
      else if (c =? 36)%N then read_native p
      else read_telnet p
  end.
