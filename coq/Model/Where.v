(* Executable model of the WHERE / WHEREIN field filters:
     internal/field/field.go   Value, stringLessInsensitive, LessCase, Less, Equals, ZeroValue
     internal/server/token.go  mLT/mLTE/mGT/mGTE/mEQ, whereT.matchField, whereinT.match,
                               the bound handling of "case where" in parseSearchScanBaseTokens
     internal/server/scanner.go getFieldValue (plain field names) and scanWriter.fieldMatch
   No proofs here.

   Numbers: a float64 is NaN, -Inf, +Inf or finite; the finite ones are carried as an integer
   number of thousandths (the harness only sends decimals with at most three fractional digits,
   on which float64 comparison and comparison of the thousandths agree).
   field.ValueOf (the classification of a token into a kind) is not modelled: values arrive
   classified. *)
From T38 Require Import Base.Bytes.
Open Scope N_scope.

(* gjson.Type order: Null < False < Number < String < True < JSON *)
Inductive kind := KNull | KFalse | KNumber | KString | KTrue | KJSON.

Definition kind_code (k : kind) : N :=
  match k with KNull => 0 | KFalse => 1 | KNumber => 2 | KString => 3 | KTrue => 4 | KJSON => 5 end.

Inductive num := NaN | NegInf | Fin (thousandths : Z) | PosInf.

(* float64 a < b *)
Definition num_ltb (a b : num) : bool :=
  match a, b with
  | NaN, _ => false
  | _, NaN => false
  | NegInf, NegInf => false
  | NegInf, _ => true
  | _, NegInf => false
  | PosInf, _ => false
  | Fin _, PosInf => true
  | Fin x, Fin y => Z.ltb x y
  end.

Record value := { v_kind : kind; v_data : bytes; v_num : num }.

(* field.ZeroValue = Value{kind: Number, data: "0", num: 0}: what a missing field reads as *)
Definition ZeroValue : value := {| v_kind := KNumber; v_data := [48]; v_num := Fin 0 |}.

Definition is_upper (c : N) : bool := (65 <=? c) && (c <=? 90).   (* 'A' <= c && c <= 'Z' *)

(* stringLessInsensitive: the loop over i < len(a) && i < len(b), then len(a) < len(b) *)
Fixpoint str_less_ci (a b : bytes) : bool :=
  match a, b with
  | x :: a', y :: b' =>
      if is_upper x then
        if is_upper y then
          (* both are uppercase *)
          if x <? y then true else if y <? x then false else str_less_ci a' b'
        else
          (* a is uppercase, convert a to lowercase *)
          if x + 32 <? y then true else if y <? x + 32 then false else str_less_ci a' b'
      else if is_upper y then
        (* b is uppercase, convert b to lowercase *)
        if x <? y + 32 then true else if y + 32 <? x then false else str_less_ci a' b'
      else
        (* neither are uppercase *)
        if x <? y then true else if y <? x then false else str_less_ci a' b'
  | _, _ => Nat.ltb (length a) (length b)
  end.

Definition is_number (k : kind) : bool := match k with KNumber => true | _ => false end.
Definition is_string (k : kind) : bool := match k with KString => true | _ => false end.

(* Value.LessCase *)
Definition value_less_case (v b : value) (caseSensitive : bool) : bool :=
  if kind_code (v_kind v) <? kind_code (v_kind b) then true
  else if kind_code (v_kind b) <? kind_code (v_kind v) then false
  else if is_number (v_kind v) then num_ltb (v_num v) (v_num b)
  else if is_string (v_kind v) then
    (if caseSensitive then bytes_ltb (v_data v) (v_data b) else str_less_ci (v_data v) (v_data b))
  else bytes_ltb (v_data v) (v_data b).

(* Value.Less, Value.Equals *)
Definition value_less (v b : value) : bool := value_less_case v b false.
Definition value_equals (v b : value) : bool := negb (value_less v b) && negb (value_less b v).

(* token.go *)
Definition mLT (a b : value) : bool := value_less a b.
Definition mLTE (a b : value) : bool := negb (mLT b a).
Definition mGT (a b : value) : bool := mLT b a.
Definition mGTE (a b : value) : bool := negb (mLT a b).
Definition mEQ (a b : value) : bool := value_equals a b.

Record whereT := { w_minx : bool; w_min : value; w_maxx : bool; w_max : value }.

Definition OP_LT : bytes := [60].        (* "<"  *)
Definition OP_LE : bytes := [60; 61].    (* "<=" *)
Definition OP_GT : bytes := [62].        (* ">"  *)
Definition OP_GE : bytes := [62; 61].    (* ">=" *)
Definition OP_EQ : bytes := [61; 61].    (* "==" *)
Definition OP_NE : bytes := [33; 61].    (* "!=" *)

(* whereT.matchField: switch where.min.Data() first, then the min/max ladder *)
Definition match_field (w : whereT) (v : value) : bool :=
  let d := v_data (w_min w) in
  if bytes_eqb d OP_LT then mLT v (w_max w)
  else if bytes_eqb d OP_LE then mLTE v (w_max w)
  else if bytes_eqb d OP_GT then mGT v (w_max w)
  else if bytes_eqb d OP_GE then mGTE v (w_max w)
  else if bytes_eqb d OP_EQ then mEQ v (w_max w)
  else if bytes_eqb d OP_NE then negb (mEQ v (w_max w))
  else
    if (if negb (w_minx w) then mLT v (w_min w) else mLTE v (w_min w)) then false
    else if (if negb (w_maxx w) then mGT v (w_max w) else mGTE v (w_max w)) then false
    else true.

(* whereinT.match *)
Fixpoint wherein_match (vals : list value) (v : value) : bool :=
  match vals with
  | [] => false
  | val :: rest => if mEQ val v then true else wherein_match rest v
  end.

(* "case where" of parseSearchScanBaseTokens lower-cases the two bound tokens before
   field.ValueOf sees them (strings.ToLower); on classified values this is ToLower on the data of
   the String and JSON kinds (the data of the other kinds is lower-case already, a Number
   compares by num).  WHEREIN does not lower-case its values. *)
Definition to_lower (c : N) : N := if is_upper c then c + 32 else c.
Definition lower_value (v : value) : value :=
  {| v_kind := v_kind v; v_data := map to_lower (v_data v); v_num := v_num v |}.
Definition where_make (minx : bool) (vmin : value) (maxx : bool) (vmax : value) : whereT :=
  {| w_minx := minx; w_min := lower_value vmin; w_maxx := maxx; w_max := lower_value vmax |}.

(* the field list of an object as an association list; Get of an absent name = ZeroField *)
Definition fields := list (bytes * value).
Fixpoint get_field (fs : fields) (name : bytes) : value :=
  match fs with
  | [] => ZeroValue
  | (n, v) :: rest => if bytes_eqb n name then v else get_field rest name
  end.

(* scanWriter.fieldMatch, the wheres loop then the whereins loop *)
Fixpoint wheres_match (ws : list (bytes * whereT)) (fs : fields) : bool :=
  match ws with
  | [] => true
  | (name, w) :: rest => if negb (match_field w (get_field fs name)) then false else wheres_match rest fs
  end.
Fixpoint whereins_match (ws : list (bytes * list value)) (fs : fields) : bool :=
  match ws with
  | [] => true
  | (name, vals) :: rest => if negb (wherein_match vals (get_field fs name)) then false else whereins_match rest fs
  end.
Definition field_match (ws : list (bytes * whereT)) (wis : list (bytes * list value)) (fs : fields) : bool :=
  if negb (wheres_match ws fs) then false else whereins_match wis fs.

(* a filtered SCAN over the objects in id order (DESC iterates the same list backwards):
   the ids written, and what COUNT reports *)
Definition scan_ids (desc : bool) (objs : list (bytes * fields))
    (ws : list (bytes * whereT)) (wis : list (bytes * list value)) : list bytes :=
  map fst (filter (fun o => field_match ws wis (snd o)) (if desc then rev objs else objs)).
Definition scan_count (desc : bool) (objs : list (bytes * fields))
    (ws : list (bytes * whereT)) (wis : list (bytes * list value)) : nat :=
  length (filter (fun o => field_match ws wis (snd o)) (if desc then rev objs else objs)).
