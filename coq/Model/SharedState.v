(* C07 — "no two commands mutate shared structures at the same time", for ALL shared server state.

   Model/Gate.v judges the mutations of a fixed list of Server fields (the structures the server
   lock guards). This file judges every write to a field of every struct type the Server holds a
   single instance of (Gen.Mutators.singleton_types: Server, Config, exprPool, lStatePool,
   lScriptMap, pubsub, pubQueue, Options), as t38x's generalised lockset analysis records them in
   Gen.Mutators.shared_writes: (Type.field, server-lock context, own guard, site) per entry point.

   The rule: a write that can run while another thread is inside the server (server lock held
   shared, or not held) must be self-guarded: under a mutex of the shared state itself (own lock),
   or through a sync/atomic value. What a call hands out (sync.Pool.Get, a constructor) is private
   to the caller and is not a write to shared state; t38x does not record it.
   No proofs here. *)
From Coq Require Import String List Bool.
From T38 Require Import Model.Tables Gen.LockTable Gen.Dispatch Gen.ScriptTables Gen.Mutators Model.Gate.
Import ListNotations.
Open Scope string_scope.

Definition swrite := (string * ctx * string * string)%type.
Definition sw_field (w : swrite) : string := match w with (f, _, _, _) => f end.
Definition sw_ctx (w : swrite) : ctx := match w with (_, c, _, _) => c end.
Definition sw_guard (w : swrite) : string := match w with (_, _, g, _) => g end.
Definition sw_site (w : swrite) : string := match w with (_, _, _, s) => s end.

Definition fn_shared (fn : string) : list swrite :=
  match assoc shared_writes fn with Some l => l | None => [] end.

Definition handler_shared (hs : list handler) (c : string) : list swrite :=
  match find_handler hs c with Some h => fn_shared (h_fn h) | None => [] end.

(* Fields that may be written without the exclusive server lock and without a guard of their own.
   Each entry needs a reason why no two threads can be at the write at the same time; the reasons
   are in docs/notes/C07.md ("shared-state allow-list"). The unchanged tree needs none. *)
Definition shared_allow : list string := [].

Definition sw_self_guarded (w : swrite) : bool := negb (String.eqb (sw_guard w) "").

(* outer = the server lock the caller already holds around the entry point *)
Definition sw_ok (outer : ctx) (w : swrite) : bool :=
  is_excl (ctx_max outer (sw_ctx w)) || sw_self_guarded w || in_strs (sw_field w) shared_allow.

(* every command: the writes of its handler (and of writeAOF when its arm logs) under the arm's lock *)
Definition cmd_shared_sound (c : string) : bool :=
  let a := arm_of lock_table c in
  forallb (sw_ok (ctx_of_lock (a_lock a)))
          (handler_shared dispatch c ++ (if a_write a then fn_shared "writeAOF" else []))%list.

(* a goroutine root holds nothing when it starts *)
Definition entry_shared_sound (fn : string) : bool := forallb (sw_ok CNone) (fn_shared fn).

(* a script sub-command: the lock of the outer command (EVAL: exclusive, EVALRO: shared, EVALNA: none)
   joined with the lock the script table's arm takes for the call *)
Definition script_cmd_shared_sound (t : table) (outer_lock : lockk) (c : string) : bool :=
  let a := arm_of t c in
  match a_reject a with
  | RNo =>
      forallb (sw_ok (ctx_max (ctx_of_lock outer_lock) (ctx_of_lock (a_lock a))))
              (handler_shared dispatch_script c ++ (if a_write a then fn_shared "writeAOF" else []))%list
  | _ => true
  end.

(* what the script machinery itself does around the sub-commands *)
Definition script_entry_shared_sound (outer_lock : lockk) (fn : string) : bool :=
  forallb (sw_ok (ctx_of_lock outer_lock)) (fn_shared fn).

(* one field, one guard: the self-guarded writes of a field that happen outside the exclusive
   server lock all name the same guard (two different mutexes do not exclude each other) *)
Definition all_shared_writes : list swrite := flat_map snd shared_writes.

Definition guard_consistent (w1 w2 : swrite) : bool :=
  negb (String.eqb (sw_field w1) (sw_field w2)) ||
  is_excl (sw_ctx w1) || is_excl (sw_ctx w2) ||
  negb (sw_self_guarded w1) || negb (sw_self_guarded w2) ||
  String.eqb (sw_guard w1) (sw_guard w2).

(* ---- lock regions ---- *)
Definition fn_regions (fn : string) : list ctx :=
  match assoc lock_regions fn with Some l => l | None => [] end.

(* a goroutine that can change the dataset reads stored objects (collection scans, the expiry order)
   only inside an exclusive section: it never decides under the shared lock what it applies later *)
Definition decides_under_excl (fn : string) : bool :=
  negb (touches dataset_structs (fn_effects fn)) ||
  forallb (fun m => negb (String.eqb (m_struct m) read_struct) || is_excl (m_ctx m)) (fn_effects fn).
