(* A concrete instance of the parameters of Model/Script.v: string objects in collections, and the
   handlers the C18 harness drives through scripts and plain commands on the same keys
   (SET key id STRING v / GET / DEL / PDEL / DROP / RENAME / RENAMENX / EXISTS), transcribed from
   /repo/internal/server/crud.go (RESP output, which is what a script call gets):

     cmdSET     col created when missing; d.updated = true; +OK
     cmdGET     nil when key or id is missing (RESP mode), else the string
     cmdDEL     :1 / :0; d.updated = found; the collection is removed when it becomes empty
     cmdPDEL    the ids matching the glob are deleted; :n; d.updated = n > 0; same removal
     cmdDROP    :1 / :0; d.updated = found
     cmdRENAME  `key not found` error; newkey replaced (RENAME) or left alone (RENAMENX, :0, not updated);
                RENAME key key re-installs the collection and counts as updated
     cmdEXISTS  `key not found` error when the collection is missing, else :1 / :0

   It serves two purposes: the hypotheses of the theorems of Proofs/ScriptProofs.v are satisfiable
   (Proofs/ScriptKsProofs.v), and the extracted driver (ocaml/script) runs Model/Script.v's step
   function on real programs and schedules for the correspondence harness. Argument shapes outside
   this subset answer `unmodelled` (never sent by the harness). The full keyspace model is
   Model/Keyspace.v (C01). No proofs here. *)
From Coq Require Import String Ascii List Bool.
From T38 Require Import Base.Bytes Base.SMap Model.Glob Model.Tables Model.Gate Model.Replay Model.Script.
Import ListNotations.
Open Scope N_scope.

Definition kstate := smap (smap bytes).

Inductive kval := VOk | VInt (n : Z) | VBulk (b : bytes) | VNil | VArr (l : list kval).

Inductive kerr := EKeyNotFound | ENArgs | EUnmodelled | ELua (msg : bytes).

(* strings.ToLower on ASCII *)
Definition lowerb (s : bytes) : bytes := map (fun c => if (65 <=? c) && (c <=? 90) then c + 32 else c) s.

Definition string_of_bytes (b : bytes) : string :=
  fold_right (fun n s => String (ascii_of_N n) s) EmptyString b.

Definition bytes_of_string (s : string) : bytes := map N_of_ascii (list_ascii_of_string s).

(* msg.Command() *)
Definition kcname (c : cmd) : string :=
  match c with
  | [] => EmptyString
  | w :: _ => string_of_bytes (lowerb w)
  end.

Definition kw_string : bytes := Eval compute in bytes_of_string "string".
Definition kw_renamenx : bytes := Eval compute in bytes_of_string "renamenx".

(* s.cols.Delete(key) when the collection became empty *)
Definition store_col (s : kstate) (key : bytes) (c : smap bytes) : kstate :=
  match c with [] => del key s | _ => set key c s end.

Definition h_set (s : kstate) (c : cmd) : kstate * (kval + kerr) * bool :=
  match c with
  | [_; key; id; kind; v] =>
      if bytes_eqb (lowerb kind) kw_string then
        let col := match get key s with Some col => col | None => [] end in
        (set key (set id v col) s, inl VOk, true)
      else (s, inr EUnmodelled, false)
  | _ => (s, inr EUnmodelled, false)
  end.

Definition h_get (s : kstate) (c : cmd) : kstate * (kval + kerr) * bool :=
  match c with
  | [_; key; id] =>
      match get key s with
      | None => (s, inl VNil, false)
      | Some col => match get id col with None => (s, inl VNil, false) | Some v => (s, inl (VBulk v), false) end
      end
  | [_] | [_; _] => (s, inr ENArgs, false)
  | _ => (s, inr EUnmodelled, false)
  end.

Definition h_del (s : kstate) (c : cmd) : kstate * (kval + kerr) * bool :=
  match c with
  | [_; key; id] =>
      match get key s with
      | None => (s, inl (VInt 0), false)
      | Some col =>
          match get id col with
          | None => (s, inl (VInt 0), false)
          | Some _ => (store_col s key (del id col), inl (VInt 1), true)
          end
      end
  | [_] | [_; _] => (s, inr ENArgs, false)
  | _ => (s, inr EUnmodelled, false)
  end.

Definition matchesb (p name : bytes) : bool := match glob_match p name with WTrue => true | _ => false end.

Definition h_pdel (s : kstate) (c : cmd) : kstate * (kval + kerr) * bool :=
  match c with
  | [_; key; pat] =>
      match get key s with
      | None => (s, inl (VInt 0), false)
      | Some col =>
          let ids := map fst (filter (fun io => matchesb pat (fst io)) col) in
          match ids with
          | [] => (s, inl (VInt 0), false)
          | _ => (store_col s key (fold_left (fun c id => del id c) ids col), inl (VInt (Z.of_nat (length ids))), true)
          end
      end
  | _ => (s, inr ENArgs, false)
  end.

Definition h_drop (s : kstate) (c : cmd) : kstate * (kval + kerr) * bool :=
  match c with
  | [_; key] =>
      match get key s with
      | None => (s, inl (VInt 0), false)
      | Some _ => (del key s, inl (VInt 1), true)
      end
  | _ => (s, inr ENArgs, false)
  end.

Definition h_rename (s : kstate) (c : cmd) : kstate * (kval + kerr) * bool :=
  match c with
  | [w; key; newkey] =>
      let nx := bytes_eqb (lowerb w) kw_renamenx in
      match get key s with
      | None => (s, inr EKeyNotFound, false)
      | Some col =>
          match get newkey s with
          | None => (set newkey col (del key s), inl (if nx then VInt 1 else VOk), true)
          | Some _ =>
              if nx then (s, inl (VInt 0), false)
              else (set newkey col (del key (del newkey s)), inl VOk, true)
          end
      end
  | _ => (s, inr ENArgs, false)
  end.

Definition h_exists (s : kstate) (c : cmd) : kstate * (kval + kerr) * bool :=
  match c with
  | [_; key; id] =>
      match get key s with
      | None => (s, inr EKeyNotFound, false)
      | Some col => (s, inl (VInt (match get id col with Some _ => 1 | None => 0 end)), false)
      end
  | _ => (s, inr ENArgs, false)
  end.

Open Scope string_scope.

(* the Go handler named fn *)
Definition khandler (fn : string) (s : kstate) (c : cmd) : kstate * (kval + kerr) * bool :=
  if String.eqb fn "cmdSET" then h_set s c
  else if String.eqb fn "cmdGET" then h_get s c
  else if String.eqb fn "cmdDEL" then h_del s c
  else if String.eqb fn "cmdPDEL" then h_pdel s c
  else if String.eqb fn "cmdDROP" then h_drop s c
  else if String.eqb fn "cmdRENAME" then h_rename s c
  else if String.eqb fn "cmdEXISTS" then h_exists s c
  else (s, inr EUnmodelled, false).

(* a leader that is not read-only *)
Definition leader : env := mkEnv false false true false false.

Definition kplan := @plan kstate kval kerr kcname khandler leader.
Definition kstep := @sstep kstate kval kerr kcname khandler leader.
Definition krun := @srun kstate kval kerr kcname khandler leader.
Definition kinit := @sinit kstate kval kerr.
Definition kreplay := @replay_log kstate kval kerr kcname khandler.
