(* C06 — follower resync: executable model of internal/server/checksum.go (followCheckSome,
   matchChecksums/checksum, getEndOfLastValuePositionInFile) and follow.go (followStep,
   followHandleCommand, the caught-up rule), plus the leader-side events that matter to a follower
   (append, AOFSHRINK closing the replication connections) — definitions only, no proofs.

   A log file is a list of records (a record = one RESP-encoded command, as bytes); byte positions
   are sums of record lengths.  MD5 and the command semantics are Section variables.

   [mode]: [Repaired] is the working tree: commit "follow-start-over" (= [Fixed1]: a resync from
   position 0 recreates the file AND clears dataset, hooks and aofsz; "fully intact" requires the
   matching part to be the whole file) plus proposed_fixes/C06-check-whole-prefix.diff (before any
   part of the own log is kept, ONE more checksum compares all of it up to the resume position) and
   proposed_fixes/C06-caught-up-by-stream-position.diff (caught up = the stream has been consumed up
   to the leader's aof_size, not "the own log has that size");
   [Pinned] is the code as found (small log: nothing is touched; first block differs: only the
   file is recreated; a matching part ending on a record boundary is "fully intact"). *)
From Coq Require Import List ZArith Bool.
From T38 Require Import Base.Bytes.
Import ListNotations.
Open Scope Z_scope.

Definition record := bytes.
Definition file := list record.

(* ---- byte-level helpers; tail recursive with Z counters so that the extracted code runs on
        megabyte files ---- *)
Fixpoint zlen_acc (l : bytes) (acc : Z) : Z :=
  match l with [] => acc | _ :: t => zlen_acc t (acc + 1) end.
Definition blen (b : bytes) : Z := zlen_acc b 0.

Fixpoint flen_acc (f : file) (acc : Z) : Z :=
  match f with [] => acc | r :: t => flen_acc t (zlen_acc r acc) end.
Definition flen (f : file) : Z := flen_acc f 0.

Definition fbytes (f : file) : bytes := concat f.

Fixpoint zskip (l : bytes) (n : Z) : bytes :=
  match l with
  | [] => []
  | _ :: t => if n <=? 0 then l else zskip t (n - 1)
  end.

Fixpoint ztake_rev (l : bytes) (n : Z) (acc : bytes) : bytes :=
  match l with
  | [] => acc
  | x :: t => if n <=? 0 then acc else ztake_rev t (n - 1) (x :: acc)
  end.
Definition ztake (l : bytes) (n : Z) : bytes := rev' (ztake_rev l n []).

Inductive mode := Pinned | Fixed1 | Repaired.

Section Follow.
  Variable digest : Type.
  Variable md5 : bytes -> digest.
  Variable digest_eqb : digest -> digest -> bool.
  Variable csz : Z.                       (* checksumsz; Gen.Consts.c_checksumsz in the theorems *)

  (* checksum(pos,size) on a server whose aofsz is [claimed] and whose file holds [b]:
     pos+size > aofsz => EOF; a short file => EOF (io.ErrUnexpectedEOF is turned into EOF) *)
  Definition block (b : bytes) (claimed pos size : Z) : option bytes :=
    if claimed <? pos + size then None
    else if blen b <? pos + size then None
    else Some (ztake (zskip b pos) size).

  (* matchChecksums: EOF on either side is "no match", not an error *)
  Definition matchbs (fb : bytes) (faofsz : Z) (lb : bytes) (laofsz : Z) (pos size : Z) : bool :=
    match block fb faofsz pos size, block lb laofsz pos size with
    | Some a, Some b => digest_eqb (md5 a) (md5 b)
    | _, _ => false
    end.
  Definition matchb (fb : bytes) (faofsz : Z) (lb : bytes) (laofsz : Z) (pos : Z) : bool :=
    matchbs fb faofsz lb laofsz pos csz.

  (* the min/max/limit loop of followCheckSome after the first block matched; Go's int64 "/" is
     Z.quot; the probes are logged for the correspondence *)
  Fixpoint search_loop (fuel : nat) (m : Z -> bool) (min max limit : Z) (acc : list (Z * Z * bool))
    : option (Z * list (Z * Z * bool)) :=
    match fuel with
    | O => None
    | S k =>
        if (max <? min) || (limit <? max + csz) then Some (min, rev acc)
        else
          let ok := m max in
          let min' := if ok then max + csz else min in
          let limit' := if ok then limit else max in
          let max' := Z.quot (limit' - min') 2 - Z.quot csz 2 + min' in
          search_loop k m min' max' limit' ((max, csz, ok) :: acc)
    end.

  Definition search_fuel (aofsz : Z) : nat := S (S (Z.to_nat (Z.quot aofsz csz))).

  (* getEndOfLastValuePositionInFile(fname, pos) at record level: the last '*' that starts a
     parseable multibulk before pos is the start of the record that contains byte pos-1; the result
     is that record's end (which may lie beyond pos).  [n] counts the records kept.
     Trusted: no '*' inside a payload starts a parseable multibulk. *)
  Fixpoint last_value_end (recs : file) (off : Z) (n : nat) (pos : Z) : option (Z * nat) :=
    match recs with
    | [] => None
    | r :: t =>
        let e := off + blen r in
        if pos <=? e then (if off <? pos then Some (e, S n) else None)
        else last_value_end t e (S n) pos
    end.

  Inductive cs_result :=
  | CSStartOverSmall            (* aofsz < checksumsz *)
  | CSStartOver                 (* first block differs *)
  | CSIntact (pos : Z)          (* resume at pos, file untouched *)
  | CSTruncate (pos : Z) (keep : nat)   (* truncate to the first [keep] records = pos bytes, reset, reload *)
  | CSError                     (* followCheckSome returns an error; follow() retries after 1 s *)
  | CSFuel.

  Definition check_some (md : mode) (f : file) (faofsz : Z) (l : file) : cs_result * list (Z * Z * bool) :=
    if faofsz <? csz then (CSStartOverSmall, [])
    else
      let fb := fbytes f in
      let lb := fbytes l in
      let m := matchb fb faofsz lb (flen l) in
      if negb (m 0) then (CSStartOver, [(0, csz, false)])
      else
        match search_loop (search_fuel faofsz) m csz (faofsz - csz) faofsz [(0, csz, true)] with
        | None => (CSFuel, [])
        | Some (pos, probes) =>
            match last_value_end f 0 O pos with
            | None => (CSError, probes)
            | Some (p, keep) =>
                (* Repaired: matchChecksums(conn, 0, p) over everything that would be kept; a mismatch
                   (or EOF on the leader) starts over *)
                let whole := match md with
                             | Repaired => Some (matchbs fb faofsz lb (flen l) 0 p)
                             | _ => None
                             end in
                let probes' := match whole with Some w => probes ++ [(0, p, w)] | None => probes end in
                match whole with
                | Some false => (CSStartOver, probes')
                | _ =>
                    (* "aof fully intact": Pinned tests pos == fullpos only (a matching part that merely ENDS
                       on a record boundary is taken for the whole file); later modes also require pos == aofsz *)
                    if (p =? pos) && (match md with Pinned => true | _ => pos =? faofsz end)
                    then (CSIntact pos, probes') else (CSTruncate p keep, probes')
                end
            end
        end.

  (* ---- command semantics (opaque): state, empty state, apply one logged command giving the new
          state and commandDetails.updated ---- *)
  Variable st : Type.
  Variable st0 : st.
  Variable app : record -> st -> st * bool.

  Definition replay_from (s : st) (f : file) : st := fold_left (fun s r => fst (app r s)) f s.
  Definition replay (f : file) : st := replay_from st0 f.

  (* the suffix of the leader's log from byte position pos, if pos is a record boundary (liveAOF
     seeks to pos and copies; from a non-boundary the follower would read garbage) *)
  Fixpoint drop_bytes (l : file) (pos : Z) : option file :=
    if pos =? 0 then Some l
    else match l with
         | [] => None
         | r :: t => if blen r <=? pos then drop_bytes t (pos - blen r) else None
         end.

  Record session := { s_rest : file;       (* records of the stream not yet handled *)
                      s_aofsize : Z;       (* the leader's aof_size from SERVER at connect time *)
                      s_cu : bool;         (* followStep's local caughtUp *)
                      s_pos : Z;           (* lpos: position in the leader's log of the next streamed command *)
                      s_done : file }.     (* ghost (used by no decision): the records handed over so far *)

  Record fol := { f_file : file; f_mem : st; f_aofsz : Z; f_cup : bool; f_once : bool;
                  f_ses : option session; f_broken : bool }.

  Definition set_cup (f : fol) (b : bool) : fol :=
    {| f_file := f_file f; f_mem := f_mem f; f_aofsz := f_aofsz f;
       f_cup := b; f_once := f_once f || b; f_ses := f_ses f; f_broken := f_broken f |}.

  (* the first statements of followStep, executed before the leader is dialled: the caught-up flag is
     cleared (setCaughtUp(false) keeps only the "once" bit) and whatever session existed is over.
     A handshake that stalls or fails at any later stage (dial, AUTH, SERVER, the checksum probes,
     REPLCONF, AOF) leaves the follower in exactly this state. *)
  Definition begin_connect (f : fol) : fol :=
    {| f_file := f_file f; f_mem := f_mem f; f_aofsz := f_aofsz f; f_cup := false;
       f_once := f_once f; f_ses := None; f_broken := f_broken f |}.

  (* followStep from the start up to and including the AOF command and the first caught-up test
     (= begin_connect followed by the handshake; the result does not depend on the old flag) *)
  Definition connect (md : mode) (l : file) (f : fol) : fol :=
    let aofsize := flen l in
    let f := begin_connect f in
    let '(res, _) := check_some md (f_file f) (f_aofsz f) l in
    let st3 :=         (* Some (file, mem, aofsz, pos) or None on error *)
      match res with
      | CSStartOverSmall =>
          match md with
          | Pinned => Some (f_file f, f_mem f, f_aofsz f, 0)
          | _ => Some ([], st0, 0, 0)
          end
      | CSStartOver =>
          match md with
          | Pinned => Some ([], f_mem f, f_aofsz f, 0)
          | _ => Some ([], st0, 0, 0)
          end
      | CSIntact pos => Some (f_file f, f_mem f, f_aofsz f, pos)
      | CSTruncate pos keep => let fl := firstn keep (f_file f) in Some (fl, replay fl, pos, pos)
      | CSError | CSFuel => None
      end in
    match st3 with
    | None => {| f_file := f_file f; f_mem := f_mem f; f_aofsz := f_aofsz f; f_cup := false;
                 f_once := f_once f; f_ses := None; f_broken := f_broken f |}
    | Some (fl, mem, sz, pos) =>
        match drop_bytes l pos with
        | None => {| f_file := fl; f_mem := mem; f_aofsz := sz; f_cup := false; f_once := f_once f;
                     f_ses := None; f_broken := true |}
        | Some rest =>
            let cu := aofsize <=? pos in
            {| f_file := fl; f_mem := mem; f_aofsz := sz; f_cup := cu; f_once := f_once f || cu;
               f_ses := Some {| s_rest := rest; s_aofsize := aofsize; s_cu := cu; s_pos := pos; s_done := [] |};
               f_broken := f_broken f |}
        end
    end.

  (* one iteration of followStep's read loop: followHandleCommand (apply; append to the own log
     iff updated; aofsz accounting) then the caught-up test *)
  Definition deliver (md : mode) (f : fol) : fol :=
    match f_ses f with
    | None => f
    | Some s =>
        match s_rest s with
        | [] => f
        | r :: rest =>
            let '(mem', upd) := app r (f_mem f) in
            let fl := if upd then f_file f ++ [r] else f_file f in
            let sz := if upd then f_aofsz f + blen r else f_aofsz f in
            let lpos := s_pos s + blen r in
            (* Repaired (proposed_fixes/C06-caught-up-by-stream-position.diff): if !caughtUp && lpos >= aofSize;
               before: if !caughtUp && aofsz >= aofSize *)
            let hit := negb (s_cu s) && (s_aofsize s <=? match md with Repaired => lpos | _ => sz end) in
            {| f_file := fl; f_mem := mem'; f_aofsz := sz;
               f_cup := f_cup f || hit;
               f_once := f_once f || hit;
               f_ses := Some {| s_rest := rest; s_aofsize := s_aofsize s; s_cu := s_cu s || hit;
                                s_pos := lpos; s_done := s_done s ++ [r] |};
               f_broken := f_broken f |}
        end
    end.

  (* the follower's own 100 ms sweeper (backgroundExpiring runs on followers too): an expired object or
     hook is deleted and, if that updated, a record of the follower's OWN is appended to its log.
     The replication session is not involved. *)
  Definition own_append (r : record) (f : fol) : fol :=
    let '(mem', upd) := app r (f_mem f) in
    {| f_file := if upd then f_file f ++ [r] else f_file f; f_mem := mem';
       f_aofsz := if upd then f_aofsz f + blen r else f_aofsz f;
       f_cup := f_cup f; f_once := f_once f; f_ses := f_ses f; f_broken := f_broken f |}.

  Definition drop_conn (f : fol) : fol :=
    {| f_file := f_file f; f_mem := f_mem f; f_aofsz := f_aofsz f; f_cup := f_cup f;
       f_once := f_once f; f_ses := None; f_broken := f_broken f |}.

  (* process restart: loadAOF replays the own file into an empty dataset; aofsz = file size *)
  Definition restart (f : fol) : fol :=
    {| f_file := f_file f; f_mem := replay (f_file f); f_aofsz := flen (f_file f); f_cup := false;
       f_once := false; f_ses := None; f_broken := f_broken f |}.

  (* a record appended to the leader's log also reaches every open stream (liveAOF tails the file) *)
  Definition leader_append (r : record) (f : fol) : fol :=
    match f_ses f with
    | None => f
    | Some s => {| f_file := f_file f; f_mem := f_mem f; f_aofsz := f_aofsz f; f_cup := f_cup f;
                   f_once := f_once f;
                   f_ses := Some {| s_rest := s_rest s ++ [r]; s_aofsize := s_aofsize s; s_cu := s_cu s;
                                   s_pos := s_pos s; s_done := s_done s |};
                   f_broken := f_broken f |}
    end.

  Inductive event :=
  | EBegin                 (* a (re)connect attempt starts (and, if nothing else follows, stalls or fails) *)
  | EConnect               (* the follower (re)connects: a whole followStep prologue *)
  | EDeliver               (* the next streamed command is handled *)
  | EDrop                  (* the replication connection is lost or killed *)
  | ERestart               (* the follower process restarts *)
  | EPause                 (* SIGSTOP ... SIGCONT: nothing happens in between *)
  | EAppend (r : record)   (* the leader acknowledges one more write *)
  | EShrink (l' : file)    (* leader AOFSHRINK: the log is replaced, replication connections are closed *)
  | EOwn (r : record)      (* the follower's own sweeper deletes an expired object / hook and logs it *)
  | EFollow (l' : file).   (* FOLLOW host port with a (host, port) different from the current one: cmdFollow bumps
                              followc, so the running session gives up (errNoLongerFollowing) and a new follow()
                              goroutine starts against the other leader, whose log is l' *)

  Definition step (md : mode) (w : file * fol) (e : event) : file * fol :=
    let '(l, f) := w in
    match e with
    | EBegin => (l, begin_connect f)
    | EConnect => (l, connect md l f)
    | EDeliver => (l, deliver md f)
    | EDrop => (l, drop_conn f)
    | ERestart => (l, restart f)
    | EPause => (l, f)
    | EAppend r => (l ++ [r], leader_append r f)
    | EShrink l' => (l', drop_conn f)
    | EOwn r => (l, own_append r f)
    | EFollow l' => (l', drop_conn f)
    end.

  Definition run (md : mode) (w : file * fol) (es : list event) : file * fol := fold_left (step md) es w.

  (* the stream has been handled completely *)
  Definition drained (f : fol) : bool :=
    match f_ses f with Some s => match s_rest s with [] => true | _ => false end | None => false end.
End Follow.

(* ---- a small concrete command semantics used by the examples and the refutations of the pinned
        code: records are tagged command tuples encoded as bytes
        [1;k;i;v] = SET k i v   [2;k;i] = DEL k i   [3;k;k'] = RENAMENX k k'   [4;k] = DROP k ---- *)
Definition toy_st := list (N * list (N * N)).

Fixpoint toy_get (s : toy_st) (k : N) : option (list (N * N)) :=
  match s with [] => None | (k', c) :: t => if N.eqb k k' then Some c else toy_get t k end.
Fixpoint toy_del (s : toy_st) (k : N) : toy_st :=
  match s with [] => [] | (k', c) :: t => if N.eqb k k' then toy_del t k else (k', c) :: toy_del t k end.
Fixpoint col_del (c : list (N * N)) (i : N) : list (N * N) :=
  match c with [] => [] | (i', v) :: t => if N.eqb i i' then col_del t i else (i', v) :: col_del t i end.
Fixpoint col_has (c : list (N * N)) (i : N) : bool :=
  match c with [] => false | (i', _) :: t => N.eqb i i' || col_has t i end.
(* canonical order: insertion keeps lists sorted so that equal maps are equal terms *)
Fixpoint col_ins (c : list (N * N)) (i v : N) : list (N * N) :=
  match c with
  | [] => [(i, v)]
  | (i', v') :: t => if N.ltb i i' then (i, v) :: c else if N.eqb i i' then (i, v) :: t else (i', v') :: col_ins t i v
  end.
Fixpoint toy_ins (s : toy_st) (k : N) (c : list (N * N)) : toy_st :=
  match s with
  | [] => [(k, c)]
  | (k', c') :: t => if N.ltb k k' then (k, c) :: s else if N.eqb k k' then (k, c) :: t else (k', c') :: toy_ins t k c
  end.

Definition toy_app (r : record) (s : toy_st) : toy_st * bool :=
  match r with
  | [1%N; k; i; v] =>
      let c := match toy_get s k with Some c => c | None => [] end in
      (toy_ins s k (col_ins c i v), true)
  | [2%N; k; i] =>
      match toy_get s k with
      | Some c => if col_has c i then
                    (match col_del c i with [] => toy_del s k | c' => toy_ins s k c' end, true)
                  else (s, false)
      | None => (s, false)
      end
  | [3%N; k; k'] =>
      match toy_get s k, toy_get s k' with
      | Some c, None => (toy_ins (toy_del s k) k' c, true)
      | _, _ => (s, false)
      end
  | [4%N; k] =>
      match toy_get s k with Some _ => (toy_del s k, true) | None => (s, false) end
  | _ => (s, false)
  end.
