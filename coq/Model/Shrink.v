(* C09 — AOFSHRINK: executable model (no proofs here).

   Transcription of /repo/internal/server/aofshrink.go (function aofshrink) and of the part of
   aof.go that matters for it (writeAOF appending to shrinklog while shrinking, loadAOF ignoring
   errKeyNotFound/errIDNotFound), over a small dataset model:

     st := sorted map key -> sorted map id -> value          (Base/SMap.v)

   The log alphabet is SET / DEL / DROP / RENAME / FLUSHDB (cmd); a log record and a snapshot
   record ("set key id string value") are both a cmd.  The rewrite is a sequence of atomic locked
   sections ("steps"); between two steps the rewrite holds no lock and writer commands can run
   (the verif gate of internal/server/verif_shrink_on.go parks the real rewrite at exactly these
   places).  B-tree iteration (cols.Ascend(pivot), col.ScanGreaterOrEqual(pivot)) is modelled as
   iteration over the suffix of the sorted list that starts at the first key >= pivot.

   The batch sizes are parameters (mk, mi) so that the theorems hold for any sizes; the real ones
   are Gen.Consts.c_maxkeys / c_maxids (regenerated from the source on every run). *)
From Coq Require Import List NArith ZArith Bool.
From T38 Require Import Base.Bytes Base.SMap Gen.Consts.
Import ListNotations.

Definition val := bytes.
Definition coll := smap val.
Definition st := smap coll.

Definition lookup (k i : bytes) (s : st) : option val :=
  match get k s with Some c => get i c | None => None end.

(* ---------------------------------------------------------------- commands *)

Inductive cmd :=
| CSet (k i : bytes) (v : val)
| CDel (k i : bytes)
| CDrop (k : bytes)
| CRename (a b : bytes)
| CFlushdb.

(* d.updated / the error of the handler *)
Inductive outcome := Updated | NotUpdated | ErrKeyNotFound.

Definition logged (o : outcome) : bool := match o with Updated => true | _ => false end.

(* cmdSET / cmdDEL / cmdDROP / cmdRENAME / cmdFLUSHDB (crud.go), dataset part only *)
Definition exec (s : st) (c : cmd) : st * outcome :=
  match c with
  | CSet k i v =>
      let col := match get k s with Some c => c | None => [] end in
      (set k (set i v col) s, Updated)
  | CDel k i =>
      match get k s with
      | Some col =>
          match get i col with
          | Some _ =>
              let col' := del i col in
              (* if col.Count() == 0 { s.cols.Delete(key) } *)
              (match col' with [] => del k s | _ => set k col' s end, Updated)
          | None => (s, NotUpdated)
          end
      | None => (s, NotUpdated)
      end
  | CDrop k =>
      match get k s with
      | Some _ => (del k s, Updated)
      | None => (s, NotUpdated)
      end
  | CRename a b =>
      match get a s with
      | None => (s, ErrKeyNotFound)
      | Some col =>
          (* newCol exists -> cols.Delete(newKey); cols.Delete(key); cols.Set(newKey, col) *)
          (set b col (del a (del b s)), Updated)
      end
  | CFlushdb => ([], Updated)
  end.

(* loadAOF: every record is executed; errKeyNotFound / errIDNotFound are ignored *)
Fixpoint replay (l : list cmd) (s : st) : st :=
  match l with
  | [] => s
  | c :: r => replay r (fst (exec s c))
  end.

(* ---------------------------------------------------------------- iteration *)

(* tidwall/btree Ascend(pivot): the items >= pivot in ascending order *)
Fixpoint ascend_from {V} (p : bytes) (m : smap V) : smap V :=
  match m with
  | [] => []
  | (k, v) :: r => if bytes_ltb k p then ascend_from p r else m
  end.

Section Batches.
Variables (mk mi : nat).   (* maxkeys, maxids *)

(* the callback of s.cols.Ascend(nextkey, ...):
     if len(keys) == maxkeys { keysdone = false; nextkey = key; return false }
     keys = append(keys, key); return true *)
Fixpoint keys_scan (l : list bytes) (keys : list bytes) (keysdone : bool) (nextkey : bytes)
  : list bytes * bool * bytes :=
  match l with
  | [] => (keys, keysdone, nextkey)
  | key :: r =>
      if Nat.eqb (length keys) mk then (keys, false, key)
      else keys_scan r (keys ++ [key]) keysdone nextkey
  end.

(* the callback of col.ScanGreaterOrEqual(nextid, ...):
     if count == maxids { nextid = o.ID(); idsdone = false; return false }
     emit "set key id ... value"; count++; return true *)
Fixpoint ids_scan (key : bytes) (l : list (bytes * val)) (count : nat) (idsdone : bool)
  (nextid : bytes) (out : list cmd) : bool * bytes * list cmd :=
  match l with
  | [] => (idsdone, nextid, out)
  | (id, v) :: r =>
      if Nat.eqb count mi then (false, id, out)
      else ids_scan key r (S count) idsdone nextid (out ++ [CSet key id v])
  end.

(* The rewrite between two locked sections.  The Go variables keys / nextkey / keysdone, and the
   position: at the gate before a keys batch (keys = [], keysdone just set to true), at the gate
   before an ids batch of (hd keys) with nextid, or after the scan loops. *)
Inductive pos := AtKeys | AtIds (nextid : bytes) | ScanDone.

Record shrink := mkShrink {
  sh_keys : list bytes;
  sh_nextkey : bytes;
  sh_keysdone : bool;
  sh_pos : pos;
  sh_out : list cmd        (* snapshot records written so far (aofbuf + file) *)
}.

(* top of the outer `for`: control flow up to the next locked section *)
Definition top (keys : list bytes) (nextkey : bytes) (keysdone : bool) (out : list cmd) : shrink :=
  match keys with
  | [] =>
      if keysdone then mkShrink [] nextkey keysdone ScanDone out      (* break *)
      else mkShrink [] nextkey true AtKeys out                        (* keysdone = true; batch *)
  | _ :: _ => mkShrink keys nextkey keysdone (AtIds []) out           (* var nextid string *)
  end.

(* var keys []string; var nextkey string; var keysdone bool *)
Definition shrink_init : shrink := top [] [] false [].

(* one locked section, then control flow to the next one *)
Definition step (live : st) (sh : shrink) : shrink :=
  match sh_pos sh with
  | ScanDone => sh
  | AtKeys =>
      let '(keys, kd, nk) :=
        keys_scan (SMap.keys (ascend_from (sh_nextkey sh) live)) (sh_keys sh) (sh_keysdone sh) (sh_nextkey sh) in
      top keys nk kd (sh_out sh)                                      (* continue *)
  | AtIds nextid =>
      match sh_keys sh with
      | [] => sh   (* unreachable: keys[0] would panic; the position AtIds is only entered with keys <> [] *)
      | k0 :: rest =>
          let '(idsdone, nextid', out') :=
            match get k0 live with
            | None => (true, nextid, sh_out sh)                       (* col missing: return *)
            | Some col => ids_scan k0 (ascend_from nextid col) 0 true nextid (sh_out sh)
            end in
          if idsdone then top rest (sh_nextkey sh) (sh_keysdone sh) out'   (* keys = keys[1:]; break *)
          else mkShrink (sh_keys sh) (sh_nextkey sh) (sh_keysdone sh) (AtIds nextid') out'
      end
  end.

Definition sh_done (sh : shrink) : bool := match sh_pos sh with ScanDone => true | _ => false end.

(* ---------------------------------------------------------------- schedules *)

(* live dataset, rewrite state, s.shrinklog and the flag s.shrinking.  writeAOF appends every updated
   command to the shrinklog while s.shrinking is set.  The flag and the log have one life cycle
   (aofshrink()): the entry check `if s.aof == nil || s.shrinking { return }` makes a request that
   arrives while a rewrite is running a no-op; a request that passes it sets the flag and resets the
   log; only the deferred epilogue of THAT rewrite (registered after the entry check) clears them. *)
Record run := mkRun { r_live : st; r_sh : shrink; r_log : list cmd; r_shrinking : bool }.

(* W: a writer command; Step: the next locked section of the running rewrite;
   Req: another AOFSHRINK request (`go s.aofshrink()`) *)
Inductive ev := W (c : cmd) | Step | Req.

(* entry of aofshrink() *)
Definition request (r : run) : run :=
  if r_shrinking r then r                                   (* s.shrinking: return *)
  else mkRun (r_live r) shrink_init [] true.                (* s.shrinking = true; s.shrinklog = nil *)

(* the deferred epilogue of the rewrite that passed the entry check, after its final section *)
Definition end_rewrite (r : run) : run := mkRun (r_live r) (r_sh r) [] false.

Definition do_ev (r : run) (e : ev) : run :=
  match e with
  | W c =>
      let '(s', o) := exec (r_live r) c in
      mkRun s' (r_sh r) (if r_shrinking r && logged o then r_log r ++ [c] else r_log r) (r_shrinking r)
  | Step => mkRun (r_live r) (step (r_live r) (r_sh r)) (r_log r) (r_shrinking r)
  | Req => request r
  end.

(* a server with no rewrite running, and the state right after the first request *)
Definition idle (s0 : st) : run := mkRun s0 (mkShrink [] [] true ScanDone []) [] false.
Definition run_init (s0 : st) : run := request (idle s0).
Definition run_sched (sched : list ev) (r : run) : run := fold_left do_ev sched r.

(* the final section: the new file is the snapshot followed by the shrinklog *)
Definition newfile (r : run) : list cmd := sh_out (r_sh r) ++ r_log r.

Fixpoint finish (fuel : nat) (r : run) : option run :=
  if sh_done (r_sh r) then Some r else
  match fuel with
  | O => None                                                        (* out of fuel *)
  | S f => finish f (do_ev r Step)
  end.

End Batches.

Definition maxkeys : nat := Z.to_nat c_maxkeys.
Definition maxids : nat := Z.to_nat c_maxids.

Definition is_rename (e : ev) : bool := match e with W (CRename _ _) => true | _ => false end.
Definition no_rename (sched : list ev) : bool := forallb (fun e => negb (is_rename e)) sched.

(* flattened dataset: one (key, id, value) per object, in iteration order *)
Definition flatten (s : st) : list (bytes * bytes * val) :=
  flat_map (fun kc => map (fun iv => (fst kc, fst iv, snd iv)) (snd kc)) s.

Definition rec_of (x : bytes * bytes * val) : cmd := CSet (fst (fst x)) (snd (fst x)) (snd x).

(* ---------------------------------------------------------------- the final swap and crashes *)

(* A data directory: the three file names the rewrite touches.  A file is a list of records. *)
Definition file := list cmd.
Record dir := mkDir { d_live : option file; d_bak : option file; d_shrink : option file }.

(* What the final section starts from: the live file on disk, the commands still in s.aofbuf
   (accepted but not yet flushed, hence not yet acknowledged), the snapshot already written to
   the -shrink file, and the shrinklog. *)
Record final_in := mkFinal { f_live : file; f_pend : list cmd; f_snap : file; f_slog : list cmd }.

(* crash points in program order (names as in verif_shrink_on.go) *)
Inductive cpoint :=
| CP_final_locked | CP_before_append | CP_after_append | CP_after_sync | CP_after_close_live
| CP_after_close_new | CP_after_rename_bak | CP_after_rename_live | CP_after_reopen | CP_after_remove_bak.

Definition all_cpoints : list cpoint :=
  [CP_final_locked; CP_before_append; CP_after_append; CP_after_sync; CP_after_close_live;
   CP_after_close_new; CP_after_rename_bak; CP_after_rename_live; CP_after_reopen; CP_after_remove_bak].

Definition cp_index (c : cpoint) : nat :=
  match c with
  | CP_final_locked => 0 | CP_before_append => 1 | CP_after_append => 2 | CP_after_sync => 3
  | CP_after_close_live => 4 | CP_after_close_new => 5 | CP_after_rename_bak => 6
  | CP_after_rename_live => 7 | CP_after_reopen => 8 | CP_after_remove_bak => 9
  end.

(* the operations of the final section that change the directory, one per crash point passed *)
Inductive fsop := OpFlush | OpAppend | OpSync | OpCloseLive | OpCloseNew | OpRenameBak | OpRenameLive
                | OpReopen | OpRemoveBak.

Definition final_ops : list fsop :=
  [OpFlush; OpAppend; OpSync; OpCloseLive; OpCloseNew; OpRenameBak; OpRenameLive; OpReopen; OpRemoveBak].

Definition app_file (f : option file) (l : list cmd) : option file :=
  match f with Some x => Some (x ++ l) | None => None end.

Definition do_op (fi : final_in) (d : dir) (o : fsop) : dir :=
  match o with
  | OpFlush => mkDir (app_file (d_live d) (f_pend fi)) (d_bak d) (d_shrink d)      (* s.flushAOF(false) *)
  | OpAppend => mkDir (d_live d) (d_bak d) (app_file (d_shrink d) (f_slog fi))     (* f.Write(shrinklog) *)
  | OpSync | OpCloseLive | OpCloseNew | OpReopen => d
  | OpRenameBak => mkDir None (d_live d) (d_shrink d)                              (* live -> -bak *)
  | OpRenameLive => mkDir (d_shrink d) (d_bak d) None                              (* -shrink -> live *)
  | OpRemoveBak => mkDir (d_live d) None (d_shrink d)
  end.

Definition dir_start (fi : final_in) : dir := mkDir (Some (f_live fi)) None (Some (f_snap fi)).

(* the directory a crash at point c leaves behind *)
Definition crash_at (fi : final_in) (c : cpoint) : dir :=
  fold_left (do_op fi) (firstn (cp_index c) final_ops) (dir_start fi).

(* start-up on a data directory.
   Pinned tree (server.go Serve): os.OpenFile(appendonly.aof, O_CREATE|O_RDWR) + loadAOF; the
   -bak and -shrink files are never looked at. *)
Definition recover_dir_orig (d : dir) : st :=
  match d_live d with Some f => replay f [] | None => [] end.

(* Repaired start-up (proposed_fixes/C09-shrink-crash-window.diff): when appendonly.aof is
   missing and appendonly.aof-bak exists, the -bak file is renamed back first. *)
Definition recover_dir (d : dir) : st :=
  match d_live d with
  | Some f => replay f []
  | None => match d_bak d with Some f => replay f [] | None => [] end
  end.

(* ---------------------------------------------------------------- leftovers: a rewrite on any directory *)

(* f, err := os.Create(name + "-shrink"): creates the file or TRUNCATES a leftover one *)
Definition create_shrink (d : dir) : dir := mkDir (d_live d) (d_bak d) (Some []).

(* the snapshot is written to the new file (f.Write(aofbuf) ... f.Sync()) before the final section *)
Definition write_snap (snap : file) (d : dir) : dir :=
  mkDir (d_live d) (d_bak d) (app_file (d_shrink d) snap).

(* a rewrite that starts on directory d (whatever an earlier, interrupted rewrite left there) and
   dies at crash point c of its final section / runs to completion *)
Definition crash_from (d : dir) (fi : final_in) (c : cpoint) : dir :=
  fold_left (do_op fi) (firstn (cp_index c) final_ops) (write_snap (f_snap fi) (create_shrink d)).
Definition rewrite_dir (d : dir) (fi : final_in) : dir :=
  fold_left (do_op fi) final_ops (write_snap (f_snap fi) (create_shrink d)).

(* the directory after the repaired start-up: restoreShrinkBackup, then OpenFile(O_CREATE) *)
Definition startup_dir (d : dir) : dir :=
  match d_live d with
  | Some _ => d
  | None => match d_bak d with
            | Some f => mkDir (Some f) None (d_shrink d)
            | None => mkDir (Some []) (d_bak d) (d_shrink d)
            end
  end.
