(* C09 — AOFSHRINK: executable model (no proofs here).

   Transcription of /repo/internal/server/aofshrink.go (function aofshrink) and of the part of
   aof.go that matters for it (writeAOF appending to shrinklog while shrinking, loadAOF ignoring
   errKeyNotFound/errIDNotFound), over a small dataset model:

     st := sorted map key -> sorted map id -> value          (Base/SMap.v)

   The log alphabet is SET (with FIELDs and EX) / FSET / EXPIRE / PERSIST / DEL / PDEL / DROP /
   RENAME / FLUSHDB (cmd); a log record and a snapshot record ("set key id [field n v]* [ex ttl]
   string value") are both a cmd.  Hooks and channels have their own registry, commands and
   rewrite phase (second half of the file); deadlines are has-deadline flags, the TTL digits the
   snapshot writes are the functions obj_ttl_tenths / hook_ttl_tenths at the end.  The rewrite is a sequence of atomic locked
   sections ("steps"); between two steps the rewrite holds no lock and writer commands can run
   (the verif gate of internal/server/verif_shrink_on.go parks the real rewrite at exactly these
   places).  B-tree iteration (cols.Ascend(pivot), col.ScanGreaterOrEqual(pivot)) is modelled as
   iteration over the suffix of the sorted list that starts at the first key >= pivot.

   The batch sizes are parameters (mk, mi) so that the theorems hold for any sizes; the real ones
   are Gen.Consts.c_maxkeys / c_maxids (regenerated from the source on every run). *)
From Coq Require Import List NArith ZArith Bool.
From T38 Require Import Base.Bytes Base.SMap Gen.Consts.
Import ListNotations.

(* An object: the geometry / string payload (opaque token), the stored (non-zero) fields by name
   — a field value is the canonical JSON text field.Value.JSON() writes — and has-deadline. *)
Definition fval := bytes.
Record obj := mkObj { o_geo : bytes; o_fields : smap fval; o_dl : bool }.
Definition val := obj.
Definition coll := smap val.
Definition st := smap coll.

Definition lookup (k i : bytes) (s : st) : option val :=
  match get k s with Some c => get i c | None => None end.

(* FIELD name value arguments: None is a zero value (field.List.Set deletes the field) *)
Definition fupd := list (bytes * option fval).

Definition fset1 (fs : smap fval) (u : bytes * option fval) : smap fval :=
  match snd u with Some v => set (fst u) v fs | None => del (fst u) fs end.

(* for _, f := range fields { flist = flist.Set(f) } *)
Definition apply_fields (fs : smap fval) (us : fupd) : smap fval := fold_left fset1 us fs.

Definition ofval_eqb (a b : option fval) : bool :=
  match a, b with
  | Some x, Some y => bytes_eqb x y
  | None, None => true
  | _, _ => false
  end.

(* cmdFSET: for _, f := range fields { prev := ofields.Get(name); if !prev.Same(f) { ofields =
   ofields.Set(f); updateCount++ } } — a missing field reads as the zero value *)
Fixpoint fset_loop (fs : smap fval) (us : fupd) (n : nat) : smap fval * nat :=
  match us with
  | [] => (fs, n)
  | u :: r =>
      if ofval_eqb (get (fst u) fs) (snd u) then fset_loop fs r n
      else fset_loop (fset1 fs u) r (S n)
  end.

(* the FIELD arguments the snapshot writes for an object: one per stored field, in list order *)
Definition fields_of (fs : smap fval) : fupd := map (fun nv => (fst nv, Some (snd nv))) fs.

(* PDEL key <pat>*: the model's patterns are literal prefixes (glob matching is C12's subject) *)
Definition pmatch (pat id : bytes) : bool := hasPrefixb pat id.

(* ---------------------------------------------------------------- commands *)

Inductive cmd :=
| CSet (k i : bytes) (us : fupd) (ex : bool) (geo : bytes)   (* SET k i [FIELD n v]* [EX s] <geo> *)
| CFset (k i : bytes) (us : fupd)                            (* FSET k i [n v]+ *)
| CExpire (k i : bytes)
| CPersist (k i : bytes)
| CDel (k i : bytes)
| CPdel (k pat : bytes)
| CDrop (k : bytes)
| CRename (a b : bytes)
| CFlushdb.

(* the snapshot record of a stored object: set key id [field name json]* [ex ttl] <geo> *)
Definition rec_cmd (key id : bytes) (o : obj) : cmd :=
  CSet key id (fields_of (o_fields o)) (o_dl o) (o_geo o).

(* d.updated / the error of the handler *)
Inductive outcome := Updated | NotUpdated | ErrKeyNotFound | ErrIdNotFound.

Definition logged (o : outcome) : bool := match o with Updated => true | _ => false end.

(* collection col of key k after its objects changed: removed when empty *)
Definition put_col (k : bytes) (col : coll) (s : st) : st :=
  match col with [] => del k s | _ => set k col s end.

(* cmdSET / cmdFSET / cmdEXPIRE / cmdPERSIST / cmdDEL / cmdPDEL / cmdDROP / cmdRENAME / cmdFLUSHDB
   (crud.go), dataset part only *)
Definition exec (s : st) (c : cmd) : st * outcome :=
  match c with
  | CSet k i us ex geo =>
      let col := match get k s with Some c => c | None => [] end in
      (* fields of the old object are kept and the given ones set on top; the deadline is the
         given one or none *)
      let old := match get i col with Some o => o_fields o | None => [] end in
      (set k (set i (mkObj geo (apply_fields old us) ex) col) s, Updated)
  | CFset k i us =>
      match get k s with
      | None => (s, ErrKeyNotFound)
      | Some col =>
          match get i col with
          | None => (s, ErrIdNotFound)
          | Some o =>
              let '(fs', n) := fset_loop (o_fields o) us 0 in
              (set k (set i (mkObj (o_geo o) fs' (o_dl o)) col) s,
               match n with O => NotUpdated | S _ => Updated end)
          end
      end
  | CExpire k i =>
      match get k s with
      | None => (s, NotUpdated)
      | Some col =>
          match get i col with
          | None => (s, NotUpdated)
          | Some o => (set k (set i (mkObj (o_geo o) (o_fields o) true) col) s, Updated)
          end
      end
  | CPersist k i =>
      match get k s with
      | None => (s, NotUpdated)
      | Some col =>
          match get i col with
          | None => (s, NotUpdated)
          | Some o =>
              if o_dl o then (set k (set i (mkObj (o_geo o) (o_fields o) false) col) s, Updated)
              else (s, NotUpdated)
          end
      end
  | CDel k i =>
      match get k s with
      | Some col =>
          match get i col with
          | Some _ =>
              (* if col.Count() == 0 { s.cols.Delete(key) } *)
              (put_col k (del i col) s, Updated)
          | None => (s, NotUpdated)
          end
      | None => (s, NotUpdated)
      end
  | CPdel k pat =>
      match get k s with
      | Some col =>
          let col' := filter (fun iv => negb (pmatch pat (fst iv))) col in
          if Nat.eqb (length col') (length col) then (s, NotUpdated)
          else (put_col k col' s, Updated)
      | None => (s, NotUpdated)
      end
  | CDrop k =>
      match get k s with
      | Some _ => (del k s, Updated)
      | None => (s, NotUpdated)
      end
  | CRename a b =>
      match get a s with
      | None => (s, ErrKeyNotFound)
      | Some col =>
          (* newCol exists -> cols.Delete(newKey); cols.Delete(key); cols.Set(newKey, col) *)
          (set b col (del a (del b s)), Updated)
      end
  | CFlushdb => ([], Updated)
  end.

(* loadAOF: every record is executed; errKeyNotFound / errIDNotFound are ignored *)
Fixpoint replay (l : list cmd) (s : st) : st :=
  match l with
  | [] => s
  | c :: r => replay r (fst (exec s c))
  end.

(* ---------------------------------------------------------------- iteration *)

(* tidwall/btree Ascend(pivot): the items >= pivot in ascending order *)
Fixpoint ascend_from {V} (p : bytes) (m : smap V) : smap V :=
  match m with
  | [] => []
  | (k, v) :: r => if bytes_ltb k p then ascend_from p r else m
  end.

Section Batches.
Variables (mk mi : nat).   (* maxkeys, maxids *)

(* the callback of s.cols.Ascend(nextkey, ...):
     if len(keys) == maxkeys { keysdone = false; nextkey = key; return false }
     keys = append(keys, key); return true *)
Fixpoint keys_scan (l : list bytes) (keys : list bytes) (keysdone : bool) (nextkey : bytes)
  : list bytes * bool * bytes :=
  match l with
  | [] => (keys, keysdone, nextkey)
  | key :: r =>
      if Nat.eqb (length keys) mk then (keys, false, key)
      else keys_scan r (keys ++ [key]) keysdone nextkey
  end.

(* the callback of col.ScanGreaterOrEqual(nextid, ...):
     if count == maxids { nextid = o.ID(); idsdone = false; return false }
     emit "set key id ... value"; count++; return true *)
Fixpoint ids_scan (key : bytes) (l : list (bytes * val)) (count : nat) (idsdone : bool)
  (nextid : bytes) (out : list cmd) : bool * bytes * list cmd :=
  match l with
  | [] => (idsdone, nextid, out)
  | (id, v) :: r =>
      if Nat.eqb count mi then (false, id, out)
      else ids_scan key r (S count) idsdone nextid (out ++ [rec_cmd key id v])
  end.

(* The rewrite between two locked sections.  The Go variables keys / nextkey / keysdone, and the
   position: at the gate before a keys batch (keys = [], keysdone just set to true), at the gate
   before an ids batch of (hd keys) with nextid, or after the scan loops. *)
Inductive pos := AtKeys | AtIds (nextid : bytes) | ScanDone.

Record shrink := mkShrink {
  sh_keys : list bytes;
  sh_nextkey : bytes;
  sh_keysdone : bool;
  sh_pos : pos;
  sh_out : list cmd        (* snapshot records written so far (aofbuf + file) *)
}.

(* top of the outer `for`: control flow up to the next locked section *)
Definition top (keys : list bytes) (nextkey : bytes) (keysdone : bool) (out : list cmd) : shrink :=
  match keys with
  | [] =>
      if keysdone then mkShrink [] nextkey keysdone ScanDone out      (* break *)
      else mkShrink [] nextkey true AtKeys out                        (* keysdone = true; batch *)
  | _ :: _ => mkShrink keys nextkey keysdone (AtIds []) out           (* var nextid string *)
  end.

(* var keys []string; var nextkey string; var keysdone bool *)
Definition shrink_init : shrink := top [] [] false [].

(* one locked section, then control flow to the next one *)
Definition step (live : st) (sh : shrink) : shrink :=
  match sh_pos sh with
  | ScanDone => sh
  | AtKeys =>
      let '(keys, kd, nk) :=
        keys_scan (SMap.keys (ascend_from (sh_nextkey sh) live)) (sh_keys sh) (sh_keysdone sh) (sh_nextkey sh) in
      top keys nk kd (sh_out sh)                                      (* continue *)
  | AtIds nextid =>
      match sh_keys sh with
      | [] => sh   (* unreachable: keys[0] would panic; the position AtIds is only entered with keys <> [] *)
      | k0 :: rest =>
          let '(idsdone, nextid', out') :=
            match get k0 live with
            | None => (true, nextid, sh_out sh)                       (* col missing: return *)
            | Some col => ids_scan k0 (ascend_from nextid col) 0 true nextid (sh_out sh)
            end in
          if idsdone then top rest (sh_nextkey sh) (sh_keysdone sh) out'   (* keys = keys[1:]; break *)
          else mkShrink (sh_keys sh) (sh_nextkey sh) (sh_keysdone sh) (AtIds nextid') out'
      end
  end.

Definition sh_done (sh : shrink) : bool := match sh_pos sh with ScanDone => true | _ => false end.

(* ---------------------------------------------------------------- schedules *)

(* live dataset, rewrite state, s.shrinklog and the flag s.shrinking.  writeAOF appends every updated
   command to the shrinklog while s.shrinking is set.  The flag and the log have one life cycle
   (aofshrink()): the entry check `if s.aof == nil || s.shrinking { return }` makes a request that
   arrives while a rewrite is running a no-op; a request that passes it sets the flag and resets the
   log; only the deferred epilogue of THAT rewrite (registered after the entry check) clears them. *)
Record run := mkRun { r_live : st; r_sh : shrink; r_log : list cmd; r_shrinking : bool }.

(* W: a writer command; Step: the next locked section of the running rewrite;
   Req: another AOFSHRINK request (`go s.aofshrink()`) *)
Inductive ev := W (c : cmd) | Step | Req.

(* entry of aofshrink() *)
Definition request (r : run) : run :=
  if r_shrinking r then r                                   (* s.shrinking: return *)
  else mkRun (r_live r) shrink_init [] true.                (* s.shrinking = true; s.shrinklog = nil *)

(* the deferred epilogue of the rewrite that passed the entry check, after its final section *)
Definition end_rewrite (r : run) : run := mkRun (r_live r) (r_sh r) [] false.

Definition do_ev (r : run) (e : ev) : run :=
  match e with
  | W c =>
      let '(s', o) := exec (r_live r) c in
      mkRun s' (r_sh r) (if r_shrinking r && logged o then r_log r ++ [c] else r_log r) (r_shrinking r)
  | Step => mkRun (r_live r) (step (r_live r) (r_sh r)) (r_log r) (r_shrinking r)
  | Req => request r
  end.

(* a server with no rewrite running, and the state right after the first request *)
Definition idle (s0 : st) : run := mkRun s0 (mkShrink [] [] true ScanDone []) [] false.
Definition run_init (s0 : st) : run := request (idle s0).
Definition run_sched (sched : list ev) (r : run) : run := fold_left do_ev sched r.

(* the final section: the new file is the snapshot followed by the shrinklog *)
Definition newfile (r : run) : list cmd := sh_out (r_sh r) ++ r_log r.

Fixpoint finish (fuel : nat) (r : run) : option run :=
  if sh_done (r_sh r) then Some r else
  match fuel with
  | O => None                                                        (* out of fuel *)
  | S f => finish f (do_ev r Step)
  end.

End Batches.

Definition maxkeys : nat := Z.to_nat c_maxkeys.
Definition maxids : nat := Z.to_nat c_maxids.

Definition is_rename (e : ev) : bool := match e with W (CRename _ _) => true | _ => false end.
Definition no_rename (sched : list ev) : bool := forallb (fun e => negb (is_rename e)) sched.

(* flattened dataset: one (key, id, value) per object, in iteration order *)
Definition flatten (s : st) : list (bytes * bytes * val) :=
  flat_map (fun kc => map (fun iv => (fst kc, fst iv, snd iv)) (snd kc)) s.

Definition rec_of (x : bytes * bytes * val) : cmd := rec_cmd (fst (fst x)) (snd (fst x)) (snd x).

(* ---------------------------------------------------------------- the final swap and crashes *)

(* A data directory: the three file names the rewrite touches.  A file is a list of records. *)
Definition file := list cmd.
Record dir := mkDir { d_live : option file; d_bak : option file; d_shrink : option file }.

(* What the final section starts from: the live file on disk, the commands still in s.aofbuf
   (accepted but not yet flushed, hence not yet acknowledged), the snapshot already written to
   the -shrink file, and the shrinklog. *)
Record final_in := mkFinal { f_live : file; f_pend : list cmd; f_snap : file; f_slog : list cmd }.

(* crash points in program order (names as in verif_shrink_on.go) *)
Inductive cpoint :=
| CP_final_locked | CP_before_append | CP_after_append | CP_after_sync | CP_after_close_live
| CP_after_close_new | CP_after_rename_bak | CP_after_rename_live | CP_after_reopen | CP_after_remove_bak.

Definition all_cpoints : list cpoint :=
  [CP_final_locked; CP_before_append; CP_after_append; CP_after_sync; CP_after_close_live;
   CP_after_close_new; CP_after_rename_bak; CP_after_rename_live; CP_after_reopen; CP_after_remove_bak].

Definition cp_index (c : cpoint) : nat :=
  match c with
  | CP_final_locked => 0 | CP_before_append => 1 | CP_after_append => 2 | CP_after_sync => 3
  | CP_after_close_live => 4 | CP_after_close_new => 5 | CP_after_rename_bak => 6
  | CP_after_rename_live => 7 | CP_after_reopen => 8 | CP_after_remove_bak => 9
  end.

(* the operations of the final section that change the directory, one per crash point passed *)
Inductive fsop := OpFlush | OpAppend | OpSync | OpCloseLive | OpCloseNew | OpRenameBak | OpRenameLive
                | OpReopen | OpRemoveBak.

Definition final_ops : list fsop :=
  [OpFlush; OpAppend; OpSync; OpCloseLive; OpCloseNew; OpRenameBak; OpRenameLive; OpReopen; OpRemoveBak].

Definition app_file (f : option file) (l : list cmd) : option file :=
  match f with Some x => Some (x ++ l) | None => None end.

Definition do_op (fi : final_in) (d : dir) (o : fsop) : dir :=
  match o with
  | OpFlush => mkDir (app_file (d_live d) (f_pend fi)) (d_bak d) (d_shrink d)      (* s.flushAOF(false) *)
  | OpAppend => mkDir (d_live d) (d_bak d) (app_file (d_shrink d) (f_slog fi))     (* f.Write(shrinklog) *)
  | OpSync | OpCloseLive | OpCloseNew | OpReopen => d
  | OpRenameBak => mkDir None (d_live d) (d_shrink d)                              (* live -> -bak *)
  | OpRenameLive => mkDir (d_shrink d) (d_bak d) None                              (* -shrink -> live *)
  | OpRemoveBak => mkDir (d_live d) None (d_shrink d)
  end.

Definition dir_start (fi : final_in) : dir := mkDir (Some (f_live fi)) None (Some (f_snap fi)).

(* the directory a crash at point c leaves behind *)
Definition crash_at (fi : final_in) (c : cpoint) : dir :=
  fold_left (do_op fi) (firstn (cp_index c) final_ops) (dir_start fi).

(* start-up on a data directory.
   Pinned tree (server.go Serve): os.OpenFile(appendonly.aof, O_CREATE|O_RDWR) + loadAOF; the
   -bak and -shrink files are never looked at. *)
Definition recover_dir_orig (d : dir) : st :=
  match d_live d with Some f => replay f [] | None => [] end.

(* Repaired start-up (proposed_fixes/C09-shrink-crash-window.diff): when appendonly.aof is
   missing and appendonly.aof-bak exists, the -bak file is renamed back first. *)
Definition recover_dir (d : dir) : st :=
  match d_live d with
  | Some f => replay f []
  | None => match d_bak d with Some f => replay f [] | None => [] end
  end.

(* ---------------------------------------------------------------- leftovers: a rewrite on any directory *)

(* f, err := os.Create(name + "-shrink"): creates the file or TRUNCATES a leftover one *)
Definition create_shrink (d : dir) : dir := mkDir (d_live d) (d_bak d) (Some []).

(* the snapshot is written to the new file (f.Write(aofbuf) ... f.Sync()) before the final section *)
Definition write_snap (snap : file) (d : dir) : dir :=
  mkDir (d_live d) (d_bak d) (app_file (d_shrink d) snap).

(* a rewrite that starts on directory d (whatever an earlier, interrupted rewrite left there) and
   dies at crash point c of its final section / runs to completion *)
Definition crash_from (d : dir) (fi : final_in) (c : cpoint) : dir :=
  fold_left (do_op fi) (firstn (cp_index c) final_ops) (write_snap (f_snap fi) (create_shrink d)).
Definition rewrite_dir (d : dir) (fi : final_in) : dir :=
  fold_left (do_op fi) final_ops (write_snap (f_snap fi) (create_shrink d)).

(* the directory after the repaired start-up: restoreShrinkBackup, then OpenFile(O_CREATE) *)
Definition startup_dir (d : dir) : dir :=
  match d_live d with
  | Some _ => d
  | None => match d_bak d with
            | Some f => mkDir (Some f) None (d_shrink d)
            | None => mkDir (Some []) (d_bak d) (d_shrink d)
            end
  end.

(* ---------------------------------------------------------------- hooks and channels *)

(* A hook or channel: kind, everything that is written back as is (endpoints, sorted metas, the
   fence command: an opaque token here) and has-expiration. *)
Record hook := mkHook { h_chan : bool; h_body : bytes; h_ex : bool }.
Definition hreg := smap hook.

Inductive hcmd :=
| HSet (name : bytes) (h : hook)            (* SETHOOK / SETCHAN name ... *)
| HDel (name : bytes) (chan : bool)         (* DELHOOK / DELCHAN name *)
| HPdel (pat : bytes) (chan : bool)         (* PDELHOOK / PDELCHAN <pat>* *)
| HFlush.                                   (* FLUSHDB *)

(* HFatal: "hooks and channels cannot share the same name" — not one of the two errors loadAOF
   ignores: when it comes up during loading the server does not start *)
Inductive houtcome := HUpdated | HNotUpdated | HFatal.

(* Hook.Equals: same endpoints, metas, command and expires.Equal — two hooks with an expiration
   are never equal (the absolute time differs) *)
Definition hook_same (a b : hook) : bool :=
  bytes_eqb (h_body a) (h_body b) && negb (h_ex a) && negb (h_ex b).

(* cmdSetHook / cmdDelHook (cmdDELHOOKop) / cmdPDelHook / cmdFLUSHDB, registry part *)
Definition hexec (r : hreg) (c : hcmd) : hreg * houtcome :=
  match c with
  | HSet n h =>
      match get n r with
      | Some p =>
          if negb (Bool.eqb (h_chan p) (h_chan h)) then (r, HFatal)
          else if hook_same p h then (r, HNotUpdated)
          else (set n h r, HUpdated)
      | None => (set n h r, HUpdated)
      end
  | HDel n c =>
      match get n r with
      | Some p => if Bool.eqb (h_chan p) c then (del n r, HUpdated) else (r, HNotUpdated)
      | None => (r, HNotUpdated)
      end
  | HPdel pat c =>
      let r' := filter (fun nh => negb (pmatch pat (fst nh) && Bool.eqb (h_chan (snd nh)) c)) r in
      if Nat.eqb (length r') (length r) then (r, HNotUpdated) else (r', HUpdated)
  | HFlush => ([], HUpdated)
  end.

Definition hlogged (o : houtcome) : bool := match o with HUpdated => true | _ => false end.

(* loadAOF on the hook records, pinned tree: None = a fatal error, the server refuses to start *)
Fixpoint hreplay_orig (l : list hcmd) (r : hreg) : option hreg :=
  match l with
  | [] => Some r
  | c :: t => match hexec r c with
              | (_, HFatal) => None
              | (r', _) => hreplay_orig t r'
              end
  end.

(* Repaired loader (proposed_fixes/C09-load-nonfatal-rewrite-errors.diff): the error is ignored like
   key-not-found / id-not-found, the record has no effect (hexec leaves the registry unchanged) *)
Fixpoint hreplay (l : list hcmd) (r : hreg) : hreg :=
  match l with
  | [] => r
  | c :: t => hreplay t (fst (hexec r c))
  end.

(* The hooks phase of the rewrite, after the scan loops: one locked section reads all names
   (s.hooks.Walk), then one locked section per name looks the hook up again (GetHint) and writes
   "sethook|setchan name [endpoints] [meta k v]* [ex ttl] command..." if it still exists. *)
Inductive hpos := HNames | HEmit (names : list bytes) | HDone.
Record hshrink := mkHShrink { hs_pos : hpos; hs_out : list hcmd }.

Definition hshrink_init : hshrink := mkHShrink HNames [].

Definition hnext (names : list bytes) : hpos := match names with [] => HDone | _ => HEmit names end.

Definition hstep (live : hreg) (hs : hshrink) : hshrink :=
  match hs_pos hs with
  | HNames => mkHShrink (hnext (SMap.keys live)) (hs_out hs)
  | HEmit [] => mkHShrink HDone (hs_out hs)
  | HEmit (n :: rest) =>
      match get n live with
      | None => mkHShrink (hnext rest) (hs_out hs)                       (* hook == nil: return *)
      | Some h => mkHShrink (hnext rest) (hs_out hs ++ [HSet n h])
      end
  | HDone => hs
  end.

Definition hs_done (hs : hshrink) : bool := match hs_pos hs with HDone => true | _ => false end.

(* hook commands run at any time while the rewrite is going on (also during the object scan, i.e.
   before the first hstep); the shrinklog keeps the updated ones *)
Record hrun := mkHRun { hr_live : hreg; hr_sh : hshrink; hr_log : list hcmd }.
Inductive hev := HW (c : hcmd) | HStep.

Definition hdo_ev (r : hrun) (e : hev) : hrun :=
  match e with
  | HW c =>
      let '(r', o) := hexec (hr_live r) c in
      mkHRun r' (hr_sh r) (if hlogged o then hr_log r ++ [c] else hr_log r)
  | HStep => mkHRun (hr_live r) (hstep (hr_live r) (hr_sh r)) (hr_log r)
  end.

Definition hrun_init (r0 : hreg) : hrun := mkHRun r0 hshrink_init [].
Definition hrun_sched (sched : list hev) (r : hrun) : hrun := fold_left hdo_ev sched r.
Definition hnewfile (r : hrun) : list hcmd := hs_out (hr_sh r) ++ hr_log r.

(* every name keeps its kind: the initial registry and every SETHOOK/SETCHAN of the schedule agree
   with kind (name -> is a channel) *)
Definition hev_kind_ok (kind : bytes -> bool) (e : hev) : bool :=
  match e with HW (HSet n h) => Bool.eqb (h_chan h) (kind n) | _ => true end.
Definition kind_consistent (kind : bytes -> bool) (r0 : hreg) (sched : list hev) : bool :=
  forallb (fun nh => Bool.eqb (h_chan (snd nh)) (kind (fst nh))) r0 && forallb (hev_kind_ok kind) sched.

(* ---------------------------------------------------------------- TTL digits *)

Open Scope Z_scope.

(* objects: ttl := math.Floor(float64(o.Expires()-now)/float64(time.Second)*10) / 10;
   if ttl < 0.1 { ttl = 0.1 } — in tenths of a second, times in nanoseconds (exact arithmetic) *)
Definition obj_ttl_tenths (expires now : Z) : Z := Z.max 1 ((expires - now) / 100000000).

(* hooks: strconv.FormatFloat(float64(time.Until(hook.expires))/float64(time.Second), 'f', 1, 64):
   rounded to the nearest tenth, no lower bound *)
Definition hook_ttl_tenths (expires now : Z) : Z := (expires - now + 50000000) / 100000000.

Close Scope Z_scope.

(* ---------------------------------------------------------------- file names *)

(* The three files of the directory model live under names derived from the configured log name
   (opts.AppendFileName, --appendfilename): <name>, <name>-bak, <name>-shrink.  A file system is a
   map path -> content; to_fs places a directory state under a name, next to unrelated files. *)
Definition fsys := smap file.
Definition bak_name (n : bytes) : bytes := n ++ [45%N; 98%N; 97%N; 107%N].                               (* "-bak" *)
Definition shrink_name (n : bytes) : bytes := n ++ [45%N; 115%N; 104%N; 114%N; 105%N; 110%N; 107%N].     (* "-shrink" *)

Definition put_file (p : bytes) (f : option file) (fs : fsys) : fsys :=
  match f with Some c => set p c fs | None => del p fs end.

Definition to_fs (n : bytes) (d : dir) (rest : fsys) : fsys :=
  put_file n (d_live d) (put_file (bak_name n) (d_bak d) (put_file (shrink_name n) (d_shrink d) rest)).

(* Start-up: restoreShrinkBackup(look) — when <look> is missing and <look>-bak exists, rename it
   back — then os.OpenFile(open, O_CREATE) + loadAOF.  The repaired Serve passes
   opts.AppendFileName for both; a restore that only knows the default name has look <> open. *)
Definition restore_backup (look : bytes) (fs : fsys) : fsys :=
  match get look fs with
  | Some _ => fs
  | None => match get (bak_name look) fs with
            | Some f => set look f (del (bak_name look) fs)
            | None => fs
            end
  end.

Definition recover_fs (look open : bytes) (fs : fsys) : st :=
  match get open (restore_backup look fs) with
  | Some f => replay f []
  | None => []                                   (* created empty *)
  end.
