(* C07 — the path of a logged write to the live fence connections, with the queue discipline read
   from the source.

   writeAOF (under the exclusive server lock, so in log order) appends the details of the write to
   Server.lstack; processLives takes one item and appends it to liveBuffer.details of every live
   connection on that key; goLive takes one item of details and writes its messages to the socket.
   Model/Queues.v (C10) writes these steps down with both slices used first-in first-out. Here the
   same transition system takes, for each slice, the discipline t38x reads from the statements of
   the source (Gen.Mutators.queue_disc): at which end an item is added and which element is taken.
   No proofs here. *)
From Coq Require Import String List NArith Bool Arith.
From T38 Require Import Model.Queues Gen.Mutators.
From T38 Require Model.Tables.
Import ListNotations.
Open Scope list_scope.

Record disc := mkDisc { push_back : bool; pop_front : bool }.

Definition fifo : disc := mkDisc true true.

Definition q_push {A} (d : disc) (q : list A) (x : A) : list A :=
  if push_back d then q ++ [x] else x :: q.

Definition q_pop {A} (d : disc) (q : list A) : option (A * list A) :=
  if pop_front d then
    match q with [] => None | x :: r => Some (x, r) end
  else
    match rev q with [] => None | x :: r => Some (x, rev r) end.

(* Queues.lstep with the two disciplines as arguments *)
Definition lstepD (ds dd : disc) (s : lv) (ev : lev) : lv :=
  match ev with
  | LReg b k => mkLV (lv_lives s ++ [(b, k)]) (lv_stack s) (lv_details s) (lv_out s)
  | LUnreg b => mkLV (filter (fun bk => negb (Nat.eqb (fst bk) b)) (lv_lives s)) (lv_stack s) (lv_details s) (lv_out s)
  | LWrite k d =>
      match lv_lives s with
      | [] => s
      | _ :: _ => mkLV (lv_lives s) (q_push ds (lv_stack s) (k, d)) (lv_details s) (lv_out s)
      end
  | LProc =>
      match q_pop ds (lv_stack s) with
      | None => s
      | Some ((k, d), r) =>
          mkLV (lv_lives s) r
               (fun b => if existsb (fun bk => Nat.eqb (fst bk) b && N.eqb (snd bk) k) (lv_lives s)
                         then q_push dd (lv_details s b) d else lv_details s b)
               (lv_out s)
      end
  | LDeliver b =>
      match q_pop dd (lv_details s b) with
      | None => s
      | Some (d, r) => mkLV (lv_lives s) (lv_stack s) (updt (lv_details s) b r) (updt (lv_out s) b (lv_out s b ++ [d]))
      end
  end.

Definition lrunD (ds dd : disc) (s : lv) (evs : list lev) : lv := fold_left (lstepD ds dd) evs s.

Definition disc_of (name : string) : disc :=
  match Tables.assoc queue_disc name with
  | Some (pb, pf) => mkDisc pb pf
  | None => mkDisc false false
  end.

(* the disciplines of the source as it is now *)
Definition d_lstack : disc := disc_of "Server.lstack".
Definition d_details : disc := disc_of "liveBuffer.details".

Definition lv_init : lv := mkLV [] [] (fun _ => []) (fun _ => []).
