(* Executable model of what decides the server's ROLE for the C15 gates, built on the tables that
   t38x regenerates from /repo into Gen/RoleGates.v.  No proofs here.

   1. run_arm      : one arm of a `switch msg.Command()` lock/gate table executed statement by
                     statement while OTHER connections change the role (READONLY, FOLLOW: they need
                     the exclusive server lock) and the follow goroutine sets caughtUpOnce.
   2. readonly_cmd : Server.cmdREADONLY (validation switch + branch) on any argument string.
   3. set_protected / is_protected : Config.setProperty(protected-mode) and Server.isProtected.
   4. follow_loop  : the lpos accounting of followStep's read loop and its caught-up test. *)
From Coq Require Import String Ascii List Bool ZArith.
From T38 Require Import Model.Tables Model.RoleTypes Gen.RoleGates.
Import ListNotations.
Open Scope string_scope.

(* ---- strings.ToLower, ASCII part ----
   Go's strings.ToLower is Unicode-aware. For the words compared here ("yes", "no", "publish") the
   only non-ASCII runes that lower-case to one of their letters are U+212A KELVIN SIGN (k) and
   U+0130 (i); "yes" and "no" contain neither, so `ToLower v = "yes"` iff `lower v = "yes"` (same for
   "no"). For "publish" the harness sends ASCII spellings only, and the theorem about followStep
   states its hypothesis with this function (trusted: the leader's publish queue writes the ASCII
   word). *)
Definition lower_ascii (a : ascii) : ascii :=
  let n := nat_of_ascii a in
  if (Nat.leb 65 n && Nat.leb n 90)%bool then ascii_of_nat (n + 32) else a.

Fixpoint lower (s : string) : string :=
  match s with
  | EmptyString => EmptyString
  | String a r => String (lower_ascii a) (lower r)
  end.

Definition fold_case (b : bool) (s : string) : string := if b then lower s else s.

(* ---- 1. arms, statement by statement ---- *)

Fixpoint steps_find (t : list (list string * list arm_step)) (c : string) : option (list arm_step) :=
  match t with
  | [] => None
  | (cmds, st) :: rest => if in_strs c cmds then Some st else steps_find rest c
  end.

Definition steps_of (t : list (list string * list arm_step)) (def : list arm_step) (c : string) : list arm_step :=
  match steps_find t c with Some st => st | None => def end.

Record role := mkRole { r_follower : bool; r_readonly : bool; r_caughtup : bool }.

(* what the rest of the server does between two statements of the arm:
   mv_role     : a role command (READONLY yes|no, FOLLOW host port | no one) of another connection
                 runs to completion; its arm takes the EXCLUSIVE server lock (lock table: "follow",
                 "slaveof", "readonly", "config" -> LExcl), so it cannot run while this arm holds the
                 lock, shared or exclusive;
   mv_caughtup : the follow goroutine sets the sticky caughtUpOnce bit (an atomic, no lock needed;
                 the bit is never cleared: setCaughtUp(false) keeps it). *)
Record envmove := mkMove { mv_role : option (bool * bool); mv_caughtup : bool }.
Definition nomove : envmove := mkMove None false.

Definition env_apply (held : bool) (m : envmove) (r : role) : role :=
  let r1 := if held then r else
            match mv_role m with
            | Some (f, ro) => mkRole f ro (r_caughtup r)
            | None => r
            end in
  mkRole (r_follower r1) (r_readonly r1) (r_caughtup r1 || mv_caughtup m).

Inductive arm_outcome :=
| ARefused                 (* a gate returned its error: the handler does not run *)
| AHandler (r : role).     (* the handler runs, and this is the server's role at that moment *)

(* held: the goroutine holds the server lock (its own arm's, or the one the enclosing EVAL took).
   One environment move is possible before every statement and before the handler. *)
Fixpoint run_arm (steps : list arm_step) (held : bool) (sched : list envmove) (r : role) : arm_outcome :=
  let r := env_apply held (hd nomove sched) r in
  let sched := tl sched in
  match steps with
  | [] => AHandler r
  | ASLock :: rest | ASRLock :: rest => run_arm rest true sched r
  | ASWrite :: rest => run_arm rest held sched r
  | ASChkFollower :: rest => if r_follower r then ARefused else run_arm rest held sched r
  | ASChkReadonly :: rest => if r_readonly r then ARefused else run_arm rest held sched r
  | ASChkCaughtup :: rest => if r_follower r && negb (r_caughtup r) then ARefused else run_arm rest held sched r
  | ASReject :: _ => ARefused
  end.

(* what is known about the role when the handler starts, by abstract execution of the statements:
   (not follower, not read-only, not (follower and never caught up)); a fact established while the
   lock is not held is worthless at the next statement *)
Record facts := mkFacts { k_leader : bool; k_writable : bool; k_servable : bool }.

Definition forget (held : bool) (k : facts) : facts := if held then k else mkFacts false false false.

Fixpoint abs_arm (steps : list arm_step) (held : bool) (k : facts) : facts :=
  let k := forget held k in
  match steps with
  | [] => k
  | ASLock :: rest | ASRLock :: rest => abs_arm rest true k
  | ASWrite :: rest => abs_arm rest held k
  | ASChkFollower :: rest => abs_arm rest held (mkFacts true (k_writable k) true)
  | ASChkReadonly :: rest => abs_arm rest held (mkFacts (k_leader k) true (k_servable k))
  | ASChkCaughtup :: rest => abs_arm rest held (mkFacts (k_leader k) (k_writable k) true)
  | ASReject :: _ => mkFacts true true true
  end.

Definition nofacts : facts := mkFacts false false false.

(* a command sent directly / wrapped in TIMEOUT: the arm of handleInputCommand *)
Definition direct_steps (c : string) : list arm_step := steps_of lock_table_steps lock_table_default_steps c.

(* tile38.call(c, ...) inside a script: the arm of the script command (EVAL..., outer) runs first and,
   in the same goroutine, the arm of the script table for c *)
Definition script_tables : list (string * (list (list string * list arm_step) * list arm_step)) :=
  [("eval", (script_rw_steps, script_rw_default_steps)); ("evalsha", (script_rw_steps, script_rw_default_steps));
   ("evalro", (script_ro_steps, script_ro_default_steps)); ("evalrosha", (script_ro_steps, script_ro_default_steps));
   ("evalna", (script_na_steps, script_na_default_steps)); ("evalnasha", (script_na_steps, script_na_default_steps))].

Definition script_steps (outer c : string) : list arm_step :=
  match assoc script_tables outer with
  | Some (t, d) => (direct_steps outer ++ steps_of t d c)%list
  | None => [ASReject]
  end.

(* the step tables say the same as the arm records of Gen/LockTable.v and Gen/ScriptTables.v *)
Definition has_step (s : arm_step) (l : list arm_step) : bool :=
  existsb (fun x => match x, s with
                    | ASLock, ASLock | ASRLock, ASRLock | ASWrite, ASWrite | ASChkFollower, ASChkFollower
                    | ASChkReadonly, ASChkReadonly | ASChkCaughtup, ASChkCaughtup | ASReject, ASReject => true
                    | _, _ => false end) l.

Definition steps_agree_arm (a : arm) (st : list arm_step) : bool :=
  Bool.eqb (a_write a) (has_step ASWrite st) &&
  Bool.eqb (a_chk_follower a) (has_step ASChkFollower st) &&
  Bool.eqb (a_chk_readonly a) (has_step ASChkReadonly st) &&
  Bool.eqb (a_chk_caughtup a) (has_step ASChkCaughtup st) &&
  Bool.eqb (match a_reject a with RNo => false | _ => true end) (has_step ASReject st) &&
  match a_lock a with
  | LExcl => has_step ASLock st && negb (has_step ASRLock st)
  | LShared => has_step ASRLock st && negb (has_step ASLock st)
  | LNone => negb (has_step ASLock st) && negb (has_step ASRLock st)
  end.

Definition steps_agree (t : table) (ts : list (list string * list arm_step)) (d : list arm_step) : bool :=
  Nat.eqb (length (t_arms t)) (length ts) &&
  forallb (fun p => forallb (fun c => steps_agree_arm (arm_of t c) (steps_of ts d c)) (a_cmds (fst p)) &&
                    forallb (fun c => steps_agree_arm (arm_of t c) (steps_of ts d c)) (fst (snd p)))
          (combine (t_arms t) ts) &&
  steps_agree_arm (t_default t) d.

(* ---- 2. READONLY ---- *)

Inductive ro_reply := RoOK | RoInvalid.

(* a = args[1], ro = s.config.readOnly() before; result: reply and s.config.readOnly() after *)
Definition readonly_cmd (a : string) (ro : bool) : ro_reply * bool :=
  if in_strs (fold_case readonly_validate_folds_case a) readonly_valid_args then
    if String.eqb (fold_case readonly_branch_folds_case a) readonly_on_arg then (RoOK, true) else (RoOK, false)
  else (RoInvalid, ro).

Definition readonly_after (args : list string) (ro : bool) : bool :=
  fold_left (fun ro a => snd (readonly_cmd a ro)) args ro.

(* ---- 3. protected mode ---- *)

(* Config.setProperty(ProtectedMode, v, from_load): the new stored value, None = invalid argument *)
Definition set_protected (v : string) (from_load : bool) : option string :=
  let k := fold_case protected_validate_folds_case v in
  if String.eqb k "" then (if from_load then Some protected_default else None)
  else if in_strs k protected_valid_args then Some (fold_case protected_store_folds_case v)
  else None.

Definition mode_test (t : ptest) (m : string) : bool :=
  match t with PTNeq s => negb (String.eqb m s) | PTEq s => String.eqb m s end.

(* Server.isProtected. opt_no: started with --protected-mode no; bound: -h with an address other
   than 127.0.0.1 / ::1 / localhost *)
Definition is_protected (opt_no bound : bool) (mode : string) (has_pass : bool) : bool :=
  if opt_no then false else if bound then false else mode_test protected_test mode && negb has_pass.

(* the stored value and the property persisted in the config file *)
Record pstate := mkP { p_mode : string; p_saved : string }.

Inductive pevent :=
| PSet (v : string)   (* CONFIG SET protected-mode v *)
| PRewrite            (* CONFIG REWRITE *)
| PRestart.           (* process restart: loadConfig *)

Definition pstep (s : pstate) (e : pevent) : pstate :=
  match e with
  | PSet v => match set_protected v false with Some m => mkP m (p_saved s) | None => s end
  | PRewrite => mkP (p_mode s) (if String.eqb (p_mode s) protected_default then "" else p_mode s)
  | PRestart => match set_protected (p_saved s) true with
                | Some m => mkP m (p_saved s)
                | None => s     (* loadConfig fails: the server does not start, nothing is served *)
                end
  end.

Definition prun (es : list pevent) (s : pstate) : pstate := fold_left pstep es s.
Definition pstate0 : pstate := mkP protected_default "".

(* ---- 4. followStep: lpos and caught up ---- *)

(* one message read from the replication connection: its command word, its size on the wire (n of
   ReadMultiBulk) and, ghost, whether it is a record of the leader's log (liveAOF copies the log) or
   was written onto the connection by the leader's publish queue *)
Record fmsg := mkFmsg { fm_cmd : string; fm_len : Z; fm_logged : bool }.

Definition lpos_counts (cmd : string) : bool :=
  negb (in_strs (fold_case follow_lpos_skip_folds_case cmd) follow_lpos_skips).

(* the read loop from local state (lpos, caughtUp): final (caughtUp, lpos) *)
Fixpoint follow_loop (ms : list fmsg) (lpos aofsize : Z) (cu : bool) : bool * Z :=
  match ms with
  | [] => (cu, lpos)
  | m :: rest =>
      let lpos' := if lpos_counts (fm_cmd m) then (lpos + fm_len m)%Z else lpos in
      follow_loop rest lpos' aofsize (cu || (aofsize <=? lpos')%Z)
  end.

(* followStep after the handshake: pos from followCheckSome, aofsize from the leader's SERVER reply;
   true = setCaughtUp(true) was called (which also sets the sticky caughtUpOnce bit) *)
Definition follow_session (pos aofsize : Z) (ms : list fmsg) : bool :=
  fst (follow_loop ms pos aofsize (aofsize <=? pos)%Z).

Fixpoint logged_bytes (ms : list fmsg) : Z :=
  match ms with
  | [] => 0%Z
  | m :: rest => ((if fm_logged m then fm_len m else 0) + logged_bytes rest)%Z
  end.
