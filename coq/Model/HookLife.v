(* Model/HookLife.v — life cycle of hooks and channels: executable transcription, no proofs
   (Proofs/HookLifeProofs.v, Props/C03hk.v, Props/C14.v, Props/C19.v).

   /repo/internal/server/hooks.go   cmdSetHook (SETHOOK / SETCHAN incl. META, EX, the "Equals ->
                                    nothing to do" path and the hook/channel name clash),
                                    cmdDELHOOKop, cmdDelHook (DELHOOK / DELCHAN), cmdPDelHook
                                    (PDELHOOK / PDELCHAN), forEachHookByPattern, cmdHooks (HOOKS /
                                    CHANS incl. the ttl of the JSON listing), Hook.Equals,
                                    byHookExpires
   /repo/internal/server/expire.go  backgroundExpireHooks
   /repo/internal/server/crud.go    cmdFLUSHDB (hook part), cmdRENAME's hook guard
   /repo/internal/server/server.go  handleInputCommand: a command of the write arm is handed to
                                    writeAOF, which appends it iff d.updated

     exec : oracle -> Z (now) -> state -> list bytes -> state * reply * bool
            the flag is d.updated = "writeAOF appended msg.Args to the log"
     sweep : Z (now) -> state -> state * list (list bytes)      the records it appended

   Containers. Server.hooks is a B-tree keyed by name: a sorted association list (Base/SMap.v).
   Server.hookExpires is a B-tree of *Hook ordered by byHookExpires = (expires, name): the sorted list
   of keys (deadline, name) of Model/Expire.v (same insert / remove / early-stop scan as the object
   index). The kind of an index item (h.channel in backgroundExpireHooks) is read from the registered
   hook of that name: the item is the registered hook or an Equals-clone of it, and cmdSetHook compares
   the kinds before it compares anything else. hooksOut / hookTree / hookCross / groups are C05's
   subject (Model/HookReg.v) and carry no life-cycle information.

   Opaque (oracle record, instantiated by the harness from direct calls into the libraries):
   strings.TrimSpace, endpoint validation (endpoint.parseEndpoint), strconv.ParseFloat followed by
   time.Duration(v * float64(time.Second)), and the fence command parser (cmdSearchArgs, the FENCE
   test, newScanWriter's output check) which yields the key or an error.  time.Now() is the argument
   [now] (nanoseconds); a deadline is [option Z] — time.Now().Add(d) is never the zero time.  One
   clock reading per command (the code reads the clock again for d.timestamp and start; nothing
   observable depends on the difference). strings.ToLower on ASCII letters only. *)
From Coq Require Import String.
From Coq Require Import List Bool ZArith NArith.
From T38 Require Import Base.Bytes Base.SMap Model.Spec Model.Glob.
From T38 Require Model.Expire Model.Keyspace Model.Resp Model.Aof.
Import ListNotations.
Local Open Scope string_scope.
Local Open Scope list_scope.
Local Open Scope Z_scope.

Record hook := mkHook {
  h_name : bytes;
  h_chan : bool;                    (* channel *)
  h_key : bytes;                    (* Key = args.key *)
  h_eps : list bytes;               (* Endpoints *)
  h_args : list bytes;              (* Message.Args = the fence command as sent (commandvs) *)
  h_metas : list (bytes * bytes);   (* Metas, sorted by name *)
  h_ex : option Z                   (* expires; None = IsZero() *)
}.

Record state := mkState {
  hooks : smap hook;                (* Server.hooks *)
  hexp : list Expire.entry          (* Server.hookExpires *)
}.

Definition empty : state := mkState [] [].

Inductive fres := FOk (key : bytes) | FErr (msg : bytes).

Record oracle := mkOracle {
  o_trim : bytes -> bytes;                    (* strings.TrimSpace *)
  o_valid : bytes -> bool;                    (* s.epc.Validate(url) == nil *)
  o_dur : bytes -> option Z;                  (* ParseFloat ok -> int64(v * 1e9) *)
  o_fence : bytes -> list bytes -> fres       (* cmdSearchArgs(true, cmdlc, vs, types) ... newScanWriter *)
}.

(* one element of HOOKS / CHANS: name, key, ttl (JSON only; -1 = none), endpoints, command, meta *)
Record litem := mkItem {
  l_name : bytes; l_key : bytes; l_ttl : Z; l_eps : list bytes; l_args : list bytes; l_metas : list (bytes * bytes)
}.

Inductive reply := RInt (n : Z) | ROk | RErr (msg : bytes) | RList (l : list litem).

(* ---------- strings ---------- *)
Definition err_nargs : bytes := Eval compute in bs "invalid number of arguments".
Definition err_samename : bytes := Eval compute in bs "hooks and channels cannot share the same name".
Definition err_has_hooks : bytes := Eval compute in bs "key has hooks set".
Definition err_has_chans : bytes := Eval compute in bs "key has channels set".
Definition err_unknown : bytes := Eval compute in bs "unknown command".
Definition invalid_argument (a : bytes) : bytes := bs "invalid argument '" ++ a ++ bs "'".
Definition local_prefix : bytes := Eval compute in bs "local://".

Definition c_sethook : bytes := Eval compute in bs "sethook".
Definition c_setchan : bytes := Eval compute in bs "setchan".
Definition c_delhook : bytes := Eval compute in bs "delhook".
Definition c_delchan : bytes := Eval compute in bs "delchan".
Definition c_pdelhook : bytes := Eval compute in bs "pdelhook".
Definition c_pdelchan : bytes := Eval compute in bs "pdelchan".
Definition c_hooks : bytes := Eval compute in bs "hooks".
Definition c_chans : bytes := Eval compute in bs "chans".
Definition c_flushdb : bytes := Eval compute in bs "flushdb".
Definition kw_meta : bytes := Eval compute in bs "meta".
Definition kw_ex : bytes := Eval compute in bs "ex".
Definition kw_nearby : bytes := Eval compute in bs "nearby".
Definition kw_within : bytes := Eval compute in bs "within".
Definition kw_intersects : bytes := Eval compute in bs "intersects".

Definition lower := Keyspace.lower.
Definition isnil (b : bytes) : bool := match b with [] => true | _ => false end.

(* strings.Split(s, ","): never empty; "" gives [""] *)
Fixpoint split_comma (s : bytes) (cur : bytes) : list bytes :=
  match s with
  | [] => [rev cur]
  | c :: r => if (c =? 44)%N then rev cur :: split_comma r [] else split_comma r (c :: cur)
  end.

(* ---------- Hook.Equals ---------- *)
Fixpoint list_eqb {A} (eq : A -> A -> bool) (a b : list A) : bool :=
  match a, b with
  | [], [] => true
  | x :: a', y :: b' => eq x y && list_eqb eq a' b'
  | _, _ => false
  end.
Definition meta_eqb (a b : bytes * bytes) : bool := bytes_eqb (fst a) (fst b) && bytes_eqb (snd a) (snd b).
Definition ex_eqb (a b : option Z) : bool :=
  match a, b with
  | None, None => true
  | Some x, Some y => x =? y
  | _, _ => false
  end.
(* Key, Name, the two lengths, expires, endpoints, metas, Message.Args — in the order of the code;
   the kind is not compared (cmdSetHook compares it first) *)
Definition hook_equals (h g : hook) : bool :=
  if negb (bytes_eqb (h_key h) (h_key g)) || negb (bytes_eqb (h_name h) (h_name g)) ||
     negb (Nat.eqb (length (h_eps h)) (length (h_eps g))) || negb (Nat.eqb (length (h_metas h)) (length (h_metas g)))
  then false
  else if negb (ex_eqb (h_ex h) (h_ex g)) then false
  else if negb (list_eqb bytes_eqb (h_eps h) (h_eps g)) then false
  else if negb (list_eqb meta_eqb (h_metas h) (h_metas g)) then false
  else list_eqb bytes_eqb (h_args h) (h_args g).

(* ---------- index maintenance ---------- *)
Definition idx_drop (h : hook) (l : list Expire.entry) : list Expire.entry :=      (* if !h.expires.IsZero() { hookExpires.Delete(h) } *)
  match h_ex h with Some d => Expire.remove (d, h_name h) l | None => l end.
Definition idx_set (h : hook) (l : list Expire.entry) : list Expire.entry :=       (* if !h.expires.IsZero() { hookExpires.Set(h) } *)
  match h_ex h with Some d => Expire.insert (d, h_name h) l | None => l end.

(* ---------- cmdSetHook ---------- *)
Inductive pres := POk (cmdlc : bytes) (commandvs rest : list bytes) (metas : smap bytes) (ex : option Z) | PErr (msg : bytes).

(* the for-loop over META / EX up to the fence command; metaMap is a map (sorted by name afterwards);
   fuel = number of tokens + 1 *)
Fixpoint parse_opts (O : oracle) (fuel : nat) (vs : list bytes) (metas : smap bytes) (ex : option Z) : pres :=
  match fuel with
  | 0%nat => PErr err_nargs
  | S fuel' =>
      match vs with
      | [] => PErr err_nargs
      | cmd :: vs1 =>
          if isnil cmd then PErr err_nargs else
          let cmdlc := lower cmd in
          if bytes_eqb cmdlc kw_meta then
            match vs1 with
            | [] => PErr err_nargs
            | mk :: vs2 =>
                if isnil mk then PErr err_nargs else
                match vs2 with
                | [] => PErr err_nargs
                | mv :: vs3 => if isnil mv then PErr err_nargs else parse_opts O fuel' vs3 (set mk mv metas) ex
                end
            end
          else if bytes_eqb cmdlc kw_ex then
            match vs1 with
            | [] => PErr err_nargs
            | sv :: vs2 =>
                if isnil sv then PErr err_nargs else
                match o_dur O sv with
                | None => PErr (invalid_argument sv)
                | Some d => parse_opts O fuel' vs2 metas (Some d)
                end
            end
          else if bytes_eqb cmdlc kw_nearby || bytes_eqb cmdlc kw_within || bytes_eqb cmdlc kw_intersects then
            POk cmdlc vs vs1 metas ex
          else PErr (invalid_argument cmd)
      end
  end.

(* the endpoint loop: the first invalid url ends the command *)
Fixpoint parse_urls (O : oracle) (pieces : list bytes) (acc : list bytes) : list bytes + bytes :=
  match pieces with
  | [] => inl acc
  | p :: r => let url := o_trim O p in if o_valid O url then parse_urls O r (acc ++ [url]) else inr (invalid_argument url)
  end.

(* everything cmdSetHook does before it looks at the registry: the hook it builds, or the error *)
Definition parse_sethook (O : oracle) (now : Z) (args : list bytes) (channel : bool) : hook + bytes :=
  match tl args with
  | [] => inr err_nargs
  | name :: vs1 =>
      if isnil name then inr err_nargs else
      let eps :=
        if channel then inl ([local_prefix ++ name], vs1)
        else match vs1 with
             | [] => inr err_nargs
             | urls :: vs2 =>
                 if isnil urls then inr err_nargs else
                 match parse_urls O (split_comma urls []) [] with
                 | inl l => inl (l, vs2)
                 | inr e => inr e
                 end
             end in
      match eps with
      | inr e => inr e
      | inl (endpoints, vs) =>
          match parse_opts O (S (length vs)) vs [] None with
          | PErr e => inr e
          | POk cmdlc commandvs rest metas dur =>
              match o_fence O cmdlc rest with
              | FErr e => inr e
              | FOk key =>
                  inl (mkHook name channel key endpoints commandvs metas
                         (match dur with Some d => Some (now + d) | None => None end))
              end
          end
      end
  end.

(* ... and from `prevHook, _ := s.hooks.Get(&Hook{Name: name})` on *)
Definition reg_sethook (s : state) (h : hook) : state * reply * bool :=
  let name := h_name h in
  match get name (hooks s) with
  | Some prev =>
      if negb (Bool.eqb (h_chan prev) (h_chan h)) then (s, RErr err_samename, false)
      else if hook_equals prev h then
        (* it was a match so we do nothing: if !hook.expires.IsZero() { s.hookExpires.Set(hook) } *)
        (mkState (hooks s) (idx_set h (hexp s)), RInt 0, false)
      else
        (* s.hooks.Delete(prevHook); hookExpires.Delete(prevHook); ...; s.hooks.Set(hook); hookExpires.Set(hook) *)
        (mkState (set name h (del name (hooks s))) (idx_set h (idx_drop prev (hexp s))), RInt 1, true)
  | None => (mkState (set name h (hooks s)) (idx_set h (hexp s)), RInt 1, true)
  end.

Definition cmd_sethook (O : oracle) (now : Z) (s : state) (args : list bytes) (channel : bool) : state * reply * bool :=
  match parse_sethook O now args channel with
  | inr e => (s, RErr e, false)
  | inl h => reg_sethook s h
  end.

(* ---------- cmdDELHOOKop / cmdDelHook / cmdPDelHook ---------- *)
Definition delhook_op (s : state) (name : bytes) (channel : bool) : state * bool :=
  match get name (hooks s) with
  | None => (s, false)
  | Some h =>
      if negb (Bool.eqb (h_chan h) channel) then (s, false)
      else (mkState (del name (hooks s)) (idx_drop h (hexp s)), true)
  end.

Definition cmd_delhook (s : state) (args : list bytes) (channel : bool) : state * reply * bool :=
  match tl args with
  | [name] =>
      if isnil name then (s, RErr err_nargs, false) else
      let (s', upd) := delhook_op s name channel in
      (s', RInt (if upd then 1 else 0), upd)
  | _ => (s, RErr err_nargs, false)
  end.

(* forEachHookByPattern: Ascend from Limits[0]; stop at the first name > Limits[1] when Limits[1] != "";
   kind and glob.Match filter *)
Definition hook_range (pat : bytes) (m : smap hook) : smap hook :=
  let g := parse pat false in
  let from := Keyspace.drop_below (g_lim0 g) m in
  if isnil (g_lim1 g) then from else Keyspace.take_upto (g_lim1 g) true from.

Definition by_pattern (pat : bytes) (channel : bool) (m : smap hook) : list hook :=
  filter (fun h => Bool.eqb (h_chan h) channel && Keyspace.matchesb pat (h_name h)) (vals (hook_range pat m)).

Definition cmd_pdelhook (s : state) (args : list bytes) (channel : bool) : state * reply * bool :=
  match tl args with
  | [pat] =>
      if isnil pat then (s, RErr err_nargs, false) else
      let hs := by_pattern pat channel (hooks s) in
      (* for _, hook := range hooks { if hook.channel != channel { continue }; cmdDELHOOKop; updated = true; count++ } *)
      let hs' := filter (fun h => Bool.eqb (h_chan h) channel) hs in
      let s' := fold_left (fun s h => fst (delhook_op s (h_name h) channel)) hs' s in
      (s', RInt (Z.of_nat (length hs')), negb (isempty hs'))
  | _ => (s, RErr err_nargs, false)
  end.

(* ---------- cmdHooks ---------- *)
(* ttl = int(hook.expires.Sub(start).Seconds()), negative -> 0; -1 without deadline *)
Definition ttl_of (now : Z) (h : hook) : Z :=
  match h_ex h with
  | None => -1
  | Some d => let t := Z.quot (d - now) 1000000000 in if t <? 0 then 0 else t
  end.

Definition item_of (now : Z) (h : hook) : litem :=
  mkItem (h_name h) (h_key h) (ttl_of now h) (h_eps h) (h_args h) (h_metas h).

Definition cmd_hooks (now : Z) (s : state) (args : list bytes) (channel : bool) : state * reply * bool :=
  match tl args with
  | [pat] =>
      if isnil pat then (s, RErr err_nargs, false)
      else (s, RList (map (item_of now) (by_pattern pat channel (hooks s))), false)
  | _ => (s, RErr err_nargs, false)
  end.

(* ---------- cmdFLUSHDB: every channel, then every hook goes through cmdDELHOOKop, then
   hookExpires.Clear() and hooks.Clear() ---------- *)
Definition cmd_flushdb (s : state) (args : list bytes) : state * reply * bool :=
  match args with
  | [_] => (empty, ROk, true)
  | _ => (s, RErr err_nargs, false)
  end.

(* ---------- the command switch (Server.command) for the hook / channel commands ---------- *)
Definition exec (O : oracle) (now : Z) (s : state) (args : list bytes) : state * reply * bool :=
  match args with
  | [] => (s, RErr err_unknown, false)
  | a0 :: _ =>
      let c := lower a0 in
      if bytes_eqb c c_sethook then cmd_sethook O now s args false
      else if bytes_eqb c c_setchan then cmd_sethook O now s args true
      else if bytes_eqb c c_delhook then cmd_delhook s args false
      else if bytes_eqb c c_delchan then cmd_delhook s args true
      else if bytes_eqb c c_pdelhook then cmd_pdelhook s args false
      else if bytes_eqb c c_pdelchan then cmd_pdelhook s args true
      else if bytes_eqb c c_hooks then cmd_hooks now s args false
      else if bytes_eqb c c_chans then cmd_hooks now s args true
      else if bytes_eqb c c_flushdb then cmd_flushdb s args
      else (s, RErr err_unknown, false)
  end.

(* what writeAOF appends for a command of the write arm *)
Definition logrec (args : list bytes) (upd : bool) : list (list bytes) := if upd then [args] else [].

(* ---------- backgroundExpireHooks ---------- *)
(* the Ascend with its early stop (h.expires.After(now) -> stop) builds one message per item;
   the kind is the item's *)
Definition victim_msg (s : state) (e : Expire.entry) : list bytes :=
  match get (snd e) (hooks s) with
  | Some h => if h_chan h then [c_delchan; snd e] else [c_delhook; snd e]
  | None => [c_delhook; snd e]
  end.

Definition sweep_msgs (now : Z) (s : state) : list (list bytes) :=
  map (victim_msg s) (Expire.victims now (hexp s)).

(* for _, msg := range msgs { _, d, _ := s.cmdDelHook(msg); s.writeAOF(msg.Args, &d) } *)
Definition sweep_step (sl : state * list (list bytes)) (msg : list bytes) : state * list (list bytes) :=
  let '(s, log) := sl in
  let '(s', _, upd) := cmd_delhook s msg (bytes_eqb (hd [] msg) c_delchan) in
  (s', log ++ logrec msg upd).

Definition sweep (now : Z) (s : state) : state * list (list bytes) :=
  fold_left sweep_step (sweep_msgs now s) (s, []).

(* ---------- cmdRENAME's guard: a hook (first) or channel on either key refuses the rename ---------- *)
Definition rename_guard (s : state) (key newkey : bytes) : option bytes :=
  let touching := filter (fun h => bytes_eqb (h_key h) key || bytes_eqb (h_key h) newkey) (vals (hooks s)) in
  if existsb (fun h => negb (h_chan h)) touching then Some err_has_hooks
  else if existsb h_chan touching then Some err_has_chans
  else None.

(* ---------- programs: commands at their clock readings, and sweeper passes ---------- *)
Inductive pstep := PCmd (now : Z) (args : list bytes) | PSweep (now : Z).

Definition pstep_run (O : oracle) (s : state) (p : pstep) : state * list (list bytes) :=
  match p with
  | PCmd now args => let '(s', _, upd) := exec O now s args in (s', logrec args upd)
  | PSweep now => sweep now s
  end.

Definition prun (O : oracle) (p : list pstep) (s0 : state) : state :=
  fold_left (fun s st => fst (pstep_run O s st)) p s0.

Fixpoint plog (O : oracle) (p : list pstep) (s : state) : list (list bytes) :=
  match p with
  | [] => []
  | st :: p' => let (s', l) := pstep_run O s st in l ++ plog O p' s'
  end.

(* start-up: every record of the log goes through Server.command at the clock of the replay (errors
   are ignored, commandErrIsFatal); [clk i] is the clock reading of the i-th record *)
Fixpoint replay_at (O : oracle) (clk : nat -> Z) (i : nat) (l : list (list bytes)) (s : state) : state :=
  match l with
  | [] => s
  | c :: l' => replay_at O clk (S i) l' (fst (fst (exec O (clk i) s c)))
  end.

(* start-up on a byte string: loadAOF repairs the tail (Model/Aof.v), the records are applied *)
Definition recover_at (O : oracle) (clk : nat -> Z) (file : bytes) (s0 : state) : option (state * Z) :=
  match Aof.load_whole file with
  | Aof.Loaded cmds sz => Some (replay_at O clk 0 cmds s0, sz)
  | _ => None
  end.

(* the same program with every sweeper pass written out as the commands it executes, each command
   with its clock reading *)
Fixpoint flat (O : oracle) (p : list pstep) (s : state) : list (Z * list bytes) :=
  match p with
  | [] => []
  | PCmd t a :: p' => (t, a) :: flat O p' (fst (fst (exec O t s a)))
  | PSweep t :: p' => map (pair t) (sweep_msgs t s) ++ flat O p' (fst (sweep t s))
  end.

(* the frozen-clock command semantics in the shape Model/Replay.v expects *)
Definition hk_exec (O : oracle) (now : Z) (s : state) (c : list bytes) : state * bool :=
  let '(s', _, upd) := exec O now s c in (s', upd).

(* ≈ex: the registry with every deadline reduced to "has a deadline" *)
Definition erase_hook (h : hook) : hook :=
  mkHook (h_name h) (h_chan h) (h_key h) (h_eps h) (h_args h) (h_metas h)
         (match h_ex h with Some _ => Some 0 | None => None end).
Definition er (s : state) : smap hook := smap_map erase_hook (hooks s).
