(* C11 — executable model of cursor pagination.  No proofs here.

   Transcribed from
     /repo/internal/collection/collection.go   Scan, ScanRange, SearchValues, SearchValuesRange,
                                               Within / Intersects (geoSearch branch), Nearby, nextStep
     /repo/internal/server/scanner.go          newScanWriter (limit default), Offset, Step,
                                               pushObject, writeFoot
     /repo/internal/server/search.go           cmdNearby's radius cut (the early-stop callback)

   Every one of the collection iterators has the same skeleton:

       offset = cursor.Offset(); cursor.Step(offset)          (numberIters := cursor)
       for each index entry o, in the index order:            (B-tree Scan/Reverse/Ascend/Descend,
         count++                                               R-tree Search, R-tree Nearby)
         if count <= offset { continue }
         nextStep(count, cursor, deadline)                     (numberIters++)
         [range end test / radius test: return false]          (ScanRange: id >= end; cmdNearby: dist > maxDist)
         keepon = iterator(o)   =  sw.pushObject(o)
         if !keepon { break }

   `src` is the sequence of index entries the iterator would deliver if nothing stopped it: the
   "unchanging collection".  `stop` is the early-exit test that is evaluated after the visit has
   been counted, `test` is pushObject's testObject (MATCH globs, WHERE, WHEREIN, WHEREEVAL) conjoined,
   for WITHIN / INTERSECTS, with the geometry predicate evaluated before pushObject is reached.

   uint64 wrap-around: count <= length src and numberIters = cursor + (number of visited entries);
   when cursor + length src would exceed 2^64 no entry is visited at all (count <= offset for
   every entry), so neither counter can wrap for any collection that fits in memory; N is used
   without a modulus. *)
From Coq Require Import List NArith Bool.
From T38 Require Import Base.Bytes.
Import ListNotations.
Open Scope N_scope.

Section Cursor.
  Context {A : Type}.
  Variable test : A -> bool.
  Variable stop : A -> bool.

  (* the scanWriter fields that take part in pagination *)
  Record sw : Type := mkSW {
    sw_iters : N;        (* numberIters *)
    sw_items : N;        (* numberItems *)
    sw_hit : bool;       (* hitLimit *)
    sw_filled : list A   (* filled, in push order *)
  }.

  (* func (sw *scanWriter) Step(n uint64) { sw.numberIters += n } *)
  Definition sw_step (w : sw) (n : N) : sw :=
    mkSW (sw_iters w + n) (sw_items w) (sw_hit w) (sw_filled w).

  (* func nextStep(step uint64, cursor Cursor, deadline *deadline.Deadline) {
       if step&(yieldStep-1) == (yieldStep - 1) { runtime.Gosched(); deadline.Check() }
       if cursor != nil { cursor.Step(1) }
     }
     Two independent statements: on every 256th visited entry (step = 255, 511, ...) the goroutine
     yields and the deadline is checked — neither touches the writer — and, yield or not, the
     cursor is stepped.  (The cursor is the scanWriter in every paginated command, never nil.) *)
  Definition yield_step : N := 256.
  Definition yields (step : N) : bool := N.land step (yield_step - 1) =? yield_step - 1.
  Definition next_step (step : N) (w : sw) : sw :=
    let w := if yields step then w (* Gosched; deadline.Check *) else w in
    sw_step w 1.

  (* pushObject, output other than COUNT:
       ok := testObject(o); if !ok { return keepGoing(=true) }
       sw.filled = append(sw.filled, opts); sw.numberItems++
       if sw.numberItems == sw.limit { sw.hitLimit = true; return false }
       return true *)
  Definition push_object (limit : N) (w : sw) (o : A) : sw * bool :=
    if test o then
      let w1 := mkSW (sw_iters w) (sw_items w + 1) (sw_hit w) (sw_filled w ++ [o]) in
      if sw_items w1 =? limit
      then (mkSW (sw_iters w1) (sw_items w1) true (sw_filled w1), false)
      else (w1, true)
    else (w, true).

  (* the iterator body run over the index order *)
  Fixpoint iterate (limit offset : N) (src : list A) (count : N) (w : sw) : sw :=
    match src with
    | [] => w
    | o :: rest =>
        let count := count + 1 in
        if count <=? offset then iterate limit offset rest count w
        else
          let w := next_step count w in                 (* nextStep(count, cursor, deadline) *)
          if stop o then w                              (* return false before the iterator *)
          else
            let '(w, keepon) := push_object limit w o in
            if keepon then iterate limit offset rest count w else w
    end.

  (* newScanWriter: limit == 0 means the default of 100 items (limitItems) for item outputs *)
  Definition limit_items : N := 100.
  Definition eff_limit (limit : N) : N := if limit =? 0 then limit_items else limit.

  (* one query: the items of the reply and the cursor of the reply
     (writeFoot: cursor := numberIters; if !hitLimit { cursor = 0 }) *)
  Definition page (src : list A) (cursor limit : N) : list A * N :=
    let w0 := sw_step (mkSW 0 0 false []) cursor in     (* cursor.Step(offset) *)
    let w := iterate limit cursor src 0 w0 in
    (sw_filled w, if sw_hit w then sw_iters w else 0).

  (* the client loop: re-issue with the returned cursor until it is 0 *)
  Inductive pages_result : Type :=
  | Pages (ps : list (list A))
  | PagesFuel.

  Fixpoint pages_from (fuel : nat) (src : list A) (limit cursor : N) : pages_result :=
    match fuel with
    | O => PagesFuel
    | S fuel' =>
        let '(items, c) := page src cursor limit in
        if c =? 0 then Pages [items]
        else match pages_from fuel' src limit c with
             | Pages ps => Pages (items :: ps)
             | PagesFuel => PagesFuel
             end
    end.

  Definition pages (src : list A) (limit : N) : pages_result :=
    pages_from (S (length src)) src limit 0.

  (* COUNT output: pushObject counts and returns before anything is appended
       sw.count++
       if sw.output == outputCount { return sw.count < sw.limit, nil }
     so numberItems / hitLimit are never touched: the reply is the integer sw.count and no cursor
     (newScanWriter: without LIMIT the limit of a COUNT query is MaxUint64). *)
  Fixpoint count_iterate (limit offset : N) (src : list A) (count : N) (n : N) : N :=
    match src with
    | [] => n
    | o :: rest =>
        let count := count + 1 in
        if count <=? offset then count_iterate limit offset rest count n
        else if stop o then n
        else if test o then
          let n := n + 1 in
          if n <? limit then count_iterate limit offset rest count n else n
        else count_iterate limit offset rest count n
    end.
  Definition count_query (src : list A) (cursor limit : N) : N :=
    count_iterate limit cursor src 0 0.

  (* the COUNT shortcut of cmdScan / cmdSearch (no filter): the index size minus the cursor, and,
     as repaired by proposed_fixes/C12-count-shortcut-limit.diff, at most LIMIT *)
  Definition count_shortcut (src : list A) (cursor limit : N) : N :=
    let total := N.of_nat (length src) in
    let c := if total <=? cursor then 0 else total - cursor in
    if limit <? c then limit else c.

  (* the shortcut as it is in the tree today (scan.go / search.go): LIMIT is ignored
     (count := col.Count() - int(cursor); if count < 0 { count = 0 }) *)
  Definition count_shortcut_unpatched (src : list A) (cursor : N) : N :=
    let total := N.of_nat (length src) in
    if total <=? cursor then 0 else total - cursor.

  (* what one query without an effective limit returns: every accepted entry before the first
     entry at which the early-exit test fires *)
  Fixpoint until_stop (src : list A) : list A :=
    match src with
    | [] => []
    | o :: rest => if stop o then [] else o :: until_stop rest
    end.

  Definition unlimited (src : list A) : list A := filter test (until_stop src).
End Cursor.

Arguments Pages {A} ps.
Arguments PagesFuel {A}.

(* ---- the index orders of the concrete iterators ---- *)

(* B-tree Ascend(pivot) over ascending keys: the suffix from the first key >= pivot *)
Fixpoint ascend_from (pivot : bytes) (ids : list bytes) : list bytes :=
  match ids with
  | [] => []
  | x :: r => if bytes_leb pivot x then ids else ascend_from pivot r
  end.

(* B-tree Descend(pivot): keys <= pivot, largest first (ids ascending) *)
Definition descend_from (pivot : bytes) (ids : list bytes) : list bytes :=
  rev (filter (fun x => bytes_leb x pivot) ids).

(* Collection.Scan: objs.Scan / objs.Reverse, no early exit of its own *)
Definition scan_src (desc : bool) (ids : list bytes) : list bytes :=
  if desc then rev ids else ids.
Definition scan_page (test : bytes -> bool) (desc : bool) (ids : list bytes) (cursor limit : N) :=
  page test (fun _ => false) (scan_src desc ids) cursor limit.

(* Collection.ScanRange: objs.Ascend(start) / objs.Descend(start); the end test runs after the
   visit was counted:  !desc: o.ID() >= end -> false ;  desc: o.ID() <= end -> false *)
Definition scan_range_src (desc : bool) (start : bytes) (ids : list bytes) : list bytes :=
  if desc then descend_from start ids else ascend_from start ids.
Definition scan_range_stop (desc : bool) (end_ : bytes) (id : bytes) : bool :=
  if desc then bytes_leb id end_ else bytes_leb end_ id.
Definition scan_range_page (test : bytes -> bool) (desc : bool) (start end_ : bytes)
    (ids : list bytes) (cursor limit : N) :=
  page test (scan_range_stop desc end_) (scan_range_src desc start ids) cursor limit.

(* Collection.SearchValues / SearchValuesRange: entries are (value, id) in value-then-id order.
   The range version tests the end *before* calling iter (bLT(item, pend) && iter(item)), so the
   entry that ends the range is not counted: it is simply not part of the source. *)
Definition ventry : Type := (bytes * bytes)%type.
Definition ventry_leb (a b : ventry) : bool :=
  match bytes_cmp (fst a) (fst b) with
  | Lt => true
  | Gt => false
  | Eq => bytes_leb (snd a) (snd b)
  end.
Definition ventry_ltb (a b : ventry) : bool := negb (ventry_leb b a).

Fixpoint take_while {A} (f : A -> bool) (l : list A) : list A :=
  match l with
  | [] => []
  | x :: r => if f x then x :: take_while f r else []
  end.
Fixpoint drop_while {A} (f : A -> bool) (l : list A) : list A :=
  match l with
  | [] => []
  | x :: r => if f x then drop_while f r else l
  end.

Definition search_values_src (desc : bool) (vals : list ventry) : list ventry :=
  if desc then rev vals else vals.
Definition search_values_range_src (desc : bool) (start end_ : bytes) (vals : list ventry) : list ventry :=
  let pstart : ventry := (start, []) in
  let pend : ventry := (end_, []) in
  if desc
  then take_while (fun it => ventry_ltb pend it) (drop_while (fun it => negb (ventry_leb it pstart)) (rev vals))
  else take_while (fun it => ventry_ltb it pend) (drop_while (fun it => negb (ventry_leb pstart it)) vals).
Definition search_page (test : ventry -> bool) (desc : bool) (vals : list ventry) (cursor limit : N) :=
  page test (fun _ => false) (search_values_src desc vals) cursor limit.
Definition search_range_page (test : ventry -> bool) (desc : bool) (start end_ : bytes)
    (vals : list ventry) (cursor limit : N) :=
  page test (fun _ => false) (search_values_range_src desc start end_ vals) cursor limit.

(* Within / Intersects (sparse = 0): geoSearch delivers the R-tree entries whose rectangle
   overlaps the query rectangle, in the tree's order `cands`; the geometry predicate `hit` is
   evaluated after the visit was counted, and only then pushObject. *)
Definition geo_page {A} (hit test : A -> bool) (cands : list A) (cursor limit : N) :=
  page (fun o => hit o && test o) (fun _ => false) cands cursor limit.

(* Nearby: entries in the kNN order with their distances; cmdNearby's callback returns false
   when maxDist > 0 && dist > maxDist, before pushObject. *)
Definition nearby_stop (max_dist : Z) (e : bytes * Z) : bool :=
  (0 <? max_dist)%Z && (max_dist <? snd e)%Z.
Definition nearby_page (test : bytes * Z -> bool) (max_dist : Z) (order : list (bytes * Z))
    (cursor limit : N) :=
  page test (nearby_stop max_dist) order cursor limit.
