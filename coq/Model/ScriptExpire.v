(* Deadline-changing commands issued through tile38.call in a script, over the expiry model
   (Model/Expire.v) and the script tables that t38x regenerates from /repo (Gen/ScriptTables.v:
   luaTile38AtomicRW / AtomicRO / NonAtomic).  A call runs iff the variant's gate lets it through
   (Gate.script_gate); it is appended to the log iff it stands in an arm with `write = true` and the
   dispatcher has `if write { writeAOF }` after the call.  A restart (and a follower) sees only the
   log — replayed at ITS clock, so every relative `EX n` is re-armed from then: same command, same
   id, same "has a deadline", another deadline value ([op_sim]).  Functions only. *)
From Coq Require Import ZArith String List Bool.
From T38 Require Import Base.Bytes Model.Expire Model.Tables Gen.ScriptTables Gen.Dispatch Model.Gate.
Import ListNotations.

(* commands that create, move, remove a deadline or the thing that carries it — objects and hooks *)
Definition deadline_cmds : list string :=
  ["set"; "expire"; "persist"; "del"; "pdel"; "drop"; "flushdb"; "rename"; "renamenx";
   "sethook"; "setchan"; "delhook"; "delchan"; "pdelhook"; "pdelchan"]%string.

(* what the source has to satisfy for one command under one variant table: refused for scripts
   altogether, or refused by the arm (read-only variant / not supported), or in a logging arm *)
Definition dl_check (t : table) (c : string) : bool :=
  in_strs c script_deny ||
  match a_reject (arm_of t c) with
  | RNo => a_write (arm_of t c) && t_logs_on_write t
  | _ => true
  end.

Definition dl_check_all : bool :=
  forallb (fun vt => forallb (dl_check (snd vt)) deadline_cmds) script_variant.

Definition op_cmd (o : op) : string :=
  match o with OSet _ _ _ => "set" | OExpire _ _ => "expire" | OPersist _ => "persist" | ODel _ => "del" end%string.

(* one tile38.call under table t with the server in condition e: (live collection, log) *)
Definition call (t : table) (st : coll * list op) (eo : env * op) : coll * list op :=
  match script_gate t (op_cmd (snd eo)) (fst eo) with
  | SRun _ w _ => (apply (fst st) (snd eo), if w && t_logs_on_write t then (snd st ++ [snd eo])%list else snd st)
  | _ => st
  end.

Definition script_run (t : table) (calls : list (env * op)) (st : coll * list op) : coll * list op :=
  fold_left (call t) calls st.

(* the same record replayed at another clock *)
Definition zstat (a b : Z) : Prop := (a =? 0)%Z = (b =? 0)%Z.
Definition op_sim (a b : op) : Prop :=
  match a, b with
  | OSet i v x, OSet i' v' x' => i = i' /\ v = v' /\ zstat x x'
  | OExpire i x, OExpire i' x' => i = i' /\ zstat x x'
  | OPersist i, OPersist i' => i = i'
  | ODel i, ODel i' => i = i'
  | _, _ => False
  end.

(* two id indexes that agree on ids, order, payloads and on which objects have a deadline *)
Definition obj_sim (a b : bytes * obj) : Prop :=
  fst a = fst b /\ o_val (snd a) = o_val (snd b) /\ zstat (o_ex (snd a)) (o_ex (snd b)).
Definition objs_sim (l l' : list (bytes * obj)) : Prop := Forall2 obj_sim l l'.
