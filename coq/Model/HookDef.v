(* Model/HookDef.v — Hook.Equals (hooks.go) and the definition that is in force under a hook name.

   cmdSetHook takes its early "nothing to do" return when prevHook.Equals(hook); the registry model
   (Model/HookReg.v, Model/HookRegOps.v) receives that verdict as the input equal_prev.  Here Equals
   itself is transcribed: a list of tests, each a compared field and the comparison used for it, any
   of which makes Equals return false.  t38x (t38x/hookequals.go) re-reads that list from the source on
   every run into coq/Gen/HookEquals.v (equals_checks); Proofs/HookDefProofs.v proves that with the list
   read from the source Equals is byte-identity of the two definitions.  No proofs here. *)
From Coq Require Import List NArith ZArith Bool.
From T38 Require Import Base.Bytes.
Import ListNotations.

(* what SETHOOK / SETCHAN stores and Equals looks at *)
Record hdef := {
  hd_key : bytes;                      (* Hook.Key *)
  hd_name : bytes;                     (* Hook.Name *)
  hd_endpoints : list bytes;           (* Hook.Endpoints ("local://name" for a channel) *)
  hd_metas : list (bytes * bytes);     (* Hook.Metas, sorted by name *)
  hd_expires : Z;                      (* Hook.expires *)
  hd_args : list bytes                 (* Hook.Message.Args: the tokens from NEARBY / WITHIN / INTERSECTS on *)
}.

Inductive efield :=
| FKey | FName | FEndpointsLen | FMetasLen | FExpires | FEndpoint | FMetaName | FMetaValue | FArgsLen | FArg.
Inductive ecmp :=
| CNe          (* a != b *)
| CLenNe       (* len(a) != len(b) *)
| CTimeEqual   (* !a.Equal(b) *)
| CFold.       (* !strings.EqualFold(a, b) *)

(* ASCII case folding (strings.EqualFold is Unicode simple folding; on ASCII letters the same) *)
Definition lower (c : N) : N := if (N.leb 65 c && N.leb c 90)%bool then (c + 32)%N else c.
Definition str_same (c : ecmp) (a b : bytes) : option bool :=
  match c with
  | CNe => Some (bytes_eqb a b)
  | CFold => Some (bytes_eqb (map lower a) (map lower b))
  | _ => None
  end.
Definition pairwise {A} (f : A -> A -> option bool) (l1 l2 : list A) : bool :=
  forallb (fun p => match f (fst p) (snd p) with Some v => v | None => true end) (combine l1 l2).

(* one test of Equals: true = the test does not make Equals return false.  A (field, comparison)
   pair the model does not know imposes nothing. *)
Definition check (a b : hdef) (t : efield * ecmp) : bool :=
  let str f := match str_same (snd t) (f a) (f b) with Some v => v | None => true end in
  match t with
  | (FKey, _) => str hd_key
  | (FName, _) => str hd_name
  | (FEndpointsLen, CLenNe) => Nat.eqb (length (hd_endpoints a)) (length (hd_endpoints b))
  | (FMetasLen, CLenNe) => Nat.eqb (length (hd_metas a)) (length (hd_metas b))
  | (FExpires, CTimeEqual) => Z.eqb (hd_expires a) (hd_expires b)
  | (FEndpoint, c) => pairwise (str_same c) (hd_endpoints a) (hd_endpoints b)
  | (FMetaName, c) => pairwise (fun x y => str_same c (fst x) (fst y)) (hd_metas a) (hd_metas b)
  | (FMetaValue, c) => pairwise (fun x y => str_same c (snd x) (snd y)) (hd_metas a) (hd_metas b)
  | (FArgsLen, CLenNe) => Nat.eqb (length (hd_args a)) (length (hd_args b))
  | (FArg, c) => pairwise (str_same c) (hd_args a) (hd_args b)
  | _ => true
  end.

(* Hook.Equals as the conjunction of its tests *)
Definition hook_equals_by (checks : list (efield * ecmp)) (a b : hdef) : bool := forallb (check a b) checks.

(* ---- which definition is in force under a name: cmdSetHook seen from the definitions ---- *)
Definition defs : Type := list (bool * hdef).            (* (channel?, definition) *)
Definition def_named (n : bytes) (p : bool * hdef) : bool := bytes_eqb (hd_name (snd p)) n.
Definition def_get (n : bytes) (ds : defs) : option (bool * hdef) := find (def_named n) ds.

(* reply: 1 = created / replaced, 0 = identical (nothing done), -1 = error (hook and channel share a name) *)
Definition def_sethook (checks : list (efield * ecmp)) (ds : defs) (chan : bool) (d : hdef) : defs * Z :=
  match def_get (hd_name d) ds with
  | Some (pc, p) =>
      if negb (Bool.eqb pc chan) then (ds, (-1)%Z)
      else if hook_equals_by checks p d then (ds, 0%Z)
      else ((chan, d) :: filter (fun q => negb (def_named (hd_name d) q)) ds, 1%Z)
  | None => ((chan, d) :: ds, 1%Z)
  end.
