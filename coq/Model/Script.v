(* Script execution over the concurrency model (C18, and the script part of C03 / C07).

   Transcribed from /repo/internal/server:
     server.go   handleInputCommand   the lock switch (`switch msg.Command()`), the gates inside each arm,
                                      `s.command`, `if write { writeAOF }`, the deferred unlock
     scripts.go  cmdEvalUnified       runs the Lua function (PCall); an error raised inside aborts it
                 lStatePool.New       tile38.call (error -> RaiseError -> the script aborts) and
                                      tile38.pcall (error -> returned to the script as a value)
                 luaTile38Call        deny list, then the variant chosen by the command that started
                                      the script (pl.evalcmd)
                 luaTile38AtomicRW    no lock call; gate; commandInScript; writeAOF PER CALL, right after
                                      the call succeeded (there is no batching and no roll-back: when a
                                      later call fails, what earlier calls wrote stays applied and logged)
                 luaTile38AtomicRO    no lock call; write arms refused with `read only`; never logs
                 luaTile38NonAtomic   s.mu.Lock / s.mu.RLock + deferred unlock around ONE call; gate
                                      (inside the lock); commandInScript; writeAOF per call
   Which lock a command takes, which arm a sub-command falls into, what an arm refuses and whether it
   logs are NOT re-typed here: they are read from Gen/LockTable.v, Gen/ScriptTables.v and Gen/Dispatch.v,
   which t38x regenerates from the source on every run.

   Same shape as Model/Conc.v (dataset, append-only log, exclusive holder, shared holders, per-thread
   programs, a schedule = list of thread ids), generalised in the three ways scripts need: a section is
   a STRATEGY (the next call may depend on what earlier calls returned), the log gets one record per
   successful updating call at the moment of the call, and the lock of every step comes from the tables.

   Not modelled: the Lua VM (a script is its call strategy), TIMEOUT / msg.Deadline, the expiry
   sweeper and the other background goroutines (C14 / C07), configuration changes while the history
   runs (the environment `e` is fixed), writer preference of sync.RWMutex (liveness only).

   No proofs here. *)
From Coq Require Import String List Bool Arith.
From T38 Require Import Base.Bytes Model.Tables Gen.LockTable Gen.Dispatch Gen.ScriptTables Model.Gate Model.Replay.
Import ListNotations.
Open Scope string_scope.
Open Scope nat_scope.

(* the handler name under which Gen/Dispatch.v lists the six script commands *)
Definition eval_handler : string := "cmdEvalUnified".

(* the stronger of two locks *)
Definition lmax (a b : lockk) : lockk :=
  match a, b with
  | LExcl, _ | _, LExcl => LExcl
  | LShared, _ | _, LShared => LShared
  | _, _ => LNone
  end.

Definition lockk_eqb (a b : lockk) : bool :=
  match a, b with LExcl, LExcl | LShared, LShared | LNone, LNone => true | _, _ => false end.

(* sync.RWMutex / rwspinlock: can Lock() / RLock() return now? (exclusion itself is Model/RWSpin.v) *)
Definition can_acquire (wr : option nat) (rd : list nat) (l : lockk) : bool :=
  match l with
  | LExcl => match wr, rd with None, [] => true | _, _ => false end
  | LShared => match wr with None => true | Some _ => false end
  | LNone => true
  end.

Fixpoint remove_one (t : nat) (l : list nat) : list nat :=
  match l with
  | [] => []
  | x :: r => if Nat.eqb x t then r else x :: remove_one t r
  end.

Inductive lockop := LKeep | LAcq (l : lockk) | LRel (l : lockk).

Definition lock_after (wr : option nat) (rd : list nat) (u : nat) (op : lockop) : option nat * list nat :=
  match op with
  | LAcq LExcl => (Some u, rd)
  | LAcq LShared => (wr, u :: rd)
  | LRel LExcl => (None, rd)
  | LRel LShared => (wr, remove_one u rd)
  | _ => (wr, rd)
  end.

Section Script.
Variable S : Type.                       (* the dataset *)
Variable val : Type.                     (* what a command replies when it succeeds *)
Variable herr : Type.                    (* a handler's error / an error raised by the Lua code *)
Variable cname : cmd -> string.          (* msg.Command(): the lower-cased command word *)
(* the Go handler `fn` (cmdSET, cmdGET, ...) on a message: dataset afterwards, reply or error, d.updated *)
Variable handler : string -> S -> cmd -> S * (val + herr) * bool.
Variable e : env.                        (* leader / follower / read-only: fixed during a history *)

(* why a command or a call was refused *)
Inductive cerr :=
| CNotSupported | CReadOnly | CNotLeader | CCatchingUp | CUnknown      (* the gates *)
| CHandler (m : herr)                                                    (* the handler itself *)
| CScript (m : herr).                                                    (* the Lua code / compile / sha *)

Definition reply := (val + cerr)%type.

(* A script is its call strategy. `Call protected c k`: tile38.pcall / tile38.call of c; k is the rest
   of the script given what the call returned. An error of an unprotected call never reaches k: the
   script is aborted with that error (ls.RaiseError; the sandbox has no pcall / error of its own). *)
Inductive prog :=
| Ret (v : val)
| Fail (er : cerr)
| Call (protected : bool) (c : cmd) (k : reply -> prog).

Definition resume (prot : bool) (r : reply) (k : reply -> prog) : prog :=
  match r with
  | inl _ => k r
  | inr er => if prot then k r else Fail er
  end.

(* one request of a connection: the command line and, when it is one of the script commands, what
   the Lua text it carries does *)
Record req := mkReq { q_cmd : cmd; q_prog : prog }.

Inductive pc :=
| PIdle                                             (* between requests *)
| PEntered (p : prog)                               (* handleInputCommand: past the lock switch *)
| PScript (p : prog)                                (* inside the Lua function, between calls *)
| PCallHeld (prot : bool) (c : cmd) (k : reply -> prog) (t : table) (a : arm)
                                                    (* luaTile38NonAtomic: holds the call's lock *)
| PCallRel (l : lockk) (p : prog)                   (* ... the deferred unlock of that lock remains *)
| PLeave.                                           (* answered; the deferred unlock of the lock switch remains *)

Record tstate := mkT {
  t_todo : list req;          (* requests not sent yet *)
  t_rid : nat;                (* requests completed: the number of the current / next one *)
  t_cid : nat;                (* calls completed inside the current script *)
  t_cmd : cmd;                (* the current request's command line *)
  t_pc : pc }.

Definition set_pc (ts : tstate) (p : pc) : tstate := mkT (t_todo ts) (t_rid ts) (t_cid ts) (t_cmd ts) p.
Definition next_call (ts : tstate) (p : pc) : tstate := mkT (t_todo ts) (t_rid ts) (Datatypes.S (t_cid ts)) (t_cmd ts) p.

(* ghost: one append-only-file record with its owner *)
Record lrec := mkRec { r_tid : nat; r_rid : nat; r_cmd : cmd }.

(* ghost: what happened, in order *)
Inductive ekind :=
| KStart (l : lockk)                                            (* the lock switch took l *)
| KEnter                                                        (* cmdEvalUnified starts the Lua function *)
| KExec (c : cmd) (seen after : S) (r : val + herr) (upd logged : bool)   (* a handler ran *)
| KRefused (c : cmd) (er : cerr)                                (* a call refused by luaTile38Call / its variant *)
| KAcq (l : lockk)                                              (* luaTile38NonAtomic: s.mu.Lock / RLock *)
| KRel (l : lockk)                                              (* ... its deferred unlock *)
| KAns (r : reply)                                              (* the request answered without a handler / the script's reply *)
| KEnd (l : lockk).                                             (* the deferred unlock of the lock switch *)

Record event := mkEv {
  e_tid : nat; e_rid : nat; e_cid : nat;
  e_name : string;              (* the request's command word *)
  e_held : lockk;               (* strongest server lock the thread holds while this happens *)
  e_pos : nat;                  (* records in the log before it *)
  e_kind : ekind }.

Record gstate := mkG {
  shared : S;
  log : list lrec;                        (* the append-only file, in file order *)
  hist : list event;
  wr : option nat;                        (* thread holding the server lock exclusively *)
  rd : list nat;                          (* threads holding it shared (one entry per RLock) *)
  th : nat -> tstate }.

Definition aof (g : gstate) : list cmd := map r_cmd (log g).

Definition outer_lock (c : cmd) : lockk := a_lock (arm_of lock_table (cname c)).

Definition verr (k : errkind) : cerr :=
  match k with ENotLeader => CNotLeader | EReadOnly => CReadOnly | ECatchingUp => CCatchingUp | _ => CUnknown end.

Definition is_ok (r : val + herr) : bool := match r with inl _ => true | inr _ => false end.
Definition lift (r : val + herr) : reply := match r with inl v => inl v | inr m => inr (CHandler m) end.

(* what one step does *)
Record effect := mkEff {
  f_ts : tstate; f_name : string; f_kind : ekind; f_held : lockk; f_lock : lockop;
  f_shared : S; f_rec : option cmd }.

(* luaTile38AtomicRW / AtomicRO / NonAtomic from the gate on: the leader / read-only / caught-up test of
   the arm, commandInScript, `if write { writeAOF }` *)
Definition call_body (s : S) (prot : bool) (c : cmd) (k : reply -> prog) (t : table) (a : arm)
  : ekind * S * option cmd * prog :=
  match arm_verdict a e with
  | Some er => (KRefused c (verr er), s, None, resume prot (inr (verr er)) k)
  | None =>
      match find_handler dispatch_script (cname c) with
      | None => (KRefused c CUnknown, s, None, resume prot (inr CUnknown) k)
      | Some h =>
          let '(s', r, upd) := handler (h_fn h) s c in
          let logged := a_write a && t_logs_on_write t && is_ok r && upd in
          (KExec c s s' r upd logged, s', (if logged then Some c else None), resume prot (lift r) k)
      end
  end.

Definition plan (g : gstate) (u : nat) : option effect :=
  let ts := th g u in
  let nm := cname (t_cmd ts) in
  let ol := outer_lock (t_cmd ts) in
  match t_pc ts with
  | PIdle =>
      match t_todo ts with
      | [] => None
      | q :: rest =>
          (* choose the locking strategy *)
          let l := outer_lock (q_cmd q) in
          if can_acquire (wr g) (rd g) l
          then Some (mkEff (mkT rest (t_rid ts) 0 (q_cmd q) (PEntered (q_prog q))) (cname (q_cmd q)) (KStart l) l (LAcq l) (shared g) None)
          else None
      end
  | PEntered p =>
      let c := t_cmd ts in
      let a := arm_of lock_table nm in
      let leave (k : ekind) (s' : S) (rc : option cmd) := Some (mkEff (set_pc ts PLeave) nm k ol LKeep s' rc) in
      match arm_verdict a e with
      | Some er => leave (KAns (inr (verr er))) (shared g) None
      | None =>
          if in_strs nm dev_only then leave (KAns (inr CUnknown)) (shared g) None else
          match find_handler dispatch nm with
          | None => leave (KAns (inr CUnknown)) (shared g) None
          | Some h =>
              if String.eqb (h_fn h) eval_handler
              then Some (mkEff (set_pc ts (PScript p)) nm KEnter ol LKeep (shared g) None)
              else
                let '(s', r, upd) := handler (h_fn h) (shared g) c in
                let logged := a_write a && t_logs_on_write lock_table && is_ok r && upd in
                leave (KExec c (shared g) s' r upd logged) s' (if logged then Some c else None)
          end
      end
  | PScript p =>
      match p with
      | Ret v => Some (mkEff (set_pc ts PLeave) nm (KAns (inl v)) ol LKeep (shared g) None)
      | Fail er => Some (mkEff (set_pc ts PLeave) nm (KAns (inr er)) ol LKeep (shared g) None)
      | Call prot c k =>
          let refuse (er : cerr) :=
            Some (mkEff (next_call ts (PScript (resume prot (inr er) k))) nm (KRefused c er) ol LKeep (shared g) None) in
          (* luaTile38Call *)
          if in_strs (cname c) script_deny then refuse CNotSupported else
          match assoc script_variant nm with
          | None => refuse CNotSupported
          | Some t =>
              let a := arm_of t (cname c) in
              match a_reject a with
              | RNotSupported => refuse CNotSupported
              | RReadOnly => refuse CReadOnly
              | RNo =>
                  match a_lock a with
                  | LNone =>
                      let '(kd, s', rc, p') := call_body (shared g) prot c k t a in
                      Some (mkEff (next_call ts (PScript p')) nm kd ol LKeep s' rc)
                  | l =>
                      if can_acquire (wr g) (rd g) l
                      then Some (mkEff (set_pc ts (PCallHeld prot c k t a)) nm (KAcq l) (lmax ol l) (LAcq l) (shared g) None)
                      else None
                  end
              end
          end
      end
  | PCallHeld prot c k t a =>
      let '(kd, s', rc, p') := call_body (shared g) prot c k t a in
      Some (mkEff (set_pc ts (PCallRel (a_lock a) p')) nm kd (lmax ol (a_lock a)) LKeep s' rc)
  | PCallRel l p =>
      Some (mkEff (next_call ts (PScript p)) nm (KRel l) (lmax ol l) (LRel l) (shared g) None)
  | PLeave =>
      Some (mkEff (mkT (t_todo ts) (Datatypes.S (t_rid ts)) 0 [] PIdle) nm (KEnd ol) ol (LRel ol) (shared g) None)
  end.

Definition set_th (f : nat -> tstate) (t : nat) (v : tstate) : nat -> tstate :=
  fun u => if Nat.eqb u t then v else f u.

Definition commit (g : gstate) (u : nat) (f : effect) : gstate :=
  let ts := th g u in
  let '(w', r') := lock_after (wr g) (rd g) u (f_lock f) in
  mkG (f_shared f)
      (log g ++ match f_rec f with Some c => [mkRec u (t_rid ts) c] | None => [] end)
      (hist g ++ [mkEv u (t_rid ts) (t_cid ts) (f_name f) (f_held f) (length (log g)) (f_kind f)])
      w' r' (set_th (th g) u (f_ts f)).

(* thread u is scheduled: it makes its next micro-step, or nothing happens (blocked on the lock, or done) *)
Definition sstep (g : gstate) (u : nat) : gstate :=
  match plan g u with
  | Some f => commit g u f
  | None => g
  end.

Definition srun (g : gstate) (sched : list nat) : gstate := fold_left sstep sched g.

Definition sinit (s0 : S) (progs : nat -> list req) : gstate :=
  mkG s0 [] [] None [] (fun t => mkT (progs t) 0 0 [] PIdle).

(* ---- what start-up does with a log: every record through Server.command ---- *)
Definition exec_top (s : S) (c : cmd) : S * bool :=
  match find_handler dispatch (cname c) with
  | Some h => let '(s', r, upd) := handler (h_fn h) s c in (s', is_ok r && upd)
  | None => (s, false)
  end.

Definition replay_log (l : list cmd) (s0 : S) : S := replay S exec_top l s0.

(* ---- reading the history ---- *)
Definition own (t r : nat) (ev : event) : bool := Nat.eqb (e_tid ev) t && Nat.eqb (e_rid ev) r.
Definition own_rec (t r : nat) (x : lrec) : bool := Nat.eqb (r_tid x) t && Nat.eqb (r_rid x) r.
Definition free (ev : event) : bool := lockk_eqb (e_held ev) LNone.

(* the records an event put in the log *)
Definition ev_recs (ev : event) : list lrec :=
  match e_kind ev with
  | KExec c _ _ _ _ true => [mkRec (e_tid ev) (e_rid ev) c]
  | _ => []
  end.
Definition recs_of (h : list event) : list lrec := flat_map ev_recs h.

(* the state of a thread as the locks see it *)
Definition outerh (ts : tstate) : lockk := match t_pc ts with PIdle => LNone | _ => outer_lock (t_cmd ts) end.
Definition innerh (ts : tstate) : lockk :=
  match t_pc ts with PCallHeld _ _ _ _ a => a_lock a | PCallRel l _ => l | _ => LNone end.

End Script.

(* the type parameters are inferred everywhere *)
Arguments CNotSupported {herr}. Arguments CReadOnly {herr}. Arguments CNotLeader {herr}.
Arguments CCatchingUp {herr}. Arguments CUnknown {herr}. Arguments CHandler {herr}. Arguments CScript {herr}.
Arguments Ret {val herr}. Arguments Fail {val herr}. Arguments Call {val herr}.
Arguments resume {val herr}. Arguments mkReq {val herr}. Arguments q_cmd {val herr}. Arguments q_prog {val herr}.
Arguments PIdle {val herr}. Arguments PEntered {val herr}. Arguments PScript {val herr}. Arguments PCallHeld {val herr}.
Arguments PCallRel {val herr}. Arguments PLeave {val herr}.
Arguments mkT {val herr}. Arguments t_todo {val herr}. Arguments t_rid {val herr}. Arguments t_cid {val herr}.
Arguments t_cmd {val herr}. Arguments t_pc {val herr}. Arguments set_pc {val herr}. Arguments next_call {val herr}.
Arguments KStart {S val herr}. Arguments KEnter {S val herr}. Arguments KExec {S val herr}. Arguments KRefused {S val herr}.
Arguments KAcq {S val herr}. Arguments KRel {S val herr}. Arguments KAns {S val herr}. Arguments KEnd {S val herr}.
Arguments mkEv {S val herr}. Arguments e_tid {S val herr}. Arguments e_rid {S val herr}. Arguments e_cid {S val herr}.
Arguments e_name {S val herr}. Arguments e_held {S val herr}. Arguments e_pos {S val herr}. Arguments e_kind {S val herr}.
Arguments mkG {S val herr}. Arguments shared {S val herr}. Arguments log {S val herr}. Arguments hist {S val herr}.
Arguments wr {S val herr}. Arguments rd {S val herr}. Arguments th {S val herr}. Arguments aof {S val herr}.
Arguments verr {herr}. Arguments is_ok {val herr}. Arguments lift {val herr}.
Arguments mkEff {S val herr}. Arguments f_ts {S val herr}. Arguments f_name {S val herr}. Arguments f_kind {S val herr}.
Arguments f_held {S val herr}. Arguments f_lock {S val herr}. Arguments f_shared {S val herr}. Arguments f_rec {S val herr}.
Arguments call_body {S val herr}. Arguments plan {S val herr}. Arguments set_th {val herr}. Arguments commit {S val herr}.
Arguments sstep {S val herr}. Arguments srun {S val herr}. Arguments sinit {S val herr}.
Arguments exec_top {S val herr}. Arguments replay_log {S val herr}.
Arguments own {S val herr}. Arguments free {S val herr}. Arguments ev_recs {S val herr}. Arguments recs_of {S val herr}.
Arguments outerh {val herr}. Arguments innerh {val herr}.
