(* internal/object (object_binary.go): the geometry token and the head codec — executable model, no proofs.

   Geometry is opaque: an object's geometry is identified by the text o.Geo().String() (canonical
   GeoJSON for spatial objects, the raw string for collection.String) together with whether it
   implements geojson.Spatial. Everything else about it (Center, Rect, Z, geohash) is an oracle
   keyed by that token (Model/Spec.v, record [oracle]). *)
From T38 Require Import Base.Bytes.

Record geo := mkGeo { g_spatial : bool; g_text : bytes }.

Definition geo_eqb (a b : geo) : bool := Bool.eqb (g_spatial a) (g_spatial b) && bytes_eqb (g_text a) (g_text b).

(* ---------- head = (kind byte, varint expires, id bytes) ---------- *)

Definition two64 : N := 18446744073709551616.

(* binary.PutUvarint: for x >= 0x80 { emit byte(x)|0x80; x >>= 7 }; emit byte(x).
   byte(x)|0x80 = x mod 128 + 128. Fuel 10 suffices for x < 2^64 (a distinct [] on exhaustion). *)
Fixpoint put_uvarint (fuel : nat) (x : N) : bytes :=
  match fuel with
  | O => []
  | S f => if x <? 128 then [x] else (x mod 128 + 128) :: put_uvarint f (x / 128)
  end.

(* binary.PutVarint: ux := uint64(x) << 1; if x < 0 { ux = ^ux } *)
Definition zigzag (x : Z) : N :=
  if (0 <=? x)%Z then Z.to_N (2 * x) else Z.to_N (-2 * x - 1).

Definition put_varint (x : Z) : bytes := put_uvarint 10 (zigzag x).

(* object.uvarint(s): returns (value, bytes read); (0,0) when no byte < 0x80 is found *)
Fixpoint uvarint_loop (s : bytes) (i : N) (x : N) : N * N :=
  match s with
  | [] => (0, 0)
  | b :: r =>
      if b <? 128 then (N.lor x (N.shiftl b (i * 7) mod two64), i + 1)
      else uvarint_loop r (i + 1) (N.lor x (N.shiftl (N.land b 127) (i * 7) mod two64))
  end.

Definition uvarint (s : bytes) : N * N := uvarint_loop s 0 0.

(* object.varint: x := int64(ux >> 1); if ux&1 != 0 { x = ^x } *)
Definition varint (s : bytes) : Z * N :=
  let '(ux, n) := uvarint s in
  let h := Z.of_N (ux / 2) in
  ((if N.odd ux then (- h - 1)%Z else h), n).

(* makeHead(kind, id, expires) *)
Definition make_head (kind : N) (id : bytes) (expires : Z) : bytes :=
  kind :: (if (expires =? 0)%Z then [0] else put_varint expires) ++ id.

(* Object.ID: if head[1] == 0 { head[2:] } else { _, n := varint(head[1:]); head[1+n:] }.
   None = index out of range (Go panics). *)
Definition head_id (h : bytes) : option bytes :=
  match h with
  | _ :: b1 :: r =>
      if b1 =? 0 then Some r
      else let '(_, n) := varint (b1 :: r) in Some (skipn (N.to_nat n) (b1 :: r))
  | _ => None
  end.

(* Object.Expires: ex, _ := varint(head[1:]) *)
Definition head_expires (h : bytes) : option Z :=
  match h with
  | _ :: r => Some (fst (varint r))
  | [] => None
  end.

Definition int64_range (x : Z) : Prop := (-9223372036854775808 <= x < 9223372036854775808)%Z.
