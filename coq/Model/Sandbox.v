(* The Lua sandbox as a statement about names: what lStatePool.New registers (Gen/LuaAllow.v,
   regenerated from /repo) against the documented allow-list.  The Lua VM itself is not modelled. *)
From Coq Require Import String List Bool.
From T38 Require Import Model.Tables Gen.LuaAllow.
Import ListNotations.
Open Scope string_scope.

(* names a script can reach by construction of the state: globals set by New/openBaseSubset,
   functions of the partially opened base and os modules, the tile38 table *)
Definition lua_names : list string :=
  (lua_set_globals ++ lua_base_fns ++ map (fun f => String.append "os." f) lua_os_fns ++
   map (fun f => String.append "tile38." f) lua_tile38_exports)%list.

(* README / website: the script environment *)
Definition documented_allow : list string :=
  ["_G"; "_VERSION"; "_GOPHER_LUA_VERSION"; "json"; "tile38"; "tonumber"; "tostring";
   "os.clock"; "os.difftime";
   "tile38.call"; "tile38.pcall"; "tile38.error_reply"; "tile38.status_reply"; "tile38.sha1hex"; "tile38.distance_to"].

Definition dangerous_names : list string :=
  ["io"; "package"; "require"; "dofile"; "loadfile"; "load"; "loadstring"; "debug"; "channel"; "coroutine";
   "os.execute"; "os.exit"; "os.getenv"; "os.remove"; "os.rename"; "os.tmpname"; "os.setenv"; "os.setlocale";
   "os.date"; "os.time"; "module"; "newproxy"; "setfenv"; "getfenv"; "rawset"; "setmetatable"; "getmetatable";
   "collectgarbage"; "print"].

(* library opener functions (second component of allowedModules entries) *)
Definition lua_module_libs : list string :=
  map (fun s => match index 0 "=" s with Some i => substring (S i) (String.length s - S i) s | None => s end) lua_modules.

Definition allowed_libs : list string :=
  ["openBaseSubset."; "lua.OpenTable."; "lua.OpenMath."; "lua.OpenString."; "openOsSubset."].


(* How the interpreter itself is configured in lStatePool.New: the lua.Options of NewState and the methods
   called on the new state. Audited (gopher-lua v1.1.1 state.go / auxlib.go): these eight only build values,
   register globals and call the module openers; none of them starts a goroutine, opens a library, or
   reaches the process. NOT on the list, on purpose: SetMx (starts a watchdog goroutine that polls the heap
   of the WHOLE PROCESS and calls os.Exit(3) above the limit: script code could then terminate the server),
   OpenLibs (opens io, os, package, debug, channel, coroutine), SetContext on a pooled state, DoFile/DoString. *)
Definition audited_options : list string := ["SkipOpenLibs=true"].
Definition audited_state_methods : list string :=
  ["CallByParam"; "CreateTable"; "Get"; "NewFunction"; "NewTable"; "SetFuncs"; "SetGlobal"; "SetMetatable"].
