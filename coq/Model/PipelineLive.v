(* Executable model of one connection ACROSS the hand-over to live mode (internal/server/server.go,
   netServe: `if err.Error() == goingLive { ... s.goLive(..., &client.pr, ...) }`, and the read loops of
   liveSubscription / goLive in pubsub.go / live.go).

   Before the hand-over the connection is the conn_run of Model/Pipeline.v: one ReadMessages per socket
   read, the messages handled one by one by handleInputCommand.  When a handled message "goes live"
   (SUBSCRIBE, PSUBSCRIBE, a FENCE search, MONITOR, AOF — the classifier `golive` is a parameter, the
   theorems hold for every classifier) netServe leaves its loop and the live loop goes on calling
   ReadMessages ON THE SAME PipelineReader.  What the hand-over does with the state of the reader and with
   what the hand-over read had already parsed is the record `handover`:

     ho_keep_buf       the carry-over buffer PipelineReader.buf (the bytes of a partially received next
                       command) survives the switch: the live loop gets `&client.pr`, of which only the
                       fields rd / wr are re-pointed at the socket.  (Read from the source by
                       t38x/livehandover.go -> Gen/LiveHandover.v, see Proofs/PipelineLiveProofs.v.)
     ho_pass_rest      the messages of the hand-over read that FOLLOW the live command, and the error of
                       that read, are handed to the live loop.  The pinned source does not do it: netServe
                       `return`s out of `for _, msg := range msgs`, the rest of `msgs` and `err` are
                       forgotten (known finding C16-live-handover-drops-rest).
     ho_live_err_keeps a live loop that gets (msgs, err) from ReadMessages handles msgs before it acts on
                       err.  The pinned liveSubscription does `if err != nil { return err }` first, so the
                       commands parsed before a malformed frame of the same read are not answered (known
                       finding C16-live-error-drops-read).

   The outcome keeps apart what was handled in normal mode (`n`), what the live loop handled (`l`), what
   was parsed but never acted on at the hand-over (`d_ho`, `pe` = the forgotten error) and what a live loop
   dropped because of an error in the same read (`d_err`).  No proofs here. *)
From T38 Require Import Base.Bytes Model.Resp Model.Pipeline.

Record handover := { ho_keep_buf : bool; ho_pass_rest : bool; ho_live_err_keeps : bool }.

(* the pinned source and the repaired hand-over *)
Definition ho_pinned : handover := {| ho_keep_buf := true; ho_pass_rest := false; ho_live_err_keeps := false |}.
Definition ho_repaired : handover := {| ho_keep_buf := true; ho_pass_rest := true; ho_live_err_keeps := true |}.

Inductive live_res :=
| LOpen (live : bool) (n l d_ho : list msg) (pe : option cerr) (d_err : list msg) (buf : bytes)
| LClosed (live : bool) (n l d_ho : list msg) (pe : option cerr) (d_err : list msg) (e : cerr)
| LCrashed
| LNoFuel.

(* for _, msg := range msgs { ... handleInputCommand ... if goingLive { ...; return } }:
   the messages up to and including the first live one, and what follows it in the same slice *)
Fixpoint split_live (golive : msg -> bool) (ms : list msg) : list msg * option (list msg) :=
  match ms with
  | [] => ([], None)
  | m :: r =>
      if golive m then ([m], Some r)
      else let (a, b) := split_live golive r in (m :: a, b)
  end.

(* the read loop of a live connection: msgs, err = rd.ReadMessages() on the reader it was given *)
Fixpoint live_phase (h : handover) (parse : bytes -> cres) (chunks : list bytes) (buf : bytes) (n l : list msg) : live_res :=
  match chunks with
  | [] => LOpen true n l [] None [] buf
  | c :: rest =>
      match rm_step parse buf c with
      | RM ms b None => live_phase h parse rest b n (l ++ ms)
      | RM ms b (Some e) =>
          if ho_live_err_keeps h then LClosed true n (l ++ ms) [] None [] e
          else LClosed true n l [] None ms e
      | RMPanic => LCrashed
      | RMFuel => LNoFuel
      end
  end.

(* what the hand-over left unhandled, recorded in front of what the live loop reports *)
Definition add_unacted (d : list msg) (pe : option cerr) (r : live_res) : live_res :=
  match r with
  | LOpen lv n l _ _ de b => LOpen lv n l d pe de b
  | LClosed lv n l _ _ de e => LClosed lv n l d pe de e
  | other => other
  end.

(* netServe's loop up to the hand-over *)
Fixpoint normal_phase (h : handover) (parse : bytes -> cres) (golive : msg -> bool)
                      (chunks : list bytes) (buf : bytes) (n : list msg) : live_res :=
  match chunks with
  | [] => LOpen false n [] [] None [] buf
  | c :: rest =>
      match rm_step parse buf c with
      | RM ms b e =>
          match split_live golive ms with
          | (pre, None) =>
              match e with
              | None => normal_phase h parse golive rest b (n ++ pre)
              | Some x => LClosed false (n ++ pre) [] [] None [] x
              end
          | (pre, Some post) =>
              (* client.in = InputStream{}; client.pr.rd = rwc; client.pr.wr = rwc; goLive(..., &client.pr, ...) *)
              let b' := if ho_keep_buf h then b else [] in
              if ho_pass_rest h then
                match e with
                | None => live_phase h parse rest b' (n ++ pre) post
                | Some x =>
                    if ho_live_err_keeps h then LClosed true (n ++ pre) post [] None [] x
                    else LClosed true (n ++ pre) [] [] None post x
                end
              else add_unacted post e (live_phase h parse rest b' (n ++ pre) [])
          end
      | RMPanic => LCrashed
      | RMFuel => LNoFuel
      end
  end.

Definition live_run (h : handover) (parse : bytes -> cres) (golive : msg -> bool) (chunks : list bytes) : live_res :=
  normal_phase h parse golive chunks [] [].

(* the run ended in an ordinary outcome and nothing that was parsed stayed unhandled *)
Definition acted_all (r : live_res) : bool :=
  match r with
  | LOpen _ _ _ [] None [] _ | LClosed _ _ _ [] None [] _ => true
  | _ => false
  end.

(* the specification: the connection outcome as a function of the byte stream alone — parse the whole
   stream (conn_run on one chunk), handle the messages up to the first live one in normal mode and every
   later one in live mode; an error closes the connection after the messages parsed before it *)
Definition classify (golive : msg -> bool) (n : list msg) (r : conn_res) : live_res :=
  match r with
  | Open ms b =>
      match split_live golive ms with
      | (pre, None) => LOpen false (n ++ pre) [] [] None [] b
      | (pre, Some post) => LOpen true (n ++ pre) post [] None [] b
      end
  | Closed ms e =>
      match split_live golive ms with
      | (pre, None) => LClosed false (n ++ pre) [] [] None [] e
      | (pre, Some post) => LClosed true (n ++ pre) post [] None [] e
      end
  | Crashed => LCrashed
  | NoFuel => LNoFuel
  end.
Definition live_spec (parse : bytes -> cres) (golive : msg -> bool) (stream : bytes) : live_res :=
  classify golive [] (conn_run parse [stream] [] []).

