(* Model/Collection.v — executable model of /repo/internal/collection/collection.go:
   the four indexes (objs by id, values by (string,id), spatial R-tree entries, expires by
   (deadline,id)), the four counters, Set/setFill/Delete exactly as written, the access paths
   and Bounds.  No proofs in this file.

   Objects are records of the attributes the collection code looks at; the harness supplies
   them by calling the real object/geojson methods:
     o_id = ID(), o_spatial = IsSpatial(), o_empty = Geo().Empty(), o_npoints = Geo().NumPoints(),
     o_weight = Weight(), o_str = String() (used only for non-spatial objects: byValue),
     o_ex = Expires(), o_rect = Rect().

   tidwall/btree is modelled as a strictly sorted list (get/set/delete walk the order),
   tidwall/rtree as an unordered list of (float32 rect, object) entries (its internal order is
   not modelled: listings are compared as sets, and Bounds is a relation, see bounds_ok). *)
From T38 Require Import Base.Bytes Model.Float32.
From Flocq Require Import BinarySingleNaN.
Import ListNotations.
Local Open Scope Z_scope.

Record obj := Obj {
  o_id : bytes; o_spatial : bool; o_empty : bool; o_npoints : Z; o_weight : Z;
  o_str : bytes; o_ex : Z; o_rect : rect64 }.

(* ---- B-tree as a strictly sorted list ---- *)
Section SortedList.
  Context {A K : Type}.
  Variable key : A -> K.
  Variable cmp : K -> K -> comparison.

  Fixpoint sl_get (k : K) (l : list A) : option A :=
    match l with
    | [] => None
    | y :: r => match cmp k (key y) with Eq => Some y | Lt => None | Gt => sl_get k r end
    end.

  (* Set: insert, or replace the item with an equal key *)
  Fixpoint sl_ins (x : A) (l : list A) : list A :=
    match l with
    | [] => [x]
    | y :: r => match cmp (key x) (key y) with Eq => x :: r | Lt => x :: l | Gt => y :: sl_ins x r end
    end.

  (* Delete: remove the item with an equal key, if any *)
  Fixpoint sl_del (k : K) (l : list A) : list A :=
    match l with
    | [] => []
    | y :: r => match cmp k (key y) with Eq => r | Lt => l | Gt => y :: sl_del k r end
    end.
End SortedList.

Definition lex_cmp {A B} (ca : A -> A -> comparison) (cb : B -> B -> comparison) (x y : A * B) : comparison :=
  match ca (fst x) (fst y) with Eq => cb (snd x) (snd y) | c => c end.

(* byID, byValue, byExpires *)
Definition id_cmp := bytes_cmp.
Definition vkey (o : obj) : bytes * bytes := (o_str o, o_id o).
Definition vcmp := lex_cmp bytes_cmp bytes_cmp.
Definition ekey (o : obj) : Z * bytes := (o_ex o, o_id o).
Definition ecmp := lex_cmp Z.compare bytes_cmp.

Record coll := Coll {
  c_objs : list obj;                 (* btree.Map[string,*Object], sorted by id *)
  c_values : list obj;               (* BTreeG byValue *)
  c_spatial : list (rect32 * obj);   (* RTreeGN[float32,*Object] *)
  c_expires : list obj;              (* BTreeG byExpires *)
  c_objects : Z; c_nobjects : Z; c_points : Z; c_weight : Z }.

Definition cnew : coll := Coll [] [] [] [] 0 0 0 0.

(* rtree Delete(min,max,data): removes the entry whose data is this object (pointer identity;
   a collection never holds two objects with one id, so identity is the id) *)
Fixpoint sp_del (id : bytes) (sp : list (rect32 * obj)) : list (rect32 * obj) :=
  match sp with
  | [] => []
  | e :: r => if bytes_eqb (o_id (snd e)) id then r else e :: sp_del id r
  end.

Definition rtree_item (o : obj) : rect32 * obj := (rtree_rect (o_rect o), o).

Definition index_delete (sp : list (rect32 * obj)) (o : obj) :=
  if negb (o_empty o) then sp_del (o_id o) sp else sp.
Definition index_insert (sp : list (rect32 * obj)) (o : obj) :=
  if negb (o_empty o) then rtree_item o :: sp else sp.

(* setFill, first half: "if prev != nil { ... }" *)
Definition fill_sub (c : coll) (p : obj) : coll :=
  let '(Coll objs vals sp ex nobj nnobj pts w) := c in
  let '(vals1, sp1, nobj1, nnobj1) :=
    if o_spatial p then (vals, index_delete sp p, nobj - 1, nnobj)
    else (sl_del vkey vcmp (vkey p) vals, sp, nobj, nnobj - 1) in
  let ex1 := if o_ex p =? 0 then ex else sl_del ekey ecmp (ekey p) ex in
  Coll objs vals1 sp1 ex1 nobj1 nnobj1 (pts - o_npoints p) (w - o_weight p).

(* setFill, second half *)
Definition fill_add (c : coll) (o : obj) : coll :=
  let '(Coll objs vals sp ex nobj nnobj pts w) := c in
  let '(vals1, sp1, nobj1, nnobj1) :=
    if o_spatial o then (vals, index_insert sp o, nobj + 1, nnobj)
    else (sl_ins vkey vcmp o vals, sp, nobj, nnobj + 1) in
  let ex1 := if o_ex o =? 0 then ex else sl_ins ekey ecmp o ex in
  Coll objs vals1 sp1 ex1 nobj1 nnobj1 (pts + o_npoints o) (w + o_weight o).

Definition with_objs (c : coll) (objs : list obj) : coll :=
  let '(Coll _ vals sp ex nobj nnobj pts w) := c in Coll objs vals sp ex nobj nnobj pts w.

(* Collection.Set: prev, _ = c.objs.Set(obj.ID(), obj); c.setFill(prev, obj) *)
Definition cset (c : coll) (o : obj) : coll :=
  let prev := sl_get o_id id_cmp (o_id o) (c_objs c) in
  let c0 := with_objs c (sl_ins o_id id_cmp o (c_objs c)) in
  let c1 := match prev with Some p => fill_sub c0 p | None => c0 end in
  fill_add c1 o.

(* Collection.Delete *)
Definition cdelete (c : coll) (id : bytes) : coll :=
  match sl_get o_id id_cmp id (c_objs c) with
  | None => c
  | Some p =>
      let '(Coll _ vals sp ex nobj nnobj pts w) := c in
      let objs := sl_del o_id id_cmp id (c_objs c) in
      let '(vals1, sp1, nobj1, nnobj1) :=
        if o_spatial p then ((vals, (if negb (o_empty p) then index_delete sp p else sp)), nobj - 1, nnobj)
        else (sl_del vkey vcmp (vkey p) vals, sp, nobj, nnobj - 1) in
      let ex1 := if o_ex p =? 0 then ex else sl_del ekey ecmp (ekey p) ex in
      Coll objs vals1 sp1 ex1 nobj1 nnobj1 (pts - o_npoints p) (w - o_weight p)
  end.

(* ---- observers ---- *)
Definition cget (c : coll) (id : bytes) : option obj := sl_get o_id id_cmp id (c_objs c).
Definition ccount (c : coll) : Z := c_objects c + c_nobjects c.       (* Count() *)
Definition cstring_count (c : coll) : Z := c_nobjects c.              (* StringCount() *)
Definition cpoint_count (c : coll) : Z := c_points c.                 (* PointCount() *)
Definition ctotal_weight (c : coll) : Z := c_weight c.                (* TotalWeight() *)
Definition scan_ids (c : coll) : list obj := c_objs c.                (* Scan asc; desc = rev *)
Definition search_values (c : coll) : list obj := c_values c.         (* SearchValues asc *)
Definition spatial_list (c : coll) : list obj := map snd (c_spatial c).
Definition scan_expires (c : coll) : list obj := c_expires c.         (* ScanExpires *)

(* recomputation from the retrievable objects *)
Definition zsum {A} (f : A -> Z) (l : list A) : Z := fold_right (fun o a => f o + a) 0 l.
Definition b2z (b : bool) : Z := if b then 1 else 0.

(* histories *)
Inductive op := OSet (o : obj) | ODel (id : bytes).
Definition apply (c : coll) (x : op) : coll :=
  match x with OSet o => cset c o | ODel id => cdelete c id end.
Definition run (ops : list op) : coll := fold_left apply ops cnew.

(* ---- Bounds ----
   Go: left/bottom/right/top = the R-tree's LeftMost/BottomMost/RightMost/TopMost entries
   (node.minist/maxist: the first entry of a node whose float32 key is strictly smaller/larger
   than all before it, recursively), then the exact float64 rectangle of those four objects.
   Which of several entries with the same float32 key is found depends on the tree shape, which
   is not modelled: bounds_ok says whether a reported rectangle is one the code can produce. *)
Definition is_min32 (sel : rect32 -> f32) (sp : list (rect32 * obj)) (e : rect32 * obj) : bool :=
  forallb (fun e' => negb (lt32 (sel (fst e')) (sel (fst e)))) sp.
Definition is_max32 (sel : rect32 -> f32) (sp : list (rect32 * obj)) (e : rect32 * obj) : bool :=
  forallb (fun e' => negb (lt32 (sel (fst e)) (sel (fst e')))) sp.

Definition f64_same (a b : f64) : bool :=
  match Bcompare a b with Some Eq => true | _ => false end.

Definition bounds_side_ok (extreme : (rect32 -> f32) -> list (rect32 * obj) -> rect32 * obj -> bool)
    (sel32 : rect32 -> f32) (sel64 : rect64 -> f64) (sp : list (rect32 * obj)) (v : f64) : bool :=
  existsb (fun e => extreme sel32 sp e && f64_same (sel64 (o_rect (snd e))) v) sp.

Definition bounds_ok (c : coll) (b : rect64) : bool :=
  match c_spatial c with
  | [] => f64_same (r64_minx b) zero64 && f64_same (r64_miny b) zero64 &&
          f64_same (r64_maxx b) zero64 && f64_same (r64_maxy b) zero64
  | sp => bounds_side_ok is_min32 r32_minx r64_minx sp (r64_minx b) &&
          bounds_side_ok is_min32 r32_miny r64_miny sp (r64_miny b) &&
          bounds_side_ok is_max32 r32_maxx r64_maxx sp (r64_maxx b) &&
          bounds_side_ok is_max32 r32_maxy r64_maxy sp (r64_maxy b)
  end.

(* the property as a user reads it: the reported rectangle is the exact bounding box *)
Definition bounds_exact (c : coll) (b : rect64) : bool :=
  match c_spatial c with
  | [] => true
  | sp => forallb (fun e => let r := o_rect (snd e) in
            le64 (r64_minx b) (r64_minx r) && le64 (r64_miny b) (r64_miny r) &&
            le64 (r64_maxx r) (r64_maxx b) && le64 (r64_maxy r) (r64_maxy b)) sp
  end.

(* ---- server totals (stats.go basicStats / extStats, metrics.go): plain sums over s.cols ---- *)
Definition cols := list (bytes * coll).
Definition srv_num_objects (cs : cols) : Z := zsum (fun kc => ccount (snd kc)) cs.
Definition srv_num_strings (cs : cols) : Z := zsum (fun kc => cstring_count (snd kc)) cs.
Definition srv_num_points (cs : cols) : Z := zsum (fun kc => cpoint_count (snd kc)) cs.
Definition srv_in_memory_size (cs : cols) : Z := zsum (fun kc => ctotal_weight (snd kc)) cs.
Definition srv_num_collections (cs : cols) : Z := Z.of_nat (length cs).
(* the retrievable dataset of the whole server *)
Definition all_objs (cs : cols) : list obj := flat_map (fun kc => scan_ids (snd kc)) cs.
