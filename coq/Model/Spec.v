(* C01 specification: the keyspace as a plain map  collection -> id -> (object, fields, deadline)
   and, for each parsed request, its documented reply and effect.  No proofs here.

   Shared vocabulary (replies, environment, oracles, parsed requests) lives here too so that the
   transcription of the handlers (Model/Keyspace.v) and later models (replay, expiry, shrink,
   follower) can use it.

   Reading guide: [sstate] is the map; [sexec] is one request; a deadline of 0 means "none"
   (that is the convention of the wire format and of the log), so has-deadline = (s_ex <> 0). *)
From Coq Require Import String Ascii.
From T38 Require Import Base.Bytes Base.SMap Model.Field Model.Object Model.Glob Model.Cursor.
Local Open Scope N_scope.

(* ---------- byte-string literals ---------- *)
Definition bs (s : string) : bytes := map (fun a => N_of_ascii a) (list_ascii_of_string s).

(* ---------- replies (RESP output mode) ---------- *)
Inductive reply :=
| RInt (n : Z)
| RBulk (b : bytes)
| RNil
| RArr (l : list reply)
| RErr (msg : bytes)          (* the Go error text, before writeErr's "ERR " prefixing *)
| ROk (s : bytes)             (* simple string *)
| RUnmodelled.                (* argument shapes outside this model (most SCAN options) *)

(* ---------- environment of one step ---------- *)
Record env := mkEnv {
  e_now : Z;                        (* time.Now().UnixNano() *)
  e_follower : bool;                (* config.followHost() != "" *)
  e_caughtup : bool;                (* caughtUpOnce() *)
  e_readonly : bool;                (* config.readOnly() *)
  e_hookkeys : list (bytes * bool)  (* (key, is_channel) of every registered hook: RENAME's guard *)
}.

(* ---------- opaque library behaviour ---------- *)
Inductive ores := OOk (b : bytes) | OErr (msg : bytes).
Inductive gres := GOk (g : geo) | GErr (msg : bytes).

Definition GK_POINT : N := 1.   (* args: lat lon [z] *)
Definition GK_BOUNDS : N := 2.  (* args: minlat minlon maxlat maxlon *)
Definition GK_HASH : N := 3.    (* args: geohash *)
Definition GK_OBJECT : N := 4.  (* args: geojson text *)

Record oracle := mkOracle {
  o_f : foracle;
  o_float_ok : bytes -> bool;                       (* strconv.ParseFloat(s, 64) succeeds *)
  o_dur : bytes -> Z;                               (* int64(float64(time.Second) * ParseFloat(s)) *)
  o_int : bytes -> option Z;                        (* strconv.ParseInt(s, 10, 64) *)
  o_uint : bytes -> option N;                       (* strconv.ParseUint(s, 10, 64) *)
  o_lower : bytes -> bytes;                         (* strings.ToLower *)
  o_mkgeo : N -> list bytes -> gres;                (* NewPoint/NewPointZ/NewRect/geohash.Decode/geojson.Parse *)
  o_point : geo -> list bytes;                      (* RESP "POINT" rendering: lat lon [z] *)
  o_bounds : geo -> list bytes;                     (* RESP "BOUNDS" rendering: minlat minlon maxlat maxlon *)
  o_hash : geo -> Z -> bytes;                       (* geohash of the centre at a precision *)
  o_sjson_set : bool -> bytes -> bytes -> bytes -> ores;  (* raw?, json, path, value: sjson.SetRaw / sjson.Set *)
  o_sjson_del : bytes -> bytes -> ores;             (* sjson.Delete *)
  o_jget : bytes -> option bytes -> bool -> option bytes  (* gjson.Get/Parse on the object text: None iff !Exists, else Raw / String() *)
}.

(* ---------- parsed requests ---------- *)
Definition RK_OBJECT : N := 0.
Definition RK_POINT : N := 1.
Definition RK_BOUNDS : N := 2.
Definition RK_HASH : N := 3.

Record retspec := mkRet { rs_ret : bool; rs_withfields : bool; rs_kind : N; rs_prec : Z }.

Inductive req :=
| QSet (key id : bytes) (fields : list field) (ex : Z) (nx xx : bool) (rs : retspec) (g : geo)
| QFset (key id : bytes) (xx : bool) (rs : retspec) (fields : list field)
| QDel (key id : bytes) (erron404 : bool)
| QPdel (key pat : bytes)
| QDrop (key : bytes)
| QRename (nx : bool) (key newkey : bytes)
| QFlushdb
| QExpire (key id : bytes) (ex : Z)
| QPersist (key id : bytes)
| QJset (key id path val : bytes) (raw : bool)
| QJdel (key id path : bytes)
| QGet (key id : bytes) (withfields : bool) (kind : N) (prec : Z)
| QFget (key id fname : bytes)
| QExists (key id : bytes)
| QFexists (key id fname : bytes)
| QTtl (key id : bytes)
| QType (key : bytes)
| QKeys (pat : bytes)
| QScan (key : bytes) (cursor limit : N) (globs : list bytes) (desc : bool) (out : N) (nofields : bool)
| QJget (key id : bytes) (path : option bytes) (raw : bool).

(* ---------- error texts (token.go) ---------- *)
Definition err_nargs : bytes := Eval compute in bs "invalid number of arguments".
Definition err_key_not_found : bytes := Eval compute in bs "key not found".
Definition err_id_not_found : bytes := Eval compute in bs "id not found".
Definition err_path_not_found : bytes := Eval compute in bs "path not found".
Definition err_key_has_hooks : bytes := Eval compute in bs "key has hooks set".
Definition err_key_has_chans : bytes := Eval compute in bs "key has channels set".
Definition str_OK : bytes := Eval compute in bs "OK".
Definition str_none : bytes := Eval compute in bs "none".
Definition str_hash : bytes := Eval compute in bs "hash".
Definition msg_invalid_arg_a : bytes := Eval compute in bs "invalid argument '".
Definition err_invalid_arg (a : bytes) : bytes := msg_invalid_arg_a ++ a ++ [39].

(* ---------- the plain map ---------- *)
Record sobj := mkSObj { s_geo : geo; s_fields : smap value; s_ex : Z }.
Definition sstate := smap (smap sobj).

Definition has_deadline (o : sobj) : bool := negb (s_ex o =? 0)%Z.

(* what a client can see of a state: objects, fields, has-deadline *)
Definition vis_obj (o : sobj) : geo * smap value * bool := (s_geo o, s_fields o, has_deadline o).
Definition vis (s : sstate) := smap_map (smap_map vis_obj) s.

Definition lookup (s : sstate) (key id : bytes) : option sobj :=
  match get key s with
  | Some c => get id c
  | None => None
  end.

Definition col_of (s : sstate) (key : bytes) : smap sobj :=
  match get key s with Some c => c | None => [] end.

(* store an object (creating the collection) / remove one (dropping an emptied collection) *)
Definition put (s : sstate) (key id : bytes) (o : sobj) : sstate := set key (set id o (col_of s key)) s.
Definition remove (s : sstate) (key id : bytes) : sstate :=
  match del id (col_of s key) with
  | [] => del key s
  | c => set key c s
  end.

(* ---------- fields ---------- *)
(* reading a field: a JSON-valued field jname answers jname.path when the path exists in it,
   otherwise the field literally called name; missing = the zero field. Values read back through
   [bfield] (null/true/false have one spelling). *)
Definition sf_exact (m : smap value) (name : bytes) : field :=
  match get name m with Some v => (name, bfield v) | None => zero_field end.

Definition sf_get (O : foracle) (m : smap value) (name : bytes) : field :=
  match split_dot name with
  | Some (j, p) =>
      match get j m with
      | Some v =>
          if v_kind v =? KJSON then
            match fo_gjson O (v_data v) p with
            | Some r => (name, bfield r)
            | None => sf_exact m name
            end
          else sf_exact m name
      | None => sf_exact m name
      end
  | None => sf_exact m name
  end.

(* writing a field: zero deletes, anything else is stored (a value that already reads back
   identically is left alone) *)
Definition sf_set (m : smap value) (f : field) : smap value :=
  if is_zero (snd f) then del (fst f) m
  else match get (fst f) m with
       | Some p => if value_same (bfield p) (snd f) then m else set (fst f) (snd f) m
       | None => set (fst f) (snd f) m
       end.

(* FSET: each field whose current reading differs from the new value is written and counted *)
Definition sf_fset_step (O : foracle) (acc : smap value * Z) (f : field) : smap value * Z :=
  let '(m, n) := acc in
  if value_same (snd (sf_get O m (fst f))) (snd f) then (m, n) else (sf_set m f, (n + 1)%Z).

(* ---------- replies built from an object ---------- *)
Definition fields_reply (fs : flist) : list reply :=
  flat_map (fun f => [RBulk (fst f); RBulk (v_data (snd f))]) fs.

Definition bounds_reply (l : list bytes) : reply :=
  match l with
  | [a; b; c; d] => RArr [RArr [RBulk a; RBulk b]; RArr [RBulk c; RBulk d]]
  | _ => RUnmodelled
  end.

Definition geo_reply (O : oracle) (g : geo) (kind : N) (prec : Z) : reply :=
  if kind =? RK_POINT then RArr (map RBulk (o_point O g))
  else if kind =? RK_BOUNDS then bounds_reply (o_bounds O g)
  else if kind =? RK_HASH then RBulk (o_hash O g prec)
  else RBulk (g_text g).

(* buildObjectResponse, RESP mode; [fs] is what Fields().Scan yields *)
Definition object_reply (O : oracle) (g : geo) (fs : flist) (withfields : bool) (kind : N) (prec : Z) : reply :=
  let v0 := geo_reply O g kind prec in
  if withfields then
    RArr (v0 :: match fs with [] => [] | _ => [RArr (fields_reply fs)] end)
  else v0.

Definition ttl_reply (now ex : Z) : reply :=
  if (ex =? 0)%Z then RInt (-1) else RInt (Z.max 0 (Z.quot (ex - now) 1000000000)).

Definition bool_reply (b : bool) : reply := RInt (if b then 1 else 0).

(* ---------- SCAN key [CURSOR c] [LIMIT n] [MATCH glob]... [ASC|DESC] [NOFIELDS] [IDS|OBJECTS|COUNT] ----------
   Pagination is C11's subject: the selection below is its model (Model/Cursor.v: [page] over the id
   order, Collection.Scan or ScanRange with the limits of multiGlobParse), used as it is by the
   handler model and by the specification. *)
Definition OUT_OBJECTS : N := 0.
Definition OUT_IDS : N := 1.
Definition OUT_COUNT : N := 2.
Definition max_uint64 : N := 18446744073709551615.

Definition glob_everything (globs : list bytes) : bool :=
  match globs with
  | [] => true
  | [p] => bytes_eqb p [STAR]
  | _ => false
  end.

(* scanWriter.globMatch on ids *)
Definition scan_test (matches : bytes -> bytes -> bool) (globs : list bytes) (id : bytes) : bool :=
  glob_everything globs || existsb (fun p => matches p id) globs.

(* the ids of one reply page and the reply cursor; [limit] is the effective limit *)
Definition scan_select (matches : bytes -> bytes -> bool) (ids : list bytes) (cursor limit : N)
           (globs : list bytes) (desc : bool) : list bytes * N :=
  let '(l0, l1) := multi_glob_parse globs desc in
  if isempty l0 && isempty l1 then scan_page (scan_test matches globs) desc ids cursor limit
  else scan_range_page (scan_test matches globs) desc l0 l1 ids cursor limit.

Definition scan_pick {V} (m : smap V) (ids : list bytes) : list (bytes * V) :=
  flat_map (fun id => match get id m with Some v => [(id, v)] | None => [] end) ids.

(* resp.IntegerValue(int(cursor)) *)
Definition int_of_uint64 (n : N) : Z :=
  let z := Z.of_N n in if (z <? 9223372036854775808)%Z then z else (z - 18446744073709551616)%Z.

Definition scan_item (O : oracle) (out : N) (nofields : bool) (io : bytes * sobj) : reply :=
  if out =? OUT_IDS then RBulk (fst io)
  else RArr (RBulk (fst io) :: RBulk (g_text (s_geo (snd io))) ::
             (if nofields then [] else
              match fl_scan (s_fields (snd io)) with [] => [] | fs => [RArr (fields_reply fs)] end)).

Definition hook_guard (e : env) (key newkey : bytes) : option bytes :=
  let touching := filter (fun h => bytes_eqb (fst h) key || bytes_eqb (fst h) newkey) (e_hookkeys e) in
  if existsb (fun h => negb (snd h)) touching then Some err_key_has_hooks
  else if existsb (fun h => snd h) touching then Some err_key_has_chans
  else None.

(* glob matching is C12's subject; the specification just takes the matcher *)
Section Exec.
Variable O : oracle.
Variable matches : bytes -> bytes -> bool.   (* glob.Match(pattern, name) = (true, nil) *)

(* one request: new state, reply, "updated" (= the command is appended to the log when it is a logged command) *)
Definition sexec (e : env) (s : sstate) (q : req) : sstate * reply * bool :=
  match q with
  | QSet key id fields ex nx xx rs g =>
      let old := lookup s key id in
      match old, nx, xx with
      | Some _, true, _ => (s, RNil, false)
      | None, _, true => (s, RNil, false)
      | _, _, _ =>
          let fs := fold_left sf_set fields (match old with Some o => s_fields o | None => [] end) in
          let o := mkSObj g fs ex in
          (put s key id o,
           (if rs_ret rs then object_reply O g (fl_scan fs) (rs_withfields rs) (rs_kind rs) (rs_prec rs) else ROk str_OK),
           true)
      end
  | QFset key id xx rs fields =>
      match get key s with
      | None => (s, RErr err_key_not_found, false)
      | Some c =>
          match get id c with
          | None => if xx then (s, RInt 0, false) else (s, RErr err_id_not_found, false)
          | Some o =>
              let '(fs, n) := fold_left (sf_fset_step (o_f O)) fields (s_fields o, 0%Z) in
              (put s key id (mkSObj (s_geo o) fs (s_ex o)),
               (if rs_ret rs then object_reply O (s_geo o) (fl_scan fs) (rs_withfields rs) (rs_kind rs) (rs_prec rs) else RInt n),
               (0 <? n)%Z)
          end
      end
  | QDel key id erron404 =>
      match get key s with
      | None => if erron404 then (s, RErr err_key_not_found, false) else (s, RInt 0, false)
      | Some c =>
          match get id c with
          | None => if erron404 then (s, RErr err_id_not_found, false) else (s, RInt 0, false)
          | Some _ => (remove s key id, RInt 1, true)
          end
      end
  | QPdel key pat =>
      match get key s with
      | None => (s, RInt 0, false)
      | Some c =>
          let gone := filter (fun io => matches pat (fst io)) c in
          let c' := filter (fun io => negb (matches pat (fst io))) c in
          ((match c' with [] => del key s | _ => set key c' s end),
           RInt (Z.of_nat (length gone)), negb (isempty gone))
      end
  | QDrop key =>
      match get key s with
      | None => (s, RInt 0, false)
      | Some _ => (del key s, RInt 1, true)
      end
  | QRename nx key newkey =>
      match get key s with
      | None => (s, RErr err_key_not_found, false)
      | Some c =>
          match hook_guard e key newkey with
          | Some msg => (s, RErr msg, false)
          | None =>
              match get newkey s, nx with
              | Some _, true => (s, RInt 0, false)
              | _, _ => (set newkey c (del key (del newkey s)), (if nx then RInt 1 else ROk str_OK), true)
              end
          end
      end
  | QFlushdb => ([], ROk str_OK, true)
  | QExpire key id ex =>
      match lookup s key id with
      | None => (s, RInt 0, false)
      | Some o => (put s key id (mkSObj (s_geo o) (s_fields o) ex), RInt 1, true)
      end
  | QPersist key id =>
      match lookup s key id with
      | None => (s, RInt 0, false)
      | Some o =>
          if (s_ex o =? 0)%Z then (s, RInt 0, false)
          else (put s key id (mkSObj (s_geo o) (s_fields o) 0), RInt 1, true)
      end
  | QJset key id path val raw =>
      let old := lookup s key id in
      let json := match old with Some o => g_text (s_geo o) | None => [] end in
      match o_sjson_set O raw json path val with
      | OErr msg => (s, RErr msg, false)
      | OOk json' =>
          match old with
          | Some o =>
              if g_spatial (s_geo o) then
                (* a geometry is re-parsed; fields stay, the deadline is dropped *)
                match o_mkgeo O GK_OBJECT [json'] with
                | GErr msg => (s, RErr msg, false)
                | GOk g => (put s key id (mkSObj g (s_fields o) 0), ROk str_OK, true)
                end
              else (put s key id (mkSObj (mkGeo false json') (s_fields o) 0), ROk str_OK, true)
          | None => (put s key id (mkSObj (mkGeo false json') [] 0), ROk str_OK, true)
          end
      end
  | QJdel key id path =>
      match get key s with
      | None => (s, RInt 0, false)
      | Some c =>
          let old := get id c in
          let json := match old with Some o => g_text (s_geo o) | None => [] end in
          match o_sjson_del O json path with
          | OErr msg => (s, RErr msg, false)
          | OOk json' =>
              if bytes_eqb json' json then (s, RInt 0, false)
              else
                match old with
                | Some o =>
                    if g_spatial (s_geo o) then
                      match o_mkgeo O GK_OBJECT [json'] with
                      | GErr msg => (s, RErr msg, false)
                      | GOk g => (put s key id (mkSObj g (s_fields o) 0), ROk str_OK, true)
                      end
                    else (put s key id (mkSObj (mkGeo false json') (s_fields o) 0), RInt 1, true)
                | None => (put s key id (mkSObj (mkGeo false json') [] 0), RInt 1, true)
                end
          end
      end
  | QGet key id withfields kind prec =>
      match lookup s key id with
      | None => (s, RNil, false)
      | Some o => (s, object_reply O (s_geo o) (fl_scan (s_fields o)) withfields kind prec, false)
      end
  | QFget key id fname =>
      match get key s with
      | None => (s, RErr err_key_not_found, false)
      | Some c =>
          match get id c with
          | None => (s, RErr err_id_not_found, false)
          | Some o => (s, RBulk (v_data (snd (sf_get (o_f O) (s_fields o) fname))), false)
          end
      end
  | QExists key id =>
      match get key s with
      | None => (s, RErr err_key_not_found, false)
      | Some c => (s, bool_reply (mem id c), false)
      end
  | QFexists key id fname =>
      match get key s with
      | None => (s, RErr err_key_not_found, false)
      | Some c =>
          match get id c with
          | None => (s, RErr err_id_not_found, false)
          | Some o => (s, bool_reply (negb (isempty (fst (sf_get (o_f O) (s_fields o) fname)))), false)
          end
      end
  | QTtl key id =>
      match lookup s key id with
      | None => (s, RInt (-2), false)
      | Some o => (s, ttl_reply (e_now e) (s_ex o), false)
      end
  | QType key =>
      match get key s with
      | None => (s, ROk str_none, false)
      | Some _ => (s, ROk str_hash, false)
      end
  | QKeys pat => (s, RArr (map RBulk (filter (matches pat) (keys s))), false)
  | QScan key cursor limit globs desc out nofields =>
      match get key s with
      | None => (s, (if out =? OUT_COUNT then RInt 0 else RArr [RInt 0; RArr []]), false)
      | Some c =>
          if out =? OUT_COUNT then
            if glob_everything globs then
              (* the objects after the first [cursor] ones, at most LIMIT of them *)
              (s, RInt (Z.of_N (N.min (N.of_nat (length c) - cursor) (if limit =? 0 then max_uint64 else limit))), false)
            else
              let '(ids, _) := scan_select matches (keys c) cursor (if limit =? 0 then max_uint64 else limit) globs desc in
              (s, RInt (Z.of_nat (length ids)), false)
          else
            let '(ids, cur) := scan_select matches (keys c) cursor (eff_limit limit) globs desc in
            (s, RArr [RInt (int_of_uint64 cur); RArr (map (scan_item O out nofields) (scan_pick c ids))], false)
      end
  | QJget key id path raw =>
      match lookup s key id with
      | None => (s, RNil, false)
      | Some o =>
          match o_jget O (g_text (s_geo o)) path raw with
          | None => (s, RNil, false)
          | Some v => (s, RBulk v, false)
          end
      end
  end.

End Exec.
