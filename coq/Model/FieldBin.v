(* internal/field/list_binary.go — the PACKED layout of field.List, executable model, no proofs.

     list  = nil | p -> (size, entry, [entry...])      one allocation, the List value is the bare *byte
     size  = uvarint   number of bytes that follow the header
     entry = (name, kind, [vdata])
     name  = uvarint   number of the name in the shared-string table (useSharedNames = true)
     kind  = byte
     vdata = (uvarint length, bytes)                   only for the kinds Number, String, JSON

   Transcribed: ptob (the size header is read through a window of [peek] bytes at p — the constant
   of `bytes{p, 10, 10}`; it is a parameter here and coq/Gen/FieldBin.v carries the value found in
   the source), uvarint (= Model.Object.uvarint, the two Go functions are the same loop),
   binary.PutUvarint (= Model.Object.put_uvarint 10), putfield, delfield, and the entry loop of
   List.Set / Get / Scan / Len, List.Weight.  All sizes and indices are N.

   Memory: a List is [None] (nil) or [Some buf] with buf = the bytes of the allocation p points to.
   Go forms slices over p with lengths taken from the header; a slice or a read that reaches
   past the allocation is outside this model and is the distinct outcome [Wild]. An index or slice
   expression Go would panic on is [Crash]; [NoFuel] = the loop bound of the model was exhausted.

   The shared-name table (internal/sstring: Store / Load) is the record [snames]; nothing is
   assumed about it here. gjson.Get inside List.Get is Model.Field's [foracle]. *)
From T38 Require Import Base.Bytes Model.Field Model.Object.

Inductive res (A : Type) : Type := Val (a : A) | Crash | Wild | NoFuel.
Arguments Val {A} a.
Arguments Crash {A}.
Arguments Wild {A}.
Arguments NoFuel {A}.

Definition blist := option bytes.

Record snames := mkSNames {
  sn_store : bytes -> N;            (* sstring.Store(name) *)
  sn_load : N -> option bytes       (* sstring.Load(num); None = panic("string not found") *)
}.

(* len, b[:n], b[n:] on N *)
Fixpoint lenN (b : bytes) : N := match b with [] => 0 | _ :: r => N.succ (lenN r) end.
Fixpoint takeN (n : N) (b : bytes) : bytes :=
  match b with [] => [] | x :: r => if n =? 0 then [] else x :: takeN (N.pred n) r end.
Fixpoint dropN (n : N) (b : bytes) : bytes :=
  match b with [] => [] | x :: r => if n =? 0 then b else dropN (N.pred n) r end.
Fixpoint zerosN (fuel : nat) (n : N) : bytes :=
  match fuel with O => [] | S f => if n =? 0 then [] else 0 :: zerosN f (N.pred n) end.

Definition two63 : N := 9223372036854775808.

(* binary.PutUvarint(buf[:], uint64(x)) with a 10-byte buffer: the bytes written *)
Definition put_uv (x : N) : bytes := put_uvarint 10 (x mod two64).

(* p := make([]byte, plen); copy(p[i:], c) for each component in turn: bytes beyond plen are
   dropped, bytes not written stay zero *)
Definition fit (plen : N) (l : bytes) : bytes :=
  takeN plen (l ++ zerosN (N.to_nat (plen - lenN l)) (plen - lenN l)).

(* ---- ptob: the body of the list (the bytes after the size header) ---- *)
Definition ptob (peek : N) (p : blist) : res bytes :=
  match p with
  | None => Val []
  | Some buf =>
      (* x, n := uvarint of the fake slice bytes{p, peek, peek} *)
      let '(x, n) := uvarint (takeN peek buf) in
      if (n =? 0) && (lenN buf <? peek) then Wild          (* the loop ran past the allocation *)
      else if two63 <=? x then Crash                       (* int(x) < 0: slice bounds *)
      else if lenN buf <? n + x then Wild                  (* {p, n+x, n+x} extends past the allocation *)
      else Val (dropN n (takeN (n + x) buf))                (* the fake slice bytes{p, n+x, n+x}, then [n:] *)
  end.

(* List.Weight *)
Definition weight (peek : N) (p : blist) : res N :=
  match p with
  | None => Val 0
  | Some buf =>
      let '(x, n) := uvarint (takeN peek buf) in
      if (n =? 0) && (lenN buf <? peek) then Wild else Val (x + n)
  end.

(* ---- one turn of the entry loop shared by Set / Get / Scan / Len; r = b[i:] ----
   None = `n == 0 → break`; Some (name number, kind, data, bytes consumed) *)
Definition read_entry (r : bytes) : res (option (N * N * bytes * N)) :=
  let '(x, n) := uvarint r in
  if n =? 0 then Val None else
  match dropN n r with
  | [] => Crash                                            (* kind := Kind(b[i]) *)
  | kind :: r2 =>
      if datakind kind then
        let '(x2, n2) := uvarint r2 in
        if lenN r2 <? n2 + x2 then Crash                   (* b[i+n : i+n+x] *)
        else Val (Some (x, kind, takeN x2 (dropN n2 r2), n + 1 + n2 + x2))
      else Val (Some (x, kind, [], n + 1))
  end.

(* ---- putfield(b, f, s, e) ---- *)
Definition putfield (sn : snames) (b : bytes) (f : field) (s e : N) : res blist :=
  if (lenN b <? e) || (lenN b <? s) then Crash else
  let namesz := put_uv (sn_store sn (fst f)) in
  let kind := v_kind (snd f) in
  let isd := datakind kind in
  let data := if isd then v_data (snd f) else [] in
  let datasz := if isd then put_uv (lenN data) else [] in
  let totallen := s + lenN namesz + 1 + (lenN b - e) + (if isd then lenN datasz + lenN data else 0) in
  let psz := put_uv totallen in
  let plen := lenN psz + totallen in
  Val (Some (fit plen (psz ++ takeN s b ++ namesz ++ [kind mod 256] ++ datasz ++ data ++ dropN e b))).

(* ---- delfield(b, s, e) ---- *)
Definition delfield (b : bytes) (s e : N) : res blist :=
  if (lenN b <? e) || (lenN b <? s) then Crash else
  let totallen := s + (lenN b - e) in
  if totallen =? 0 then Val None else
  let psz := put_uv totallen in
  Val (Some (fit (lenN psz + totallen) (psz ++ takeN s b ++ dropN e b))).

(* ---- List.Set ---- *)
Fixpoint set_loop (fuel : nat) (sn : snames) (p : blist) (b : bytes) (i : N) (f : field) : res blist :=
  match fuel with
  | O => NoFuel
  | S fuel' =>
      let after (i : N) := if is_zero (snd f) then Val p else putfield sn b f i i in
      match read_entry (dropN i b) with
      | Val None => after i
      | Val (Some (num, kind, data, c)) =>
          match sn_load sn num with
          | None => Crash
          | Some name =>
              if bytes_ltb (fst f) name then after i                    (* insert before: i = s *)
              else if bytes_eqb name (fst f) then
                if is_zero (snd f) then delfield b i (i + c)
                else if value_same (bfield (mkValue kind data)) (snd f) then Val p
                else putfield sn b f i (i + c)
              else set_loop fuel' sn p b (i + c) f
          end
      | Crash => Crash
      | Wild => Wild
      | NoFuel => NoFuel
      end
  end.

Definition bl_set (peek : N) (sn : snames) (p : blist) (f : field) : res blist :=
  match ptob peek p with
  | Val b => set_loop (S (length b)) sn p b 0 f
  | Crash => Crash
  | Wild => Wild
  | NoFuel => NoFuel
  end.

(* ---- List.Scan (every entry as bfield shows it) ---- *)
Fixpoint scan_loop (fuel : nat) (sn : snames) (r : bytes) : res flist :=
  match fuel with
  | O => NoFuel
  | S fuel' =>
      match read_entry r with
      | Val None => Val []
      | Val (Some (num, kind, data, c)) =>
          match sn_load sn num with
          | None => Crash
          | Some name =>
              match scan_loop fuel' sn (dropN c r) with
              | Val l => Val ((name, bfield (mkValue kind data)) :: l)
              | e => e
              end
          end
      | Crash => Crash
      | Wild => Wild
      | NoFuel => NoFuel
      end
  end.

Definition bl_scan (peek : N) (sn : snames) (p : blist) : res flist :=
  match ptob peek p with
  | Val b => scan_loop (S (length b)) sn b
  | Crash => Crash
  | Wild => Wild
  | NoFuel => NoFuel
  end.

(* ---- List.Len (names are not loaded) ---- *)
Fixpoint len_loop (fuel : nat) (r : bytes) : res N :=
  match fuel with
  | O => NoFuel
  | S fuel' =>
      match read_entry r with
      | Val None => Val 0
      | Val (Some (_, _, _, c)) =>
          match len_loop fuel' (dropN c r) with Val k => Val (k + 1) | e => e end
      | Crash => Crash
      | Wild => Wild
      | NoFuel => NoFuel
      end
  end.

Definition bl_len (peek : N) (p : blist) : res N :=
  match ptob peek p with
  | Val b => len_loop (S (length b)) b
  | Crash => Crash
  | Wild => Wild
  | NoFuel => NoFuel
  end.

(* ---- List.Get (repaired loop, as Model.Field.fl_get_loop, on the packed bytes) ---- *)
Fixpoint get_loop (fuel : nat) (sn : snames) (G : foracle) (isj : bool) (jname jpath name : bytes) (r : bytes) : res field :=
  match fuel with
  | O => NoFuel
  | S fuel' =>
      match read_entry r with
      | Val None => Val zero_field
      | Val (Some (num, kind, data, c)) =>
          match sn_load sn num with
          | None => Crash
          | Some fname =>
              match (if (kind =? KJSON) && isj && bytes_eqb fname jname then fo_gjson G data jpath else None) with
              | Some v => Val (name, bfield v)
              | None =>
                  if bytes_ltb name fname then Val zero_field
                  else if bytes_eqb fname name then Val (name, bfield (mkValue kind data))
                  else get_loop fuel' sn G isj jname jpath name (dropN c r)
              end
          end
      | Crash => Crash
      | Wild => Wild
      | NoFuel => NoFuel
      end
  end.

Definition bl_get (peek : N) (sn : snames) (G : foracle) (p : blist) (name : bytes) : res field :=
  match ptob peek p with
  | Val b =>
      match split_dot name with
      | Some (j, q) => get_loop (S (length b)) sn G true j q name b
      | None => get_loop (S (length b)) sn G false [] [] name b
      end
  | Crash => Crash
  | Wild => Wild
  | NoFuel => NoFuel
  end.

(* ---- the layout as a specification: what a name-sorted entry sequence is stored as ---- *)
Definition enc_entry (sn : snames) (f : field) : bytes :=
  let kind := v_kind (snd f) in
  put_uv (sn_store sn (fst f)) ++ [kind] ++
  (if datakind kind then put_uv (lenN (v_data (snd f))) ++ v_data (snd f) else []).

Definition enc_body (sn : snames) (l : flist) : bytes := concat (map (enc_entry sn) l).

Definition enc_buf (body : bytes) : blist :=
  match body with [] => None | _ => Some (put_uv (lenN body) ++ body) end.

Definition enc (sn : snames) (l : flist) : blist := enc_buf (enc_body sn l).

(* the number of header bytes for a body of x bytes, by the boundaries 2^7, 2^14, ... *)
Definition header_len (x : N) : N := lenN (put_uv x).

(* the longest header the writers can emit: binary.PutUvarint of a uint64 *)
Definition max_header_len : N := 10.
