(* The reply path of a connection on top of the script model (C18: "every write [a script] makes is logged
   so restarts ... reproduce it" - for the instant at which the client HOLDS the reply).

   Transcribed from /repo/internal/server:
     aof.go     writeAOF           s.aofdirty.Store(true) whenever it appends to the buffer (any caller: the
                                   `if write` block of handleInputCommand, luaTile38AtomicRW, luaTile38NonAtomic)
     server.go  netServe           after the commands of a packet were handled: `if len(client.out) > 0 {
                                   if <guard> { Lock; flushAOF; aofdirty.Store(false); Unlock }; conn.Write(client.out) }`
     aof.go     flushAOF           the whole buffer goes to the file
     server.go  backgroundSyncAOF  flushes under the lock now and then
   The <guard> is read from Gen/ReplyFlush.v (regenerated): the model flushes before a reply iff the source's
   guard is exactly the server-wide flag and the flag is set; with any other condition in front of the flush
   the model does what such a server may do - send without flushing.

   `file` is the number of records of the log that are in the file. Ghost: for every reply that went
   out, who sent it, how many of its requests it acknowledges, and what the file held at that moment.
   No proofs here. *)
From Coq Require Import String List Bool Arith.
From T38 Require Import Base.Bytes Model.Tables Gen.ReplyFlush Model.Gate Model.Replay Model.Script.
Import ListNotations.
Open Scope nat_scope.

Section Flush.
Variables S val herr : Type.
Variable cname : cmd -> string.
Variable handler : string -> S -> cmd -> S * (val + herr) * bool.
Variable e : env.

Record fstate := mkF {
  f_g : gstate S val herr;
  f_file : nat;                         (* records of the log that reached the file *)
  f_dirty : bool;                       (* s.aofdirty *)
  f_acked : nat -> nat;                 (* per connection: requests whose replies were written to the socket *)
  f_sends : list (nat * (nat * nat)) }. (* ghost: (connection, (requests acknowledged so far, file at that moment)) *)

Inductive fop :=
| FStep (u : nat)      (* a micro-step of connection u inside handleInputCommand (Model/Script.v) *)
| FReply (u : nat)     (* netServe writes connection u's pending replies *)
| FSync.               (* backgroundSyncAOF *)

Definition lock_free (g : gstate S val herr) : bool := can_acquire (wr g) (rd g) LExcl.

Definition fstep (f : fstate) (o : fop) : fstate :=
  let g := f_g f in
  match o with
  | FStep u =>
      let g' := sstep cname handler e g u in
      let grew := Nat.ltb (length (log g)) (length (log g')) in
      mkF g' (f_file f) (f_dirty f || (grew && flag_raised_in_writeaof)) (f_acked f) (f_sends f)
  | FReply u =>
      let ts := th g u in
      match t_pc ts with
      | PIdle =>
          if Nat.ltb (f_acked f u) (t_rid ts) then          (* len(client.out) > 0 *)
            let send file dirty :=
              mkF g file dirty (fun t => if Nat.eqb t u then t_rid ts else f_acked f t)
                  (f_sends f ++ [(u, (t_rid ts, file))]) in
            if reply_flush_on_global_flag && f_dirty f then
              if lock_free g then send (length (log g)) false else f     (* waits for the lock *)
            else send (f_file f) (f_dirty f)
          else f
      | _ => f
      end
  | FSync => if lock_free g then mkF g (length (log g)) (f_dirty f) (f_acked f) (f_sends f) else f
  end.

Definition frun (f : fstate) (ops : list fop) : fstate := fold_left fstep ops f.
Definition finit (s0 : S) (progs : nat -> list (req val herr)) : fstate :=
  mkF (sinit s0 progs) 0 false (fun _ => 0) [].

End Flush.

Arguments mkF {S val herr}. Arguments f_g {S val herr}. Arguments f_file {S val herr}. Arguments f_dirty {S val herr}.
Arguments f_acked {S val herr}. Arguments f_sends {S val herr}. Arguments fstep {S val herr}. Arguments frun {S val herr}.
Arguments finit {S val herr}. Arguments lock_free {S val herr}.
