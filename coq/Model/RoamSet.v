(* Model/RoamSet.v — where the "previous position" of a roaming evaluation comes from: the tail of
   cmdSET (crud.go) and the stored objects' deadlines.

     obj := object.New(id, oobj, ex, flist)
     old := col.Set(obj)              (Collection.Set returns the item it replaces - whatever its deadline)
     ...
     d.obj = obj ; d.old = old        (commandDetails)
   and fenceMatch's roam arm calls  fenceMatchRoam(sw.s, fence, details.obj, details.old).
   An object whose TTL has run out stays stored until backgroundExpireObjects deletes it (the sweep
   runs every tenth of a second); GET / EXISTS / the roaming search see it until then, and so does
   col.Set.  t38x re-reads the assignments to `old` and to `d.old` in cmdSET and the arguments of the
   fenceMatchRoam call into coq/Gen/SetOld.v (c20_set_old_source_tied).  No proofs here. *)
From Coq Require Import List NArith ZArith Bool.
From T38 Require Import Base.Bytes Model.Glob Model.Roam.
Import ListNotations.

Section RoamSet.
  Variable G : Type.
  Variable dist : G -> G -> Z.
  Variable in_rect : G -> Z -> G -> bool.

  (* a stored object: id, geometry, Expires() (None = no TTL, Some d = absolute deadline) *)
  Record sobj := { s_id : bytes; s_geo : G; s_exp : option Z }.

  Definition sid_is (id : bytes) (o : sobj) : bool := bytes_eqb (s_id o) id.
  (* Collection.Get: by id; the deadline is not looked at *)
  Definition col_get (id : bytes) (col : list sobj) : option sobj := find (sid_is id) col.
  (* Collection.Set: stores the object under its id, returns the item it replaces *)
  Definition col_set (o : sobj) (col : list sobj) : list sobj * option sobj :=
    (o :: filter (fun x => negb (sid_is (s_id o) x)) col, col_get (s_id o) col).
  Definition col_del (id : bytes) (col : list sobj) : list sobj := filter (fun x => negb (sid_is id x)) col.

  Definition expired (now : Z) (o : sobj) : bool :=
    match s_exp o with Some d => Z.leb d now | None => false end.
  (* backgroundExpireObjects: deletes the objects whose deadline has passed *)
  Definition sweep (now : Z) (col : list sobj) : list sobj := filter (fun o => negb (expired now o)) col.

  (* what cmdSET puts into commandDetails.old, given the clock and the item col.Set returned *)
  Definition old_policy : Type := Z -> option sobj -> option sobj.
  (* the code:  old := col.Set(obj) ; d.old = old *)
  Definition old_as_is : old_policy := fun _ o => o.
  (* a variant that forgets a replaced item whose deadline has passed *)
  Definition old_forget_expired : old_policy :=
    fun now o => match o with Some x => if expired now x then None else Some x | None => None end.

  (* cmdSET: the new collection and commandDetails.old *)
  Definition set_details (pol : old_policy) (now : Z) (col : list sobj) (o : sobj) : list sobj * option sobj :=
    let (col', old) := col_set o col in (col', pol now old).

  Definition to_robj (o : sobj) : robj G := {| o_id := s_id o; o_geo := s_geo o |}.

  (* the roam arm of fenceMatch for that SET, for a fence roaming the collection rcol (as it is after
     the SET):  fenceMatchRoam(s, fence, details.obj, details.old) *)
  Definition set_roam (pol : old_policy) (now : Z) (col : list sobj) (o : sobj)
                      (rcol : list (robj G)) (sw : roamsw) : roam_res G :=
    fence_match_roam G dist in_rect rcol sw (to_robj o) (option_map to_robj (snd (set_details pol now col o))).

  (* histories of the fenced collection *)
  Inductive kop := KSet (now : Z) (o : sobj) | KDel (id : bytes) | KSweep (now : Z).
  Definition kstep (col : list sobj) (k : kop) : list sobj :=
    match k with
    | KSet now o => fst (set_details old_as_is now col o)
    | KDel id => col_del id col
    | KSweep now => sweep now col
    end.
  Definition krun (ops : list kop) : list sobj := fold_left kstep ops [].
End RoamSet.
