(* C13 — executable model of NEARBY: rtree.Nearby's best-first traversal, Collection.Nearby's
   cursor skeleton, cmdNearby's radius cut and LIMIT.  No proofs here.

   Transcribed from
     /root/go/pkg/mod/github.com/tidwall/rtree@v1.10.0/rtree.go   RTreeGN.Nearby
     /repo/internal/collection/collection.go                      Collection.Nearby
     /repo/internal/server/search.go                              cmdNearby (the `iter` closure)
     /repo/internal/server/scanner.go                             pushObject / writeFoot (shared with C11:
                                                                  Model/Cursor.v push_object, sw)

   rtree.Nearby:
       if tr.root == nil { return }
       q.push({dist: 0, rect: tr.rect, node: tr.root})
       for {
         qn, ok := q.pop();  if !ok { return }
         if qn.node == nil {                       an item: hand it to the caller with its queue key
           if !iter(qn.rect.min, qn.rect.max, qn.data, qn.dist) { return }
         } else if leaf {
           for each item i:   q.push({dist: dist(rects[i], items[i], true),  data: items[i]})
         } else {
           for each child i:  q.push({dist: dist(rects[i], empty, false),    node: children[i]})
         }
       }
   `dist(_, item, true)` is geodeticDistAlgo on the object's own rectangle obj.Rect() — a function
   of the item alone: dist_item.  `dist(rect, _, false)` is the same function on the node
   rectangle — a function of the rectangle alone: dist_rect (the lower bound `lb`).
   Distances are an abstract totally ordered type; the executable model uses Z (the harness maps
   the float64 distances to order-preserving integers).

   The queue discipline is a parameter of the traversal (qpush / qpop).  Two disciplines are
   given: `list_push` / `pop_min` (a list whose pop removes the first entry of minimal key) and
   `heap_push` / `heap_pop`, a transcription of the library's binary min-heap (push: append and
   sift up while nodes[parent].dist > nodes[i].dist; pop: move the last entry to the root and sift
   down preferring a child whose dist is <= the current smallest).  The theorems hold for every
   discipline that satisfies KnnProofs.queue_ok (push adds the entry, pop returns an entry of
   minimal key and leaves the others); they never depend on the order inside a tie. *)
From Coq Require Import List NArith ZArith Bool.
From T38 Require Import Model.Cursor.
Import ListNotations.

Inductive fuelled (X : Type) : Type :=
| Done (x : X)
| OutOfFuel.
Arguments Done {X} x.
Arguments OutOfFuel {X}.

Section Knn.
  Context {I R : Type}.
  Variable dist_item : I -> Z.     (* dist(min, max, data, item = true)  *)
  Variable dist_rect : R -> Z.     (* dist(min, max, empty, item = false) *)

  (* node.rects[i] paired with node.items()[i] / node.children()[i] *)
  Inductive tree : Type :=
  | Leaf (items : list (R * I))
  | Node (children : list (R * tree)).

  Inductive qelem : Type :=
  | QItem (i : I)                  (* qn.node == nil *)
  | QNode (t : tree).
  Definition qnode : Type := (Z * qelem)%type.   (* (qn.dist, ...) *)
  Definition queue : Type := list qnode.

  (* pop: an entry of minimal key (the first one), and the queue without it *)
  Fixpoint pop_min (q : queue) : option (qnode * queue) :=
    match q with
    | [] => None
    | x :: r =>
        match pop_min r with
        | None => Some (x, [])
        | Some (m, r') => if (fst x <=? fst m)%Z then Some (x, r) else Some (m, x :: r')
        end
    end.

  Definition list_push (q : queue) (e : qnode) : queue := q ++ [e].

  (* ---- the library's queue: a binary min-heap in a slice ----
     func (q *queue) push(node) {
       q = append(q, node); nodes := q; i := len(nodes) - 1; parent := (i - 1) / 2
       for ; i != 0 && nodes[parent].dist > nodes[i].dist; parent = (i - 1) / 2 {
         nodes[parent], nodes[i] = nodes[i], nodes[parent]; i = parent } }
     func (q *queue) pop() (qnode, bool) {
       if len(nodes) == 0 { return _, false }
       n, nodes[0] = nodes[0], nodes[len-1]; nodes = nodes[:len-1]; i := 0
       for { smallest := i; left := i*2 + 1; right := i*2 + 2
             if left < len(nodes) && nodes[left].dist <= nodes[smallest].dist { smallest = left }
             if right < len(nodes) && nodes[right].dist <= nodes[smallest].dist { smallest = right }
             if smallest == i { break }
             nodes[smallest], nodes[i] = nodes[i], nodes[smallest]; i = smallest }
       return n, true }
     Every index the Go code uses is below len(nodes) by its own guards (parent < i, left/right are
     tested), so no slice access can panic; the `None` arms below are unreachable. *)
  Fixpoint set_nth (l : queue) (i : nat) (x : qnode) : queue :=
    match l, i with
    | [], _ => []
    | _ :: r, O => x :: r
    | y :: r, Datatypes.S i' => y :: set_nth r i' x
    end.
  Definition swap_nth (l : queue) (i j : nat) : queue :=
    match nth_error l i, nth_error l j with
    | Some a, Some b => set_nth (set_nth l i b) j a
    | _, _ => l
    end.
  Definition key_at (l : queue) (i : nat) : option Z := option_map fst (nth_error l i).

  Fixpoint sift_up (fuel : nat) (nodes : queue) (i : nat) : queue :=
    match fuel with
    | O => nodes
    | Datatypes.S fuel' =>
        if Nat.eqb i 0 then nodes
        else
          let parent := Nat.div (i - 1) 2 in
          match key_at nodes parent, key_at nodes i with
          | Some kp, Some ki =>
              if (ki <? kp)%Z then sift_up fuel' (swap_nth nodes parent i) parent else nodes
          | _, _ => nodes
          end
    end.
  Definition heap_push (q : queue) (e : qnode) : queue :=
    let nodes := q ++ [e] in sift_up (length nodes) nodes (length nodes - 1).

  Fixpoint sift_down (fuel : nat) (nodes : queue) (i : nat) : queue :=
    match fuel with
    | O => nodes
    | Datatypes.S fuel' =>
        let left := (i * 2 + 1)%nat in
        let right := (i * 2 + 2)%nat in
        let smallest :=
          match key_at nodes left, key_at nodes i with
          | Some kl, Some ks => if (kl <=? ks)%Z then left else i
          | _, _ => i
          end in
        let smallest :=
          match key_at nodes right, key_at nodes smallest with
          | Some kr, Some ks => if (kr <=? ks)%Z then right else smallest
          | _, _ => smallest
          end in
        if Nat.eqb smallest i then nodes
        else sift_down fuel' (swap_nth nodes smallest i) smallest
    end.
  Definition heap_pop (q : queue) : option (qnode * queue) :=
    match q with
    | [] => None
    | n :: _ =>
        let nodes := removelast (set_nth q 0 (last q n)) in
        Some (n, sift_down (length nodes) nodes 0)
    end.

  (* ---- the traversal, for any queue discipline ---- *)
  Variable qpush : queue -> qnode -> queue.
  Variable qpop : queue -> option (qnode * queue).

  Definition push_all (q : queue) (es : list qnode) : queue := fold_left qpush es q.
  Definition push_items (q : queue) (items : list (R * I)) : queue :=
    push_all q (map (fun ri => (dist_item (snd ri), QItem (snd ri))) items).
  Definition push_children (q : queue) (children : list (R * tree)) : queue :=
    push_all q (map (fun rc => (dist_rect (fst rc), QNode (snd rc))) children).

  (* the loop, with the caller's iterator as a state-passing callback returning keep-going *)
  Fixpoint knn_loop {S : Type} (fuel : nat) (q : queue) (iter : S -> I -> Z -> S * bool) (s : S)
      : fuelled S :=
    match fuel with
    | O => OutOfFuel
    | Datatypes.S fuel' =>
        match qpop q with
        | None => Done s
        | Some ((k, QItem i), q') =>
            let '(s', keep) := iter s i k in
            if keep then knn_loop fuel' q' iter s' else Done s'
        | Some ((_, QNode (Leaf items)), q') => knn_loop fuel' (push_items q' items) iter s
        | Some ((_, QNode (Node children)), q') => knn_loop fuel' (push_children q' children) iter s
        end
    end.

  (* the same loop with an iterator that never stops: the complete kNN order with the keys *)
  Fixpoint knn_order (fuel : nat) (q : queue) : fuelled (list (I * Z)) :=
    match fuel with
    | O => OutOfFuel
    | Datatypes.S fuel' =>
        match qpop q with
        | None => Done []
        | Some ((k, QItem i), q') =>
            match knn_order fuel' q' with
            | Done l => Done ((i, k) :: l)
            | OutOfFuel => OutOfFuel
            end
        | Some ((_, QNode (Leaf items)), q') => knn_order fuel' (push_items q' items)
        | Some ((_, QNode (Node children)), q') => knn_order fuel' (push_children q' children)
        end
    end.

  (* number of queue pops a subtree can cause: one per node, one per item *)
  Fixpoint tsize (t : tree) : nat :=
    match t with
    | Leaf items => Datatypes.S (length items)
    | Node children =>
        Datatypes.S ((fix go (cs : list (R * tree)) : nat :=
              match cs with
              | [] => O
              | rc :: cs' => (tsize (snd rc) + go cs')%nat
              end) children)
    end.
  Definition esize (e : qelem) : nat := match e with QItem _ => 1%nat | QNode t => tsize t end.
  Definition qsize (q : queue) : nat := list_sum (map (fun ke => esize (snd ke)) q).

  Fixpoint items_of (t : tree) : list I :=
    match t with
    | Leaf items => map snd items
    | Node children =>
        (fix go (cs : list (R * tree)) : list I :=
           match cs with
           | [] => []
           | rc :: cs' => items_of (snd rc) ++ go cs'
           end) children
    end.

  (* tr.root == nil -> nothing; else the root enters the queue with key 0 *)
  Definition start_queue (root : option tree) : queue :=
    match root with
    | None => []
    | Some t => qpush [] (0%Z, QNode t)
    end.

  Definition knn (root : option tree) : fuelled (list (I * Z)) :=
    let q := start_queue root in knn_order (Datatypes.S (qsize q)) q.

  (* ---- Collection.Nearby + cmdNearby + pushObject as the iterator ----
       count++; if count <= offset { return true }
       nextStep(count, cursor, deadline)
       [cmdNearby] if maxDist > 0 && dist > maxDist { return false }
       [cmdNearby] return sw.pushObject(o, dist) *)
  Variable test : I * Z -> bool.

  Definition radius_stop (max_dist : Z) (e : I * Z) : bool :=
    (0 <? max_dist)%Z && (max_dist <? snd e)%Z.

  Definition nearby_iter (max_dist : Z) (limit offset : N) (s : N * sw) (i : I) (d : Z)
      : (N * sw) * bool :=
    let count := (fst s + 1)%N in
    if (count <=? offset)%N then ((count, snd s), true)
    else
      let w := next_step count (snd s) in
      if radius_stop max_dist (i, d) then ((count, w), false)
      else
        let '(w', keep) := push_object test limit w (i, d) in
        ((count, w'), keep).

  (* one NEARBY request: the items (with the distance DISTANCE prints) and the reply cursor *)
  Definition nearby_query (root : option tree) (max_dist : Z) (cursor limit : N)
      : fuelled (list (I * Z) * N) :=
    let q := start_queue root in
    let w0 := sw_step (mkSW 0 0 false []) cursor in
    match knn_loop (Datatypes.S (qsize q)) q (nearby_iter max_dist limit cursor) (0%N, w0) with
    | Done (_, w) => Done (sw_filled w, if sw_hit w then sw_iters w else 0%N)
    | OutOfFuel => OutOfFuel
    end.
End Knn.

Arguments Leaf {I R} items.
Arguments Node {I R} children.
Arguments QItem {I R} i.
Arguments QNode {I R} t.
