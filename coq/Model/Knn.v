(* C13 — executable model of NEARBY: rtree.Nearby's best-first traversal, Collection.Nearby's
   cursor skeleton, cmdNearby's radius cut and LIMIT.  No proofs here.

   Transcribed from
     /root/go/pkg/mod/github.com/tidwall/rtree@v1.10.0/rtree.go   RTreeGN.Nearby
     /repo/internal/collection/collection.go                      Collection.Nearby
     /repo/internal/server/search.go                              cmdNearby (the `iter` closure)
     /repo/internal/server/scanner.go                             pushObject / writeFoot (shared with C11:
                                                                  Model/Cursor.v push_object, sw)

   rtree.Nearby:
       if tr.root == nil { return }
       q.push({dist: 0, rect: tr.rect, node: tr.root})
       for {
         qn, ok := q.pop();  if !ok { return }
         if qn.node == nil {                       an item: hand it to the caller with its queue key
           if !iter(qn.rect.min, qn.rect.max, qn.data, qn.dist) { return }
         } else if leaf {
           for each item i:   q.push({dist: dist(rects[i], items[i], true),  data: items[i]})
         } else {
           for each child i:  q.push({dist: dist(rects[i], empty, false),    node: children[i]})
         }
       }
   `dist(_, item, true)` is geodeticDistAlgo on the object's own rectangle obj.Rect() — a function
   of the item alone: dist_item.  `dist(rect, _, false)` is the same function on the node
   rectangle — a function of the rectangle alone: dist_rect (the lower bound `lb`).
   Distances are an abstract totally ordered type; the executable model uses Z (the harness maps
   the float64 distances to order-preserving integers).

   Abstraction (stated, not hidden): the library's queue is a binary min-heap on `dist`; the model's
   queue is a list whose pop removes the first entry of minimal key.  Both return an entry of
   minimal key; they may differ in which one among entries of *equal* key.  The theorems hold for
   any pop with the two properties in KnnProofs.pop_min_spec; the harness compares distance
   sequences and id sets per distinct distance, never the order inside a tie. *)
From Coq Require Import List NArith ZArith Bool.
From T38 Require Import Model.Cursor.
Import ListNotations.

Inductive fuelled (X : Type) : Type :=
| Done (x : X)
| OutOfFuel.
Arguments Done {X} x.
Arguments OutOfFuel {X}.

Section Knn.
  Context {I R : Type}.
  Variable dist_item : I -> Z.     (* dist(min, max, data, item = true)  *)
  Variable dist_rect : R -> Z.     (* dist(min, max, empty, item = false) *)

  (* node.rects[i] paired with node.items()[i] / node.children()[i] *)
  Inductive tree : Type :=
  | Leaf (items : list (R * I))
  | Node (children : list (R * tree)).

  Inductive qelem : Type :=
  | QItem (i : I)                  (* qn.node == nil *)
  | QNode (t : tree).
  Definition qnode : Type := (Z * qelem)%type.   (* (qn.dist, ...) *)
  Definition queue : Type := list qnode.

  (* pop: an entry of minimal key (the first one), and the queue without it *)
  Fixpoint pop_min (q : queue) : option (qnode * queue) :=
    match q with
    | [] => None
    | x :: r =>
        match pop_min r with
        | None => Some (x, [])
        | Some (m, r') => if (fst x <=? fst m)%Z then Some (x, r) else Some (m, x :: r')
        end
    end.

  Definition push_items (q : queue) (items : list (R * I)) : queue :=
    q ++ map (fun ri => (dist_item (snd ri), QItem (snd ri))) items.
  Definition push_children (q : queue) (children : list (R * tree)) : queue :=
    q ++ map (fun rc => (dist_rect (fst rc), QNode (snd rc))) children.

  (* the loop, with the caller's iterator as a state-passing callback returning keep-going *)
  Fixpoint knn_loop {S : Type} (fuel : nat) (q : queue) (iter : S -> I -> Z -> S * bool) (s : S)
      : fuelled S :=
    match fuel with
    | O => OutOfFuel
    | Datatypes.S fuel' =>
        match pop_min q with
        | None => Done s
        | Some ((k, QItem i), q') =>
            let '(s', keep) := iter s i k in
            if keep then knn_loop fuel' q' iter s' else Done s'
        | Some ((_, QNode (Leaf items)), q') => knn_loop fuel' (push_items q' items) iter s
        | Some ((_, QNode (Node children)), q') => knn_loop fuel' (push_children q' children) iter s
        end
    end.

  (* the same loop with an iterator that never stops: the complete kNN order with the keys *)
  Fixpoint knn_order (fuel : nat) (q : queue) : fuelled (list (I * Z)) :=
    match fuel with
    | O => OutOfFuel
    | Datatypes.S fuel' =>
        match pop_min q with
        | None => Done []
        | Some ((k, QItem i), q') =>
            match knn_order fuel' q' with
            | Done l => Done ((i, k) :: l)
            | OutOfFuel => OutOfFuel
            end
        | Some ((_, QNode (Leaf items)), q') => knn_order fuel' (push_items q' items)
        | Some ((_, QNode (Node children)), q') => knn_order fuel' (push_children q' children)
        end
    end.

  (* number of queue pops a subtree can cause: one per node, one per item *)
  Fixpoint tsize (t : tree) : nat :=
    match t with
    | Leaf items => Datatypes.S (length items)
    | Node children =>
        Datatypes.S ((fix go (cs : list (R * tree)) : nat :=
              match cs with
              | [] => O
              | rc :: cs' => (tsize (snd rc) + go cs')%nat
              end) children)
    end.
  Definition esize (e : qelem) : nat := match e with QItem _ => 1%nat | QNode t => tsize t end.
  Definition qsize (q : queue) : nat := list_sum (map (fun ke => esize (snd ke)) q).

  Fixpoint items_of (t : tree) : list I :=
    match t with
    | Leaf items => map snd items
    | Node children =>
        (fix go (cs : list (R * tree)) : list I :=
           match cs with
           | [] => []
           | rc :: cs' => items_of (snd rc) ++ go cs'
           end) children
    end.

  (* tr.root == nil -> nothing; else the root enters the queue with key 0 *)
  Definition start_queue (root : option tree) : queue :=
    match root with
    | None => []
    | Some t => [(0%Z, QNode t)]
    end.

  Definition knn (root : option tree) : fuelled (list (I * Z)) :=
    let q := start_queue root in knn_order (Datatypes.S (qsize q)) q.

  (* ---- Collection.Nearby + cmdNearby + pushObject as the iterator ----
       count++; if count <= offset { return true }
       nextStep(count, cursor, deadline)
       [cmdNearby] if maxDist > 0 && dist > maxDist { return false }
       [cmdNearby] return sw.pushObject(o, dist) *)
  Variable test : I * Z -> bool.

  Definition radius_stop (max_dist : Z) (e : I * Z) : bool :=
    (0 <? max_dist)%Z && (max_dist <? snd e)%Z.

  Definition nearby_iter (max_dist : Z) (limit offset : N) (s : N * sw) (i : I) (d : Z)
      : (N * sw) * bool :=
    let count := (fst s + 1)%N in
    if (count <=? offset)%N then ((count, snd s), true)
    else
      let w := next_step count (snd s) in
      if radius_stop max_dist (i, d) then ((count, w), false)
      else
        let '(w', keep) := push_object test limit w (i, d) in
        ((count, w'), keep).

  (* one NEARBY request: the items (with the distance DISTANCE prints) and the reply cursor *)
  Definition nearby_query (root : option tree) (max_dist : Z) (cursor limit : N)
      : fuelled (list (I * Z) * N) :=
    let q := start_queue root in
    let w0 := sw_step (mkSW 0 0 false []) cursor in
    match knn_loop (Datatypes.S (qsize q)) q (nearby_iter max_dist limit cursor) (0%N, w0) with
    | Done (_, w) => Done (sw_filled w, if sw_hit w then sw_iters w else 0%N)
    | OutOfFuel => OutOfFuel
    end.
End Knn.

Arguments Leaf {I R} items.
Arguments Node {I R} children.
Arguments QItem {I R} i.
Arguments QNode {I R} t.
