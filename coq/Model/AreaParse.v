(* Query-area construction of WITHIN / INTERSECTS / NEARBY and of TEST (property C02).

   Two independent parsers of /repo turn the same area tokens into a geojson object:

     search side   internal/server/search.go  cmdSearchArgs — from `tokenval(vs) typ` (the statement
                   after parseSearchScanBaseTokens returned) to the end of the `for len(vs) > 0`
                   CLIPBY loop — and parseRectArea                         -> [search_area]
     TEST side     internal/server/test.go    parseArea                    -> [parse_area]
                   internal/server/token.go   parseAreaExpression, the part that does not build an
                   AND / OR / NOT / parenthesis tree (that part answers [TOutside]) -> [test_expr]
                   internal/server/test.go    cmdTEST from `nvs, wtok, ok = tokenval(vs)` (after
                   the WITHIN / INTERSECTS word) to `if len(vs) != 0`      -> [test_tail]
     internal/bing QuadKeyToTileXY, TileXYToQuadKey, QuadKeyToBounds (integer part)

   Transcribed statement by statement: same token order, same emptiness tests, same order of the
   ParseFloat / Atoi / ParseInt / ParseUint calls and of the comparisons after them, same error
   values.  What the parsers build is an abstract constructor term [area]; floats are IEEE-754
   binary64 bit patterns (Z in [0, 2^64)) as returned by the oracle [pf] = strconv.ParseFloat(s, 64),
   and the comparisons Go makes on them (meters < 0, finiteArg, b1 == b2) are computed on the bits.

   Oracles (Section variables, instantiated by the harness from direct library calls):
     lower    strings.ToLower
     pf       strconv.ParseFloat(s, 64): Some bits when err == nil
     gj_ok    geojson.Parse(s, &s.geomParseOpts) succeeds
     sec_ok   geojson.Parse(string(sectr.NewSector(origin, meters, b1, b2).JSON()), opts) succeeds
     lookup   s.cols.Get(key) / col.Get(id)
   strconv.Atoi / ParseInt(s, 10, 64) / ParseUint(s, 10, 64) are modelled by their value semantics
   ([parse_int64], [parse_uint64]; int is 64 bits wide on the platforms tile38 is built for).

   Not modelled here: parseSearchScanBaseTokens (its results enter as the arguments [fence], [clip],
   [outb] = `output == outputBounds`), BUFFER (`lfs.hasbuffer` is taken to be false), glob.IsGlob of
   the ROAM id.  No proofs in this file. *)
From Coq Require Import String Ascii.
From Coq Require Import List Bool ZArith NArith.
From T38 Require Import Base.Bytes.
Import ListNotations.
Local Open Scope Z_scope.

Definition lit (s : string) : bytes := map N_of_ascii (list_ascii_of_string s).

(* ------------------------------------------------------------------ outcomes *)

Inductive perr :=
| ENumArgs                            (* errInvalidNumberOfArguments: "invalid number of arguments" *)
| EInvalidArg (t : bytes)             (* errInvalidArgument(t): "invalid argument '%s'" *)
| EEqualBearings (b1 b2 : bytes)      (* "equal bearings (%s == %s), use CIRCLE instead" *)
| EKeyNotFound                        (* errKeyNotFound *)
| EIdNotFound                         (* errIDNotFound *)
| EClipType (t : bytes)               (* TEST only: "invalid clip type '%s'" *)
| ENotRectangle                       (* errNotRectangle (never escapes cmdSearchArgs) *)
| EGeoJSON (j : bytes)                (* the error geojson.Parse returned for OBJECT j *)
| ESector (lat lon meters b1 b2 : Z). (* the error geojson.Parse returned for the sector polygon *)

Inductive res (A : Type) : Type := Ok (a : A) | Err (e : perr) | Panic | NoFuel.
Arguments Ok {A} a.
Arguments Err {A} e.
Arguments Panic {A}.
Arguments NoFuel {A}.

Definition bind {A B} (r : res A) (f : A -> res B) : res B :=
  match r with Ok a => f a | Err e => Err e | Panic => Panic | NoFuel => NoFuel end.
Notation "'do' x <- r ; k" := (bind r (fun x => k))
  (at level 200, x pattern, r at level 100, k at level 200).

(* ------------------------------------------------------------------ the constructed object *)

Inductive area :=
| ANil                                      (* a nil geojson.Object (ROAM; an unknown word in parseArea) *)
| APoint (lat lon : Z)                      (* geojson.NewPoint(geometry.Point{X: lon, Y: lat}) *)
| ACircle (lat lon meters : Z)              (* geojson.NewCircle(Point{X: lon, Y: lat}, meters, 64) *)
| ASector (lat lon meters b1 b2 : Z)        (* Parse(sectr.NewSector(Point{Lng: lon, Lat: lat}, meters, b1, b2).JSON()) *)
| ABounds (minlat minlon maxlat maxlon : Z) (* NewRect(Rect{Min: {X: minlon, Y: minlat}, Max: {X: maxlon, Y: maxlat}}) *)
| AHash (h : bytes)                         (* NewRect(geohash.BoundingBox(h)) *)
| ATile (x y z : Z)                         (* NewRect(bing.TileXYToBounds(x, y, z)) — TILE and QUADKEY *)
| AMvt (x y z : Z)                          (* the same rectangle expanded by 6.25 % and clamped *)
| AObject (j : bytes)                       (* geojson.Parse(j, opts) *)
| AGet (key id : bytes)                     (* col.Get(id).Geo() *)
| AClip (a c : area).                       (* clip.Clip(a, c, &s.geomIndexOpts) *)

(* ------------------------------------------------------------------ floats as bit patterns *)

Definition f_exp (b : Z) : Z := (b / 2^52) mod 2^11.
Definition f_man (b : Z) : Z := b mod 2^52.
Definition f_sign (b : Z) : Z := (b / 2^63) mod 2.
Definition f_isnan (b : Z) : bool := (f_exp b =? 2047) && negb (f_man b =? 0).
Definition f_isinf (b : Z) : bool := (f_exp b =? 2047) && (f_man b =? 0).
Definition f_iszero (b : Z) : bool := b mod 2^63 =? 0.
(* finiteArg(f) = !math.IsNaN(f) && !math.IsInf(f, 0) *)
Definition f_finite (b : Z) : bool := negb (f_isnan b) && negb (f_isinf b).
(* f < 0 *)
Definition f_lt0 (b : Z) : bool := negb (f_isnan b) && (f_sign b =? 1) && negb (f_iszero b).
(* f == g *)
Definition f_eq (a b : Z) : bool :=
  negb (f_isnan a) && negb (f_isnan b) && ((a =? b) || (f_iszero a && f_iszero b)).
(* -1.0 *)
Definition f_neg1 : Z := 13830554455654793216.

(* ------------------------------------------------------------------ strconv integers *)

Definition isdigit (c : N) : bool := ((48 <=? c) && (c <=? 57))%N.

Fixpoint digits_val (acc : Z) (s : bytes) : option Z :=
  match s with
  | [] => Some acc
  | c :: r => if isdigit c then digits_val (acc * 10 + Z.of_N (c - 48)) r else None
  end.

(* strconv.ParseUint(s, 10, 64): no sign, no underscore (base 10), value < 2^64 *)
Definition parse_uint64 (s : bytes) : option Z :=
  match s with
  | [] => None
  | _ => match digits_val 0 s with
         | Some v => if v <? 2^64 then Some v else None
         | None => None
         end
  end.

(* strconv.ParseInt(s, 10, 64) and strconv.Atoi(s) (int = int64) *)
Definition parse_int64 (s : bytes) : option Z :=
  match s with
  | [] => None
  | c :: r =>
      let neg := (c =? 45)%N in
      let body := if ((c =? 43) || (c =? 45))%N then r else s in
      match parse_uint64 body with
      | None => None
      | Some un =>
          if neg then (if un <=? 2^63 then Some (- un) else None)
          else (if un <? 2^63 then Some un else None)
      end
  end.

(* ------------------------------------------------------------------ internal/bing *)

(* int64(1 << s) for a uint64 shift count s >= 0 *)
Definition mask64 (s : Z) : Z := if s <? 63 then 2 ^ s else if s =? 63 then - 2 ^ 63 else 0.

(* QuadKeyToTileXY: for i := level; i > 0; i-- { mask := int64(1 << (i-1)); switch quadKey[level-i] … }
   — [rest] is quadKey[level-i:], so i = len(rest); None = panic("Invalid QuadKey digit sequence.") *)
Fixpoint qk_loop (rest : bytes) (x y : Z) : option (Z * Z) :=
  match rest with
  | [] => Some (x, y)
  | c :: r =>
      let m := mask64 (Z.of_nat (length rest) - 1) in
      if (c =? 48)%N then qk_loop r x y
      else if (c =? 49)%N then qk_loop r (Z.lor x m) y
      else if (c =? 50)%N then qk_loop r x (Z.lor y m)
      else if (c =? 51)%N then qk_loop r (Z.lor x m) (Z.lor y m)
      else None
  end.

Definition quadkey_to_tilexy (k : bytes) : option (Z * Z * Z) :=
  match qk_loop k 0 0 with
  | Some (x, y) => Some (x, y, Z.of_nat (length k))
  | None => None
  end.

(* TileXYToQuadKey(x, y, level): for i, j := level, 0; i > 0; i, j = i-1, j+1 { mask := int64(1 << (i-1)) … } *)
Fixpoint tilexy_to_quadkey (i : nat) (x y : Z) : bytes :=
  match i with
  | O => []
  | S i' =>
      let m := mask64 (Z.of_nat i') in
      (if negb (Z.land x m =? 0) then
         (if negb (Z.land y m =? 0) then 51%N else 49%N)
       else if negb (Z.land y m =? 0) then 50%N else 48%N) :: tilexy_to_quadkey i' x y
  end.

(* QuadKeyToBounds: the digit check, then TileXYToBounds(QuadKeyToTileXY(quadkey)) *)
Definition quadkey_digit (c : N) : bool := ((c =? 48) || (c =? 49) || (c =? 50) || (c =? 51))%N.

Definition quadkey_to_bounds (k : bytes) : res (option area) :=
  if forallb quadkey_digit k then
    match quadkey_to_tilexy k with
    | Some (x, y, z) => Ok (Some (ATile x y z))
    | None => Panic
    end
  else Ok None.   (* err = errors.New("invalid quadkey") *)

(* ------------------------------------------------------------------ tokens *)

Definition beq (a : bytes) (s : string) : bool := bytes_eqb a (lit s).
Definition is_empty (t : bytes) : bool := match t with [] => true | _ => false end.

(* tokenval *)
Definition tokenval (vs : list bytes) : list bytes * bytes * bool :=
  match vs with
  | t :: r => (r, t, true)
  | [] => ([], [], false)
  end.

(* if vs, x, ok = tokenval(vs); !ok || x == "" { err = errInvalidNumberOfArguments; return } *)
Definition need_tok (vs : list bytes) : res (list bytes * bytes) :=
  match tokenval vs with
  | (nvs, t, ok) => if negb ok || is_empty t then Err ENumArgs else Ok (nvs, t)
  end.

Inductive lookupT := LNoKey | LNoId | LFound.

Record roamT := mkRoam { r_key : bytes; r_id : bytes; r_meters : Z; r_scan : bytes }.

(* what cmdSearchArgs leaves in liveFenceSwitches, as far as the area is concerned *)
Record sres := mkS {
  s_obj : area;              (* lfs.obj *)
  s_outreset : bool;         (* lfs.output was reset from outputBounds to the default *)
  s_tile : Z * Z * Z;        (* lfs.tileX, tileY, tileZ *)
  s_mvt : bool;              (* lfs.mvt *)
  s_clip : bool;             (* lfs.clip *)
  s_roam : option roamT      (* lfs.roam when roam.on *)
}.

Inductive scmd := CNearby | CWithin | CIntersects.

(* TEST side *)
Inductive tres :=
| TOk (doclip : bool) (a : area)   (* area2 is the single object a *)
| TErr (e : perr)
| TPanic
| TNoFuel
| TOutside.                        (* an AND / OR / NOT / parenthesis expression: outside this model *)

Section Parsers.
  Variable lower : bytes -> bytes.
  Variable pf : bytes -> option Z.
  Variable gj_ok : bytes -> bool.
  Variable sec_ok : Z -> Z -> Z -> Z -> Z -> bool.
  Variable lookup : bytes -> bytes -> lookupT.

  (* if f, err = strconv.ParseFloat(s, 64); err != nil { err = errInvalidArgument(s); return } *)
  Definition need_float (s : bytes) : res Z :=
    match pf s with Some b => Ok b | None => Err (EInvalidArg s) end.

  (* ---------------------------------------------------------------- search.go parseRectArea *)

  Definition parse_rect_area (ltyp : bytes) (vs : list bytes)
    : res (list bytes * area * (Z * Z * Z)) :=
    if beq ltyp "bounds" then
      do (vs, sminlat) <- need_tok vs;
      do (vs, sminlon) <- need_tok vs;
      do (vs, smaxlat) <- need_tok vs;
      do (vs, smaxlon) <- need_tok vs;
      do minlat <- need_float sminlat;
      do minlon <- need_float sminlon;
      do maxlat <- need_float smaxlat;
      do maxlon <- need_float smaxlon;
      Ok (vs, ABounds minlat minlon maxlat maxlon, (0, 0, 0))
    else if beq ltyp "hash" then
      do (vs, hash) <- need_tok vs;
      Ok (vs, AHash hash, (0, 0, 0))
    else if beq ltyp "quadkey" then
      do (vs, key) <- need_tok vs;
      do b <- quadkey_to_bounds key;
      match b with
      | None => Err (EInvalidArg key)
      | Some a => Ok (vs, a, (0, 0, 0))
      end
    else if beq ltyp "tile" || beq ltyp "mvt" then
      do (vs, sx) <- need_tok vs;
      do (vs, sy) <- need_tok vs;
      do (vs, sz) <- need_tok vs;
      (* if x, err = strconv.Atoi(sx); err != nil || x < 0 *)
      match parse_int64 sx with
      | None => Err (EInvalidArg sx)
      | Some x =>
      if x <? 0 then Err (EInvalidArg sx) else
      match parse_int64 sy with
      | None => Err (EInvalidArg sy)
      | Some y =>
      if y <? 0 then Err (EInvalidArg sy) else
      match parse_int64 sz with
      | None => Err (EInvalidArg sz)
      | Some z =>
      if (z <? 0) || (23 <? z) then Err (EInvalidArg sz) else
      Ok (vs, (if beq ltyp "mvt" then AMvt x y z else ATile x y z), (x, y, z))
      end end end
    else Err ENotRectangle.

  (* ---------------------------------------------------------------- search.go cmdSearchArgs *)

  (* nearbyTypes / withinOrIntersectsTypes, chosen by the callers from cmd *)
  Definition types_has (cmd : scmd) (ltyp : bytes) : bool :=
    match cmd with
    | CNearby => beq ltyp "point"
    | _ => beq ltyp "bounds" || beq ltyp "hash" || beq ltyp "tile"
           || beq ltyp "quadkey" || beq ltyp "get" || beq ltyp "object" || beq ltyp "circle"
           || beq ltyp "point" || beq ltyp "sector" || beq ltyp "mvt"
    end.

  Definition is_nearby (cmd : scmd) : bool := match cmd with CNearby => true | _ => false end.

  (* what the `switch ltyp` leaves behind: the rest of the tokens, lfs.obj, the tile numbers,
     lfs.mvt, lfs.clip, lfs.roam and the value of `err` (nil on every path since /repo 7096363; the
     GET arm of the pinned code fell out of the switch with err set, see [search_switch_pinned]) *)
  Record shead := mkH {
    h_vs : list bytes; h_obj : area; h_tile : Z * Z * Z; h_mvt : bool; h_clip : bool;
    h_roam : option roamT; h_err : option perr
  }.

  Definition search_switch (cmd : scmd) (clip : bool) (ltyp : bytes) (vs : list bytes) : res shead :=
    if beq ltyp "point" then
      do (vs, slat) <- need_tok vs;
      do (vs, slon) <- need_tok vs;
      do lat <- need_float slat;
      do lon <- need_float slon;
      if is_nearby cmd then
        match tokenval vs with
        | (nvs, smeters, ok) =>
            if ok && negb (is_empty smeters) then
              match pf smeters with
              | None => Err (EInvalidArg smeters)
              | Some meters =>
                  if f_lt0 meters then Err (EInvalidArg smeters)
                  else Ok (mkH nvs (ACircle lat lon meters) (0, 0, 0) false clip None None)
              end
            else Ok (mkH nvs (ACircle lat lon f_neg1) (0, 0, 0) false clip None None)
        end
      else Ok (mkH vs (APoint lat lon) (0, 0, 0) false clip None None)
    else if beq ltyp "circle" then
      if clip then Err (EInvalidArg (lit "cannot clip with " ++ ltyp)) else
      do (vs, slat) <- need_tok vs;
      do (vs, slon) <- need_tok vs;
      do lat <- need_float slat;
      do lon <- need_float slon;
      do (vs, smeters) <- need_tok vs;
      match pf smeters with
      | None => Err (EInvalidArg smeters)
      | Some meters =>
          if f_lt0 meters then Err (EInvalidArg smeters)
          else Ok (mkH vs (ACircle lat lon meters) (0, 0, 0) false clip None None)
      end
    else if beq ltyp "object" then
      if clip then Err (EInvalidArg (lit "cannot clip with object")) else
      do (vs, obj) <- need_tok vs;
      if gj_ok obj then Ok (mkH vs (AObject obj) (0, 0, 0) false clip None None)
      else Err (EGeoJSON obj)
    else if beq ltyp "sector" then
      if clip then Err (EInvalidArg (lit "cannot clip with " ++ ltyp)) else
      do (vs, slat) <- need_tok vs;
      do (vs, slon) <- need_tok vs;
      do (vs, smeters) <- need_tok vs;
      do (vs, sb1) <- need_tok vs;
      do (vs, sb2) <- need_tok vs;
      do lat <- need_float slat;
      do lon <- need_float slon;
      do meters <- need_float smeters;
      do b1 <- need_float sb1;
      do b2 <- need_float sb2;
      if negb (f_finite b1) then Err (EInvalidArg sb1) else
      if negb (f_finite b2) then Err (EInvalidArg sb2) else
      if f_eq b1 b2 then Err (EEqualBearings sb1 sb2) else
      if sec_ok lat lon meters b1 b2
      then Ok (mkH vs (ASector lat lon meters b1 b2) (0, 0, 0) false clip None None)
      else Err (ESector lat lon meters b1 b2)
    else if beq ltyp "bounds" || beq ltyp "hash" || beq ltyp "tile" || beq ltyp "mvt"
            || beq ltyp "quadkey" then
      do r <- parse_rect_area ltyp vs;
      match r with
      | (vs, obj, tile) =>
          if beq ltyp "mvt" then Ok (mkH vs obj tile true true None None)
          else Ok (mkH vs obj tile false clip None None)
      end
    else if beq ltyp "get" then
      if clip then Err (EInvalidArg (lit "cannot clip with get")) else
      do (vs, key) <- need_tok vs;
      do (vs, id) <- need_tok vs;
      match lookup key id with
      | LNoKey => Err EKeyNotFound
      | LNoId => Err EIdNotFound
      | LFound => Ok (mkH vs (AGet key id) (0, 0, 0) false clip None None)
      end
    else if beq ltyp "roam" then
      do (vs, key) <- need_tok vs;
      do (vs, id) <- need_tok vs;
      do (vs, smeters) <- need_tok vs;
      do meters <- need_float smeters;
      match tokenval vs with
      | (nvs, scan, ok) =>
          if ok then
            if negb (beq (lower scan) "scan") then Err (EInvalidArg scan) else
            do (vs, scan) <- need_tok nvs;
            Ok (mkH vs ANil (0, 0, 0) false clip (Some (mkRoam key id meters scan)) None)
          else Ok (mkH nvs ANil (0, 0, 0) false clip (Some (mkRoam key id meters [])) None)
      end
    else Ok (mkH vs ANil (0, 0, 0) false clip None None).

  (* for len(vs) > 0 { … CLIPBY … }; then `return` with whatever err holds *)
  Fixpoint clipby_loop (fuel : nat) (vs : list bytes) (obj : area) (tile : Z * Z * Z)
           (err : option perr) : res (area * (Z * Z * Z)) :=
    match vs with
    | [] => match err with Some e => Err e | None => Ok (obj, tile) end
    | _ =>
        match fuel with
        | O => NoFuel   (* never: every iteration consumes tokens *)
        | S fuel =>
            do (vs, tok) <- need_tok vs;
            if negb (beq (lower tok) "clipby") then Err ENumArgs else
            do (vs, tok) <- need_tok vs;
            let ltok := lower tok in
            if beq ltok "bounds" || beq ltok "hash" || beq ltok "tile" || beq ltok "quadkey" then
              match parse_rect_area ltok vs with
              | Err ENotRectangle => Err (EInvalidArg (lit "cannot clipby " ++ ltok))
              | Err e => Err e
              | Panic => Panic
              | NoFuel => NoFuel
              | Ok (vs, c, t) => clipby_loop fuel vs (AClip obj c) t None
              end
            else Err (EInvalidArg (lit "cannot clipby " ++ ltok))
        end
    end.

  Definition search_area (cmd : scmd) (fence clip outb : bool) (vs : list bytes) : res sres :=
    do (vs, typ) <- need_tok vs;
    (* the "WITHIN key BOUNDS minlat …" shorthand: BOUNDS was taken for the output format *)
    let '(vs, typ, outreset) :=
      if outb && negb (is_nearby cmd) then
        match pf typ with
        | Some _ => (typ :: vs, lit "BOUNDS", true)
        | None => (vs, typ, false)
        end
      else (vs, typ, false) in
    let ltyp := lower typ in
    let found := types_has cmd ltyp || (fence && beq ltyp "roam" && is_nearby cmd) in
    if negb found then Err (EInvalidArg typ) else
    do h <- search_switch cmd clip ltyp vs;
    do r <- clipby_loop (S (length (h_vs h))) (h_vs h) (h_obj h) (h_tile h) (h_err h);
    match r with
    | (obj, tile) => Ok (mkS obj outreset tile (h_mvt h) (h_clip h) (h_roam h))
    end.

  (* ---------------------------------------------------------------- the pinned search side *)

  (* cmdSearchArgs before /repo 1d3bf59 and 7096363 (findings C02-within-geo-nil, C02-clip-get-clipby),
     kept only for the refutations of Props/C02ar.v; the code no longer exists, so nothing ties it.
     withinOrIntersectsTypes contained "geo" (no arm in the switch), and the GET arm was
       if lfs.clip { err = errInvalidArgument("cannot clip with get") }      — no return
     The arms are selected by distinct string constants, so "the old GET arm, otherwise the switch as
     it is" is the old switch. *)
  Definition types_has_pinned (cmd : scmd) (ltyp : bytes) : bool :=
    types_has cmd ltyp || (negb (is_nearby cmd) && beq ltyp "geo").

  Definition search_switch_pinned (cmd : scmd) (clip : bool) (ltyp : bytes) (vs : list bytes) : res shead :=
    if beq ltyp "get" then
      let pending := if clip then Some (EInvalidArg (lit "cannot clip with get")) else None in
      do (vs, key) <- need_tok vs;
      do (vs, id) <- need_tok vs;
      match lookup key id with
      | LNoKey => Err EKeyNotFound
      | LNoId => Err EIdNotFound
      | LFound => Ok (mkH vs (AGet key id) (0, 0, 0) false clip None pending)
      end
    else search_switch cmd clip ltyp vs.

  Definition search_area_pinned (cmd : scmd) (fence clip outb : bool) (vs : list bytes) : res sres :=
    do (vs, typ) <- need_tok vs;
    let '(vs, typ, outreset) :=
      if outb && negb (is_nearby cmd) then
        match pf typ with
        | Some _ => (typ :: vs, lit "BOUNDS", true)
        | None => (vs, typ, false)
        end
      else (vs, typ, false) in
    let ltyp := lower typ in
    let found := types_has_pinned cmd ltyp || (fence && beq ltyp "roam" && is_nearby cmd) in
    if negb found then Err (EInvalidArg typ) else
    do h <- search_switch_pinned cmd clip ltyp vs;
    do r <- clipby_loop (S (length (h_vs h))) (h_vs h) (h_obj h) (h_tile h) (h_err h);
    match r with
    | (obj, tile) => Ok (mkS obj outreset tile (h_mvt h) (h_clip h) (h_roam h))
    end.

  (* ---------------------------------------------------------------- test.go parseArea *)

  Definition parse_area (doclip : bool) (ovs : list bytes) : res (list bytes * area) :=
    do (vs, typ) <- need_tok ovs;
    let ltyp := lower typ in
    if beq ltyp "point" then
      do (vs, slat) <- need_tok vs;
      do (vs, slon) <- need_tok vs;
      do lat <- need_float slat;
      do lon <- need_float slon;
      Ok (vs, APoint lat lon)
    else if beq ltyp "sector" then
      if doclip then Err (EClipType typ) else
      do (vs, slat) <- need_tok vs;
      do (vs, slon) <- need_tok vs;
      do (vs, smeters) <- need_tok vs;
      do (vs, sb1) <- need_tok vs;
      do (vs, sb2) <- need_tok vs;
      do lat <- need_float slat;
      do lon <- need_float slon;
      do meters <- need_float smeters;
      do b1 <- need_float sb1;
      do b2 <- need_float sb2;
      if negb (f_finite b1) then Err (EInvalidArg sb1) else
      if negb (f_finite b2) then Err (EInvalidArg sb2) else
      if f_eq b1 b2 then Err (EEqualBearings sb1 sb2) else
      if sec_ok lat lon meters b1 b2 then Ok (vs, ASector lat lon meters b1 b2)
      else Err (ESector lat lon meters b1 b2)
    else if beq ltyp "circle" then
      if doclip then Err (EClipType typ) else
      do (vs, slat) <- need_tok vs;
      do (vs, slon) <- need_tok vs;
      do lat <- need_float slat;
      do lon <- need_float slon;
      do (vs, smeters) <- need_tok vs;
      do meters <- need_float smeters;
      if f_lt0 meters then Err (EInvalidArg smeters) else
      Ok (vs, ACircle lat lon meters)
    else if beq ltyp "object" then
      if doclip then Err (EClipType typ) else
      do (vs, obj) <- need_tok vs;
      if gj_ok obj then Ok (vs, AObject obj) else Err (EGeoJSON obj)
    else if beq ltyp "bounds" then
      do (vs, sminlat) <- need_tok vs;
      do (vs, sminlon) <- need_tok vs;
      do (vs, smaxlat) <- need_tok vs;
      do (vs, smaxlon) <- need_tok vs;
      do minlat <- need_float sminlat;
      do minlon <- need_float sminlon;
      do maxlat <- need_float smaxlat;
      do maxlon <- need_float smaxlon;
      Ok (vs, ABounds minlat minlon maxlat maxlon)
    else if beq ltyp "hash" then
      do (vs, hash) <- need_tok vs;
      Ok (vs, AHash hash)
    else if beq ltyp "quadkey" then
      do (vs, key) <- need_tok vs;
      do b <- quadkey_to_bounds key;
      match b with
      | None => Err (EInvalidArg key)
      | Some a => Ok (vs, a)
      end
    else if beq ltyp "tile" then
      do (vs, sx) <- need_tok vs;
      do (vs, sy) <- need_tok vs;
      do (vs, sz) <- need_tok vs;
      match parse_int64 sx with
      | None => Err (EInvalidArg sx)
      | Some x =>
      match parse_int64 sy with
      | None => Err (EInvalidArg sy)
      | Some y =>
      match parse_uint64 sz with
      | None => Err (EInvalidArg sz)
      | Some z => Ok (vs, ATile x y z)
      end end end
    else if beq ltyp "get" then
      if doclip then Err (EClipType typ) else
      do (vs, key) <- need_tok vs;
      do (vs, id) <- need_tok vs;
      match lookup key id with
      | LNoKey => Err EKeyNotFound
      | LNoId => Err EIdNotFound
      | LFound => Ok (vs, AGet key id)
      end
    else Ok (vs, ANil).   (* no arm: o stays nil, err stays nil *)

  (* ---------------------------------------------------------------- token.go parseAreaExpression *)

  (* the nine words of `case "point", "circle", "object", "bounds", "hash", "quadkey", "tile", "get", "sector"` *)
  Definition is_area_word (l : bytes) : bool :=
    beq l "point" || beq l "circle" || beq l "object" || beq l "bounds" || beq l "hash"
    || beq l "quadkey" || beq l "tile" || beq l "get" || beq l "sector".

  (* The loop, as long as no AND / OR / NOT / parenthesis tree is built: ps is empty, negate and
     needObj are false, ae is nil ([None]) or the leaf made from the first object ([Some (a, kids)],
     kids = len(ae.children) > 0; an object parsed after the first is appended to the leaf's children,
     which nothing reads because leaf.obj != nil).
     Result: vsout and ae.obj. *)
  Fixpoint test_expr_loop (fuel : nat) (doclip : bool) (ae : option (area * bool))
           (vsout : list bytes) : tres * list bytes :=
    match fuel with
    | O => (TNoFuel, vsout)
    | S fuel =>
        let finish :=
          match ae with
          | None => (TErr ENumArgs, vsout)                 (* ae == nil *)
          | Some (ANil, false) => (TErr ENumArgs, vsout)   (* ae.obj == nil && len(ae.children) == 0 *)
          | Some (ANil, true) => (TOutside, vsout)         (* an object-less node with children *)
          | Some (a, _) => (TOk doclip a, vsout)
          end in
        match tokenval vsout with
        | (nvs, wtok, ok) =>
            if negb ok || is_empty wtok then finish else
            let l := lower wtok in
            if beq l "(" then (TOutside, vsout)
            else if beq l ")" then (TErr (EInvalidArg (lit ")")), vsout)   (* ps.pop(): empty *)
            else if beq l "not" then (TOutside, vsout)
            else if beq l "and" then
              match ae with None => (TErr (EInvalidArg (lit "and")), vsout) | Some _ => (TOutside, vsout) end
            else if beq l "or" then
              match ae with None => (TErr (EInvalidArg (lit "or")), vsout) | Some _ => (TOutside, vsout) end
            else if is_area_word l then
              match parse_area doclip vsout with
              | Err e => (TErr e, vsout)
              | Panic => (TPanic, vsout)
              | NoFuel => (TNoFuel, vsout)
              | Ok (parsedVs, parsedObj) =>
                  test_expr_loop fuel doclip
                    (match ae with
                     | None => Some (parsedObj, false)          (* ae = newExpr *)
                     | Some (a, _) => Some (a, true)            (* ae.children = append(ae.children, newExpr) *)
                     end) parsedVs
              end
            else finish
        end
    end.

  Definition test_expr (doclip : bool) (vs : list bytes) : tres * list bytes :=
    test_expr_loop (S (length vs)) doclip None vs.

  (* ---------------------------------------------------------------- test.go cmdTEST, second half *)

  (* [intersects]: lTest == "intersects" (otherwise "within"); [a1nil]: area1.obj == nil *)
  Definition test_tail (intersects a1nil : bool) (vs : list bytes) : tres :=
    match tokenval vs with
    | (nvs, wtok, ok) =>
        let isclip := ok && negb (is_empty wtok) && beq (lower wtok) "clip" in
        if isclip && negb intersects then TErr (EInvalidArg wtok) else
        let doclip := isclip in
        let vs := if isclip then nvs else vs in
        match test_expr doclip vs with
        | (TOk dc a, rest) =>
            if doclip && a1nil then TErr (EInvalidArg (lit "clip"))   (* area2.obj is never nil here *)
            else match rest with [] => TOk dc a | _ => TErr ENumArgs end
        | (r, _) => r
        end
    end.
End Parsers.

(* ------------------------------------------------------------------ error texts *)

Definition err_text (e : perr) : bytes :=
  match e with
  | ENumArgs => lit "invalid number of arguments"
  | EInvalidArg t => lit "invalid argument '" ++ t ++ lit "'"
  | EEqualBearings a b => lit "equal bearings (" ++ a ++ lit " == " ++ b ++ lit "), use CIRCLE instead"
  | EKeyNotFound => lit "key not found"
  | EIdNotFound => lit "id not found"
  | EClipType t => lit "invalid clip type '" ++ t ++ lit "'"
  | ENotRectangle => lit "not a rectangle"
  | EGeoJSON _ => lit "<geojson>"
  | ESector _ _ _ _ _ => lit "<geojson>"
  end.
