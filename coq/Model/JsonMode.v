(* C17 — which output mode a reply is written in (internal/server/server.go netServe: the
   per-message resolution of msg.OutputType from client.outputType / the -o default, the OUTPUT
   command, and the write-back client.outputType = msg.OutputType), and what a JSON-mode pub/sub
   subscriber is sent for a published payload (pubsub.go liveSubscription writeMessage).
   Executable, no proofs. *)
From T38 Require Import Base.Bytes Base.Utf8 Model.Json.
Open Scope N_scope.

Inductive omode := OJson | OResp.

Inductive pcmd :=
| POutput (m : omode)    (* OUTPUT json / OUTPUT resp *)
| POther.                (* any other command, OUTPUT without or with a bad argument included *)

(* client.outputType: None is Null (never set on this connection) *)
Definition conn := option omode.

(* one iteration of the inner loop: dflt = defaultOutputType (-o), parsed = what the reader set for
   this framing (RESP for RESP / telnet, JSON for native) *)
Definition serve_msg (dflt : option omode) (parsed : omode) (c : conn) (x : pcmd) : conn * omode :=
  let m := match c with
           | Some m => m
           | None => match dflt with Some m => m | None => parsed end
           end in
  let m' := match x with POutput t => t | POther => m end in   (* cmdOUTPUT sets msg.OutputType before replying *)
  (Some m', m').                                                (* client.outputType = msg.OutputType *)

(* for _, msg := range msgs *)
Fixpoint serve_packet (dflt : option omode) (parsed : omode) (c : conn) (msgs : list pcmd) : conn * list omode :=
  match msgs with
  | [] => (c, [])
  | x :: r =>
      let '(c1, m) := serve_msg dflt parsed c x in
      let '(c2, ms) := serve_packet dflt parsed c1 r in
      (c2, m :: ms)
  end.

(* for { conn.Read(packet) ... } *)
Fixpoint serve (dflt : option omode) (parsed : omode) (c : conn) (packets : list (list pcmd)) : list omode :=
  match packets with
  | [] => []
  | p :: ps =>
      let '(c1, ms) := serve_packet dflt parsed c p in
      ms ++ serve dflt parsed c1 ps
  end.

(* specification: a reply is in the mode of the latest OUTPUT switch at or before its command,
   else in the connection's initial mode *)
Fixpoint spec_modes (cur : omode) (msgs : list pcmd) : list omode :=
  match msgs with
  | [] => []
  | POutput t :: r => t :: spec_modes t r
  | POther :: r => cur :: spec_modes cur r
  end.

Definition initial_mode (dflt : option omode) (parsed : omode) (c : conn) : omode :=
  match c with Some m => m | None => match dflt with Some m => m | None => parsed end end.

(* the variant that resolves the mode once per packet (seeded change C17/4) *)
Fixpoint serve_packet_hoisted (ot : option omode) (parsed : omode) (c : conn) (msgs : list pcmd) : conn * list omode :=
  match msgs with
  | [] => (c, [])
  | x :: r =>
      let m := match ot with Some m => m | None => parsed end in
      let m' := match x with POutput t => t | POther => m end in
      let '(c2, ms) := serve_packet_hoisted ot parsed (Some m') r in
      (c2, m' :: ms)
  end.

Fixpoint serve_hoisted (dflt : option omode) (parsed : omode) (c : conn) (packets : list (list pcmd)) : list omode :=
  match packets with
  | [] => []
  | p :: ps =>
      let ot := match c with Some m => Some m | None => dflt end in
      let '(c1, ms) := serve_packet_hoisted ot parsed c p in
      ms ++ serve_hoisted dflt parsed c1 ps
  end.

(* ---------- pub/sub: the message a JSON-mode subscriber receives ---------- *)

(* if !gjson.Valid(msg.message) { data = appendJSONString(nil, msg.message) } else { data = []byte(msg.message) } *)
Definition sub_msg (payload : bytes) : bytes :=
  if valid_json payload then payload else json_string payload.

(* the variant that looks at the delimiters only (seeded change C17/5) *)
Definition looks_like_json (p : bytes) : bool :=
  match p, rev p with
  | a :: _ :: _, z :: _ => ((a =? 123) && (z =? 125)) || ((a =? 91) && (z =? 93))
  | _, _ => false
  end.

Definition sub_msg_delims (payload : bytes) : bytes :=
  if looks_like_json payload then payload else json_string payload.
