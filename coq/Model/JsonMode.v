(* C17 — which output mode a reply is written in (internal/server/server.go netServe: the
   per-message resolution of msg.OutputType from client.outputType / the -o default, the OUTPUT
   command, and the write-back client.outputType = msg.OutputType), and what a JSON-mode pub/sub
   subscriber is sent for a published payload (pubsub.go liveSubscription writeMessage).
   Executable, no proofs. *)
From T38 Require Import Base.Bytes Base.Utf8 Model.Json.
From T38 Require Gen.Templates.
Open Scope N_scope.

Inductive omode := OJson | OResp.

Inductive pcmd :=
| POutput (m : omode)      (* OUTPUT json / OUTPUT resp *)
| PHello (digit : bool)    (* HELLO arg; digit = (arg >= "0" && arg <= "9") as Go compares strings *)
| POther.                  (* any other command, OUTPUT / HELLO without or with another argument included *)

(* client.outputType: None is Null (never set on this connection) *)
Definition conn := option omode.

(* handleInputCommand, `if cmd == "hello"`: with the server started with -o json, a message in JSON
   mode on a RESP-framed connection (RESP protocol or telnet lines) and HELLO <digit…>, the "unknown
   command" error is written in RESP mode (redis clients open with HELLO 3 and expect a RESP error) *)
Definition hello_resp (dflt : option omode) (parsed m : omode) (digit : bool) : bool :=
  digit &&
  (match dflt with Some OJson => true | _ => false end) &&
  (match m with OJson => true | OResp => false end) &&
  (match parsed with OResp => true | OJson => false end).

(* one iteration of the inner loop of netServe: dflt = defaultOutputType (-o), parsed = what the reader
   set for this framing (RESP for RESP / telnet, JSON for native).  [restore]: the HELLO branch puts
   msg.OutputType back before it returns (ot := msg.OutputType … msg.OutputType = ot). *)
Definition serve_msg_r (restore : bool) (dflt : option omode) (parsed : omode) (c : conn) (x : pcmd) : conn * omode :=
  let m := match c with
           | Some m => m
           | None => match dflt with Some m => m | None => parsed end
           end in
  match x with
  | POutput t => (Some t, t)        (* cmdOUTPUT sets msg.OutputType before replying *)
  | POther => (Some m, m)
  | PHello d =>
      if hello_resp dflt parsed m d then (Some (if restore then m else OResp), OResp)
      else (Some m, m)
  end.                               (* first component: client.outputType = msg.OutputType after the handler *)

(* for _, msg := range msgs *)
Fixpoint serve_packet_r (restore : bool) (dflt : option omode) (parsed : omode) (c : conn) (msgs : list pcmd) : conn * list omode :=
  match msgs with
  | [] => (c, [])
  | x :: r =>
      let '(c1, m) := serve_msg_r restore dflt parsed c x in
      let '(c2, ms) := serve_packet_r restore dflt parsed c1 r in
      (c2, m :: ms)
  end.

(* for { conn.Read(packet) ... } *)
Fixpoint serve_r (restore : bool) (dflt : option omode) (parsed : omode) (c : conn) (packets : list (list pcmd)) : list omode :=
  match packets with
  | [] => []
  | p :: ps =>
      let '(c1, ms) := serve_packet_r restore dflt parsed c p in
      ms ++ serve_r restore dflt parsed c1 ps
  end.

(* the tree as it is: whether the HELLO branch restores is read from the source by tmplx *)
Definition serve_msg := serve_msg_r Gen.Templates.hello_restores_output.
Definition serve_packet := serve_packet_r Gen.Templates.hello_restores_output.
Definition serve := serve_r Gen.Templates.hello_restores_output.

(* specification: a reply is in the mode of the latest OUTPUT switch at or before its command, else
   in the connection's initial mode; HELLO is answered in RESP under the go-redis condition and
   changes nothing for the commands after it *)
Fixpoint spec_modes (dflt : option omode) (parsed cur : omode) (msgs : list pcmd) : list omode :=
  match msgs with
  | [] => []
  | POutput t :: r => t :: spec_modes dflt parsed t r
  | PHello d :: r => (if hello_resp dflt parsed cur d then OResp else cur) :: spec_modes dflt parsed cur r
  | POther :: r => cur :: spec_modes dflt parsed cur r
  end.

Definition initial_mode (dflt : option omode) (parsed : omode) (c : conn) : omode :=
  match c with Some m => m | None => match dflt with Some m => m | None => parsed end end.

(* the variant that resolves the mode once per packet (seeded change C17/4) *)
Fixpoint serve_packet_hoisted (ot : option omode) (parsed : omode) (c : conn) (msgs : list pcmd) : conn * list omode :=
  match msgs with
  | [] => (c, [])
  | x :: r =>
      let m := match ot with Some m => m | None => parsed end in
      let m' := match x with POutput t => t | _ => m end in
      let '(c2, ms) := serve_packet_hoisted ot parsed (Some m') r in
      (c2, m' :: ms)
  end.

Fixpoint serve_hoisted (dflt : option omode) (parsed : omode) (c : conn) (packets : list (list pcmd)) : list omode :=
  match packets with
  | [] => []
  | p :: ps =>
      let ot := match c with Some m => Some m | None => dflt end in
      let '(c1, ms) := serve_packet_hoisted ot parsed c p in
      ms ++ serve_hoisted dflt parsed c1 ps
  end.

(* ---------- pub/sub: the message a JSON-mode subscriber receives ---------- *)

(* if !gjson.Valid(msg.message) { data = appendJSONString(nil, msg.message) } else { data = []byte(msg.message) } *)
Definition sub_msg (payload : bytes) : bytes :=
  if valid_json payload then payload else json_string payload.

(* the variant that looks at the delimiters only (seeded change C17/5) *)
Definition looks_like_json (p : bytes) : bool :=
  match p, rev p with
  | a :: _ :: _, z :: _ => ((a =? 123) && (z =? 125)) || ((a =? 91) && (z =? 93))
  | _, _ => false
  end.

Definition sub_msg_delims (payload : bytes) : bytes :=
  if looks_like_json payload then payload else json_string payload.
