(* Executable model of Server.loadAOF (internal/server/aof.go): the 0xFFFF-chunked read loop,
   the NUL skipping between commands (issue 230), the carry-over buffer and the EOF truncation
   arithmetic (aofsz -= len(buf)).  Command execution is not modelled here: the result is the
   list of commands handed to s.command and the valid size the file is cut back to.
   No proofs here. *)
From T38 Require Import Base.Bytes Model.Resp.
Local Open Scope Z_scope.

Inductive drain_res :=
| DOk (cmds : list (list bytes)) (leftover : bytes)
| DErr (e : perr)
| DPanic
| DFuel.

(* the inner `for { ... }` of loadAOF over one data buffer *)
Fixpoint drain (fuel : nat) (data : bytes) : drain_res :=
  match fuel with
  | O => DFuel
  | S f =>
      match data with
      | 0%N :: d' => drain f d'                       (* zeros found in AOF file: skip one byte *)
      | _ =>
          match read_next data with
          | Complete args _ rest =>
              match drain f rest with
              | DOk cs l => DOk (match args with [] => cs | _ => args :: cs end) l
              | r => r
              end
          | Incomplete => DOk [] data
          | Err e => DErr e
          | Panic => DPanic
          | Fuel => DFuel
          end
      end
  end.
Definition drain_all (data : bytes) : drain_res := drain (S (length data)) data.

Inductive load_res :=
| Loaded (cmds : list (list bytes)) (validsz : Z)
| LoadErr (e : perr)
| LoadPanic
| LoadFuel.

(* one-shot view: the whole file in one buffer *)
Definition load_whole (file : bytes) : load_res :=
  match drain_all file with
  | DOk cmds lo => Loaded cmds (len file - len lo)
  | DErr e => LoadErr e
  | DPanic => LoadPanic
  | DFuel => LoadFuel
  end.

(* the outer `for { n, err := s.aof.Read(packet[:]) ... }` over the successive reads *)
Fixpoint load_chunks (chunks : list bytes) (buf : bytes) (aofsz : Z) (cmds : list (list bytes)) : load_res :=
  match chunks with
  | [] => Loaded cmds (aofsz - len buf)               (* io.EOF: aofsz -= len(buf); Truncate; Seek *)
  | c :: rest =>
      match drain_all (buf ++ c) with
      | DOk cs lo => load_chunks rest lo (aofsz + len c) (cmds ++ cs)
      | DErr e => LoadErr e
      | DPanic => LoadPanic
      | DFuel => LoadFuel
      end
  end.

Fixpoint split_chunks (fuel : nat) (csz : nat) (file : bytes) : list bytes :=
  match fuel with
  | O => []
  | S f => match file with
           | [] => []
           | _ => firstn csz file :: split_chunks f csz (skipn csz file)
           end
  end.
Definition chunk_size : nat := N.to_nat 65535.
Definition load_aof_sz (csz : nat) (file : bytes) : load_res :=
  load_chunks (split_chunks (length file) csz file) [] 0 [].
Definition load_aof (file : bytes) : load_res := load_aof_sz chunk_size file.
