(* Model/WhereExprTree.v — what a WHERE expression is meant to say: a tree type for the filters
   people write (comparisons of fields and literals joined by && || !), a printer, and the
   denotation of a tree over the value operations of Model/WhereExpr.v.  tile38 itself has no
   tree (expr.Eval splits the text again for every object); the theorems of Proofs/WhereExprSem.v
   say that evaluating the printed text is the denotation of the tree.  No proofs here. *)
From Coq Require Import List NArith ZArith Bool.
From T38 Require Import Base.Bytes Model.WhereExpr.
Import ListNotations.

Inductive cmpop := CLt | CLe | CGt | CGe | CEq | CNe.

Inductive atom :=
| AField (name : bytes)      (* an identifier: field name, id, type, this *)
| ANum (n : Z)               (* an integer literal: at most 15 digits, or -d with at most 14 digits,
                                printed in parentheses: (-5) *)
| AStr (s : bytes)           (* a double-quoted literal without escapes *)
| ABool (b : bool)
| ANull.

Inductive bexpr :=
| BAtom (a : atom)
| BCmp (op : cmpop) (a b : atom)
| BNot (e : bexpr)
| BAnd (a b : bexpr)
| BOr (a b : bexpr).

Definition print_cmp (op : cmpop) : bytes :=
  match op with
  | CLt => [60] | CLe => [60; 61] | CGt => [62] | CGe => [62; 61] | CEq => [61; 61] | CNe => [33; 61]
  end%N.

Definition print_atom (a : atom) : bytes :=
  match a with
  | AField n => n
  | ANum n => if (n <? 0)%Z then 40%N :: dec_of_Z n ++ [41%N] else dec_of_Z n
  | AStr s => 34%N :: s ++ [34%N]
  | ABool b => if b then s_true else s_false
  | ANull => s_null
  end.

(* f < 5      f > (-5)      !(X)      (X) && (Y)      (X) || (Y) *)
Fixpoint print (e : bexpr) : bytes :=
  match e with
  | BAtom a => print_atom a
  | BCmp op a b => print_atom a ++ 32%N :: print_cmp op ++ 32%N :: print_atom b
  | BNot x => 33%N :: 40%N :: print x ++ [41%N]
  | BAnd a b => 40%N :: print a ++ [41; 32; 38; 38; 32; 40]%N ++ print b ++ [41%N]
  | BOr a b => 40%N :: print a ++ [41; 32; 124; 124; 32; 40]%N ++ print b ++ [41%N]
  end.

(* well-formed trees *)
Definition keywords : list bytes :=
  [kw_new; kw_typeof; kw_void; kw_await; kw_in; kw_instanceof; kw_yield;
   s_true; s_false; s_NaN; s_Infinity; s_undefined; s_null].

Definition wf_name (n : bytes) : bool :=
  match n with
  | [] => false
  | c :: r => id_start c && forallb id_continue r && negb (existsb (bytes_eqb n) keywords)
  end.

Definition safe_char (c : N) : bool := ((32 <=? c) && negb (c =? 34) && negb (c =? 92))%N.

Definition wf_atom (a : atom) : bool :=
  match a with
  | AField n => wf_name n
  | ANum n => ((-100000000000000 <? n) && (n <? 1000000000000000))%Z
  | AStr s => forallb safe_char s
  | ABool _ | ANull => true
  end.

Fixpoint wf (e : bexpr) : bool :=
  match e with
  | BAtom a => wf_atom a
  | BCmp _ a b => wf_atom a && wf_atom b
  | BNot x => wf x
  | BAnd a b | BOr a b => wf a && wf b
  end.

Section Den.
Variable F : Type.
Variable O : oracle F.
Variable obj : eobj F.

Definition den_atom (a : atom) : res (evalue F) :=
  match a with
  | AField n => get_ref_value F O obj false (VUndef F) n false
  | ANum n =>
      (* a negative literal is the float64 product of its magnitude and -1 (parseFloat's n * -1) *)
      if (n <? 0)%Z then Ok (VFloat F (f_mul F O (f_of_int F O (- n)%Z) (f_of_int F O (-1)%Z)))
      else Ok (VFloat F (f_of_int F O n))
  | AStr s => Ok (VStr F s)
  | ABool b => Ok (VBool F b)
  | ANull => Ok (VNull F)
  end.

Definition den_cmp (op : cmpop) (x y : evalue F) : res (evalue F) :=
  match op with
  | CLt => op_lt F O x y
  | CLe => op_lte F O obj x y
  | CGt => op_gt F O x y
  | CGe => op_gte F O obj x y
  | CEq => op_eq F O obj x y
  | CNe => op_neq F O obj x y
  end.

(* the value the tree denotes: operands left to right, the first error wins, no short circuit
   (the evaluator has none either) *)
Fixpoint den (e : bexpr) : res (evalue F) :=
  match e with
  | BAtom a => den_atom a
  | BCmp op a b => do x <- den_atom a; do y <- den_atom b; den_cmp op x y
  | BNot x =>
      do v <- den x;
      do b <- (match v with VBool _ b => Ok b | _ => to_bool F O obj v end);
      Ok (VBool F (negb b))
  | BAnd a b => do x <- den a; do y <- den b; op_and F O obj x y
  | BOr a b => do x <- den a; do y <- den b; op_or F O obj x y
  end.

(* whether the object is kept: matchExpr on the denotation *)
Definition den_match (e : bexpr) : res bool :=
  match den e with
  | Ok v => to_bool F O obj v
  | Err _ => Ok false
  | Panic => Panic | NoFuel => NoFuel | Outside => Outside
  end.

End Den.
