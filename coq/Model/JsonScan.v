(* C17 — the two renderings of one scanWriter result (internal/server/scanner.go writeFoot /
   writeFilled, JSON and RESP arms) for the outputs IDS, COUNT and OBJECTS, and the projections a
   client applies to either reply.  Executable, no proofs.
   A printed value (object, field value) is either a token that is the same text in both modes
   (geometry JSON, numbers, true/false/null, JSON-valued fields) or a string, which JSON mode
   writes with jsonString and RESP mode as the bare bytes.  A distance is its printed text plus
   the outcome of the test dist > 0. *)
From Coq Require Import Sorted.
From T38 Require Import Base.Bytes Model.RespOut.
Open Scope N_scope.

(* JSON reply as a tree (its printing is covered by the reply templates) *)
Inductive jval :=
| JStr (s : bytes)
| JNum (n : N)
| JTok (t : bytes)                   (* an opaque JSON value *)
| JArr (l : list jval)
| JObj (m : list (bytes * jval)).

Inductive outkind := OIds | OCount | OObjects.

Inductive tval :=
| TTok (t : bytes)     (* same text in both modes *)
| TStr (s : bytes).    (* JSON: jsonString s;  RESP: s *)

Definition traw (v : tval) : bytes := match v with TTok t => t | TStr s => s end.
Definition tjson (v : tval) : jval := match v with TTok t => JTok t | TStr s => JStr s end.

Record item := {
  it_id : bytes;
  it_obj : tval;                       (* o.Geo().AppendJSON / o.String(); a string object is a TStr *)
  it_fields : list (bytes * tval);     (* the object's field list, in field-name order *)
  it_jpath : list (bytes * tval);      (* PINNED tree only (before fix 903e555): the listed names that
                                          field.List.Get answered through a JSON path — a name j.p when the object
                                          stores a JSON-valued field j in which gjson finds p.  Not read by the
                                          live renderings; kept for c17_scan_json_path_field_pinned_refuted *)
  it_distout : bool;                   (* opts.distOutput *)
  it_dist : bytes;                     (* strconv.FormatFloat(opts.dist) / appendJSONFloat *)
  it_dist_pos : bool                   (* opts.dist > 0 *)
}.

Record scanres := {
  sr_out : outkind;
  sr_nofields : bool;
  sr_names : list bytes;               (* sw.fkeys: the set of field names of the listed objects, in order *)
  sr_items : list item;
  sr_count : N;                        (* sw.count *)
  sr_cursor : N
}.

Definition k_ok : bytes := [111; 107].
Definition k_fields : bytes := [102; 105; 101; 108; 100; 115].
Definition k_ids : bytes := [105; 100; 115].
Definition k_objects : bytes := [111; 98; 106; 101; 99; 116; 115].
Definition k_count : bytes := [99; 111; 117; 110; 116].
Definition k_cursor : bytes := [99; 117; 114; 115; 111; 114].
Definition k_id : bytes := [105; 100].
Definition k_object : bytes := [111; 98; 106; 101; 99; 116].
Definition k_distance : bytes := [100; 105; 115; 116; 97; 110; 99; 101].
Definition t_true : bytes := [116; 114; 117; 101].
Definition zero_tok : bytes := [48].
Definition tzero : tval := TTok zero_tok.

(* Value.IsZero: the number 0 (a string is never zero) *)
Definition is_zero (v : tval) : bool := match v with TTok t => bytes_eqb t zero_tok | TStr _ => false end.

(* hasFieldsOutput *)
Definition fields_output (r : scanres) : bool :=
  match sr_out r with OObjects => negb (sr_nofields r) | _ => false end.

(* opts.distOutput || opts.dist > 0 — the same test in all four places of writeFilled *)
Definition show_dist (it : item) : bool := it_distout it || it_dist_pos it.

(* fields.Get(name).Value(): the stored value or the zero value *)
Fixpoint getv (n : bytes) (fs : list (bytes * tval)) : tval :=
  match fs with
  | [] => tzero
  | (k, v) :: r => if bytes_eqb n k then v else getv n r
  end.

Definition nonzero (p : bytes * tval) : bool := negb (is_zero (snd p)).

Fixpoint getv_opt (n : bytes) (fs : list (bytes * tval)) : option tval :=
  match fs with
  | [] => None
  | (k, v) :: r => if bytes_eqb n k then Some v else getv_opt n r
  end.

(* the JSON arm of writeFilled since fix 903e555: the stored field of that exact name,
     opts.obj.Fields().Scan(func(g) bool { if g.Name() == name { f = g; return false }; return g.Name() < name })
   (the scan stops at the first larger name: field.List is name-ordered) *)
Fixpoint get_stored (n : bytes) (fs : list (bytes * tval)) : tval :=
  match fs with
  | [] => tzero
  | (k, v) :: r => if bytes_eqb k n then v else if bytes_ltb k n then get_stored n r else tzero
  end.

(* the pinned JSON arm: opts.obj.Fields().Get(name); List.Get resolves a dotted name inside a
   JSON-valued field first, then looks for the stored name *)
Definition getj (n : bytes) (it : item) : tval :=
  match getv_opt n (it_jpath it) with
  | Some v => v
  | None => getv n (it_fields it)
  end.

(* ---------- JSON arm ---------- *)

Definition json_item (r : scanres) (it : item) : jval :=
  match sr_out r with
  | OIds =>
      if show_dist it then JObj [(k_id, JStr (it_id it)); (k_distance, JTok (it_dist it))]
      else JStr (it_id it)
  | _ =>
      JObj ([(k_id, JStr (it_id it)); (k_object, tjson (it_obj it))] ++
            (if fields_output r && negb (match sr_names r with [] => true | _ => false end)
             then [(k_fields, JArr (map (fun n => tjson (get_stored n (it_fields it))) (sr_names r)))] else []) ++
            (if show_dist it then [(k_distance, JTok (it_dist it))] else []))
  end.

Definition render_json (r : scanres) : jval :=
  JObj ([(k_ok, JTok t_true)] ++
        (if fields_output r && negb (match sr_names r with [] => true | _ => false end)
         then [(k_fields, JArr (map JStr (sr_names r)))] else []) ++
        (match sr_out r with
         | OIds => [(k_ids, JArr (map (json_item r) (sr_items r)))]
         | OObjects => [(k_objects, JArr (map (json_item r) (sr_items r)))]
         | OCount => []
         end) ++
        [(k_count, JNum (sr_count r)); (k_cursor, JNum (sr_cursor r))]).

(* ---------- RESP arm ---------- *)

Fixpoint flat_pairs (fs : list (bytes * tval)) : list rval :=
  match fs with
  | [] => []
  | (n, v) :: r => RBulk n :: RBulk (traw v) :: flat_pairs r
  end.

Definition resp_item (r : scanres) (it : item) : rval :=
  match sr_out r with
  | OIds =>
      if show_dist it then RArr [RBulk (it_id it); RBulk (it_dist it)]
      else RBulk (it_id it)
  | _ =>
      RArr ([RBulk (it_id it); RBulk (traw (it_obj it))] ++
            (if fields_output r then
               (match filter nonzero (it_fields it) with [] => [] | fv => [RArr (flat_pairs fv)] end)
             else []) ++
            (if show_dist it then [RBulk (it_dist it)] else []))
  end.

Definition render_resp (r : scanres) : rval :=
  match sr_out r with
  | OCount => RInt (Z.of_N (sr_count r))
  | _ => RArr [RInt (Z.of_N (sr_cursor r)); RArr (map (resp_item r) (sr_items r))]
  end.

(* ---------- what both modes convey ---------- *)

Record aitem := {
  a_id : bytes;
  a_obj : option bytes;
  a_fields : list (bytes * bytes);     (* non-zero fields: name, data *)
  a_dist : option bytes
}.

Inductive ares :=
| ACount (n : N)
| AList (cursor : N) (items : list aitem).

Definition abs_item (r : scanres) (it : item) : aitem :=
  {| a_id := it_id it;
     a_obj := match sr_out r with OIds => None | _ => Some (traw (it_obj it)) end;
     a_fields := if fields_output r then map (fun p => (fst p, traw (snd p))) (filter nonzero (it_fields it)) else [];
     a_dist := if show_dist it then Some (it_dist it) else None |}.

Definition abs_of (r : scanres) : ares :=
  match sr_out r with
  | OCount => ACount (sr_count r)
  | _ => AList (sr_cursor r) (map (abs_item r) (sr_items r))
  end.

Fixpoint map_opt {A B} (f : A -> option B) (l : list A) : option (list B) :=
  match l with
  | [] => Some []
  | x :: r => match f x, map_opt f r with Some y, Some ys => Some (y :: ys) | _, _ => None end
  end.

Fixpoint jget (k : bytes) (m : list (bytes * jval)) : option jval :=
  match m with
  | [] => None
  | (k', v) :: r => if bytes_eqb k k' then Some v else jget k r
  end.

Definition jstr (j : jval) : option bytes := match j with JStr s => Some s | _ => None end.
(* the content of a printed value: token text or decoded string *)
Definition jraw (j : jval) : option bytes := match j with JTok s => Some s | JStr s => Some s | _ => None end.
Definition jzero (j : jval) : bool := match j with JTok t => bytes_eqb t zero_tok | _ => false end.
Definition jpair (p : bytes * jval) : option (bytes * bytes) :=
  match jraw (snd p) with Some d => Some (fst p, d) | None => None end.

(* a client reading the JSON reply of a query whose output kind it chose *)
Definition proj_jitem (out : outkind) (names : list bytes) (e : jval) : option aitem :=
  match out with
  | OIds =>
      match e with
      | JStr id => Some {| a_id := id; a_obj := None; a_fields := []; a_dist := None |}
      | JObj m =>
          match jget k_id m, jget k_distance m with
          | Some (JStr id), Some (JTok d) => Some {| a_id := id; a_obj := None; a_fields := []; a_dist := Some d |}
          | _, _ => None
          end
      | _ => None
      end
  | _ =>
      match e with
      | JObj m =>
          match jget k_id m, jget k_object m with
          | Some (JStr id), Some jo =>
              let fs := match jget k_fields m with
                        | Some (JArr vs) => map_opt jpair (filter (fun p => negb (jzero (snd p))) (combine names vs))
                        | Some _ => None
                        | None => Some []
                        end in
              let d := match jget k_distance m with
                       | Some (JTok d) => Some (Some d)
                       | Some _ => None
                       | None => Some None
                       end in
              match jraw jo, fs, d with
              | Some o, Some fs, Some d => Some {| a_id := id; a_obj := Some o; a_fields := fs; a_dist := d |}
              | _, _, _ => None
              end
          | _, _ => None
          end
      | _ => None
      end
  end.

Definition proj_json (out : outkind) (j : jval) : option ares :=
  match j with
  | JObj m =>
      match out with
      | OCount => match jget k_count m with Some (JNum n) => Some (ACount n) | _ => None end
      | _ =>
          let names := match jget k_fields m with
                       | Some (JArr ns) => match map_opt jstr ns with Some l => l | None => [] end
                       | _ => []
                       end in
          match jget k_cursor m, jget (match out with OIds => k_ids | _ => k_objects end) m with
          | Some (JNum c), Some (JArr l) =>
              match map_opt (proj_jitem out names) l with Some is => Some (AList c is) | None => None end
          | _, _ => None
          end
      end
  | _ => None
  end.

(* a client reading the RESP reply *)
Fixpoint pairs_of (l : list rval) : option (list (bytes * bytes)) :=
  match l with
  | [] => Some []
  | RBulk n :: RBulk v :: r => match pairs_of r with Some ps => Some ((n, v) :: ps) | None => None end
  | _ => None
  end.

Definition proj_ritem (out : outkind) (e : rval) : option aitem :=
  match out with
  | OIds =>
      match e with
      | RBulk id => Some {| a_id := id; a_obj := None; a_fields := []; a_dist := None |}
      | RArr [RBulk id; RBulk d] => Some {| a_id := id; a_obj := None; a_fields := []; a_dist := Some d |}
      | _ => None
      end
  | _ =>
      match e with
      | RArr (RBulk id :: RBulk o :: rest) =>
          match rest with
          | [] => Some {| a_id := id; a_obj := Some o; a_fields := []; a_dist := None |}
          | [RArr fv] =>
              match pairs_of fv with
              | Some fs => Some {| a_id := id; a_obj := Some o; a_fields := fs; a_dist := None |}
              | None => None
              end
          | [RBulk d] => Some {| a_id := id; a_obj := Some o; a_fields := []; a_dist := Some d |}
          | [RArr fv; RBulk d] =>
              match pairs_of fv with
              | Some fs => Some {| a_id := id; a_obj := Some o; a_fields := fs; a_dist := Some d |}
              | None => None
              end
          | _ => None
          end
      | _ => None
      end
  end.

Definition proj_resp (out : outkind) (v : rval) : option ares :=
  match out with
  | OCount => match v with RInt z => Some (ACount (Z.to_N z)) | _ => None end
  | _ =>
      match v with
      | RArr [RInt c; RArr l] =>
          match map_opt (proj_ritem out) l with Some is => Some (AList (Z.to_N c) is) | None => None end
      | _ => None
      end
  end.

(* the field lists of the items are sub-lists of the name list (both are in field-name order:
   field.List is sorted by name, fkeys is a B-tree set of the names of the listed objects) *)
Inductive covers : list (bytes * tval) -> list bytes -> Prop :=
| cov_nil names : covers [] names
| cov_skip fs n ns : covers fs ns -> covers fs (n :: ns)
| cov_take n v fs ns : covers fs ns -> covers ((n, v) :: fs) (n :: ns).

(* byte order of names (the fkeys B-tree set, field.List) *)
Definition names_sorted (l : list bytes) : Prop := StronglySorted (fun a b => bytes_ltb a b = true) l.

Definition wf_res (r : scanres) : Prop :=
  NoDup (sr_names r) /\ Forall (fun it => covers (it_fields it) (sr_names r)) (sr_items r) /\
  names_sorted (sr_names r).

(* the JSON arm as it was before fix 903e555 (finding C17-scan-json-path-field): cells read with List.Get *)
Definition json_item_pinned (r : scanres) (it : item) : jval :=
  match sr_out r with
  | OIds => json_item r it
  | _ =>
      JObj ([(k_id, JStr (it_id it)); (k_object, tjson (it_obj it))] ++
            (if fields_output r && negb (match sr_names r with [] => true | _ => false end)
             then [(k_fields, JArr (map (fun n => tjson (getj n it)) (sr_names r)))] else []) ++
            (if show_dist it then [(k_distance, JTok (it_dist it))] else []))
  end.

(* the seeded variant C17/2: the JSON ids arm tests dist > 0 only *)
Definition json_item_dropzero (r : scanres) (it : item) : jval :=
  match sr_out r with
  | OIds =>
      if it_dist_pos it then JObj [(k_id, JStr (it_id it)); (k_distance, JTok (it_dist it))]
      else JStr (it_id it)
  | _ => json_item r it
  end.
