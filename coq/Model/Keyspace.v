(* The keyspace handlers of internal/server (crud.go, json.go, keys.go, scan.go) and the relevant
   part of handleInputCommand (server.go): executable transcription, no proofs.

     exec : bool -> env -> state -> list bytes -> outcome
       outcome = Done state reply log | Panic      log = what writeAOF appends ([args] or [])

   Structure = the structure of the Go code: [dispatch] is handleInputCommand's gate for the command
   (lock-table arm: leader / read-only / caught-up checks) followed by the handler's ">> Args"
   phase, which yields a parsed request [req] or an error before the dataset is touched;
   [run_req] is the ">> Operation" + ">> Response" phase.  [render] is writeErr.

   The first argument [fixed] selects the tree: true = /repo with proposed_fixes/C01-fset-xx-return.diff
   (what every theorem and the correspondence use), false = the pinned cmdFSET, kept for
   c01_no_panic_pinned_refuted.

   Deviations that are part of the trusted reading (see docs/notes/C01.md):
   - strings.ToLower is modelled on ASCII letters only;
   - B-trees (Server.cols, Collection.objs) are sorted association lists (Base/SMap.v); Collection
     counters and indexes are C19's subject: Count() is the number of entries;
   - the OOM guard of SET/FSET is not modelled (maxmemory = 0);
   - SCAN is modelled only as "SCAN key", "SCAN key IDS", "SCAN key OBJECTS" on collections of
     fewer than 100 objects (other shapes give RUnmodelled);
   - an object is the record (id, geometry token, deadline, field list); the head codec that packs
     id and deadline is Model/Object.v with its own round-trip theorem. *)
From Coq Require Import String.
From T38 Require Import Base.Bytes Base.SMap Model.Field Model.Object Model.Cursor Model.Spec Model.Glob.
Local Open Scope N_scope.

Record obj := mkObj { o_id : bytes; o_geo : geo; o_ex : Z; o_fields : flist }.
Definition col := smap obj.
Definition state := smap col.

Inductive outcome := Done (s : state) (r : reply) (log : list (list bytes)) | Panic.

(* ---------- small string helpers ---------- *)
Definition lower (s : bytes) : bytes := map (fun c => if is_upper c then c + 32 else c) s.

Definition kw_field : bytes := Eval compute in bs "field".
Definition kw_ex : bytes := Eval compute in bs "ex".
Definition kw_nx : bytes := Eval compute in bs "nx".
Definition kw_xx : bytes := Eval compute in bs "xx".
Definition kw_return : bytes := Eval compute in bs "return".
Definition kw_string : bytes := Eval compute in bs "string".
Definition kw_point : bytes := Eval compute in bs "point".
Definition kw_bounds : bytes := Eval compute in bs "bounds".
Definition kw_hash : bytes := Eval compute in bs "hash".
Definition kw_object : bytes := Eval compute in bs "object".
Definition kw_withfields : bytes := Eval compute in bs "withfields".
Definition kw_erron404 : bytes := Eval compute in bs "erron404".
Definition kw_raw : bytes := Eval compute in bs "raw".
Definition kw_str : bytes := Eval compute in bs "str".
Definition kw_ids : bytes := Eval compute in bs "ids".
Definition kw_objects : bytes := Eval compute in bs "objects".
Definition kw_true : bytes := Eval compute in bs "true".
Definition kw_false : bytes := Eval compute in bs "false".
Definition kw_null : bytes := Eval compute in bs "null".
Definition kw_z : bytes := Eval compute in bs "z".
Definition kw_lat : bytes := Eval compute in bs "lat".
Definition kw_lon : bytes := Eval compute in bs "lon".
Definition kw_SET : bytes := Eval compute in bs "SET".
Definition kw_OBJECT : bytes := Eval compute in bs "OBJECT".

Definition c_set : bytes := Eval compute in bs "set".
Definition c_fset : bytes := Eval compute in bs "fset".
Definition c_del : bytes := Eval compute in bs "del".
Definition c_pdel : bytes := Eval compute in bs "pdel".
Definition c_drop : bytes := Eval compute in bs "drop".
Definition c_rename : bytes := Eval compute in bs "rename".
Definition c_renamenx : bytes := Eval compute in bs "renamenx".
Definition c_flushdb : bytes := Eval compute in bs "flushdb".
Definition c_expire : bytes := Eval compute in bs "expire".
Definition c_persist : bytes := Eval compute in bs "persist".
Definition c_jset : bytes := Eval compute in bs "jset".
Definition c_jdel : bytes := Eval compute in bs "jdel".
Definition c_get : bytes := Eval compute in bs "get".
Definition c_fget : bytes := Eval compute in bs "fget".
Definition c_exists : bytes := Eval compute in bs "exists".
Definition c_fexists : bytes := Eval compute in bs "fexists".
Definition c_ttl : bytes := Eval compute in bs "ttl".
Definition c_type : bytes := Eval compute in bs "type".
Definition c_keys : bytes := Eval compute in bs "keys".
Definition c_scan : bytes := Eval compute in bs "scan".
Definition c_jget : bytes := Eval compute in bs "jget".

Definition msg_not_leader : bytes := Eval compute in bs "not the leader".
Definition msg_read_only : bytes := Eval compute in bs "read only".
Definition msg_catching_up : bytes := Eval compute in bs "catching up to leader".
Definition msg_wrong_nargs_a : bytes := Eval compute in bs "ERR wrong number of arguments for '".
Definition msg_wrong_nargs_b : bytes := Eval compute in bs "' command".
Definition msg_ERR : bytes := Eval compute in bs "ERR ".

Definition is_one_of (c : bytes) (l : list bytes) : bool := existsb (bytes_eqb c) l.

(* isReservedFieldName *)
Definition is_reserved (f : bytes) : bool := bytes_eqb f kw_z || bytes_eqb f kw_lat || bytes_eqb f kw_lon.

(* ---------- writeErr (RESP) ---------- *)
Fixpoint first_word (s : bytes) : bytes :=
  match s with
  | [] => []
  | c :: r => if c =? 32 then [] else c :: first_word r
  end.

(* resp.ErrorValue -> formSingleLine: bytes below ' ' become ' ' *)
Definition single_line (s : bytes) : bytes := map (fun c => if c <? 32 then 32 else c) s.

Definition write_err (cmd msg : bytes) : bytes :=
  if bytes_eqb msg err_nargs then msg_wrong_nargs_a ++ cmd ++ msg_wrong_nargs_b
  else
    let w := first_word msg in
    let ucprefix := nonempty w && forallb is_upper w in
    single_line (if ucprefix then msg else msg_ERR ++ msg).

Definition render (cmd : bytes) (r : reply) : reply :=
  match r with
  | RErr msg => RErr (write_err cmd msg)
  | _ => r
  end.

(* ---------- isJSONNumber (json.go) ---------- *)
Definition is_digit (c : N) : bool := (48 <=? c) && (c <=? 57).

Fixpoint skip_digits (l : bytes) : bytes :=
  match l with
  | c :: r => if is_digit c then skip_digits r else l
  | [] => []
  end.

Definition is_json_number (d : bytes) : bool :=
  match d with
  | [] => false
  | c0 :: r0 =>
      let l1 := if c0 =? 45 then r0 else d in                      (* sign *)
      match l1 with
      | [] => false
      | c :: r =>
          let l2 := if c =? 48 then r else skip_digits l1 in        (* int *)
          match l2 with
          | [] => true
          | c2 :: r2 =>
              let after_frac :=                                      (* frac *)
                if c2 =? 46 then
                  match r2 with
                  | [] => None
                  | c3 :: r3 => if is_digit c3 then Some (skip_digits r3) else None
                  end
                else Some l2 in
              match after_frac with
              | None => false
              | Some [] => true
              | Some (c4 :: r4) =>                                   (* exp *)
                  if (c4 =? 101) || (c4 =? 69) then
                    match r4 with
                    | [] => false
                    | c5 :: r5 =>
                        let l5 := if (c5 =? 43) || (c5 =? 45) then r5 else r4 in
                        match l5 with
                        | [] => false
                        | c6 :: r6 => if is_digit c6 then isempty (skip_digits r6) else false
                        end
                    end
                  else false
              end
          end
      end
  end.

(* ======================================================================================== *)
Section Handlers.
Variable O : oracle.

Definition matchesb (p s : bytes) : bool := match glob_match p s with WTrue => true | _ => false end.

Inductive parsed := PReq (q : req) | PErr (msg : bytes) | PUnmodelled | PFuel.

(* ---------- RETURN [WITHFIELDS] [OBJECT|POINT|BOUNDS|(HASH precision)] of SET and FSET ----------
   for j := i; j < i+3; j++ { if j >= len(args) { break }; switch lower(args[j]) {...; i += 1|2} }
   indices are relative to the position of RETURN; [i] moves while the loop runs. *)
Inductive retres := RetDone (i : nat) (wf : bool) (kind : N) (prec : Z) | RetErr (msg : bytes) | RetFuel.

Fixpoint ret_loop (fuel : nat) (rest : list bytes) (i j : nat) (wf : bool) (kind : N) (prec : Z) : retres :=
  match fuel with
  | 0%nat => RetFuel
  | S fuel' =>
      if (j <? i + 3)%nat then
        match nth_error rest j with
        | None => RetDone i wf kind prec
        | Some a =>
            let la := lower a in
            if bytes_eqb la kw_withfields then ret_loop fuel' rest (i + 1) (j + 1) true kind prec
            else if bytes_eqb la kw_object then ret_loop fuel' rest (i + 1) (j + 1) wf RK_OBJECT prec
            else if bytes_eqb la kw_point then ret_loop fuel' rest (i + 1) (j + 1) wf RK_POINT prec
            else if bytes_eqb la kw_bounds then ret_loop fuel' rest (i + 1) (j + 1) wf RK_BOUNDS prec
            else if bytes_eqb la kw_hash then
              match nth_error rest (j + 1) with
              | None => RetErr err_nargs
              | Some p =>
                  match o_int O p with
                  | Some n =>
                      if (n <? 1)%Z || (12 <? n)%Z then RetErr (err_invalid_arg p)
                      else ret_loop fuel' rest (i + 2) (j + 2) wf RK_HASH n
                  | None => RetErr (err_invalid_arg p)
                  end
              end
            else ret_loop fuel' rest i (j + 1) wf kind prec
        end
      else RetDone i wf kind prec
  end.

Definition wrap64 (z : Z) : Z := ((z + 9223372036854775808) mod 18446744073709551616 - 9223372036854775808)%Z.

(* ---------- cmdSET, ">> Args" ---------- *)
Record setst := mkSetSt {
  ss_fields : list field; ss_ex : Z; ss_nx : bool; ss_xx : bool;
  ss_ret : bool; ss_wf : bool; ss_kind : N; ss_prec : Z; ss_obj : option geo }.

Inductive setres := SetDone (st : setst) | SetErr (msg : bytes) | SetFuel.

Definition geo_or_err (r : gres) (k : geo -> setres) : setres :=
  match r with GOk g => k g | GErr msg => SetErr msg end.

Fixpoint set_loop (fuel : nat) (e : env) (rest : list bytes) (st : setst) : setres :=
  match fuel with
  | 0%nat => SetFuel
  | S fuel' =>
      match rest with
      | [] => SetDone st
      | a :: tl =>
          let la := lower a in
          let upd_obj g := mkSetSt (ss_fields st) (ss_ex st) (ss_nx st) (ss_xx st) (ss_ret st) (ss_wf st) (ss_kind st) (ss_prec st) (Some g) in
          if bytes_eqb la kw_field then
            match tl with
            | fkey :: fval :: tl' =>
                if is_reserved fkey then SetErr (err_invalid_arg fkey)
                else set_loop fuel' e tl'
                       (mkSetSt (ss_fields st ++ [make_field (o_f O) fkey fval]) (ss_ex st) (ss_nx st) (ss_xx st)
                                (ss_ret st) (ss_wf st) (ss_kind st) (ss_prec st) (ss_obj st))
            | _ => SetErr err_nargs
            end
          else if bytes_eqb la kw_ex then
            match tl with
            | exval :: tl' =>
                if o_float_ok O exval then
                  set_loop fuel' e tl'
                    (mkSetSt (ss_fields st) (wrap64 (e_now e + o_dur O exval)) (ss_nx st) (ss_xx st)
                             (ss_ret st) (ss_wf st) (ss_kind st) (ss_prec st) (ss_obj st))
                else SetErr (err_invalid_arg exval)
            | [] => SetErr err_nargs
            end
          else if bytes_eqb la kw_nx then
            if ss_xx st then SetErr (err_invalid_arg a)
            else set_loop fuel' e tl (mkSetSt (ss_fields st) (ss_ex st) true (ss_xx st) (ss_ret st) (ss_wf st) (ss_kind st) (ss_prec st) (ss_obj st))
          else if bytes_eqb la kw_xx then
            if ss_nx st then SetErr (err_invalid_arg a)
            else set_loop fuel' e tl (mkSetSt (ss_fields st) (ss_ex st) (ss_nx st) true (ss_ret st) (ss_wf st) (ss_kind st) (ss_prec st) (ss_obj st))
          else if bytes_eqb la kw_return then
            if ss_ret st then SetErr (err_invalid_arg a)
            else
              match ret_loop (S (length rest)) rest 0 0 (ss_wf st) (ss_kind st) (ss_prec st) with
              | RetFuel => SetFuel
              | RetErr msg => SetErr msg
              | RetDone i wf kind prec =>
                  set_loop fuel' e (skipn (S i) rest)
                    (mkSetSt (ss_fields st) (ss_ex st) (ss_nx st) (ss_xx st) true wf kind prec (ss_obj st))
              end
          else if bytes_eqb la kw_string then
            match tl with
            | str :: tl' => set_loop fuel' e tl' (upd_obj (mkGeo false str))
            | [] => SetErr err_nargs
            end
          else if bytes_eqb la kw_point then
            match tl with
            | slat :: slon :: tl' =>
                (* probe for a z coordinate first, then parse lat, then lon *)
                let '(zs, tl'') :=
                  match tl' with
                  | z :: tl'' => if o_float_ok O z then ([z], tl'') else ([], tl')
                  | [] => ([], tl')
                  end in
                if negb (o_float_ok O slat) then SetErr (err_invalid_arg slat)
                else if negb (o_float_ok O slon) then SetErr (err_invalid_arg slon)
                else geo_or_err (o_mkgeo O GK_POINT (slat :: slon :: zs)) (fun g => set_loop fuel' e tl'' (upd_obj g))
            | _ => SetErr err_nargs
            end
          else if bytes_eqb la kw_bounds then
            match tl with
            | v0 :: v1 :: v2 :: v3 :: tl' =>
                if negb (o_float_ok O v0) then SetErr (err_invalid_arg v0)
                else if negb (o_float_ok O v1) then SetErr (err_invalid_arg v1)
                else if negb (o_float_ok O v2) then SetErr (err_invalid_arg v2)
                else if negb (o_float_ok O v3) then SetErr (err_invalid_arg v3)
                else geo_or_err (o_mkgeo O GK_BOUNDS [v0; v1; v2; v3]) (fun g => set_loop fuel' e tl' (upd_obj g))
            | _ => SetErr err_nargs
            end
          else if bytes_eqb la kw_hash then
            match tl with
            | h :: tl' => geo_or_err (o_mkgeo O GK_HASH [h]) (fun g => set_loop fuel' e tl' (upd_obj g))
            | [] => SetErr err_nargs
            end
          else if bytes_eqb la kw_object then
            match tl with
            | json :: tl' => geo_or_err (o_mkgeo O GK_OBJECT [json]) (fun g => set_loop fuel' e tl' (upd_obj g))
            | [] => SetErr err_nargs
            end
          else SetErr (err_invalid_arg a)
      end
  end.

Definition set_init : setst := mkSetSt [] 0 false false false false RK_OBJECT 0 None.

Definition parse_set (e : env) (args : list bytes) : parsed :=
  match args with
  | _ :: key :: id :: rest =>
      match set_loop (S (length rest)) e rest set_init with
      | SetFuel => PFuel
      | SetErr msg => PErr msg
      | SetDone st =>
          match ss_obj st with
          | None => PErr err_nargs
          | Some g => PReq (QSet key id (ss_fields st) (ss_ex st) (ss_nx st) (ss_xx st)
                                 (mkRet (ss_ret st) (ss_wf st) (ss_kind st) (ss_prec st)) g)
          end
      end
  | _ => PErr err_nargs
  end.

(* ---------- cmdFSET, ">> Args" ---------- *)
Record fsetst := mkFsetSt { fs_fields : list field; fs_xx : bool; fs_ret : bool; fs_wf : bool; fs_kind : N; fs_prec : Z }.
Inductive fsetres := FsetDone (st : fsetst) | FsetErr (msg : bytes) | FsetFuel.

Fixpoint fset_loop (fuel : nat) (rest : list bytes) (st : fsetst) : fsetres :=
  match fuel with
  | 0%nat => FsetFuel
  | S fuel' =>
      match rest with
      | [] => FsetDone st
      | a :: tl =>
          let la := lower a in
          if bytes_eqb la kw_xx then
            fset_loop fuel' tl (mkFsetSt (fs_fields st) true (fs_ret st) (fs_wf st) (fs_kind st) (fs_prec st))
          else if bytes_eqb la kw_return then
            if fs_ret st then FsetErr (err_invalid_arg a)
            else
              match ret_loop (S (length rest)) rest 0 0 (fs_wf st) (fs_kind st) (fs_prec st) with
              | RetFuel => FsetFuel
              | RetErr msg => FsetErr msg
              | RetDone i wf kind prec =>
                  fset_loop fuel' (skipn (S i) rest) (mkFsetSt (fs_fields st) (fs_xx st) true wf kind prec)
              end
          else
            match tl with
            | [] => FsetErr err_nargs
            | fval :: tl' =>
                if is_reserved a then FsetErr (err_invalid_arg a)
                else fset_loop fuel' tl'
                       (mkFsetSt (fs_fields st ++ [make_field (o_f O) a fval]) (fs_xx st) (fs_ret st) (fs_wf st) (fs_kind st) (fs_prec st))
            end
      end
  end.

Definition parse_fset (args : list bytes) : parsed :=
  if (length args <? 5)%nat then PErr err_nargs
  else
    match args with
    | _ :: key :: id :: rest =>
        match fset_loop (S (length rest)) rest (mkFsetSt [] false false false RK_OBJECT 0) with
        | FsetFuel => PFuel
        | FsetErr msg => PErr msg
        | FsetDone st => PReq (QFset key id (fs_xx st) (mkRet (fs_ret st) (fs_wf st) (fs_kind st) (fs_prec st)) (fs_fields st))
        end
    | _ => PErr err_nargs
    end.

(* ---------- the other ">> Args" phases ---------- *)
Fixpoint del_opts (rest : list bytes) (erron404 : bool) : bool + bytes :=
  match rest with
  | [] => inl erron404
  | a :: tl => if bytes_eqb (lower a) kw_erron404 then del_opts tl true else inr (err_invalid_arg a)
  end.

Definition parse_del (args : list bytes) : parsed :=
  match args with
  | _ :: key :: id :: rest =>
      match del_opts rest false with
      | inl e404 => PReq (QDel key id e404)
      | inr msg => PErr msg
      end
  | _ => PErr err_nargs
  end.

Definition parse_expire (e : env) (args : list bytes) : parsed :=
  match args with
  | [_; key; id; sv] =>
      if o_float_ok O sv then PReq (QExpire key id (wrap64 (e_now e + o_dur O sv)))
      else PErr (err_invalid_arg sv)
  | _ => PErr err_nargs
  end.

(* GET key id [WITHFIELDS] [OBJECT|POINT|BOUNDS|(HASH geohash)] *)
Fixpoint get_opts (rest : list bytes) (wf : bool) (kind : N) (prec : Z) : (bool * N * Z) + bytes :=
  match rest with
  | [] => inl (wf, kind, prec)
  | a :: tl =>
      let la := lower a in
      if bytes_eqb la kw_withfields then get_opts tl true kind prec
      else if bytes_eqb la kw_object then get_opts tl wf RK_OBJECT prec
      else if bytes_eqb la kw_point then get_opts tl wf RK_POINT prec
      else if bytes_eqb la kw_bounds then get_opts tl wf RK_BOUNDS prec
      else if bytes_eqb la kw_hash then
        match tl with
        | [] => inr err_nargs
        | p :: tl' =>
            match o_int O p with
            | Some n => if (n <? 1)%Z || (12 <? n)%Z then inr (err_invalid_arg p) else get_opts tl' wf RK_HASH n
            | None => inr (err_invalid_arg p)
            end
        end
      else inr err_nargs
  end.

Definition parse_get (args : list bytes) : parsed :=
  match args with
  | _ :: key :: id :: rest =>
      match get_opts rest false RK_OBJECT 0 with
      | inl (wf, kind, prec) => PReq (QGet key id wf kind prec)
      | inr msg => PErr msg
      end
  | _ => PErr err_nargs
  end.

Definition parse_jset (args : list bytes) : parsed :=
  let mk key id path val (raw str : bool) :=
    let raw' :=
      if negb str && negb raw then
        (if bytes_eqb val kw_true || bytes_eqb val kw_false || bytes_eqb val kw_null then true else is_json_number val)
      else raw in
    PReq (QJset key id path val raw') in
  match args with
  | [_; key; id; path; val] => mk key id path val false false
  | [_; key; id; path; val; opt] =>
      let lo := lower opt in
      if bytes_eqb lo kw_raw then mk key id path val true false
      else if bytes_eqb lo kw_str then mk key id path val false true
      else PErr (err_invalid_arg opt)
  | _ => PErr err_nargs
  end.

Definition parse_jget (args : list bytes) : parsed :=
  match args with
  | [_; key; id] => PReq (QJget key id None false)
  | [_; key; id; path] => PReq (QJget key id (Some path) false)
  | [_; key; id; path; opt] =>
      if bytes_eqb (lower opt) kw_raw then PReq (QJget key id (Some path) true) else PErr (err_invalid_arg opt)
  | _ => PErr err_nargs
  end.

(* cmdScanArgs / parseSearchScanBaseTokens for "scan": key, then the option loop (CURSOR, LIMIT, MATCH,
   ASC, DESC, NOFIELDS are modelled; the field / script / fence options give PUnmodelled), then the
   output word, then the numbers, then "no argument may be left". *)
Definition upper (s : bytes) : bytes := map (fun c => if (97 <=? c) && (c <=? 122) then c - 32 else c) s.
Definition msg_dup_arg_a : bytes := Eval compute in bs "duplicate argument '".
Definition err_dup_arg (a : bytes) : bytes := msg_dup_arg_a ++ upper a ++ [39].
Definition kw_cursor : bytes := Eval compute in bs "cursor".
Definition kw_limit : bytes := Eval compute in bs "limit".
Definition kw_match : bytes := Eval compute in bs "match".
Definition kw_desc : bytes := Eval compute in bs "desc".
Definition kw_asc : bytes := Eval compute in bs "asc".
Definition kw_nofields : bytes := Eval compute in bs "nofields".
Definition kw_count : bytes := Eval compute in bs "count".
Definition scan_unmodelled_opts : list bytes :=
  Eval compute in map bs ["buffer"; "where"; "wherein"; "whereeval"; "whereevalsha"; "sparse"; "fence"; "commands";
                          "distance"; "detect"; "nodwell"; "clip"]%string.
Definition scan_unmodelled_outs : list bytes := Eval compute in map bs ["points"; "hashes"; "bounds"]%string.

Record scanst := mkScanSt { sc_cursor : bytes; sc_limit : bytes; sc_globs : list bytes; sc_desc : bool; sc_asc : bool; sc_nofields : bool }.
Inductive scanres := ScanDone (st : scanst) (rest : list bytes) | ScanErr (msg : bytes) | ScanUnmodelled | ScanFuel.

Fixpoint scan_loop (fuel : nat) (vs : list bytes) (st : scanst) : scanres :=
  match fuel with
  | 0%nat => ScanFuel
  | S fuel' =>
      match vs with
      | [] => ScanDone st vs
      | w :: nvs =>
          if isempty w then ScanDone st vs
          else
            let lw := lower w in
            if is_one_of lw scan_unmodelled_opts then ScanUnmodelled
            else if bytes_eqb lw kw_cursor then
              if nonempty (sc_cursor st) then ScanErr (err_dup_arg w)
              else match nvs with
                   | v :: vs' => if isempty v then ScanErr err_nargs
                                 else scan_loop fuel' vs' (mkScanSt v (sc_limit st) (sc_globs st) (sc_desc st) (sc_asc st) (sc_nofields st))
                   | [] => ScanErr err_nargs
                   end
            else if bytes_eqb lw kw_nofields then
              if sc_nofields st then ScanErr (err_dup_arg w)
              else scan_loop fuel' nvs (mkScanSt (sc_cursor st) (sc_limit st) (sc_globs st) (sc_desc st) (sc_asc st) true)
            else if bytes_eqb lw kw_limit then
              if nonempty (sc_limit st) then ScanErr (err_dup_arg w)
              else match nvs with
                   | v :: vs' => if isempty v then ScanErr err_nargs
                                 else scan_loop fuel' vs' (mkScanSt (sc_cursor st) v (sc_globs st) (sc_desc st) (sc_asc st) (sc_nofields st))
                   | [] => ScanErr err_nargs
                   end
            else if bytes_eqb lw kw_desc then
              if sc_desc st || sc_asc st then ScanErr (err_dup_arg w)
              else scan_loop fuel' nvs (mkScanSt (sc_cursor st) (sc_limit st) (sc_globs st) true (sc_asc st) (sc_nofields st))
            else if bytes_eqb lw kw_asc then
              if sc_desc st || sc_asc st then ScanErr (err_dup_arg w)
              else scan_loop fuel' nvs (mkScanSt (sc_cursor st) (sc_limit st) (sc_globs st) (sc_desc st) true (sc_nofields st))
            else if bytes_eqb lw kw_match then
              match nvs with
              | v :: vs' => if isempty v then ScanErr err_nargs
                            else scan_loop fuel' vs' (mkScanSt (sc_cursor st) (sc_limit st) (sc_globs st ++ [v]) (sc_desc st) (sc_asc st) (sc_nofields st))
              | [] => ScanErr err_nargs
              end
            else ScanDone st vs
      end
  end.

Definition parse_scan (args : list bytes) : parsed :=
  match args with
  | _ :: key :: vs0 =>
      if isempty key then PErr err_nargs
      else
        match scan_loop (S (length vs0)) vs0 (mkScanSt [] [] [] false false false) with
        | ScanFuel => PFuel
        | ScanUnmodelled => PUnmodelled
        | ScanErr msg => PErr msg
        | ScanDone st vs =>
            (* the output word *)
            let outp : option (N * list bytes) + bytes :=
              match vs with
              | which :: nvs =>
                  if isempty which then inl (Some (OUT_OBJECTS, vs))
                  else
                    let lw := lower which in
                    if bytes_eqb lw kw_count then inl (Some (OUT_COUNT, nvs))
                    else if bytes_eqb lw kw_objects then inl (Some (OUT_OBJECTS, nvs))
                    else if bytes_eqb lw kw_ids then inl (Some (OUT_IDS, nvs))
                    else if is_one_of lw scan_unmodelled_outs then inl None
                    else inr (err_invalid_arg which)
              | [] => inl (Some (OUT_OBJECTS, vs))
              end in
            match outp with
            | inr msg => PErr msg
            | inl None => PUnmodelled
            | inl (Some (out, vs')) =>
                match (if isempty (sc_cursor st) then Some 0 else o_uint O (sc_cursor st)) with
                | None => PErr (err_invalid_arg (sc_cursor st))
                | Some cur =>
                    match (if isempty (sc_limit st) then Some 0
                           else match o_uint O (sc_limit st) with
                                | Some n => if n =? 0 then None else Some n
                                | None => None
                                end) with
                    | None => PErr (err_invalid_arg (sc_limit st))
                    | Some lim =>
                        match vs' with
                        | [] => PReq (QScan key cur lim (sc_globs st) (sc_desc st) out (sc_nofields st))
                        | _ => PErr err_nargs
                        end
                    end
                end
            end
        end
  | _ => PErr err_nargs
  end.

(* ---------- handleInputCommand: the lock-table arm of a command ---------- *)
Inductive arm := ArmWrite | ArmRead | ArmOther.


Definition arm_of (c : bytes) : arm :=
  if is_one_of c [c_set; c_del; c_drop; c_fset; c_flushdb; c_expire; c_persist; c_jset; c_jdel; c_pdel; c_rename; c_renamenx] then ArmWrite
  else if is_one_of c [c_get; c_keys; c_scan; c_ttl; c_type; c_jget; c_fget; c_exists; c_fexists] then ArmRead
  else ArmOther.
(* jdel is in the write arm since the repair of finding F3 (it used to fall in the default arm:
   shared lock, no leader / read-only gate, never logged — with that arm KsReplay.ks_noupd is false). *)

Definition parse_cmd (e : env) (c : bytes) (args : list bytes) : parsed :=
  if bytes_eqb c c_set then parse_set e args
  else if bytes_eqb c c_fset then parse_fset args
  else if bytes_eqb c c_del then parse_del args
  else if bytes_eqb c c_pdel then match args with [_; key; pat] => PReq (QPdel key pat) | _ => PErr err_nargs end
  else if bytes_eqb c c_drop then match args with [_; key] => PReq (QDrop key) | _ => PErr err_nargs end
  else if bytes_eqb c c_rename then match args with [_; key; nk] => PReq (QRename false key nk) | _ => PErr err_nargs end
  else if bytes_eqb c c_renamenx then match args with [_; key; nk] => PReq (QRename true key nk) | _ => PErr err_nargs end
  else if bytes_eqb c c_flushdb then match args with [_] => PReq QFlushdb | _ => PErr err_nargs end
  else if bytes_eqb c c_expire then parse_expire e args
  else if bytes_eqb c c_persist then match args with [_; key; id] => PReq (QPersist key id) | _ => PErr err_nargs end
  else if bytes_eqb c c_jset then parse_jset args
  else if bytes_eqb c c_jdel then match args with [_; key; id; path] => PReq (QJdel key id path) | _ => PErr err_nargs end
  else if bytes_eqb c c_get then parse_get args
  else if bytes_eqb c c_fget then match args with _ :: key :: id :: f :: _ => PReq (QFget key id f) | _ => PErr err_nargs end
  else if bytes_eqb c c_exists then match args with [_; key; id] => PReq (QExists key id) | _ => PErr err_nargs end
  else if bytes_eqb c c_fexists then match args with [_; key; id; f] => PReq (QFexists key id f) | _ => PErr err_nargs end
  else if bytes_eqb c c_ttl then match args with [_; key; id] => PReq (QTtl key id) | _ => PErr err_nargs end
  else if bytes_eqb c c_type then match args with [_; key] => PReq (QType key) | _ => PErr err_nargs end
  else if bytes_eqb c c_keys then match args with [_; pat] => PReq (QKeys pat) | _ => PErr err_nargs end
  else if bytes_eqb c c_scan then parse_scan args
  else if bytes_eqb c c_jget then parse_jget args
  else PUnmodelled.

Inductive dres := DReq (cmd : bytes) (write : bool) (q : req) | DOut (r : reply).

Definition dispatch (e : env) (args : list bytes) : dres :=
  match args with
  | [] => DOut RUnmodelled
  | a0 :: _ =>
      let c := lower a0 in
      let gate :=
        match arm_of c with
        | ArmWrite =>
            if e_follower e then Some msg_not_leader
            else if e_readonly e then Some msg_read_only
            else None
        | ArmRead => if e_follower e && negb (e_caughtup e) then Some msg_catching_up else None
        | ArmOther => None
        end in
      match gate with
      | Some msg => DOut (RErr (write_err c msg))
      | None =>
          match parse_cmd e c args with
          | PReq q => DReq c (match arm_of c with ArmWrite => true | _ => false end) q
          | PErr msg => DOut (RErr (write_err c msg))
          | PUnmodelled => DOut RUnmodelled
          | PFuel => DOut RUnmodelled
          end
      end
  end.

(* ======================================================================================== *)
(* ">> Operation" and ">> Response" *)

Definition obj_reply (o : obj) (wf : bool) (kind : N) (prec : Z) : reply :=
  object_reply O (o_geo o) (fl_scan (o_fields o)) wf kind prec.

(* s.cols.Delete(key) when col.Count() == 0, else the collection (a pointer) stays in place *)
Definition store_col (s : state) (key : bytes) (c : col) : state :=
  if (length c =? 0)%nat then del key s else set key c s.

Definition cmd_set (s : state) (key id : bytes) (fields : list field) (ex : Z) (nx xx : bool)
           (rs : retspec) (g : geo) : state * reply * bool :=
  (* col, ok := s.cols.Get(key); if !ok { if xx { return nada() }; col = New(); s.cols.Set(key, col) } *)
  match (match get key s with
         | Some c => Some (c, s)
         | None => if xx then None else Some ([], set key [] s)
         end) with
  | None => (s, RNil, false)
  | Some (c, s1) =>
      (* if xx || nx { if col.Get(id) == nil { if xx {nada} } else { if nx {nada} } } *)
      if (xx || nx) && (match get id c with None => xx | Some _ => nx end) then (s1, RNil, false)
      else
        let flist0 := match get id c with Some old => o_fields old | None => [] end in
        let flist := fold_left fl_set fields flist0 in
        let o := mkObj id g ex flist in
        (set key (set id o c) s1,
         (if rs_ret rs then obj_reply o (rs_withfields rs) (rs_kind rs) (rs_prec rs) else ROk str_OK),
         true)
  end.

Definition fset_step (acc : flist * Z) (f : field) : flist * Z :=
  let '(ofields, n) := acc in
  let prev := fl_get (o_f O) ofields (fst f) in
  if negb (value_same (snd prev) (snd f)) then (fl_set ofields f, (n + 1)%Z) else (ofields, n).

(* None = nil-pointer panic (pinned tree only) *)
Definition cmd_fset (fixed : bool) (s : state) (key id : bytes) (xx : bool) (rs : retspec) (fields : list field)
  : option (state * reply * bool) :=
  match get key s with
  | None => Some (s, RErr err_key_not_found, false)
  | Some c =>
      match get id c with
      | None =>
          if negb xx then Some (s, RErr err_id_not_found, false)
          else if rs_ret rs && negb fixed then None   (* buildObjectResponse(msg, d.obj = nil, ...) *)
          else Some (s, RInt 0, false)
      | Some o =>
          let '(ofields, n) := fold_left fset_step fields (o_fields o, 0%Z) in
          let o' := mkObj id (o_geo o) (o_ex o) ofields in
          Some (set key (set id o' c) s,
                (if rs_ret rs then obj_reply o' (rs_withfields rs) (rs_kind rs) (rs_prec rs) else RInt n),
                (0 <? n)%Z)
      end
  end.

Definition cmd_del (s : state) (key id : bytes) (erron404 : bool) : state * reply * bool :=
  match get key s with
  | Some c =>
      match get id c with
      | Some _ => (store_col s key (del id c), RInt 1, true)
      | None => if erron404 then (s, RErr err_id_not_found, false) else (s, RInt 0, false)
      end
  | None => if erron404 then (s, RErr err_key_not_found, false) else (s, RInt 0, false)
  end.

(* B-tree Ascend(start) and the end tests of ScanRange (id >= end stops) and cmdKEYS (key > end stops) *)
Fixpoint drop_below {V} (lo : bytes) (m : smap V) : smap V :=
  match m with
  | [] => []
  | (k, v) :: r => if bytes_ltb k lo then drop_below lo r else m
  end.

Fixpoint take_upto {V} (hi : bytes) (incl : bool) (m : smap V) : smap V :=
  match m with
  | [] => []
  | (k, v) :: r =>
      if (if incl then bytes_gtb k hi else bytes_geb k hi) then [] else (k, v) :: take_upto hi incl r
  end.

Definition range_scan {V} (pat : bytes) (incl : bool) (m : smap V) : smap V :=
  let g := parse pat false in
  if unlimited g then m else take_upto (g_lim1 g) incl (drop_below (g_lim0 g) m).

Definition cmd_pdel (s : state) (key pat : bytes) : state * reply * bool :=
  match get key s with
  | None => (s, RInt 0, false)
  | Some c =>
      let ids := map fst (filter (fun io => matchesb pat (fst io)) (range_scan pat false c)) in
      let c' := fold_left (fun c id => del id c) ids c in
      (store_col s key c', RInt (Z.of_nat (length ids)), negb (isempty ids))
  end.

Definition cmd_drop (s : state) (key : bytes) : state * reply * bool :=
  match get key s with
  | Some _ => (del key s, RInt 1, true)
  | None => (s, RInt 0, false)
  end.

Definition cmd_rename (e : env) (s : state) (nx : bool) (key newkey : bytes) : state * reply * bool :=
  match get key s with
  | None => (s, RErr err_key_not_found, false)
  | Some c =>
      match hook_guard e key newkey with
      | Some msg => (s, RErr msg, false)
      | None =>
          let '(s1, updated) :=
            match get newkey s with
            | None => (s, true)
            | Some _ => if negb nx then (del newkey s, true) else (s, false)
            end in
          let s2 := if updated then set newkey c (del key s1) else s1 in
          (s2, (if negb nx then ROk str_OK else if updated then RInt 1 else RInt 0), updated)
      end
  end.

Definition cmd_expire (s : state) (key id : bytes) (ex : Z) : state * reply * bool :=
  match get key s with
  | Some c =>
      match get id c with
      | Some o => (set key (set id (mkObj id (o_geo o) ex (o_fields o)) c) s, RInt 1, true)
      | None => (s, RInt 0, false)
      end
  | None => (s, RInt 0, false)
  end.

Definition cmd_persist (s : state) (key id : bytes) : state * reply * bool :=
  match get key s with
  | None => (s, RInt 0, false)
  | Some c =>
      match get id c with
      | None => (s, RInt 0, false)
      | Some o =>
          if negb (o_ex o =? 0)%Z then (set key (set id (mkObj id (o_geo o) 0 (o_fields o)) c) s, RInt 1, true)
          else (s, RInt 0, false)
      end
  end.

(* the re-entry of cmdJset / cmdJdel into cmdSET with Args = [SET key id OBJECT json] *)
Definition reenter_set (e : env) (s : state) (key id json : bytes) : state * reply * bool :=
  match parse_set e [kw_SET; key; id; kw_OBJECT; json] with
  | PReq (QSet k i fs ex nx xx rs g) => cmd_set s k i fs ex nx xx rs g
  | PErr msg => (s, RErr msg, false)
  | _ => (s, RUnmodelled, false)
  end.

Definition cmd_jset (e : env) (s : state) (key id path val : bytes) (raw : bool) : state * reply * bool :=
  let '(c, createcol) := match get key s with Some c => (c, false) | None => ([], true) end in
  let o := get id c in
  let geoobj := match o with Some o => g_spatial (o_geo o) | None => false end in
  let json := match o with Some o => g_text (o_geo o) | None => [] end in
  let fields := match o with Some o => o_fields o | None => [] end in
  match o_sjson_set O raw json path val with
  | OErr msg => (s, RErr msg, false)
  | OOk json' =>
      if geoobj then reenter_set e s key id json'
      else
        let s1 := if createcol then set key c s else s in
        (set key (set id (mkObj id (mkGeo false json') 0 fields) c) s1, ROk str_OK, true)
  end.

Definition cmd_jdel (e : env) (s : state) (key id path : bytes) : state * reply * bool :=
  match get key s with
  | None => (s, RInt 0, false)
  | Some c =>
      let o := get id c in
      let geoobj := match o with Some o => g_spatial (o_geo o) | None => false end in
      let json := match o with Some o => g_text (o_geo o) | None => [] end in
      let fields := match o with Some o => o_fields o | None => [] end in
      match o_sjson_del O json path with
      | OErr msg => (s, RErr msg, false)
      | OOk njson =>
          if bytes_eqb njson json then (s, RInt 0, false)
          else if geoobj then reenter_set e s key id njson
          else (set key (set id (mkObj id (mkGeo false njson) 0 fields) c) s, RInt 1, true)
      end
  end.

Definition find (s : state) (key id : bytes) : option obj :=
  match get key s with Some c => get id c | None => None end.

Definition scan_item_impl (out : N) (nofields : bool) (io : bytes * obj) : reply :=
  let o := snd io in
  if out =? OUT_IDS then RBulk (o_id o)
  else RArr (RBulk (o_id o) :: RBulk (g_text (o_geo o)) ::
             (if nofields then [] else
              match fl_scan (o_fields o) with [] => [] | fs => [RArr (fields_reply fs)] end)).

Definition run_req (fixed : bool) (e : env) (s : state) (q : req) : option (state * reply * bool) :=
  match q with
  | QSet key id fields ex nx xx rs g => Some (cmd_set s key id fields ex nx xx rs g)
  | QFset key id xx rs fields => cmd_fset fixed s key id xx rs fields
  | QDel key id e404 => Some (cmd_del s key id e404)
  | QPdel key pat => Some (cmd_pdel s key pat)
  | QDrop key => Some (cmd_drop s key)
  | QRename nx key nk => Some (cmd_rename e s nx key nk)
  | QFlushdb => Some ([], ROk str_OK, true)
  | QExpire key id ex => Some (cmd_expire s key id ex)
  | QPersist key id => Some (cmd_persist s key id)
  | QJset key id path val raw => Some (cmd_jset e s key id path val raw)
  | QJdel key id path => Some (cmd_jdel e s key id path)
  | QGet key id wf kind prec =>
      Some (match find s key id with
            | None => (s, RNil, false)
            | Some o => (s, obj_reply o wf kind prec, false)
            end)
  | QFget key id fname =>
      Some (match get key s with
            | None => (s, RErr err_key_not_found, false)
            | Some c =>
                match get id c with
                | None => (s, RErr err_id_not_found, false)
                | Some o => (s, RBulk (v_data (snd (fl_get (o_f O) (o_fields o) fname))), false)
                end
            end)
  | QExists key id =>
      Some (match get key s with
            | None => (s, RErr err_key_not_found, false)
            | Some c => (s, bool_reply (mem id c), false)
            end)
  | QFexists key id fname =>
      Some (match get key s with
            | None => (s, RErr err_key_not_found, false)
            | Some c =>
                match get id c with
                | None => (s, RErr err_id_not_found, false)
                | Some o => (s, bool_reply (negb (isempty (fst (fl_get (o_f O) (o_fields o) fname)))), false)
                end
            end)
  | QTtl key id =>
      Some (match find s key id with
            | None => (s, RInt (-2), false)
            | Some o => (s, ttl_reply (e_now e) (o_ex o), false)
            end)
  | QType key =>
      Some (match get key s with
            | None => (s, ROk str_none, false)
            | Some _ => (s, ROk str_hash, false)
            end)
  | QKeys pat =>
      Some (s, RArr (map RBulk (filter (matchesb pat) (keys (range_scan pat true s)))), false)
  | QScan key cursor limit globs desc out nofields =>
      Some (match get key s with
            | None =>
                (* sw.col == nil: nothing is scanned, writeFoot answers count 0 / cursor 0 and no items *)
                (s, (if out =? OUT_COUNT then RInt 0 else RArr [RInt 0; RArr []]), false)
            | Some c =>
                if out =? OUT_COUNT then
                  if glob_everything globs then
                    (* count := uint64(Count()); if cursor >= count { count = 0 } else { count -= cursor };
                       if count > sw.limit { count = sw.limit }   (limit 0 = MaxUint64 for COUNT) *)
                    let n := N.of_nat (length c) in
                    let cnt := if n <=? cursor then 0 else n - cursor in
                    let lim := if limit =? 0 then max_uint64 else limit in
                    (s, RInt (Z.of_N (if lim <? cnt then lim else cnt)), false)
                  else
                    let '(ids, _) := scan_select matchesb (keys c) cursor (if limit =? 0 then max_uint64 else limit) globs desc in
                    (s, RInt (Z.of_nat (length ids)), false)
                else
                  let '(ids, cur) := scan_select matchesb (keys c) cursor (eff_limit limit) globs desc in
                  (s, RArr [RInt (int_of_uint64 cur); RArr (map (scan_item_impl out nofields) (scan_pick c ids))], false)
            end)
  | QJget key id path raw =>
      Some (match find s key id with
            | None => (s, RNil, false)
            | Some o =>
                match o_jget O (g_text (o_geo o)) path raw with
                | None => (s, RNil, false)
                | Some v => (s, RBulk v, false)
                end
            end)
  end.

Definition exec (fixed : bool) (e : env) (s : state) (args : list bytes) : outcome :=
  match dispatch e args with
  | DOut r => Done s r []
  | DReq c write q =>
      match run_req fixed e s q with
      | None => Panic
      | Some (s', r, updated) =>
          Done s' (render c r) (if write && updated then [args] else [])
      end
  end.

(* the specification run on the same command line: same syntax (dispatch), plain-map semantics *)
Definition sexec_cmd (e : env) (ss : sstate) (args : list bytes) : sstate * reply :=
  match dispatch e args with
  | DOut r => (ss, r)
  | DReq c _ q => let '(ss', r, _) := sexec O matchesb e ss q in (ss', render c r)
  end.

(* programs: every step has its own environment (time moves) *)
Definition step := (env * list bytes)%type.

Fixpoint run (fixed : bool) (s : state) (p : list step) : option (state * list reply) :=
  match p with
  | [] => Some (s, [])
  | (e, args) :: p' =>
      match exec fixed e s args with
      | Panic => None
      | Done s' r _ =>
          match run fixed s' p' with
          | Some (sf, rs) => Some (sf, r :: rs)
          | None => None
          end
      end
  end.

Fixpoint srun (ss : sstate) (p : list step) : sstate * list reply :=
  match p with
  | [] => (ss, [])
  | (e, args) :: p' =>
      let '(ss', r) := sexec_cmd e ss args in
      let '(sf, rs) := srun ss' p' in
      (sf, r :: rs)
  end.

End Handlers.

(* the abstraction from handler state to the plain map: forget the redundant id *)
Definition abs_obj (o : obj) : sobj := mkSObj (o_geo o) (o_fields o) (o_ex o).
Definition abs_col (c : col) : smap sobj := smap_map abs_obj c.
Definition abs (s : state) : sstate := smap_map abs_col s.
