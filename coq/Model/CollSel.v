(* Model/CollSel.v — the pattern-selecting access paths of SCAN and SEARCH on a collection
   (property C19): cmdScan / cmdSearch (scan.go, search.go) as they run on top of
   internal/collection — Model.Collection gives the two B-trees the commands walk
   (objs by id, values by (String(), ID())), Model.GlobSel gives the walk itself
   (multiGlobParse + Scan / ScanRange resp. SearchValues / SearchValuesRange, the glob filter of
   scanWriter, both directions) and the COUNT shortcut.  No proofs in this file.

   Without CURSOR (C11 has cursors) and without WHERE / WHEREIN / WHEREEVAL filters. *)
From T38 Require Import Base.Bytes Model.Glob Model.Collection Model.GlobSel.
Import ListNotations.
Open Scope N_scope.

(* SCAN key MATCH p1 .. MATCH pn [DESC] LIMIT limit IDS : the ids in reply order.
   sw.col.Scan / ScanRange iterate c.objs (ids ascending; Descend for DESC); every visited object
   goes through scanWriter.pushObject (Model.GlobSel.scan_multi, no field filter) *)
Definition no_filter {A} (_ : A) : bool := true.

Definition coll_scan_ids (globs : list bytes) (desc : bool) (c : coll) (limit : N) : list bytes :=
  out_items (scan_multi globs no_filter limit false desc (map o_id (scan_ids c))).

(* SEARCH key MATCH p1 .. MATCH pn [DESC] LIMIT limit IDS : the ids in reply order.
   sw.col.SearchValues / SearchValuesRange iterate c.values, entries (String(), ID()) *)
Definition coll_search_ids (globs : list bytes) (desc : bool) (c : coll) (limit : N) : list bytes :=
  map snd (out_items (search_multi globs no_filter limit false desc (map vkey (search_values c)))).

(* ... COUNT with LIMIT limit: "sw.output == outputCount && no filters && sw.globEverything"
   answers from the counter (Count() resp. StringCount()); otherwise the same iteration as for IDS
   runs and pushObject counts what passes the glob filter, stopping when count reaches LIMIT *)
Definition coll_scan_count (globs : list bytes) (desc : bool) (c : coll) (limit : N) : N :=
  if glob_everything globs then scan_count_shortcut c 0 limit
  else out_count (scan_multi globs no_filter limit true desc (map o_id (scan_ids c))).

Definition coll_search_count (globs : list bytes) (desc : bool) (c : coll) (limit : N) : N :=
  if glob_everything globs then search_count_shortcut c 0 limit
  else out_count (search_multi globs no_filter limit true desc (map vkey (search_values c))).

(* what the two paths should reach: the retrievable objects (members of objs = what Get returns)
   whose id matches one of the patterns, resp. the retrievable non-spatial objects whose string
   value matches one of the patterns *)
Definition scan_hit (globs : list bytes) (o : obj) : bool := glob_test globs (o_id o).
Definition search_hit (globs : list bytes) (o : obj) : bool :=
  negb (o_spatial o) && glob_test globs (o_str o).

(* SCAN key [MATCH *] CURSOR cursor LIMIT limit COUNT / SEARCH key [MATCH *] CURSOR cursor LIMIT limit COUNT:
   the shortcut with a cursor — count := uint64(Count() resp. StringCount()); if cursor >= count
   { count = 0 } else { count -= cursor }; if count > limit { count = limit }  (in this order) *)
Definition coll_scan_count_at (c : coll) (cursor limit : N) : N := scan_count_shortcut c cursor limit.
Definition coll_search_count_at (c : coll) (cursor limit : N) : N := search_count_shortcut c cursor limit.
