(* Log / replay at the level of the whole server: a command is applied by `exec`, which says whether
   it updated the dataset; writeAOF appends exactly the updating commands; loadAOF applies the
   commands it reads with the same `exec`. The dataset type and `exec` are parameters: the concrete
   instance is the keyspace model (Model/Keyspace.v). *)
From T38 Require Import Base.Bytes Model.Resp Model.Aof.

Section Replay.
Variable S : Type.
Definition cmd := list bytes.
Variable exec : S -> cmd -> S * bool.      (* new state, d.updated *)

Definition step (s : S) (c : cmd) : S := fst (exec s c).
Definition run (p : list cmd) (s0 : S) : S := fold_left step p s0.

(* what handleInputCommand / the script tables / the sweeper hand to writeAOF *)
Fixpoint logof (p : list cmd) (s : S) : list cmd :=
  match p with
  | [] => []
  | c :: p' => let (s', upd) := exec s c in if upd then c :: logof p' s' else logof p' s'
  end.

Definition replay (l : list cmd) (s0 : S) : S := fold_left step l s0.

(* start-up on a byte string: load_whole repairs the tail, the commands are applied *)
Definition recover (file : bytes) (s0 : S) : option (S * Z) :=
  match load_whole file with
  | Loaded cmds sz => Some (replay cmds s0, sz)
  | _ => None
  end.

End Replay.
