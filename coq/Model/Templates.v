(* C17 — reply templates and their checker (executable, no proofs).
   A template is what the translator (harness/internal/tmplx) extracts from a JSON-branch reply
   expression of internal/server: string literals, typed holes (by callee), sequencing,
   alternatives (if / switch) and Kleene star (loops).  tmpl_ok runs the JSON pushdown
   recogniser of Model/Json.v over the template itself: literals are fed to the automaton,
   a value hole needs a state that expects a value (or a member name, for HStr) and leaves the
   state "value completed", a raw-text hole needs a state inside a string literal. *)
From T38 Require Import Base.Bytes Base.Utf8 Model.Json.
Open Scope N_scope.

Inductive tmpl :=
| Lit (s : bytes)
| HStr            (* jsonString / appendJSONString / json.Marshal of a string *)
| HInt            (* strconv.Itoa / FormatInt / FormatUint / AppendInt *)
| HFloat          (* strconv.FormatFloat / AppendFloat: NOT a JSON number for NaN / Inf *)
| HBool           (* strconv.FormatBool *)
| HDur            (* time.Since(..).String(): raw text such as 40ns, 12.5µs *)
| HJson           (* a JSON value produced by a library or by an already checked helper *)
| HRaw            (* any other text: only tolerated inside a string literal, and triaged *)
| Seq (a b : tmpl)
| Alt (a b : tmpl)
| Star (a : tmpl).

Fixpoint frames_eqb (a b : list frame) : bool :=
  match a, b with
  | [], [] => true
  | FObj :: a', FObj :: b' => frames_eqb a' b'
  | FArr :: a', FArr :: b' => frames_eqb a' b'
  | _, _ => false
  end.

Definition numst_eqb (a b : numst) : bool :=
  match a, b with
  | NMinus, NMinus | NZero, NZero | NInt, NInt | NDot, NDot | NFrac, NFrac | NE, NE | NESign, NESign | NExp, NExp => true
  | _, _ => false
  end.

Definition strst_eqb (a b : strst) : bool :=
  match a, b with
  | SPlain, SPlain | SEsc, SEsc => true
  | SU x, SU y => Nat.eqb x y
  | _, _ => false
  end.

Definition mode_eqb (a b : mode) : bool :=
  match a, b with
  | MValue, MValue | MArrStart, MArrStart | MObjStart, MObjStart | MKey, MKey | MColon, MColon | MAfter, MAfter => true
  | MStr k s, MStr k' s' => Bool.eqb k k' && strst_eqb s s'
  | MNum n, MNum n' => numst_eqb n n'
  | MLit r, MLit r' => bytes_eqb r r'
  | _, _ => false
  end.

Definition jstate_eqb (a b : jstate) : bool :=
  mode_eqb (fst a) (fst b) && frames_eqb (snd a) (snd b).

(* a complete value may be written here, and afterwards the state is "value completed" *)
Definition hole_value (q : jstate) : option jstate :=
  match q with
  | (MValue, st) | (MArrStart, st) => Some (MAfter, st)
  | _ => None
  end.

(* a JSON string may be written here: as a value, or as a member name *)
Definition hole_string (q : jstate) : option jstate :=
  match q with
  | (MValue, st) | (MArrStart, st) => Some (MAfter, st)
  | (MObjStart, st) | (MKey, st) => Some (MColon, st)
  | _ => None
  end.

(* raw text is only harmless strictly inside a string literal *)
Definition hole_text (q : jstate) : option jstate :=
  match q with
  | (MStr k SPlain, st) => Some q
  | _ => None
  end.

Fixpoint trun (t : tmpl) (q : jstate) : option jstate :=
  match t with
  | Lit s => jrun s q
  | HStr => hole_string q
  | HInt | HBool | HJson => hole_value q
  | HFloat => None
  | HDur | HRaw => hole_text q
  | Seq a b => match trun a q with Some q1 => trun b q1 | None => None end
  | Alt a b =>
      match trun a q, trun b q with
      | Some x, Some y => if jstate_eqb x y then Some x else None
      | _, _ => None
      end
  | Star a =>
      match trun a q with
      | Some x => if jstate_eqb x q then Some q else None
      | None => None
      end
  end.

(* a whole reply: one document, and it is an object *)
Definition tmpl_ok (t : tmpl) : bool :=
  match trun t jstart with Some q => jstate_eqb q (MAfter, []) | None => false end.

(* a fragment written by a helper in value position: from "value expected" to "value completed" *)
Definition tmpl_value_ok (t : tmpl) : bool :=
  match trun t jstart with Some q => jstate_eqb q (MAfter, []) | None => false end.

(* a fragment that appends members to an open object: `,"name":value ...` *)
Definition tmpl_members_ok (t : tmpl) : bool :=
  match trun t (MAfter, [FObj]) with Some q => jstate_eqb q (MAfter, [FObj]) | None => false end.

(* a fragment that appends one more element to an open array: `,value` *)
Definition tmpl_elems_ok (t : tmpl) : bool :=
  match trun t (MAfter, [FArr]) with Some q => jstate_eqb q (MAfter, [FArr]) | None => false end.

(* ---------- what a hole may be filled with ---------- *)

Definition is_nat_text (v : bytes) : bool :=
  match v with
  | [] => false
  | c :: r =>
      if c =? 48 then (match r with [] => true | _ => false end)
      else (49 <=? c) && (c <=? 57) && forallb is_digit r
  end.

(* the output language of strconv.Itoa / FormatInt / FormatUint in base 10 *)
Definition is_int_text (v : bytes) : bool :=
  match v with
  | [] => false
  | c :: r => if c =? 45 then is_nat_text r else is_nat_text v
  end.

(* text that cannot end or escape out of a JSON string literal *)
Definition string_safe (v : bytes) : bool :=
  forallb (fun c => (32 <=? c) && negb (c =? 34) && negb (c =? 92)) v.

(* starts with {"ok":true or {"ok":false *)
Definition ok_true_prefix : bytes := [123; 34; 111; 107; 34; 58; 116; 114; 117; 101].
Definition ok_false_prefix : bytes := [123; 34; 111; 107; 34; 58; 102; 97; 108; 115; 101].

Fixpoint tmpl_head (t : tmpl) : option bytes :=
  match t with
  | Lit s => Some s
  | Seq a _ => tmpl_head a
  | _ => None
  end.

Definition has_ok_head (t : tmpl) : bool :=
  match tmpl_head t with
  | Some s => hasPrefixb ok_true_prefix s || hasPrefixb ok_false_prefix s
  | None => false
  end.

(* ---------- fragments of replies assembled across functions ---------- *)

(* contexts a single write expression can be issued in: every mode in which text may legally
   continue, under every stack of depth <= 2 *)
Definition frag_stacks : list (list frame) :=
  [[]; [FObj]; [FArr]; [FObj; FObj]; [FObj; FArr]; [FArr; FObj]; [FArr; FArr]].
Definition frag_modes : list mode :=
  [MValue; MArrStart; MObjStart; MKey; MColon; MAfter; MStr false SPlain; MStr true SPlain].
Definition frag_starts : list jstate :=
  flat_map (fun st => map (fun m => (m, st)) frag_modes) frag_stacks.

(* the fragment is a legal continuation of a JSON text in at least one context: every raw-text
   hole sits inside a string literal, every value hole in value position, quotes and escapes balanced *)
Definition frag_ok (t : tmpl) : bool :=
  existsb (fun q => match trun t q with Some _ => true | None => false end) frag_starts.
