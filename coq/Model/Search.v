(* Model/Search.v — geoSearch / Within / Intersects / geoSparse of collection.go over the spatial
   index of Model/Collection.v.  The exact geometric predicate (o.Geo().Within(q) or
   o.Geo().Intersects(q), tidwall/geojson) is the Section variable hits; the query is an abstract
   value with a float64 rectangle (q.Rect()).  Cursor offsets are not modelled here (C11).
   No proofs in this file. *)
From T38 Require Import Base.Bytes Model.Float32 Model.Collection.
From Flocq Require Import BinarySingleNaN.
Import ListNotations.

Definition gt32 (a b : f32) : bool := lt32 b a.

(* rtree rect.intersects:
     if b.min[0] > r.max[0] || b.max[0] < r.min[0] { return false }
     if b.min[1] > r.max[1] || b.max[1] < r.min[1] { return false }
     return true *)
Definition intersects32 (r b : rect32) : bool :=
  if gt32 (r32_minx b) (r32_maxx r) || lt32 (r32_maxx b) (r32_minx r) then false
  else if gt32 (r32_miny b) (r32_maxy r) || lt32 (r32_maxy b) (r32_miny r) then false
  else true.

Definition is_nan32 (x : f32) : bool := match x with B754_nan => true | _ => false end.

(* geoSearch: min, max := rtreeRect(rect); return at once if all four are NaN; otherwise the
   R-tree search, which reports the entries e with e.rect.intersects(target) *)
Definition geo_search (sp : list (rect32 * obj)) (qr : rect64) : list obj :=
  let t := rtree_rect qr in
  if is_nan32 (r32_minx t) && is_nan32 (r32_miny t) && is_nan32 (r32_maxx t) && is_nan32 (r32_maxy t)
  then []
  else map snd (filter (fun e => intersects32 (fst e) t) sp).

Section Search.
  Variable Q : Type.
  Variable qrect : Q -> rect64.
  Variable hits : obj -> Q -> bool.

  (* Within / Intersects with sparse = 0 and a collecting iterator *)
  Definition search (c : coll) (q : Q) : list obj :=
    filter (fun o => hits o q) (geo_search (c_spatial c) (qrect q)).

  (* the index-free evaluation: what TEST computes for every retrievable object *)
  Definition search_spec (c : coll) (q : Q) : list obj :=
    filter (fun o => hits o q) (scan_ids c).

  (* TEST evaluates the predicate through expression.go testObject, which answers false for an
     empty geometry before calling the library (the rule indexInsert applies to the index) *)
  Definition test_hits (o : obj) (q : Q) : bool := if o_empty o then false else hits o q.
  Definition test_spec (c : coll) (q : Q) : list obj :=
    filter (fun o => test_hits o q) (scan_ids c).

  (* ---- SPARSE ----
     geoSparseInner splits the query rectangle into 4^sparse leaf rectangles with float64
     arithmetic (not modelled: leaves is a parameter) and runs geoSearch on each leaf; the
     callback chain geoSparse -> Within/Intersects is transcribed: an object already reported is
     skipped (match=false, ok=true); a new object that matches is reported and ends the scan of this
     leaf (return !match); a new object that does not match returns (false, false), which ends the
     whole search (alive = false). *)
  Variable leaves : rect64 -> nat -> list rect64.

  Fixpoint mem (id : bytes) (l : list bytes) : bool :=
    match l with [] => false | x :: r => bytes_eqb x id || mem id r end.

  Fixpoint leaf_scan (q : Q) (cands : list obj) (matched : list bytes) (out : list obj)
    : list bytes * list obj * bool :=
    match cands with
    | [] => (matched, out, true)
    | o :: r =>
        if mem (o_id o) matched then leaf_scan q r matched out
        else if hits o q then (o_id o :: matched, o :: out, true)
        else (matched, out, false)
    end.

  Fixpoint sparse_loop (sp : list (rect32 * obj)) (q : Q) (ls : list rect64)
      (matched : list bytes) (out : list obj) : list obj :=
    match ls with
    | [] => out
    | l :: r =>
        let '(m1, o1, alive) := leaf_scan q (geo_search sp l) matched out in
        if alive then sparse_loop sp q r m1 o1 else o1
    end.

  (* results in the order reported *)
  Definition sparse_search (c : coll) (q : Q) (n : nat) : list obj :=
    rev (sparse_loop (c_spatial c) q (leaves (qrect q) n) [] []).
End Search.

(* ---- the quad split of geoSparseInner, as written ----
     w := rect.Max.X - rect.Min.X ; h := rect.Max.Y - rect.Min.Y
     quads = { (Min.X, Min.Y+h/2)-(Min.X+w/2, Max.Y),   (Min.X+w/2, Min.Y+h/2)-(Max.X, Max.Y),
               (Min.X, Min.Y)-(Min.X+w/2, Min.Y+h/2),   (Min.X+w/2, Min.Y)-(Max.X, Min.Y+h/2) }
   in float64 arithmetic (round to nearest even); recursion depth-first in that order. *)
Definition two64 : f64 := binary_normalize 53 1024 Hprec64 Hmax64 mode_NE 2 0 false.
Definition add64 (a b : f64) : f64 := Bplus mode_NE a b.
Definition sub64 (a b : f64) : f64 := Bminus mode_NE a b.
Definition half64 (a : f64) : f64 := Bdiv mode_NE a two64.

Definition quads (r : rect64) : list rect64 :=
  let w := sub64 (r64_maxx r) (r64_minx r) in
  let h := sub64 (r64_maxy r) (r64_miny r) in
  let mx := add64 (r64_minx r) (half64 w) in
  let my := add64 (r64_miny r) (half64 h) in
  [ R64 (r64_minx r) my mx (r64_maxy r);
    R64 mx my (r64_maxx r) (r64_maxy r);
    R64 (r64_minx r) (r64_miny r) mx my;
    R64 mx (r64_miny r) (r64_maxx r) my ].

Fixpoint quad_leaves (r : rect64) (n : nat) : list rect64 :=
  match n with
  | O => [r]
  | S k => flat_map (fun q => quad_leaves q k) (quads r)
  end.
