(* Model/Search.v — geoSearch / Within / Intersects / geoSparse of collection.go over the spatial
   index of Model/Collection.v.  The exact geometric predicate (o.Geo().Within(q) or
   o.Geo().Intersects(q), tidwall/geojson) is the Section variable hits; the query is an abstract
   value with a float64 rectangle (q.Rect()).  Cursor offsets are not modelled here (C11).
   No proofs in this file. *)
From T38 Require Import Base.Bytes Model.Float32 Model.Collection.
From Flocq Require Import BinarySingleNaN.
Import ListNotations.

Definition gt32 (a b : f32) : bool := lt32 b a.

(* rtree rect.intersects:
     if b.min[0] > r.max[0] || b.max[0] < r.min[0] { return false }
     if b.min[1] > r.max[1] || b.max[1] < r.min[1] { return false }
     return true *)
Definition intersects32 (r b : rect32) : bool :=
  if gt32 (r32_minx b) (r32_maxx r) || lt32 (r32_maxx b) (r32_minx r) then false
  else if gt32 (r32_miny b) (r32_maxy r) || lt32 (r32_maxy b) (r32_miny r) then false
  else true.

Definition is_nan32 (x : f32) : bool := match x with B754_nan => true | _ => false end.

(* geoSearch: min, max := rtreeRect(rect); return at once if all four are NaN; otherwise the
   R-tree search, which reports the entries e with e.rect.intersects(target) *)
Definition geo_search (sp : list (rect32 * obj)) (qr : rect64) : list obj :=
  let t := rtree_rect qr in
  if is_nan32 (r32_minx t) && is_nan32 (r32_miny t) && is_nan32 (r32_maxx t) && is_nan32 (r32_maxy t)
  then []
  else map snd (filter (fun e => intersects32 (fst e) t) sp).

Section Search.
  Variable Q : Type.
  Variable qrect : Q -> rect64.
  Variable hits : obj -> Q -> bool.

  (* Within / Intersects with sparse = 0 and a collecting iterator *)
  Definition search (c : coll) (q : Q) : list obj :=
    filter (fun o => hits o q) (geo_search (c_spatial c) (qrect q)).

  (* the index-free evaluation: what TEST computes for every retrievable object *)
  Definition search_spec (c : coll) (q : Q) : list obj :=
    filter (fun o => hits o q) (scan_ids c).

  (* ---- SPARSE ----
     geoSparseInner splits the query rectangle into 4^sparse leaf rectangles with float64
     arithmetic (not modelled: leaves is a parameter) and runs geoSearch on each leaf; the
     callback chain geoSparse -> Within/Intersects is transcribed: an object already reported is
     skipped (match=false, ok=true); a new object that matches is reported and ends the scan of this
     leaf (return !match); a new object that does not match returns (false, false), which ends the
     whole search (alive = false). *)
  Variable leaves : rect64 -> nat -> list rect64.

  Fixpoint mem (id : bytes) (l : list bytes) : bool :=
    match l with [] => false | x :: r => bytes_eqb x id || mem id r end.

  Fixpoint leaf_scan (q : Q) (cands : list obj) (matched : list bytes) (out : list obj)
    : list bytes * list obj * bool :=
    match cands with
    | [] => (matched, out, true)
    | o :: r =>
        if mem (o_id o) matched then leaf_scan q r matched out
        else if hits o q then (o_id o :: matched, o :: out, true)
        else (matched, out, false)
    end.

  Fixpoint sparse_loop (sp : list (rect32 * obj)) (q : Q) (ls : list rect64)
      (matched : list bytes) (out : list obj) : list obj :=
    match ls with
    | [] => out
    | l :: r =>
        let '(m1, o1, alive) := leaf_scan q (geo_search sp l) matched out in
        if alive then sparse_loop sp q r m1 o1 else o1
    end.

  (* results in the order reported *)
  Definition sparse_search (c : coll) (q : Q) (n : nat) : list obj :=
    rev (sparse_loop (c_spatial c) q (leaves (qrect q) n) [] []).
End Search.
