(* C10 — executable models of the three notification paths of tile38.

   (a) webhook queue   internal/server/aof.go queueHooks (enqueue under the write lock, qidx++),
                       internal/server/hooks.go Hook.manager / Hook.proc
   (b) pub/sub         internal/server/pubsub.go Publish / register / liveSubscription
   (c) live fences     internal/server/aof.go writeAOF (lstack), live.go processLives / goLive

   No proofs in this file. *)
From Coq Require Import List NArith ZArith Bool Arith.
Import ListNotations.

(* ------------------------------------------------------------------------------------------ *)
(* (a) webhook queue.

   buntdb is modelled as what Hook.proc can observe of it: for each hook name the entries
   "hook:log:<20-digit idx>" whose JSON member "hook" is that name, in key order (this is what
   tx.AscendGreaterOrEqual("hooks", {"hook":name}) filtered by h.Name == hook yields).  Keys come
   from the single counter Server.qidx, incremented under the write lock.  An entry carries its
   absolute expiry time (SetOptions{Expires:true, TTL:30s} at enqueue; on re-insertion proc
   sets TTL := ttl_read_at_start - time.Since(start), i.e. the same absolute time).
   buntdb never shows an expired entry again (iteration, Get and TTL skip it, the sweeper deletes
   it); with a monotone clock it is gone, so `take` discards the expired ones. *)

Definition hookid := N.
Definition msgid := N.

Record entry := mkEntry { e_idx : N; e_hook : hookid; e_msg : msgid; e_exat : Z }.

Definition hook_ttl : Z := 30000.   (* hookLogSetDefaults.TTL = 30 s, in ms *)

Record hq := mkHQ {
  q_db : hookid -> list entry;            (* per hook: queued entries in key order *)
  q_idx : N;                              (* Server.qidx *)
  q_taken : hookid -> option (list entry);(* Some l: proc has deleted l from the db and is sending it *)
  q_delivered : hookid -> list entry;     (* ghost: entries for which epm.Send returned nil, in send order *)
  q_pidx : N                              (* the value stored under "hook:idx" in queue.db: what Server.qidx is
                                             restored from when the process starts *)
}.

Definition hq_init : hq := mkHQ (fun _ => []) 0 (fun _ => None) (fun _ => []) 0.

Definition updf {A} (f : hookid -> A) (h : hookid) (x : A) : hookid -> A :=
  fun i => if N.eqb i h then x else f i.

(* tx.Set(key, val, opts) on an ordered map: insert in key order, replace on equal key *)
Fixpoint db_set (e : entry) (l : list entry) : list entry :=
  match l with
  | [] => [e]
  | x :: r =>
      if N.ltb (e_idx e) (e_idx x) then e :: x :: r
      else if N.eqb (e_idx e) (e_idx x) then e :: r
      else x :: db_set e r
  end.

(* queueHooks: one transaction, for _, msg := range wmsgs { s.qidx++; tx.Set(prefix+qidx, msg, 30s) };
   tx.Set("hook:idx", s.qidx)  -- the persisted counter is the in-memory one after the increments *)
Fixpoint enqueue (now : Z) (msgs : list (hookid * msgid)) (q : hq) : hq :=
  match msgs with
  | [] => q
  | (h, m) :: r =>
      let i := N.succ (q_idx q) in
      let e := mkEntry i h m (now + hook_ttl) in
      enqueue now r (mkHQ (updf (q_db q) h (db_set e (q_db q h))) i (q_taken q) (q_delivered q) i)
  end.

(* an entry is visible at `now` unless time.Now().After(exat) *)
Definition alive (now : Z) (e : entry) : bool := Z.leb now (e_exat e).

(* the loop `for i, key := range keys` of proc: send one by one; outs = result of the sends
   (true = some endpoint of the hook accepted it); once the outcome list is exhausted the endpoint
   is healthy.  Returns (sent, rest) where rest starts at the first failed entry. *)
Fixpoint send_all (outs : list bool) (l : list entry) : list entry * list entry :=
  match l with
  | [] => ([], [])
  | e :: r =>
      match outs with
      | false :: _ => ([], e :: r)
      | true :: o => let '(s, u) := send_all o r in (e :: s, u)
      | [] => let '(s, u) := send_all [] r in (e :: s, u)
      end
  end.

(* re-insertion: ttl := ttls[i] - time.Since(start); if ttl > 0 { tx.Set(key, val, ttl) } *)
Definition reinsert (now : Z) (unsent : list entry) (db : list entry) : list entry :=
  fold_left (fun d e => db_set e d) (filter (fun e => Z.ltb now (e_exat e)) unsent) db.

Inductive qev :=
| Enq (now : Z) (msgs : list (hookid * msgid))   (* a write: the already sorted webhook messages of queueHooks *)
| Mgr (h : hookid) (now : Z) (outs : list bool)  (* the manager of h runs the next half of proc:
                                                    idle -> first transaction (read + delete);
                                                    busy -> sends, and on failure the second transaction *)
| Restart (now : Z).                             (* the process dies and starts again on the same directory:
                                                    queue.db survives (entries and "hook:idx"), Server.qidx is
                                                    read back from "hook:idx", whatever a manager had deleted
                                                    and was sending is gone *)

Definition qtime (e : qev) : Z := match e with Enq t _ => t | Mgr _ t _ => t | Restart t => t end.

Definition qstep (q : hq) (ev : qev) : hq :=
  match ev with
  | Enq now msgs => enqueue now msgs q
  | Mgr h now outs =>
      match q_taken q h with
      | None =>
          mkHQ (updf (q_db q) h []) (q_idx q)
               (updf (q_taken q) h (Some (filter (alive now) (q_db q h)))) (q_delivered q) (q_pidx q)
      | Some tk =>
          let '(sent, unsent) := send_all outs tk in
          mkHQ (updf (q_db q) h (reinsert now unsent (q_db q h))) (q_idx q)
               (updf (q_taken q) h None) (updf (q_delivered q) h (q_delivered q h ++ sent)) (q_pidx q)
      end
  | Restart _ => mkHQ (q_db q) (q_pidx q) (fun _ => None) (q_delivered q) (q_pidx q)
  end.

Definition qrun (q : hq) (evs : list qev) : hq := fold_left qstep evs q.

Definition taken_list (q : hq) (h : hookid) : list entry :=
  match q_taken q h with Some l => l | None => [] end.

(* what is still owed to hook h *)
Definition pending (q : hq) (h : hookid) : list entry := taken_list q h ++ q_db q h.

(* the messages generated for hook h by the writes of a history, in write order *)
Fixpoint enq_msgs (h : hookid) (evs : list qev) : list msgid :=
  match evs with
  | [] => []
  | Enq _ msgs :: r => map snd (filter (fun hm => N.eqb (fst hm) h) msgs) ++ enq_msgs h r
  | Mgr _ _ _ :: r => enq_msgs h r
  | Restart _ :: r => enq_msgs h r
  end.

(* restarts that happen while no manager is between its two transactions (what a manager has deleted
   and not yet sent or re-inserted at the kill instant is lost: stated limit) *)
Fixpoint quiet (q : hq) (evs : list qev) : Prop :=
  match evs with
  | [] => True
  | ev :: r =>
      (match ev with Restart _ => forall h, q_taken q h = None | _ => True end) /\ quiet (qstep q ev) r
  end.

(* ------------------------------------------------------------------------------------------ *)
(* (b) pub/sub.  Publish = snapshot of the targets under pubsub.mu.RLock (exact hub, then every
   pattern hub whose pattern matches), then one append per snapshot element to target.msgs; the
   per-connection goroutine of liveSubscription moves target.msgs to the socket in order.
   `pm pattern channel` stands for match.Match(channel, pattern) (opaque). *)

Definition target := nat.
Definition chan := N.

Record pmsg := mkPmsg { pm_pat : option chan; pm_chan : chan; pm_body : msgid }.

Record ps := mkPS {
  ps_exact : list (chan * target);      (* hubs[pubsubChannel][c].targets *)
  ps_pat : list (chan * target);        (* hubs[pubsubPattern][p].targets *)
  ps_inbox : target -> list pmsg;       (* subtarget.msgs *)
  ps_out : target -> list pmsg;         (* written to the socket *)
  ps_snap : list (target * pmsg)        (* msgs of a Publish between its two phases *)
}.

Definition ps_init : ps := mkPS [] [] (fun _ => []) (fun _ => []) [].

Definition updt {A} (f : target -> A) (t : target) (x : A) : target -> A :=
  fun i => if Nat.eqb i t then x else f i.

Definition same_sub (a b : chan * target) : bool := N.eqb (fst a) (fst b) && Nat.eqb (snd a) (snd b).
Definition add_sub (x : chan * target) (l : list (chan * target)) : list (chan * target) :=
  if existsb (same_sub x) l then l else l ++ [x].
Definition del_sub (x : chan * target) (l : list (chan * target)) : list (chan * target) :=
  filter (fun y => negb (same_sub x y)) l.

Inductive pev :=
| PReg (pattern : bool) (c : chan) (t : target)     (* ps.register, before writeSubscribe *)
| PUnreg (pattern : bool) (c : chan) (t : target)
| PSnap (c : chan) (m : msgid)                      (* first phase of Publish *)
| PAppend                                           (* second phase: next element of the snapshot *)
| PDrain (t : target).                              (* the subscriber goroutine writes target.msgs *)

Definition snapshot (pm : chan -> chan -> bool) (s : ps) (c : chan) (m : msgid) : list (target * pmsg) :=
  map (fun ct => (snd ct, mkPmsg None c m)) (filter (fun ct => N.eqb (fst ct) c) (ps_exact s)) ++
  map (fun pt => (snd pt, mkPmsg (Some (fst pt)) c m)) (filter (fun pt => pm (fst pt) c) (ps_pat s)).

Definition pstep (pm : chan -> chan -> bool) (s : ps) (ev : pev) : ps :=
  match ev with
  | PReg false c t => mkPS (add_sub (c, t) (ps_exact s)) (ps_pat s) (ps_inbox s) (ps_out s) (ps_snap s)
  | PReg true c t => mkPS (ps_exact s) (add_sub (c, t) (ps_pat s)) (ps_inbox s) (ps_out s) (ps_snap s)
  | PUnreg false c t => mkPS (del_sub (c, t) (ps_exact s)) (ps_pat s) (ps_inbox s) (ps_out s) (ps_snap s)
  | PUnreg true c t => mkPS (ps_exact s) (del_sub (c, t) (ps_pat s)) (ps_inbox s) (ps_out s) (ps_snap s)
  | PSnap c m =>
      (* publishes are serialised (fence events: under the write lock): the previous one is complete *)
      match ps_snap s with
      | [] => mkPS (ps_exact s) (ps_pat s) (ps_inbox s) (ps_out s) (snapshot pm s c m)
      | _ :: _ => s
      end
  | PAppend =>
      match ps_snap s with
      | [] => s
      | (t, m) :: r => mkPS (ps_exact s) (ps_pat s) (updt (ps_inbox s) t (ps_inbox s t ++ [m])) (ps_out s) r
      end
  | PDrain t => mkPS (ps_exact s) (ps_pat s) (updt (ps_inbox s) t []) (updt (ps_out s) t (ps_out s t ++ ps_inbox s t)) (ps_snap s)
  end.

Definition prun (pm : chan -> chan -> bool) (s : ps) (evs : list pev) : ps := fold_left (pstep pm) evs s.

(* everything target t has received or will receive from the publishes started so far *)
Definition ps_view (s : ps) (t : target) : list pmsg :=
  ps_out s t ++ ps_inbox s t ++ map snd (filter (fun tm => Nat.eqb (fst tm) t) (ps_snap s)).

(* specification, from t's point of view only: its own subscriptions and the publishes *)
Record tsubs := mkTsubs { ts_exact : list chan; ts_pat : list chan }.
Definition add_c (c : chan) (l : list chan) := if existsb (N.eqb c) l then l else l ++ [c].
Definition del_c (c : chan) (l : list chan) := filter (fun y => negb (N.eqb c y)) l.

Definition expect_one (pm : chan -> chan -> bool) (su : tsubs) (c : chan) (m : msgid) : list pmsg :=
  map (fun _ => mkPmsg None c m) (filter (N.eqb c) (ts_exact su)) ++
  map (fun p => mkPmsg (Some p) c m) (filter (fun p => pm p c) (ts_pat su)).

(* busy = a publish is between its two phases (a PSnap arriving then is ignored by the model) *)
Fixpoint expected (pm : chan -> chan -> bool) (t : target) (su : tsubs) (evs : list pev) : list pmsg :=
  match evs with
  | [] => []
  | PReg false c t' :: r => expected pm t (if Nat.eqb t' t then mkTsubs (add_c c (ts_exact su)) (ts_pat su) else su) r
  | PReg true c t' :: r => expected pm t (if Nat.eqb t' t then mkTsubs (ts_exact su) (add_c c (ts_pat su)) else su) r
  | PUnreg false c t' :: r => expected pm t (if Nat.eqb t' t then mkTsubs (del_c c (ts_exact su)) (ts_pat su) else su) r
  | PUnreg true c t' :: r => expected pm t (if Nat.eqb t' t then mkTsubs (ts_exact su) (del_c c (ts_pat su)) else su) r
  | PSnap c m :: r => expect_one pm su c m ++ expected pm t su r
  | PAppend :: r => expected pm t su r
  | PDrain _ :: r => expected pm t su r
  end.

(* the history as target t can know it: the (un)subscriptions of OTHER connections erased.
   liveSubscription calls ps.unregister(kind, channel, target) for every name in an UNSUBSCRIBE /
   PUNSUBSCRIBE whether or not that connection subscribed to it; PUnreg of a pair that is not
   registered must therefore be harmless for everybody else. *)
Definition concerns (t : target) (ev : pev) : bool :=
  match ev with
  | PReg _ _ t' => Nat.eqb t' t
  | PUnreg _ _ t' => Nat.eqb t' t
  | _ => true
  end.
Definition own_history (t : target) (evs : list pev) : list pev := filter (concerns t) evs.

(* a history in which every publish completes before the next one starts (fence events are
   published under the write lock; the PUBLISH command is not serialised and is outside) *)
Fixpoint serialised (pm : chan -> chan -> bool) (s : ps) (evs : list pev) : bool :=
  match evs with
  | [] => true
  | ev :: r =>
      (match ev with
       | PSnap _ _ => match ps_snap s with [] => true | _ :: _ => false end
       | _ => true
       end) && serialised pm (pstep pm s ev) r
  end.

(* ------------------------------------------------------------------------------------------ *)
(* (c) live fences: writeAOF appends the command details to Server.lstack when at least one live
   connection exists; processLives pops the head and appends it to liveBuffer.details of every
   live connection on that key; goLive pops the head of details and writes the messages. *)

Definition lbid := nat.
Definition key := N.

Record lv := mkLV {
  lv_lives : list (lbid * key);
  lv_stack : list (key * msgid);
  lv_details : lbid -> list msgid;
  lv_out : lbid -> list msgid
}.

Inductive lev :=
| LReg (b : lbid) (k : key)       (* s.lives[lb] = true, before the "+OK live" reply *)
| LUnreg (b : lbid)
| LWrite (k : key) (d : msgid)    (* writeAOF of a command on key k *)
| LProc                           (* processLives: one item *)
| LDeliver (b : lbid).            (* goLive: one item of details *)

Definition lstep (s : lv) (ev : lev) : lv :=
  match ev with
  | LReg b k => mkLV (lv_lives s ++ [(b, k)]) (lv_stack s) (lv_details s) (lv_out s)
  | LUnreg b => mkLV (filter (fun bk => negb (Nat.eqb (fst bk) b)) (lv_lives s)) (lv_stack s) (lv_details s) (lv_out s)
  | LWrite k d =>
      match lv_lives s with
      | [] => s
      | _ :: _ => mkLV (lv_lives s) (lv_stack s ++ [(k, d)]) (lv_details s) (lv_out s)
      end
  | LProc =>
      match lv_stack s with
      | [] => s
      | (k, d) :: r =>
          mkLV (lv_lives s) r
               (fun b => if existsb (fun bk => Nat.eqb (fst bk) b && N.eqb (snd bk) k) (lv_lives s)
                         then lv_details s b ++ [d] else lv_details s b)
               (lv_out s)
      end
  | LDeliver b =>
      match lv_details s b with
      | [] => s
      | d :: r => mkLV (lv_lives s) (lv_stack s) (updt (lv_details s) b r) (updt (lv_out s) b (lv_out s b ++ [d]))
      end
  end.

Definition lrun (s : lv) (evs : list lev) : lv := fold_left lstep evs s.

Definition on_key (k : key) (l : list (key * msgid)) : list msgid :=
  map snd (filter (fun kd => N.eqb (fst kd) k) l).

Definition lv_view (s : lv) (b : lbid) (k : key) : list msgid :=
  lv_out s b ++ lv_details s b ++ on_key k (lv_stack s).

Fixpoint writes_on (k : key) (evs : list lev) : list msgid :=
  match evs with
  | [] => []
  | LWrite k' d :: r => (if N.eqb k' k then [d] else []) ++ writes_on k r
  | _ :: r => writes_on k r
  end.

(* b stays registered: no LReg / LUnreg of b in the history *)
Fixpoint untouched (b : lbid) (evs : list lev) : bool :=
  match evs with
  | [] => true
  | LReg b' _ :: r => negb (Nat.eqb b' b) && untouched b r
  | LUnreg b' :: r => negb (Nat.eqb b' b) && untouched b r
  | _ :: r => untouched b r
  end.
