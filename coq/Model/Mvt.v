(* C17 — the vector-tile reply path: an encode / decode pair on two sites.
   scanWriter.writeFoot (scanner.go), JSON arm of an MVT query, writes the member
       ,"mvt":" ++ base64.<E>.EncodeToString(mvtTile) ++ "
   and the HTTP route GET /key/z/x/y.mvt (handleInputCommand.writeOutput, case HTTP, server.go)
   runs the query in JSON mode, takes the member back out with gjson and decodes it with
       base64.<D>.DecodeString
   answering 200 + application/vnd.mapbox-vector-tile + the tile, or 500 + the JSON content type +
   the text it could not decode.  RESP mode returns the tile itself (resp.BytesValue(mvtTile)).
   <E> and <D> are read from the source by tmplx (coq/Gen/Templates.v mvt_json_encoding /
   mvt_http_decoding).  encoding/base64 is transcribed for the two encodings tile38 can name here:
   StdEncoding (padding '=') and RawStdEncoding (NoPadding), standard alphabet, non-strict decoding,
   CR and LF ignored by the decoder.  Executable, no proofs. *)
From Coq Require Import String Ascii.
From T38 Require Import Base.Bytes.
Open Scope N_scope.

Inductive b64kind := BStd | BRawStd.

Definition padded (k : b64kind) : bool := match k with BStd => true | BRawStd => false end.

(* encodeStd = "ABC…Zabc…z0123456789+/" *)
Definition b64char (x : N) : N :=
  if x <? 26 then 65 + x
  else if x <? 52 then 97 + (x - 26)
  else if x <? 62 then 48 + (x - 52)
  else if x =? 62 then 43
  else 47.

(* decodeMap: 0xFF for every byte outside the alphabet ('=' included) *)
Definition b64val (c : N) : option N :=
  if (65 <=? c) && (c <=? 90) then Some (c - 65)
  else if (97 <=? c) && (c <=? 122) then Some (c - 97 + 26)
  else if (48 <=? c) && (c <=? 57) then Some (c - 48 + 52)
  else if c =? 43 then Some 62
  else if c =? 47 then Some 63
  else None.

Definition PAD : N := 61.

(* Encoding.Encode: 3 bytes -> 4 characters; a remainder of 1 / 2 bytes -> 2 / 3 characters and,
   when the encoding pads, "==" / "=" *)
Fixpoint b64_encode (pad : bool) (t : bytes) : bytes :=
  match t with
  | [] => []
  | [a] => [b64char (a / 4); b64char ((a mod 4) * 16)] ++ (if pad then [PAD; PAD] else [])
  | [a; b] => [b64char (a / 4); b64char ((a mod 4) * 16 + b / 16); b64char ((b mod 16) * 4)] ++
              (if pad then [PAD] else [])
  | a :: b :: c :: r =>
      b64char (a / 4) :: b64char ((a mod 4) * 16 + b / 16) :: b64char ((b mod 16) * 4 + c / 64) ::
      b64char (c mod 64) :: b64_encode pad r
  end.

(* Encoding.decodeQuantum over the input without CR / LF: four characters -> three bytes; at the end
   of the input a quantum of 2 / 3 characters is accepted by a NoPadding encoding only; a padding
   encoding wants "xx==" / "xxx=" as the last quantum; '=' is not in the alphabet *)
Fixpoint b64_quanta (pad : bool) (s : bytes) : option bytes :=
  match s with
  | [] => Some []
  | [_] => None
  | c1 :: c2 :: rest =>
      match b64val c1, b64val c2 with
      | Some v1, Some v2 =>
          let b1 := v1 * 4 + v2 / 16 in
          match rest with
          | [] => if pad then None else Some [b1]
          | c3 :: rest3 =>
              if pad && (c3 =? PAD) then
                match rest3 with
                | [c4] => if c4 =? PAD then Some [b1] else None
                | _ => None
                end
              else
                match b64val c3 with
                | Some v3 =>
                    let b2 := (v2 mod 16) * 16 + v3 / 4 in
                    match rest3 with
                    | [] => if pad then None else Some [b1; b2]
                    | c4 :: rest4 =>
                        if pad && (c4 =? PAD) then
                          match rest4 with [] => Some [b1; b2] | _ => None end
                        else
                          match b64val c4 with
                          | Some v4 =>
                              match b64_quanta pad rest4 with
                              | Some out => Some (b1 :: b2 :: ((v3 mod 4) * 64 + v4) :: out)
                              | None => None
                              end
                          | None => None
                          end
                    end
                | None => None
                end
          end
      | _, _ => None
      end
  end.

Definition b64_decode (pad : bool) (s : bytes) : option bytes :=
  b64_quanta pad (filter (fun c => negb ((c =? 13) || (c =? 10))) s).

Definition encode (k : b64kind) (t : bytes) : bytes := b64_encode (padded k) t.
Definition decode (k : b64kind) (s : bytes) : option bytes := b64_decode (padded k) s.

(* the selector names the source uses: base64.<name> *)
Definition bs (s : string) : bytes := map (fun a => N_of_ascii a) (list_ascii_of_string s).
Definition n_StdEncoding : bytes := Eval compute in bs "StdEncoding".
Definition n_RawStdEncoding : bytes := Eval compute in bs "RawStdEncoding".
Definition kind_of_name (n : bytes) : option b64kind :=
  if bytes_eqb n n_StdEncoding then Some BStd
  else if bytes_eqb n n_RawStdEncoding then Some BRawStd
  else None.

(* ---------- the two sites ---------- *)

(* writeFoot, JSON arm: the text between the quotes of the "mvt" member *)
Definition mvt_member (enc : bytes) (tile : bytes) : option bytes :=
  match kind_of_name enc with Some k => Some (encode k tile) | None => None end.

Inductive ctype := CTJson | CTMvt.   (* application/json; charset=utf-8 | application/vnd.mapbox-vector-tile *)

Record hreply := mkH { h_status : N; h_ctype : ctype; h_body : bytes }.

(* writeOutput, case HTTP, for an .mvt / .pbf request whose JSON reply is ok: member = gjson.Get(res,"mvt")
   (None = !v.Exists(): the whole JSON text res is sent back with 500) *)
Definition mvt_http (dec : bytes) (res : bytes) (member : option bytes) : option hreply :=
  match kind_of_name dec with
  | None => None
  | Some k =>
      match member with
      | None => Some (mkH 500 CTJson res)
      | Some m =>
          match decode k m with
          | Some out => Some (mkH 200 CTMvt out)
          | None => Some (mkH 500 CTJson m)
          end
      end
  end.
