(* The append discipline of the log file (C03).

   The server keeps ONE descriptor of the log (Server.aof), opened with O_CREATE|O_RDWR and without
   O_APPEND. flushAOF does `s.aof.Write(s.aofbuf)`: write(2) at the CURRENT POSITION of that descriptor,
   over whatever is there. The replay theorems take "the file = the records handed to writeAOF, in
   order"; that is true only while the position is at the end of the file at every flush, i.e. while
   nothing between two flushes moves it. This file models the descriptor (content + position), the
   flush, and classifies the uses of the descriptor that t38x lists from the source (Gen/AofPos.v). *)
From Coq Require Import String List Bool Arith NArith.
From T38 Require Import Base.Bytes Gen.AofPos.
Import ListNotations.

(* ---------- the descriptor ---------- *)
Record fd := mkFd { f_content : bytes; f_pos : nat }.

(* write(2) without O_APPEND: at the position, over the old bytes, extending the file when it runs
   past the end (a hole in front of it reads as zeros) *)
Definition fd_write (f : fd) (b : bytes) : fd :=
  let p := f_pos f in
  let padded := (f_content f ++ repeat 0%N (p - length (f_content f)))%list in
  mkFd (firstn p padded ++ b ++ skipn (p + length b) padded)%list (p + length b).

Inductive op :=
| OFlush (b : bytes)        (* flushAOF: s.aof.Write(s.aofbuf) *)
| ONeutral                  (* a function all of whose uses of the descriptor are position-neutral *)
| OSeekRead (p n : nat).    (* Seek(p, 0) then n bytes read THROUGH THE SERVER'S DESCRIPTOR *)

Definition step (f : fd) (o : op) : fd :=
  match o with
  | OFlush b => fd_write f b
  | ONeutral => f
  | OSeekRead p n => mkFd (f_content f) (p + n)
  end.

Definition run_ops (ops : list op) (f : fd) : fd := fold_left step ops f.

(* what was handed to Write, in order *)
Definition flushed (ops : list op) : bytes :=
  concat (map (fun o => match o with OFlush b => b | _ => [] end) ops).

Definition disciplined (o : op) : bool := match o with OSeekRead _ _ => false | _ => true end.

(* ---------- the uses of Server.aof in the source ---------- *)
Open Scope string_scope.

Definition use := (string * string * string)%type.
Definition u_fn (u : use) : string := fst (fst u).
Definition u_kind (u : use) : string := snd (fst u).
Definition u_detail (u : use) : string := snd u.

(* *os.File methods that neither move the position nor change the file or the descriptor *)
Definition neutral_methods : list string := ["Name"; "Stat"; "Sync"; "Fd"].

Definition use_neutral (u : use) : bool :=
  if String.eqb (u_kind u) "nil" then true
  else if String.eqb (u_kind u) "call" then existsb (String.eqb (u_detail u)) neutral_methods
  else false.

(* The audited uses: start-up (open, read to the end, cut a torn tail and seek to the new end), the
   append itself, the swap at the end of a rewrite (close, reopen, seek to the end), and the two
   resync paths of a follower (close, recreate / truncate + reopen, then loadAOF reads to the end).
   (function, kind, method for calls) *)
Definition audited : list use :=
  [("Serve", "assign", "");
   ("Server.loadAOF", "call", "Read"); ("Server.loadAOF", "call", "Seek"); ("Server.loadAOF", "call", "Truncate");
   ("Server.flushAOF", "call", "Write");
   ("Server.aofshrink", "assign", ""); ("Server.aofshrink", "call", "Close"); ("Server.aofshrink", "call", "Seek");
   ("Server.followCheckSome", "assign", ""); ("Server.followCheckSome", "call", "Close");
   ("Server.followStartOver", "assign", ""); ("Server.followStartOver", "call", "Close")].

Definition audited_functions : list string :=
  ["Serve"; "Server.loadAOF"; "Server.flushAOF"; "Server.aofshrink"; "Server.followCheckSome"; "Server.followStartOver"].

Definition use_key (u : use) : use :=
  (u_fn u, u_kind u, if String.eqb (u_kind u) "call" then u_detail u else "").

Definition use_eqb (a b : use) : bool :=
  String.eqb (u_fn a) (u_fn b) && String.eqb (u_kind a) (u_kind b) && String.eqb (u_detail a) (u_detail b).

Definition use_ok (u : use) : bool := use_neutral u || existsb (use_eqb (use_key u)) audited.

(* the uses of a function *)
Definition uses_of (fn : string) : list use := filter (fun u => String.eqb (u_fn u) fn) aof_uses.

(* a function is an ONeutral step when all its uses are neutral *)
Definition fn_neutral (fn : string) : bool := forallb use_neutral (uses_of fn).
