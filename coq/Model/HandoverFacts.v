(* What "the reader survives the hand-over to live mode" means in terms of the facts the translator reads
   off netServe / goLive / liveSubscription (t38x/livehandover.go -> Gen/LiveHandover.v).  Definitions
   only; the obligation over the generated facts is in Proofs/PipelineLiveProofs.v. *)
From Coq Require Import String List Bool.
Import ListNotations.
Open Scope string_scope.

(*
   the reader keeps its carry-over buffer iff
     - goLive is given the reader ReadMessages was called on, and the live loops read from the reader they
       are given, and
     - no statement of the hand-over block assigns the reader as a whole or its buffer, and the reader is
       given to no other function there. *)
Definition str_eqb (a b : string) : bool := if string_dec a b then true else false.
Definition clobbers_reader (reader lhs : string) : bool :=
  str_eqb lhs reader || str_eqb lhs (append reader ".buf") || str_eqb lhs (append "*&" reader).
Definition reader_survives (read_reader golive_reader : string) (assigns : list string)
                           (reader_calls : list (string * string))
                           (live_readers : list (string * string * string)) : bool :=
  str_eqb golive_reader (append "&" read_reader)
  && negb (existsb (clobbers_reader read_reader) assigns)
  && negb (existsb (fun a => str_eqb a "client") assigns)
  && forallb (fun c => str_eqb (fst c) "s.goLive" && str_eqb (snd c) golive_reader) reader_calls
  && forallb (fun t => match t with (_, param, recv) => str_eqb param recv end) live_readers
  && negb (match live_readers with [] => true | _ => false end).

(* ---------- the rest of the hand-over read is handed to the live loop ----------
   The repaired source does it in three places, transcribed here statement by statement (source text, white
   space collapsed); the flag ho_pass_rest of the model is true iff the generated facts are this text:
     - the hand-over block calls <reader>.unreadAfter(<the message being handled>) and no other method of the reader;
     - unreadAfter: pending, pendingErr := what the last ReadMessages call returned after that message, and its error;
     - ReadMessages: returns pending / pendingErr first (and clears them), and records what it returns in last / lastErr. *)
Fixpoint strs_eqb (a b : list string) : bool :=
  match a, b with
  | [], [] => true
  | x :: a', y :: b' => str_eqb x y && strs_eqb a' b'
  | _, _ => false
  end.

Definition expected_unread_after : string :=
  "for i, m := range rd.last { if m == msg { rd.pending, rd.pendingErr = rd.last[i+1:], rd.lastErr break } }".
Definition expected_readmessages_head : list string :=
  ["var msgs []*Message";
   "if len(rd.pending) > 0 || rd.pendingErr != nil { msgs, err := rd.pending, rd.pendingErr rd.pending, rd.pendingErr = nil, nil return msgs, err }"].
Definition expected_readmessages_tail : list string :=
  ["rd.last, rd.lastErr = msgs, err"; "return msgs, err"].

Definition rest_kept (reader loop_var : string) (method_calls : list string) (methods : list (string * string))
                     (head tail : list string) : bool :=
  negb (str_eqb loop_var "")
  && strs_eqb method_calls [append reader (append ".unreadAfter(" (append loop_var ")"))]
  && match methods with
     | [(name, body)] => str_eqb name "unreadAfter" && str_eqb body expected_unread_after
     | _ => false
     end
  && strs_eqb head expected_readmessages_head
  && strs_eqb tail expected_readmessages_tail.

(* ---------- a live loop handles the messages of a read before it acts on the read's error ----------
   liveSubscription's read loop: the messages, then the error of the call that returned them, then the next call *)
Definition expected_live_subscription_loop : list string :=
  ["for _, msg := range msgs {...}";
   "if rerr != nil { if rerr == io.EOF { return nil } return rerr }";
   "msgs, rerr = rd.ReadMessages()"].
Definition live_err_after_msgs (loop : list string) : bool := strs_eqb loop expected_live_subscription_loop.
