(* What "the reader survives the hand-over to live mode" means in terms of the facts the translator reads
   off netServe / goLive / liveSubscription (t38x/livehandover.go -> Gen/LiveHandover.v).  Definitions
   only; the obligation over the generated facts is in Proofs/PipelineLiveProofs.v. *)
From Coq Require Import String List Bool.
Import ListNotations.
Open Scope string_scope.

(*
   the reader keeps its carry-over buffer iff
     - goLive is given the reader ReadMessages was called on, and the live loops read from the reader they
       are given, and
     - no statement of the hand-over block assigns the reader as a whole or its buffer, and the reader is
       given to no other function there. *)
Definition str_eqb (a b : string) : bool := if string_dec a b then true else false.
Definition clobbers_reader (reader lhs : string) : bool :=
  str_eqb lhs reader || str_eqb lhs (append reader ".buf") || str_eqb lhs (append "*&" reader).
Definition reader_survives (read_reader golive_reader : string) (assigns : list string)
                           (reader_calls : list (string * string))
                           (live_readers : list (string * string * string)) : bool :=
  str_eqb golive_reader (append "&" read_reader)
  && negb (existsb (clobbers_reader read_reader) assigns)
  && negb (existsb (fun a => str_eqb a "client") assigns)
  && forallb (fun c => str_eqb (fst c) "s.goLive" && str_eqb (snd c) golive_reader) reader_calls
  && forallb (fun t => match t with (_, param, recv) => str_eqb param recv end) live_readers
  && negb (match live_readers with [] => true | _ => false end).
