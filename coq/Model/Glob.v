(* Executable model of internal/glob: wildcardMatch / scanChunk / matchChunk / getEsc
   (match.go) and Parse (glob.go).  No proofs here. *)
From T38 Require Import Base.Bytes Base.Utf8.
Open Scope N_scope.

Definition STAR : N := 42.   (* '*' *)
Definition QM : N := 63.     (* '?' *)
Definition LBR : N := 91.    (* '[' *)
Definition BSL : N := 92.    (* '\\' *)
Definition RBR : N := 93.    (* ']' *)
Definition CARET : N := 94.  (* '^' *)
Definition DASH : N := 45.   (* '-' *)

Definition nonempty {A} (l : list A) : bool := match l with [] => false | _ => true end.
Definition isempty {A} (l : list A) : bool := match l with [] => true | _ => false end.

(* scanChunk, part 1: leading stars *)
Fixpoint strip_stars (p : bytes) : bool * bytes :=
  match p with
  | x :: p' => if x =? STAR then (true, snd (strip_stars p')) else (false, p)
  | [] => (false, [])
  end.

(* scanChunk, part 2: the Scan loop; returns (chunk, rest) *)
Fixpoint scan_body (p : bytes) (inrange : bool) : bytes * bytes :=
  match p with
  | [] => ([], [])
  | x :: p' =>
      if x =? BSL then
        match p' with
        | [] => ([x], [])
        | y :: p'' => let (c, r) := scan_body p'' inrange in (x :: y :: c, r)
        end
      else if x =? LBR then let (c, r) := scan_body p' true in (x :: c, r)
      else if x =? RBR then let (c, r) := scan_body p' false in (x :: c, r)
      else if x =? STAR then
        if inrange then let (c, r) := scan_body p' inrange in (x :: c, r) else ([], p)
      else let (c, r) := scan_body p' inrange in (x :: c, r)
  end.

(* getEsc: None = ErrBadPattern *)
Definition get_esc (chunk : bytes) : option (N * bytes) :=
  match chunk with
  | [] => None
  | c :: rest0 =>
      if (c =? DASH) || (c =? RBR) then None else
      let chunk1 := if c =? BSL then rest0 else chunk in
      match chunk1 with
      | [] => None
      | _ =>
          let '(r, n) := decode_rune chunk1 in
          let nchunk := skipn n chunk1 in
          if (r =? RuneError) && (Nat.eqb n 1) then None else
          match nchunk with [] => None | _ => Some (r, nchunk) end
      end
  end.

Inductive cres := COk (matched : bool) (rest : bytes) | CBad | CFuel.

(* the "parse all ranges" loop of matchChunk *)
Fixpoint class_loop (fuel : nat) (chunk : bytes) (r : N) (matched : bool) (nrange : nat) : cres :=
  match fuel with
  | O => CFuel
  | S f =>
      let body :=
        match get_esc chunk with
        | None => CBad
        | Some (lo, ch1) =>
            match ch1 with
            | [] => CBad
            | d :: ch1' =>
                if d =? DASH then
                  match get_esc ch1' with
                  | None => CBad
                  | Some (hi, ch2) =>
                      class_loop f ch2 r (matched || ((lo <=? r) && (r <=? hi))) (S nrange)
                  end
                else class_loop f ch1 r (matched || ((lo <=? r) && (r <=? lo))) (S nrange)
            end
        end in
      match chunk with
      | c :: rest => if (c =? RBR) && (Nat.ltb 0 nrange) then COk matched rest else body
      | [] => body
      end
  end.

Inductive mres := MOk (rest : bytes) | MNo | MBad | MFuel.

Fixpoint match_chunk (fuel : nat) (chunk s : bytes) : mres :=
  match fuel with
  | O => MFuel
  | S f =>
      match chunk with
      | [] => MOk s
      | c :: chunk' =>
          match s with
          | [] => MNo
          | s0 :: s' =>
              if c =? LBR then
                let '(r, n) := decode_rune s in
                let s1 := skipn n s in
                match chunk' with
                | [] => MBad
                | c1 :: chunk'' =>
                    let negated := c1 =? CARET in
                    let ch := if negated then chunk'' else chunk' in
                    match class_loop (S (length ch)) ch r false 0 with
                    | CBad => MBad
                    | CFuel => MFuel
                    | COk matched ch' =>
                        if Bool.eqb matched negated then MNo else match_chunk f ch' s1
                    end
                end
              else if c =? QM then
                let '(_, n) := decode_rune s in match_chunk f chunk' (skipn n s)
              else if c =? BSL then
                match chunk' with
                | [] => MBad
                | c1 :: chunk'' => if c1 =? s0 then match_chunk f chunk'' s' else MNo
                end
              else if c =? s0 then match_chunk f chunk' s' else MNo
          end
      end
  end.

Definition match_chunk0 (chunk s : bytes) : mres := match_chunk (S (length chunk)) chunk s.

Inductive sres := SFound (t : bytes) | SNone | SBad | SFuel.

(* "Look for match skipping i+1 bytes" *)
Fixpoint star_loop (chunk name : bytes) (last : bool) : sres :=
  match name with
  | [] => SNone
  | _ :: name' =>
      match match_chunk0 chunk name' with
      | MOk t => if last && nonempty t then star_loop chunk name' last else SFound t
      | MBad => SBad
      | MFuel => SFuel
      | MNo => star_loop chunk name' last
      end
  end.

Inductive wres := WTrue | WFalse | WBad | WFuel.

Fixpoint wmatch (fuel : nat) (pattern name : bytes) : wres :=
  match pattern with
  | [] => if isempty name then WTrue else WFalse
  | _ =>
      match fuel with
      | O => WFuel
      | S f =>
          let (star, p1) := strip_stars pattern in
          let (chunk, rest) := scan_body p1 false in
          if star && isempty chunk then WTrue else
          match match_chunk0 chunk name with
          | MOk t =>
              if isempty t || nonempty rest then wmatch f rest t
              else if star then
                match star_loop chunk name (isempty rest) with
                | SFound t' => wmatch f rest t'
                | SNone => WFalse
                | SBad => WBad
                | SFuel => WFuel
                end
              else WFalse
          | MBad => WBad
          | MFuel => WFuel
          | MNo =>
              if star then
                match star_loop chunk name (isempty rest) with
                | SFound t' => wmatch f rest t'
                | SNone => WFalse
                | SBad => WBad
                | SFuel => WFuel
                end
              else WFalse
          end
      end
  end.

Definition glob_match (pattern name : bytes) : wres := wmatch (S (length pattern)) pattern name.

(* ---- Parse ---- *)

Definition is_meta (c : N) : bool := (c =? LBR) || (c =? STAR) || (c =? QM) || (c =? BSL).

Fixpoint lit_prefix (p : bytes) : bytes :=
  match p with
  | [] => []
  | c :: p' => if is_meta c then [] else c :: lit_prefix p'
  end.

Definition inc_last (a : bytes) : bytes := removelast a ++ [last a 0 + 1].
Definition dec_last (a : bytes) : bytes := removelast a ++ [last a 0 - 1].

(* Parse's upper bound for the literal prefix, as written: a trailing 0xFF gets a 0x00 appended
   (which is NOT an upper bound of the strings with that prefix: known finding C12-ff) *)
Definition upper_of (a : bytes) : bytes :=
  if last a 0 =? 255 then a ++ [0] else inc_last a.

(* the DESC lower bound as computed by Parse's 0x00 loop *)
Definition desc_low (a : bytes) : bytes :=
  let s := strip_trailing 0 a in
  if Nat.eqb (length s) (length a) then dec_last a
  else match s with
       | [] => []
       | _ => dec_last s ++ [255]
       end.

Definition WHATEVER : bytes := [119; 104; 97; 116; 101; 118; 101; 114].

Record glob := { g_lim0 : bytes; g_lim1 : bytes; g_isglob : bool }.

Definition pattern_has_meta (p : bytes) : bool := existsb is_meta p.

Definition parse (pattern : bytes) (desc : bool) : glob :=
  match pattern with
  | [] => {| g_lim0 := []; g_lim1 := []; g_isglob := false |}
  | c0 :: _ =>
      if c0 =? STAR then {| g_lim0 := []; g_lim1 := []; g_isglob := true |} else
      let pre := lit_prefix pattern in
      let isg := pattern_has_meta pattern &&
                 match glob_match pattern WHATEVER with WBad => false | _ => true end in
      match pre with
      | [] => {| g_lim0 := []; g_lim1 := []; g_isglob := isg |}
      | _ =>
          let up := upper_of pre in
          if desc then {| g_lim0 := up; g_lim1 := desc_low pre; g_isglob := isg |}
          else {| g_lim0 := pre; g_lim1 := up; g_isglob := isg |}
      end
  end.

Definition unlimited (g : glob) : bool := isempty (g_lim0 g) && isempty (g_lim1 g).

(* membership in the range the callers iterate (ScanRange / SearchValuesRange / KEYS / hooks):
   ASC: lim0 <= s < lim1 ; DESC: lim1 <= s < lim0 *)
Definition in_limits (g : glob) (desc : bool) (s : bytes) : bool :=
  if desc then bytes_leb (g_lim1 g) s && bytes_ltb s (g_lim0 g)
  else bytes_leb (g_lim0 g) s && bytes_ltb s (g_lim1 g).

(* multiGlobParse (search.go) *)
Fixpoint multi_glob_parse_aux (globs : list bytes) (desc : bool) (first : bool) (l0 l1 : bytes)
  : bytes * bytes :=
  match globs with
  | [] => (l0, l1)
  | p :: rest =>
      let g := parse p desc in
      if unlimited g then ([], []) else
      if first then multi_glob_parse_aux rest desc false (g_lim0 g) (g_lim1 g)
      else if desc then
        multi_glob_parse_aux rest desc false
          (if bytes_gtb (g_lim0 g) l0 then g_lim0 g else l0)
          (if bytes_ltb (g_lim1 g) l1 then g_lim1 g else l1)
      else
        multi_glob_parse_aux rest desc false
          (if bytes_ltb (g_lim0 g) l0 then g_lim0 g else l0)
          (if bytes_gtb (g_lim1 g) l1 then g_lim1 g else l1)
  end.

Definition multi_glob_parse (globs : list bytes) (desc : bool) : bytes * bytes :=
  multi_glob_parse_aux globs desc true [] [].
