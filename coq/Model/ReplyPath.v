(* How a reply can leave the server, over the table t38x regenerates from /repo on every run
   (Gen/SocketWrites.v).  Model/Prewrite.v has ONE step at which acknowledgements become visible to
   a client: P6, the socket write of netServe's reply block (and of its goingLive copy), which
   follows the pre-write flush.  Command handlers only append to client.out.  This file states what
   that means for the table; no proofs here.

   A row on the command path (reachable from the connection loop of netServe without entering
   goLive, or from a method of Client) must be inside one of the two `if len(client.out) > 0`
   blocks of netServe (whose internal order load / lock / flush / store / unlock / write is what
   harness/cmd/c08 checks), or be one of the writes below, none of which can carry the
   acknowledgement of a data-modifying command:

     1. netServe: conn.Write(deniedMessage) — protected mode: the connection is refused before a
        single command has been read from it;
     2. netServe: conn.Write(bytes) — the error of a failed read; it comes after the reply block of
        the same iteration, i.e. after everything in client.out went through the flush;
     3. PipelineReader.ReadMessages: rd.wr — the parser's HTTP answers to a CORS pre-flight and to a
        WebSocket upgrade, written while a message is being READ (its command has not run);
     4. netServe: the connection handed to goLive — after the hand-over the connection belongs to the
        live loop (fence events, pub/sub messages, MONITOR lines, the AOF stream of a follower); the
        replies pending at the hand-over leave through the goingLive reply block, which is row-wise
        inside the blocks above;
     5. sendMonitor: the MONITOR feed to OTHER connections (a line per command, not a reply). *)
From Coq Require Import String List Bool.
From T38 Require Import Gen.SocketWrites.
Import ListNotations.
Open Scope string_scope.

Definition allowed (w : sockw) : bool :=
  (String.eqb (sw_fn w) "Server.netServe" && String.eqb (sw_dest w) "conn" && String.eqb (sw_how w) ".Write" &&
     (String.eqb (sw_arg w) "deniedMessage" || String.eqb (sw_arg w) "bytes")) ||
  (String.eqb (sw_fn w) "PipelineReader.ReadMessages" && String.eqb (sw_dest w) "rd.wr") ||
  (String.eqb (sw_fn w) "Server.netServe" && String.prefix "via Server.goLive: " (sw_how w)) ||
  (String.eqb (sw_fn w) "Server.sendMonitor" && String.eqb (sw_how w) "fmt.Fprintf").

(* writes on the command path that are neither the post-flush reply writes nor allowed *)
Definition early_writes (t : list sockw) : list sockw :=
  filter (fun w => sw_on_path w && negb (sw_reply_block w) && negb (allowed w)) t.

(* the post-flush reply writes: they send client.out *)
Definition reply_writes (t : list sockw) : list sockw := filter sw_reply_block t.

(* what leaves through an allowed write is never the reply buffer *)
Definition allowed_sends_reply_buffer (t : list sockw) : list sockw :=
  filter (fun w => sw_on_path w && negb (sw_reply_block w) && String.eqb (sw_arg w) "client.out") t.

(* Client.Write buffers: the body the handlers' fmt.Fprintf(client, ..) / io.WriteString(client, ..) end in *)
Definition client_write_buffers : list string :=
  ["client.out = append(client.out, b...)"; "return len(b), nil"].
