(* What borrowers leave in the global table of a pooled interpreter (C18: "its global environment is exactly
   the documented allow-list ... a call's KEYS/ARGV do not survive the call").

   Transcribed from /repo/internal/server:
     scripts.go  cmdEvalUnified            luaSetRawGlobals(KEYS, ARGV, DEADLINE, EVAL_CMD); defer luaSetRawGlobals(... nil);
                                           the interpreter goes back by the deferred Put
     token.go    parseSearchScanBaseTokens luaSetRawGlobals(ARGV) on the interpreter it took for a WHEREEVAL
                 whereevalT.match          luaSetRawGlobals(ID, FIELDS, PROPERTIES, ARGV) for ONE object; runs the
                                           filter (PCall); two early returns when the filter raised an error
                                           (one of them - "attempt to index a non-table" - lets the query go on)
                 whereevalT.Close          luaSetRawGlobals(ARGV: nil); Put
   Which globals a function sets and how each is removed again (deferred / by Close / by a plain statement
   that an early return skips / never) is read from Gen/LuaGlobals.v, regenerated on every run.

   A history is any list of operations of any number of borrowers. The extra globals of an interpreter
   are the names in its table beyond the allow-list of Gen/LuaAllow.v. No proofs here. *)
From Coq Require Import String List Bool Arith.
From T38 Require Import Model.Tables Gen.LuaAllow Gen.LuaGlobals.
Import ListNotations.
Open Scope string_scope.

Definition in_close_session (fn : string) : bool := in_strs fn close_session_fns.

(* the (global, removal) pairs of function fn *)
Definition sets_of (fn : string) : list (string * string) :=
  map snd (filter (fun e => String.eqb (fst e) fn) global_sets).

(* does a global set by an invocation survive the invocation? early = it left by an early return *)
Definition survives (early : bool) (removal : string) : bool :=
  if String.eqb removal "defer" then false
  else if String.eqb removal "plain" then early
  else true.

Record borrower := mkB { b_user : nat; b_state : nat; b_closes : bool (* returns it in Close() *) }.

Record gpool := mkGP {
  g_idle : list nat;                    (* interpreters in the pool *)
  g_fresh : nat;
  g_extra : list (nat * string);        (* (interpreter, global beyond the allow-list) *)
  g_out : list borrower }.

Inductive gop :=
| GBorrow (u : nat) (closes : bool)     (* luapool.Get() by a request that returns it in Close() / by a deferred Put *)
| GInvoke (u : nat) (fn : string) (early : bool)   (* one complete invocation of fn on u's interpreter *)
| GReturn (u : nat).                    (* Close() / the deferred Put *)

Fixpoint find_b (l : list borrower) (u : nat) : option borrower :=
  match l with
  | [] => None
  | b :: r => if Nat.eqb (b_user b) u then Some b else find_b r u
  end.

Fixpoint drop_b (l : list borrower) (u : nat) : list borrower :=
  match l with
  | [] => []
  | b :: r => if Nat.eqb (b_user b) u then drop_b r u else b :: drop_b r u
  end.

Definition extras_of (e : list (nat * string)) (x : nat) : list string :=
  map snd (filter (fun p => Nat.eqb (fst p) x) e).

Definition gstep (p : gpool) (o : gop) : gpool :=
  match o with
  | GBorrow u closes =>
      match find_b (g_out p) u with
      | Some _ => p
      | None =>
          match rev (g_idle p) with
          | x :: rest => mkGP (rev rest) (g_fresh p) (g_extra p) (mkB u x closes :: g_out p)
          | [] => mkGP [] (S (g_fresh p)) (g_extra p) (mkB u (g_fresh p) closes :: g_out p)
          end
      end
  | GInvoke u fn early =>
      match find_b (g_out p) u with
      | Some b =>
          (* a function of the Close() borrower runs on such an interpreter only, and vice versa *)
          if Bool.eqb (in_close_session fn) (b_closes b) then
            let left := filter (fun kr => survives early (snd kr)) (sets_of fn) in
            mkGP (g_idle p) (g_fresh p) (map (fun kr => (b_state b, fst kr)) left ++ g_extra p) (g_out p)
          else p
      | None => p
      end
  | GReturn u =>
      match find_b (g_out p) u with
      | Some b =>
          let e := if b_closes b
                   then filter (fun q => negb (Nat.eqb (fst q) (b_state b) && in_strs (snd q) close_removes)) (g_extra p)
                   else g_extra p in
          mkGP (g_idle p ++ [b_state b]) (g_fresh p) e (drop_b (g_out p) u)
      | None => p
      end
  end.

Definition grun (p : gpool) (ops : list gop) : gpool := fold_left gstep ops p.
Definition ginit (n : nat) : gpool := mkGP (seq 0 n) n [] [].

(* the global names of an interpreter *)
Definition globals_of (p : gpool) (x : nat) : list string := (lua_set_globals ++ lua_base_fns ++ extras_of (g_extra p) x)%list.
