(* What borrowers leave in the global table of a pooled interpreter (C18: "its global environment is exactly
   the documented allow-list ... a call's KEYS/ARGV do not survive the call").

   Transcribed from /repo/internal/server:
     scripts.go  cmdEvalUnified            luaSetRawGlobals(KEYS, ARGV, DEADLINE, EVAL_CMD); defer luaSetRawGlobals(... nil);
                                           the interpreter goes back by the deferred Put
     token.go    parseSearchScanBaseTokens luaSetRawGlobals(ARGV) on the interpreter it took for a WHEREEVAL
                 whereevalT.match          luaSetRawGlobals(ID, FIELDS, PROPERTIES, ARGV) for ONE object; runs the
                                           filter (PCall); two early returns when the filter raised an error
                                           (one of them - "attempt to index a non-table" - lets the query go on)
                 whereevalT.Close          luaSetRawGlobals(ARGV: nil); Put
     scripts.go  lStatePool.New            lockNewGlobals, the __newindex handler of the global table: an assignment to a
                                           name that is NOT in the table is refused - for every name, unless the handler
                                           lets some through (Gen.LuaGlobals.newindex_passthrough); an assignment to a name
                                           that IS in the table never reaches it (also `name = nil`)
   Which globals a function sets and how each is removed again (deferred / by Close / by a plain statement
   that an early return skips / never) is read from Gen/LuaGlobals.v, regenerated on every run.

   A history is any list of operations of any number of borrowers. The extra globals of an interpreter
   are the names in its table beyond the allow-list of Gen/LuaAllow.v. No proofs here. *)
From Coq Require Import String List Bool Arith.
From T38 Require Import Model.Tables Gen.LuaAllow Gen.LuaGlobals.
Import ListNotations.
Open Scope string_scope.

Definition in_close_session (fn : string) : bool := in_strs fn close_session_fns.

(* the globals function fn sets on the interpreter *)
Definition sets_of (fn : string) : list string :=
  map (fun e => fst (snd e)) (filter (fun e => String.eqb (fst e) fn) global_sets).

(* is global nm set to nil on the way out of an invocation of fn? early = it left by an early return:
   only deferred removals run then *)
Definition removed_by (fn : string) (early : bool) (nm : string) : bool :=
  existsb (fun e => String.eqb (fst e) fn && String.eqb (fst (snd e)) nm &&
                    (String.eqb (snd (snd e)) "defer" || negb early)) global_removals.

(* the names lStatePool.New registers in the global table *)
Definition base_globals : list string := (lua_set_globals ++ lua_base_fns)%list.

(* what the Lua code of one invocation does to the global table: `name = value` / `name = nil` *)
Record assign := mkA { a_name : string; a_nil : bool }.

Record borrower := mkB { b_user : nat; b_state : nat; b_closes : bool (* returns it in Close() *) }.

Record gpool := mkGP {
  g_idle : list nat;                    (* interpreters in the pool *)
  g_fresh : nat;
  g_extra : list (nat * string);        (* (interpreter, global beyond the ones New registered) *)
  g_gone : list (nat * string);         (* (interpreter, global New registered that a script set to nil) *)
  g_out : list borrower }.

Inductive gop :=
| GBorrow (u : nat) (closes : bool)     (* luapool.Get() by a request that returns it in Close() / by a deferred Put *)
| GInvoke (u : nat) (fn : string) (early : bool) (script : list assign)
                                        (* one complete invocation of fn on u's interpreter; if fn runs Lua code
                                           (PCall), the assignments to globals that code makes *)
| GReturn (u : nat).                    (* Close() / the deferred Put *)

Fixpoint find_b (l : list borrower) (u : nat) : option borrower :=
  match l with
  | [] => None
  | b :: r => if Nat.eqb (b_user b) u then Some b else find_b r u
  end.

Fixpoint drop_b (l : list borrower) (u : nat) : list borrower :=
  match l with
  | [] => []
  | b :: r => if Nat.eqb (b_user b) u then drop_b r u else b :: drop_b r u
  end.

Definition extras_of (e : list (nat * string)) (x : nat) : list string :=
  map snd (filter (fun p => Nat.eqb (fst p) x) e).

(* the __newindex guard of the global table (lockNewGlobals): an assignment to a name that is not in the
   table creates it only if the guard lets that name through (Gen.LuaGlobals.newindex_passthrough: it
   should be empty); assignments to names that exist never reach the guard *)
Definition created (fn : string) (script : list assign) : list string :=
  if in_strs fn script_runners
  then map a_name (filter (fun a => negb (a_nil a) && negb (in_strs (a_name a) base_globals) &&
                                    in_strs (a_name a) newindex_passthrough) script)
  else [].

(* `name = nil` for a name New registered: the key exists, the guard is not asked, the name is gone *)
Definition deleted (fn : string) (script : list assign) : list string :=
  if in_strs fn script_runners
  then map a_name (filter (fun a => a_nil a && in_strs (a_name a) base_globals) script)
  else [].

Definition gstep (p : gpool) (o : gop) : gpool :=
  match o with
  | GBorrow u closes =>
      match find_b (g_out p) u with
      | Some _ => p
      | None =>
          match rev (g_idle p) with
          | x :: rest => mkGP (rev rest) (g_fresh p) (g_extra p) (g_gone p) (mkB u x closes :: g_out p)
          | [] => mkGP [] (S (g_fresh p)) (g_extra p) (g_gone p) (mkB u (g_fresh p) closes :: g_out p)
          end
      end
  | GInvoke u fn early script =>
      match find_b (g_out p) u with
      | Some b =>
          (* a function of the Close() borrower runs on such an interpreter only, and vice versa *)
          if Bool.eqb (in_close_session fn) (b_closes b) then
            let left := filter (fun nm => negb (removed_by fn early nm)) (sets_of fn ++ created fn script) in
            mkGP (g_idle p) (g_fresh p) (map (fun nm => (b_state b, nm)) left ++ g_extra p)
                 (map (fun nm => (b_state b, nm)) (deleted fn script) ++ g_gone p) (g_out p)
          else p
      | None => p
      end
  | GReturn u =>
      match find_b (g_out p) u with
      | Some b =>
          let e := if b_closes b
                   then filter (fun q => negb (Nat.eqb (fst q) (b_state b) && in_strs (snd q) close_removes)) (g_extra p)
                   else g_extra p in
          mkGP (g_idle p ++ [b_state b]) (g_fresh p) e (g_gone p) (drop_b (g_out p) u)
      | None => p
      end
  end.

Definition grun (p : gpool) (ops : list gop) : gpool := fold_left gstep ops p.
Definition ginit (n : nat) : gpool := mkGP (seq 0 n) n [] [] [].

(* the global names of an interpreter *)
Definition globals_of (p : gpool) (x : nat) : list string :=
  (filter (fun nm => negb (in_strs nm (extras_of (g_gone p) x))) base_globals ++ extras_of (g_extra p) x)%list.

(* no Lua code of the history sets a name New registered to nil *)
Definition no_deletes (ops : list gop) : Prop :=
  forall u fn early script, In (GInvoke u fn early script) ops -> deleted fn script = [].
