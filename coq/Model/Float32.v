(* Model/Float32.v — executable transcription of rtreeValueDown / rtreeValueUp / rtreeRect
   (/repo/internal/collection/collection.go) on Flocq's IEEE-754 formats.

     const dRNDTOWARDS = (1.0 - 1.0/8388608.0)
     const dRNDAWAY    = (1.0 + 1.0/8388608.0)
     func rtreeValueDown(d float64) float32 {
         f := float32(d)
         if float64(f) > d { if d < 0 { f = float32(d * dRNDAWAY) } else { f = float32(d * dRNDTOWARDS) } }
         return f }
     func rtreeValueUp(d float64) float32 {
         f := float32(d)
         if float64(f) < d { if d < 0 { f = float32(d * dRNDTOWARDS) } else { f = float32(d * dRNDAWAY) } }
         return f }

   float64 = binary_float 53 1024, float32 = binary_float 24 128 (single-NaN variant: Go's
   comparisons and conversions never look at a NaN payload).  float32(d) and float64(f) are
   round-to-nearest-even conversions (binary_normalize), the product is Bmult mode_NE, the
   comparisons are Bcompare (false on NaN, -0 = +0).  No proofs in this file. *)
From Coq Require Import ZArith Bool List.
From Flocq Require Import Core BinarySingleNaN.
From Flocq Require Binary Bits.
Import ListNotations.
Local Open Scope Z_scope.

Definition f64 := binary_float 53 1024.
Definition f32 := binary_float 24 128.

Global Instance Hprec64 : Prec_gt_0 53 := eq_refl.
Global Instance Hmax64 : Prec_lt_emax 53 1024 := eq_refl.
Global Instance Hprec32 : Prec_gt_0 24 := eq_refl.
Global Instance Hmax32 : Prec_lt_emax 24 128 := eq_refl.

(* float32(d) *)
Definition to32 (x : f64) : f32 :=
  match x with
  | B754_nan => B754_nan
  | B754_infinity s => B754_infinity s
  | B754_zero s => B754_zero s
  | B754_finite s m e _ => binary_normalize 24 128 Hprec32 Hmax32 mode_NE (cond_Zopp s (Zpos m)) e s
  end.

(* float64(f) *)
Definition to64 (x : f32) : f64 :=
  match x with
  | B754_nan => B754_nan
  | B754_infinity s => B754_infinity s
  | B754_zero s => B754_zero s
  | B754_finite s m e _ => binary_normalize 53 1024 Hprec64 Hmax64 mode_NE (cond_Zopp s (Zpos m)) e s
  end.

(* 1 - 2^-23 and 1 + 2^-23, both exact float64 values *)
Definition c_towards : f64 := binary_normalize 53 1024 Hprec64 Hmax64 mode_NE 8388607 (-23) false.
Definition c_away : f64 := binary_normalize 53 1024 Hprec64 Hmax64 mode_NE 8388609 (-23) false.
Definition zero64 : f64 := B754_zero false.

Definition gt64 (a b : f64) : bool := match Bcompare a b with Some Gt => true | _ => false end.
Definition lt64 (a b : f64) : bool := match Bcompare a b with Some Lt => true | _ => false end.

Definition mul64 (a b : f64) : f64 := Bmult mode_NE a b.

Definition down (d : f64) : f32 :=
  let f := to32 d in
  if gt64 (to64 f) d then
    if lt64 d zero64 then to32 (mul64 d c_away) else to32 (mul64 d c_towards)
  else f.

Definition up (d : f64) : f32 :=
  let f := to32 d in
  if lt64 (to64 f) d then
    if lt64 d zero64 then to32 (mul64 d c_towards) else to32 (mul64 d c_away)
  else f.

(* rectangles: (minx, miny, maxx, maxy) *)
Record rect64 := R64 { r64_minx : f64; r64_miny : f64; r64_maxx : f64; r64_maxy : f64 }.
Record rect32 := R32 { r32_minx : f32; r32_miny : f32; r32_maxx : f32; r32_maxy : f32 }.

(* rtreeRect *)
Definition rtree_rect (r : rect64) : rect32 :=
  R32 (down (r64_minx r)) (down (r64_miny r)) (up (r64_maxx r)) (up (r64_maxy r)).

(* float32 comparisons as Go (and the R-tree, which is generic over the number type) evaluates them *)
Definition le32 (a b : f32) : bool := match Bcompare a b with Some Lt | Some Eq => true | _ => false end.
Definition lt32 (a b : f32) : bool := match Bcompare a b with Some Lt => true | _ => false end.
Definition le64 (a b : f64) : bool := match Bcompare a b with Some Lt | Some Eq => true | _ => false end.

(* rtree rect.intersects:  !(b.min[0] > a.max[0] || b.max[0] < a.min[0] || ... ) written by the
   library as  a.min <= b.max && a.max >= b.min  negated comparisons; see Model/Search.v *)

(* ---- IEEE bit patterns (exchange format with the harness) ---- *)
Definition f64_of_bits (z : Z) : f64 := Binary.B2BSN 53 1024 (Bits.b64_of_bits z).

(* NaN is printed as -1 (the harness compares NaN-ness only) *)
Definition bits_of_f32 (x : f32) : Z :=
  match x with
  | B754_nan => -1
  | B754_zero s => Bits.join_bits 23 8 s 0 0
  | B754_infinity s => Bits.join_bits 23 8 s 0 255
  | B754_finite s m e _ =>
      let m' := Zpos m - 2 ^ 23 in
      if 0 <=? m' then Bits.join_bits 23 8 s m' (e - (3 - 128 - 24) + 1)
      else Bits.join_bits 23 8 s (Zpos m) 0
  end.

Definition bits_of_f64 (x : f64) : Z :=
  match x with
  | B754_nan => -1
  | B754_zero s => Bits.join_bits 52 11 s 0 0
  | B754_infinity s => Bits.join_bits 52 11 s 0 2047
  | B754_finite s m e _ =>
      let m' := Zpos m - 2 ^ 52 in
      if 0 <=? m' then Bits.join_bits 52 11 s m' (e - (3 - 1024 - 53) + 1)
      else Bits.join_bits 52 11 s (Zpos m) 0
  end.

Definition down_bits (z : Z) : Z := bits_of_f32 (down (f64_of_bits z)).
Definition up_bits (z : Z) : Z := bits_of_f32 (up (f64_of_bits z)).

Definition rect64_of_bits (a b c d : Z) : rect64 :=
  R64 (f64_of_bits a) (f64_of_bits b) (f64_of_bits c) (f64_of_bits d).
