(* Executable model of the HTTP tile-path rewrite (internal/server/mvt.go mvtFilterHTTPArgs and its call
   site at the top of handleInputCommand, internal/server/server.go):

     if msg.ConnType == HTTP && len(msg.Args) == 1 {
         query := what follows the first '?' of msg.Args[0]; msg.Args[0] = what precedes it
         if HasSuffix(msg.Args[0], ".mvt") || HasSuffix(msg.Args[0], ".pbf") { mvt = mvtFilterHTTPArgs(msg, query) }

     mvtFilterHTTPArgs:  parts := strings.Split(path, "/")
                         if len(parts) != 4 { return false }
                         parts[3] = parts[3][:len(parts[3])-4]          <- run-time panic when len(parts[3]) < 4
                         every part through url.PathUnescape (error -> return false)
                         msg.Args = INTERSECTS parts[0] (SPARSE s | LIMIT n) MVT parts[2] parts[3] parts[1]

   The guard is a parameter (reject : nat -> bool on the number of parts) so that the theorem family can say
   which guards are safe; mvt_reject_src is the guard of the source (transcription obligation over
   Gen/MvtArgs.v in Proofs/MvtArgsProofs.v).  The index / slice expressions Go would panic on are the explicit
   outcome MPanic.  The query only selects SPARSE / LIMIT and is parsed after the slice expression; it is not
   part of the outcome.  No proofs here. *)
From T38 Require Import Base.Bytes Model.Resp Model.Pipeline.
Local Open Scope N_scope.

Inductive mvt_res :=
| MPanic
| MNo                                   (* not rewritten: the path goes on as a command name *)
| MYes (key z x y : bytes).             (* INTERSECTS key ... MVT x y z *)

(* url.PathUnescape: %XX escapes, nothing else (a '+' stays) *)
Fixpoint unescape_p (fuel : nat) (l : bytes) : bytes :=
  match fuel with
  | O => []
  | S f =>
      match l with
      | [] => []
      | 37 :: a :: b :: r => (unhex a * 16 + unhex b) :: unescape_p f r
      | c :: r => c :: unescape_p f r
      end
  end.
Definition path_unescape (l : bytes) : option bytes :=
  if escapes_ok l then Some (unescape_p (length l) l) else None.

(* parts[3][:len(parts[3])-4] *)
Definition drop_last4 (p : bytes) : option bytes :=
  if (length p <? 4)%nat then None else Some (firstn (length p - 4) p).

Definition mvt_reject_exact4 (n : nat) : bool := negb (n =? 4)%nat.     (* len(parts) != 4 *)
Definition mvt_reject_below4 (n : nat) : bool := (n <? 4)%nat.          (* len(parts) < 4: NOT safe *)

Definition mvt_filter (reject : nat -> bool) (path : bytes) : mvt_res :=
  let parts := split_on 47 path [] in
  if reject (length parts) then MNo else
  match nth_error parts 3 with
  | None => MPanic                                   (* parts[3] out of range *)
  | Some p3 =>
      match drop_last4 p3 with
      | None => MPanic                               (* slice bounds out of range [:-k] *)
      | Some p3' =>
          (* for i := range parts { parts[i], err = url.PathUnescape(parts[i]); if err != nil { return false } } *)
          let parts' := firstn 3 parts ++ p3' :: skipn 4 parts in
          if forallb (fun p => match path_unescape p with Some _ => true | None => false end) parts' then
            match map path_unescape (firstn 3 parts), path_unescape p3' with
            | [Some k; Some z; Some x], Some y => MYes k z x y
            | _, _ => MPanic                         (* parts[0..2] out of range *)
            end
          else MNo
      end
  end.

(* the call site: msg.Args[0] up to the first '?', tile suffix test *)
Fixpoint before_q (l : bytes) : bytes :=
  match l with
  | [] => []
  | c :: r => if c =? 63 then [] else c :: before_q r
  end.
Definition has_suffix (s p : bytes) : bool :=
  (length s <=? length p)%nat && bytes_eqb (skipn (length p - length s) p) s.
Definition w_mvt : bytes := [46; 109; 118; 116].     (* ".mvt" *)
Definition w_pbf : bytes := [46; 112; 98; 102].      (* ".pbf" *)

Definition mvt_entry (reject : nat -> bool) (arg0 : bytes) : mvt_res :=
  let path := before_q arg0 in
  if has_suffix w_mvt path || has_suffix w_pbf path then mvt_filter reject path else MNo.
