(* C17 — executable models, no proofs.
   (1) json_string: internal/server/json.go jsonString / appendJSONString, i.e. the fast path
       (no byte below space, no backslash, no quote, no byte above 126: quote the bytes as they are) and
       otherwise Go's encoding/json appendString with escapeHTML = true (toolchain go1.24:
       \b and \f have short escapes), transcribed byte for byte.
   (2) valid_json: a one-pass pushdown recogniser of the RFC 8259 grammar over bytes
       (ws, value, object, array, number, string with escapes, the three literals).  Bytes
       >= 0x20 other than quote and backslash are accepted inside strings; UTF-8
       well-formedness (RFC 8259 section 8.1) is judged separately by the harness. *)
From T38 Require Import Base.Bytes Base.Utf8.
Open Scope N_scope.

(* ---------- jsonString ---------- *)

(* the test of the fast-path loop: below space, backslash, double quote, or above 126 *)
Definition needs_marshal (c : N) : bool :=
  (c <? 32) || (c =? 92) || (c =? 34) || (126 <? c).

(* const hex = 0123456789abcdef *)
Definition hexdigit (x : N) : N := if x <? 10 then 48 + x else 87 + x.

(* htmlSafeSet[b] for b < 0x80: every byte from space to DEL except double quote, ampersand,
   less-than, greater-than and backslash *)
Definition html_safe (b : N) : bool :=
  (32 <=? b) && negb ((b =? 34) || (b =? 38) || (b =? 60) || (b =? 62) || (b =? 92)).

(* the switch for an ASCII byte that is not htmlSafe *)
Definition esc_ascii (b : N) : bytes :=
  if (b =? 92) || (b =? 34) then [92; b]
  else if b =? 8 then [92; 98]
  else if b =? 12 then [92; 102]
  else if b =? 10 then [92; 110]
  else if b =? 13 then [92; 114]
  else if b =? 9 then [92; 116]
  else [92; 117; 48; 48; hexdigit (b / 16); hexdigit (b mod 16)].

(* The Go loop advances i by 1 (ASCII, invalid byte) or by size (a decoded rune, whose bytes are
   copied through by the final/next append of src[start:i], or dropped for U+2028/9).  The
   structural transcription keeps "k more bytes of the current rune to copy / to drop". *)
Inductive mmode := MNorm | MCopy (k : nat) | MDrop (k : nat).

Definition after_rune (copy : bool) (n : nat) : mmode :=
  match n with
  | S (S k) => if copy then MCopy (S k) else MDrop (S k)
  | _ => MNorm
  end.

Fixpoint marshal_body (m : mmode) (s : bytes) : bytes :=
  match s with
  | [] => []
  | b :: t =>
      match m with
      | MCopy (S k) => b :: marshal_body (match k with O => MNorm | _ => MCopy k end) t
      | MDrop (S k) => marshal_body (match k with O => MNorm | _ => MDrop k end) t
      | _ =>
          if b <? 128 then
            (if html_safe b then b :: marshal_body MNorm t
             else esc_ascii b ++ marshal_body MNorm t)
          else
            let '(c, size) := decode_rune s in
            if (c =? RuneError) && (Nat.eqb size 1) then
              [92; 117; 102; 102; 102; 100] ++ marshal_body MNorm t
            else if (c =? 8232) || (c =? 8233) then
              [92; 117; 50; 48; 50; hexdigit (c mod 16)] ++ marshal_body (after_rune false size) t
            else b :: marshal_body (after_rune true size) t
      end
  end.

Definition marshal_string (s : bytes) : bytes := 34 :: marshal_body MNorm s ++ [34].

Definition json_string (s : bytes) : bytes :=
  if existsb needs_marshal s then marshal_string s else 34 :: s ++ [34].

(* ---------- RFC 8259 recogniser ---------- *)

Inductive frame := FObj | FArr.

Inductive numst :=
| NMinus   (* "-" read *)
| NZero    (* int = "0" *)
| NInt     (* int = digit1-9 *DIGIT *)
| NDot     (* "." read, a digit must follow *)
| NFrac    (* frac digits *)
| NE       (* e / E read *)
| NESign   (* exponent sign read *)
| NExp.    (* exponent digits *)

Inductive strst :=
| SPlain
| SEsc            (* backslash read *)
| SU (k : nat).   (* \u read, k more hex digits expected minus one: SU 3 = four to go *)

Inductive mode :=
| MValue                      (* a value must start here (after ':' / ',' in an array / at the top) *)
| MArrStart                   (* just after '[' : a value or ']' *)
| MObjStart                   (* just after '{' : a member name or '}' *)
| MKey                        (* after ',' in an object: a member name *)
| MColon                      (* after a member name: ':' *)
| MStr (iskey : bool) (s : strst)
| MNum (n : numst)
| MLit (rest : bytes)         (* inside true / false / null: bytes still to match *)
| MAfter.                     (* a value has just been completed *)

Definition jstate := (mode * list frame)%type.

Definition is_ws (c : N) : bool := (c =? 32) || (c =? 9) || (c =? 10) || (c =? 13).
Definition is_digit (c : N) : bool := (48 <=? c) && (c <=? 57).
Definition is_hex (c : N) : bool :=
  is_digit c || ((97 <=? c) && (c <=? 102)) || ((65 <=? c) && (c <=? 70)).

Definition num_terminal (n : numst) : bool :=
  match n with NZero | NInt | NFrac | NExp => true | _ => false end.

(* the number automaton: Some n' when c continues the number *)
Definition num_step (n : numst) (c : N) : option numst :=
  match n with
  | NMinus => if c =? 48 then Some NZero else if is_digit c then Some NInt else None
  | NZero => if c =? 46 then Some NDot else if (c =? 101) || (c =? 69) then Some NE else None
  | NInt => if is_digit c then Some NInt else if c =? 46 then Some NDot
            else if (c =? 101) || (c =? 69) then Some NE else None
  | NDot => if is_digit c then Some NFrac else None
  | NFrac => if is_digit c then Some NFrac else if (c =? 101) || (c =? 69) then Some NE else None
  | NE => if is_digit c then Some NExp else if (c =? 43) || (c =? 45) then Some NESign else None
  | NESign => if is_digit c then Some NExp else None
  | NExp => if is_digit c then Some NExp else None
  end.

(* after a completed value: ws, or the separator / closer that fits the enclosing frame *)
Definition step_after (st : list frame) (c : N) : option jstate :=
  if is_ws c then Some (MAfter, st)
  else match st with
       | FObj :: r => if c =? 44 then Some (MKey, st) else if c =? 125 then Some (MAfter, r) else None
       | FArr :: r => if c =? 44 then Some (MValue, st) else if c =? 93 then Some (MAfter, r) else None
       | [] => None
       end.

(* the first byte of a value *)
Definition step_value (st : list frame) (c : N) : option jstate :=
  if c =? 34 then Some (MStr false SPlain, st)
  else if c =? 123 then Some (MObjStart, FObj :: st)
  else if c =? 91 then Some (MArrStart, FArr :: st)
  else if c =? 45 then Some (MNum NMinus, st)
  else if c =? 48 then Some (MNum NZero, st)
  else if is_digit c then Some (MNum NInt, st)
  else if c =? 116 then Some (MLit [114; 117; 101], st)
  else if c =? 102 then Some (MLit [97; 108; 115; 101], st)
  else if c =? 110 then Some (MLit [117; 108; 108], st)
  else None.

Definition step_str (s : strst) (c : N) : option (option strst) :=
  (* Some None = closing quote; Some (Some s') = still inside *)
  match s with
  | SPlain => if c =? 34 then Some None
              else if c =? 92 then Some (Some SEsc)
              else if c <? 32 then None
              else Some (Some SPlain)
  | SEsc => if (c =? 34) || (c =? 92) || (c =? 47) || (c =? 98) || (c =? 102) || (c =? 110) || (c =? 114) || (c =? 116)
            then Some (Some SPlain)
            else if c =? 117 then Some (Some (SU 3)) else None
  | SU k => if is_hex c then Some (Some (match k with O => SPlain | S k' => SU k' end)) else None
  end.

Definition jstep (q : jstate) (c : N) : option jstate :=
  let '(m, st) := q in
  match m with
  | MValue => if is_ws c then Some (MValue, st) else step_value st c
  | MArrStart =>
      if is_ws c then Some (MArrStart, st)
      else if c =? 93 then match st with FArr :: r => Some (MAfter, r) | _ => None end
      else step_value st c
  | MObjStart =>
      if is_ws c then Some (MObjStart, st)
      else if c =? 125 then match st with FObj :: r => Some (MAfter, r) | _ => None end
      else if c =? 34 then Some (MStr true SPlain, st) else None
  | MKey => if is_ws c then Some (MKey, st) else if c =? 34 then Some (MStr true SPlain, st) else None
  | MColon => if is_ws c then Some (MColon, st) else if c =? 58 then Some (MValue, st) else None
  | MStr k s =>
      match step_str s c with
      | None => None
      | Some None => Some (if k then MColon else MAfter, st)
      | Some (Some s') => Some (MStr k s', st)
      end
  | MNum n =>
      match num_step n c with
      | Some n' => Some (MNum n', st)
      | None => if num_terminal n then step_after st c else None
      end
  | MLit rest =>
      match rest with
      | [] => None
      | x :: r => if c =? x then Some (match r with [] => MAfter | _ => MLit r end, st) else None
      end
  | MAfter => step_after st c
  end.

Fixpoint jrun (s : bytes) (q : jstate) : option jstate :=
  match s with
  | [] => Some q
  | c :: t => match jstep q c with Some q' => jrun t q' | None => None end
  end.

Definition accepting (q : jstate) : bool :=
  match q with
  | (MAfter, []) => true
  | (MNum n, []) => num_terminal n
  | _ => false
  end.

Definition jstart : jstate := (MValue, []).

Definition valid_json (s : bytes) : bool :=
  match jrun s jstart with Some q => accepting q | None => false end.
