(* C02 — from the index walk to the reply of WITHIN / INTERSECTS (sparse = 0).

   search.go cmdWITHINorINTERSECTS:
       sw.col.Within(sargs.obj, sargs.sparse, sw, msg.Deadline,
           func(o *object.Object) bool { keepGoing, err := sw.pushObject(ScanWriterParams{obj: o}); … })
   collection.go Within / Intersects (geoSearch branch): every candidate of the index is counted against
   the cursor, the exact predicate is evaluated, and only then the callback runs;
   scanner.go pushObject: testObject (MATCH globs, WHERE, WHEREIN, WHEREEVAL) — the only thing that may drop
   an object that satisfied the predicate — then filled = append(filled, o), numberItems++, the LIMIT test.

   All of that is Model/Cursor.v (C11): [geo_page hit test cands cursor limit].  Here it is instantiated
   with the candidates of Model/Search.v.  An object is the record of Model/Collection.v, deadline [o_ex]
   included: nothing in this path reads it (an object whose deadline has passed is in the collection and
   in the index until the sweeper deletes it, and TEST resolves it).  No proofs in this file. *)
From Coq Require Import List NArith Bool.
From T38 Require Import Base.Bytes Model.Float32 Model.Collection Model.Search Model.Cursor.
Import ListNotations.

Section SearchReply.
  Variable Q : Type.
  Variable qrect : Q -> rect64.
  Variable hits : obj -> Q -> bool.
  Variable test : obj -> bool.          (* testObject: MATCH / WHERE / WHEREIN / WHEREEVAL *)

  (* the objects of the reply, in order, and the reply cursor *)
  Definition search_reply (c : coll) (q : Q) (cursor limit : N) : list obj * N :=
    geo_page (fun o => hits o q) test (geo_search (c_spatial c) (qrect q)) cursor limit.
End SearchReply.

(* no MATCH, no WHERE*: testObject answers (true, true) for every object *)
Definition no_filter (_ : obj) : bool := true.
