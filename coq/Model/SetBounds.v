(* Model/SetBounds.v — the rectangle cmdSET builds for  SET key id BOUNDS minlat minlon maxlat maxlon
   (internal/server/crud.go, case "bounds"; vals[0..3] are the four parsed float64 in that order).
   No proofs in this file.

   set_bounds_rect        : the tree since 85e217d — the two corners are ordered per axis first
                              if vals[0] > vals[2] { swap }   if vals[1] > vals[3] { swap }
                            (Go's > on float64: false when either side is NaN), then
                              Rect{Min: {X: vals[1], Y: vals[0]}, Max: {X: vals[3], Y: vals[2]}}
   set_bounds_rect_pinned : the pinned tree — the corners as given (finding C19-inverted-bounds). *)
From T38 Require Import Base.Bytes Model.Float32.

Definition set_bounds_rect_pinned (v0 v1 v2 v3 : f64) : rect64 := R64 v1 v0 v3 v2.

Definition set_bounds_rect (v0 v1 v2 v3 : f64) : rect64 :=
  let '(a0, a2) := if gt64 v0 v2 then (v2, v0) else (v0, v2) in
  let '(a1, a3) := if gt64 v1 v3 then (v3, v1) else (v1, v3) in
  R64 a1 a0 a3 a2.

(* what every reader of a rectangle assumes: Min <= Max on both axes *)
Definition rect_ordered (r : rect64) : bool :=
  le64 (r64_minx r) (r64_maxx r) && le64 (r64_miny r) (r64_maxy r).
