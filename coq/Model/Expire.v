(* Expiration: a collection's id index and expiry index as Collection.Set / Delete maintain them
   (internal/collection/collection.go: setFill, Delete, byExpires) and the sweeper of
   internal/server/expire.go (backgroundExpireObjects: ScanExpires stops at the first entry whose
   deadline is in the future; every victim goes through cmdDEL and writeAOF). Deadlines are Z
   nanoseconds, 0 = no deadline. The object payload is an opaque token. *)
From T38 Require Import Base.Bytes.
From Coq Require Import ZArith List Bool.
Import ListNotations.
Local Open Scope Z_scope.

Definition entry := (Z * bytes)%type.                 (* (deadline, id): key of the expires B-tree *)

(* byExpires: deadline first, then id *)
Definition ple (a b : entry) : bool :=
  if fst a <? fst b then true
  else if fst a =? fst b then bytes_leb (snd a) (snd b)
  else false.

Definition entry_eqb (a b : entry) : bool := (fst a =? fst b) && bytes_eqb (snd a) (snd b).

Fixpoint insert (x : entry) (l : list entry) : list entry :=
  match l with
  | [] => [x]
  | y :: r => if entry_eqb x y then l else if ple x y then x :: l else y :: insert x r
  end.

Fixpoint remove (x : entry) (l : list entry) : list entry :=
  match l with
  | [] => []
  | y :: r => if entry_eqb x y then r else y :: remove x r
  end.

Record obj := mkObj { o_val : nat; o_ex : Z }.

Record coll := mkColl {
  objs : list (bytes * obj);        (* the id index (association list; ids unique) *)
  expires : list entry              (* the expiry index, sorted by ple *)
}.

Fixpoint lookup (id : bytes) (l : list (bytes * obj)) : option obj :=
  match l with
  | [] => None
  | (i, o) :: r => if bytes_eqb i id then Some o else lookup id r
  end.

Fixpoint del_id (id : bytes) (l : list (bytes * obj)) : list (bytes * obj) :=
  match l with
  | [] => []
  | (i, o) :: r => if bytes_eqb i id then del_id id r else (i, o) :: del_id id r
  end.

(* Collection.Set + setFill: drop the previous object's expiry entry, add the new one's *)
Definition cset (c : coll) (id : bytes) (o : obj) : coll :=
  let ex1 := match lookup id (objs c) with
             | Some prev => if o_ex prev =? 0 then expires c else remove (o_ex prev, id) (expires c)
             | None => expires c
             end in
  mkColl ((id, o) :: del_id id (objs c))
         (if o_ex o =? 0 then ex1 else insert (o_ex o, id) ex1).

(* Collection.Delete *)
Definition cdel (c : coll) (id : bytes) : coll :=
  match lookup id (objs c) with
  | None => c
  | Some prev =>
      mkColl (del_id id (objs c))
             (if o_ex prev =? 0 then expires c else remove (o_ex prev, id) (expires c))
  end.

(* the commands that move deadlines *)
Inductive op :=
| OSet (id : bytes) (v : nat) (ex : Z)      (* SET [EX]: ex = 0 without EX *)
| OExpire (id : bytes) (ex : Z)             (* EXPIRE: new absolute deadline *)
| OPersist (id : bytes)
| ODel (id : bytes).

Definition apply (c : coll) (o : op) : coll :=
  match o with
  | OSet id v ex => cset c id (mkObj v ex)
  | OExpire id ex => match lookup id (objs c) with Some p => cset c id (mkObj (o_val p) ex) | None => c end
  | OPersist id => match lookup id (objs c) with Some p => cset c id (mkObj (o_val p) 0) | None => c end
  | ODel id => cdel c id
  end.

(* ScanExpires with the sweeper's early stop: victims are the leading entries with deadline <= now *)
Fixpoint victims (now : Z) (l : list entry) : list entry :=
  match l with
  | [] => []
  | e :: r => if now <? fst e then [] else e :: victims now r
  end.

(* backgroundExpireObjects: one `del key id` per victim, applied through cmdDEL, each logged *)
Definition sweep (now : Z) (c : coll) : coll * list bytes :=
  let vs := victims now (expires c) in
  (fold_left (fun c e => cdel c (snd e)) vs c, map snd vs).

(* TTL reply: -1 no deadline, else remaining nanoseconds (the server prints seconds) *)
Definition ttl (now : Z) (c : coll) (id : bytes) : option Z :=
  match lookup id (objs c) with
  | None => None
  | Some o => Some (if o_ex o =? 0 then -1 else o_ex o - now)
  end.

Definition cnew : coll := mkColl [] [].
