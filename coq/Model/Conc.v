(* Commands as critical sections of a readers-writer lock: a writer applies a SEQUENCE of
   micro-updates (a multi-object command such as PDEL, DROP, RENAME, FLUSHDB, or the calls of one
   EVAL script) while holding the lock exclusively, a reader makes several observations while
   holding it shared.  Any number of threads, any schedule.  The lock itself is abstract here
   (exclusion is what Model/RWSpin.v proves for the spin lock; sync.RWMutex is trusted). *)
From Coq Require Import List Arith Bool.
Import ListNotations.

Section Conc.
Variable S : Type.                 (* the dataset *)
Variable micro : Type.             (* one single-object update *)
Variable apply : S -> micro -> S.

Inductive cmd := W (ms : list micro) | R (n : nat).

Record gstate := mkG {
  shared : S;
  log : list (list micro);                       (* writers in acquisition order = append-only file order *)
  writer : option (nat * list micro);            (* thread holding the lock exclusively, updates still to apply *)
  readers : list (nat * (nat * list S));         (* threads holding it shared: observations left, observations made *)
  todo : nat -> list cmd;                        (* per-thread program *)
  finished : list (list S)                       (* completed read sections: what each one observed *)
}.

Fixpoint lookup (t : nat) (l : list (nat * (nat * list S))) : option (nat * list S) :=
  match l with
  | [] => None
  | (t', x) :: r => if Nat.eqb t' t then Some x else lookup t r
  end.

Fixpoint remove_t (t : nat) (l : list (nat * (nat * list S))) :=
  match l with
  | [] => []
  | (t', x) :: r => if Nat.eqb t' t then remove_t t r else (t', x) :: remove_t t r
  end.

Definition set_todo (f : nat -> list cmd) (t : nat) (v : list cmd) : nat -> list cmd :=
  fun u => if Nat.eqb u t then v else f u.

Definition idle_step (g : gstate) (t : nat) : gstate :=
  match todo g t with
  | W ms :: rest =>
      match writer g, readers g with
      | None, [] => mkG (shared g) (log g ++ [ms]) (Some (t, ms)) [] (set_todo (todo g) t rest) (finished g)
      | _, _ => g                                   (* blocked *)
      end
  | R n :: rest =>
      match writer g with
      | None => mkG (shared g) (log g) None ((t, (n, [])) :: readers g) (set_todo (todo g) t rest) (finished g)
      | Some _ => g                                 (* blocked *)
      end
  | [] => g
  end.

Definition reader_step (g : gstate) (t : nat) (k : nat) (seen : list S) : gstate :=
  match k with
  | O => mkG (shared g) (log g) (writer g) (remove_t t (readers g)) (todo g) (seen :: finished g)
  | Datatypes.S k' =>
      mkG (shared g) (log g) (writer g) ((t, (k', seen ++ [shared g])) :: remove_t t (readers g)) (todo g) (finished g)
  end.

Definition step (g : gstate) (t : nat) : gstate :=
  match writer g with
  | Some (w, rem) =>
      if Nat.eqb w t then
        match rem with
        | m :: r => mkG (apply (shared g) m) (log g) (Some (w, r)) (readers g) (todo g) (finished g)
        | [] => mkG (shared g) (log g) None (readers g) (todo g) (finished g)       (* release *)
        end
      else
        match lookup t (readers g) with
        | Some (k, seen) => reader_step g t k seen
        | None => idle_step g t
        end
  | None =>
      match lookup t (readers g) with
      | Some (k, seen) => reader_step g t k seen
      | None => idle_step g t
      end
  end.

Definition run (g : gstate) (sched : list nat) : gstate := fold_left step sched g.

Definition init (s0 : S) (prog : nat -> list cmd) : gstate := mkG s0 [] None [] prog [].

(* the sequential meaning of a log *)
Definition seq_state (s0 : S) (l : list (list micro)) : S :=
  fold_left (fun s ms => fold_left apply ms s) l s0.

End Conc.
