(* Which background routines a server process runs, as a function of its role history — over the
   start-up table that t38x regenerates from /repo (Gen/Startup.v: every `go` statement with the
   conditions enclosing it, and the straight-line calls of every goroutine root).

   C14 ("always eventual") needs the expiration sweeper in EVERY process, whatever role the process was
   configured with when it booted and whatever FOLLOW commands it has received since: a follower
   that loses its leader, or is promoted by FOLLOW no one, has nobody else to delete its expired
   objects, hooks and channels.  Functions only; the statements are in Props/C14st.v. *)
From Coq Require Import String List Bool Arith.
From T38 Require Import Model.Tables Gen.Startup.
Import ListNotations.
Open Scope string_scope.

Definition gs_starter (g : string * string * list string * nat) : string := fst (fst (fst g)).
Definition gs_root (g : string * string * list string * nat) : string := snd (fst (fst g)).
Definition gs_guards (g : string * string * list string * nat) : list string := snd (fst g).
Definition gs_quiet (g : string * string * list string * nat) : nat := snd g.

(* [starter] starts the goroutine [root] on every run that gets that far: some `go root(...)` of its
   body stands under no if / for / switch / select / closure, and no earlier statement can return
   without an error.  A guarded start is NOT counted (the guard is source text, not interpreted). *)
Definition started_always (tbl : list (string * string * list string * nat)) (starter root : string) : bool :=
  existsb (fun g => String.eqb (gs_starter g) starter && String.eqb (gs_root g) root &&
                    match gs_guards g with [] => true | _ => false end && Nat.eqb (gs_quiet g) 0) tbl.

(* who else starts it (a routine started from a command handler would depend on the command history) *)
Definition starters_of (tbl : list (string * string * list string * nat)) (root : string) : list string :=
  map gs_starter (filter (fun g => String.eqb (gs_root g) root) tbl).

Definition must_of (fn : string) : list string :=
  match assoc must_calls fn with Some l => l | None => [] end.

Definition subset (a b : list string) : bool := forallb (fun x => in_strs x b) a.

(* [fn] is a ticker: its straight-line prefix hands a closure to [loop], and the straight-line prefix of
   that closure calls every function of [work] (so: each round, before any branch) *)
Definition each_round (fn loop : string) (work : list string) : bool :=
  in_strs loop (must_of fn) &&
  existsb (fun ca => String.eqb (fst (fst ca)) fn && String.eqb (snd (fst ca)) loop &&
                     subset work (must_of (snd ca))) closure_args.

(* ---- role histories of one data directory ---- *)
Inductive role_ev :=
| EFollow        (* FOLLOW host port: following from now on, persisted in the config file *)
| EFollowNoOne   (* FOLLOW no one: leader from now on, persisted *)
| ELeaderLost    (* the leader dies / is partitioned away: still a follower, nothing arrives any more *)
| ERestart.      (* the process ends and Serve runs again with the persisted role *)

Record proc := mkProc { p_following : bool; p_sweeper : bool }.

(* Serve's go statements run at boot; the role is only what the config file says at that moment *)
Definition boot (following : bool) : proc :=
  mkProc following (started_always go_starts "Serve" "backgroundExpiring").

(* no command starts or stops the sweeper (starters_of = [Serve], checked in Props/C14st.v): a role
   change keeps what boot started; a restart boots again with the role in force *)
Definition step (p : proc) (e : role_ev) : proc :=
  match e with
  | EFollow => mkProc true (p_sweeper p)
  | EFollowNoOne => mkProc false (p_sweeper p)
  | ELeaderLost => p
  | ERestart => boot (p_following p)
  end.

Definition run (following0 : bool) (h : list role_ev) : proc := fold_left step h (boot following0).
