(* C10 — the retention of the webhook log, with the options values as the code has them.

   internal/server/hooks.go   var hookLogSetDefaults = &buntdb.SetOptions{Expires: true, TTL: 30 s}
   internal/server/aof.go     queueHooks: tx.Set(key, msg, hookLogSetDefaults)  for every freshly queued message
   internal/server/hooks.go   Hook.proc, after a failed send: for the unsent tail
                                 ttl := ttls[i] - time.Since(start); if ttl > 0 { tx.Set(key, val, <options with TTL ttl>) }

   hookLogSetDefaults is a POINTER: one record for the whole process, read by queueHooks at every write for
   every hook.  Model/Queues.v writes `now + hook_ttl` for a fresh entry, i.e. it takes for granted that this
   record always holds 30 s.  Here the record is part of the state (r_def), queueHooks reads it, and the
   retry path of proc is a parameter:
     RetryOwn             proc builds an options value of its own (a composite literal, or a copy of the
                          defaults) and sets its TTL: the shared record is not touched;
     RetryThroughDefault  proc takes the shared pointer and assigns the remaining TTL through it
                          (`opts := hookLogSetDefaults; opts.TTL = ttl`): every re-inserted entry rewrites the
                          retention of all messages queued afterwards, for every hook.
   Which of the two the source has is read by t38x (Gen/HookRetention.v: origin of the options argument of
   every Tx.Set, every write through a package-level options record).  No proofs in this file. *)
From Coq Require Import String List NArith ZArith Bool.
From T38 Require Import Model.Queues Gen.HookRetention.
Import ListNotations.

Inductive retry_opts := RetryOwn | RetryThroughDefault.

Record rq := mkRQ {
  r_q : hq;        (* the queue of Model/Queues.v *)
  r_def : Z        (* hookLogSetDefaults.TTL in ms (Expires is a constant true: obligation source_shape_ok) *)
}.

Definition rq_init (d0 : Z) : rq := mkRQ hq_init d0.

(* queueHooks with the TTL it reads from the shared record: Queues.enqueue with `ttl` for hook_ttl *)
Fixpoint enqueue_d (ttl : Z) (now : Z) (msgs : list (hookid * msgid)) (q : hq) : hq :=
  match msgs with
  | [] => q
  | (h, m) :: r =>
      let i := N.succ (q_idx q) in
      let e := mkEntry i h m (now + ttl) in
      enqueue_d ttl now r (mkHQ (updf (q_db q) h (db_set e (q_db q h))) i (q_taken q) (q_delivered q) i)
  end.

(* what the re-insert loop of proc leaves in the shared record: with RetryThroughDefault every unsent entry
   whose remaining TTL (= exat - now: ttl read at `start` minus time.Since(start)) is positive assigns it *)
Definition retry_default (v : retry_opts) (now : Z) (unsent : list entry) (d : Z) : Z :=
  match v with
  | RetryOwn => d
  | RetryThroughDefault =>
      fold_left (fun d e => if Z.ltb now (e_exat e) then (e_exat e - now)%Z else d) unsent d
  end.

(* d0 = the value the record is initialised with when the process starts *)
Definition rstep (v : retry_opts) (d0 : Z) (s : rq) (ev : qev) : rq :=
  match ev with
  | Enq now msgs => mkRQ (enqueue_d (r_def s) now msgs (r_q s)) (r_def s)
  | Mgr h now outs =>
      match q_taken (r_q s) h with
      | None => mkRQ (qstep (r_q s) ev) (r_def s)
      | Some tk => mkRQ (qstep (r_q s) ev) (retry_default v now (snd (send_all outs tk)) (r_def s))
      end
  | Restart _ => mkRQ (qstep (r_q s) ev) d0
  end.

Definition rrun (v : retry_opts) (d0 : Z) (s : rq) (evs : list qev) : rq := fold_left (rstep v d0) evs s.

(* the retention each message of a history got when it was queued: (msg, exat - time of the write) *)
Fixpoint fresh_ttls (v : retry_opts) (d0 : Z) (s : rq) (evs : list qev) : list (msgid * Z) :=
  match evs with
  | [] => []
  | ev :: r =>
      (match ev with Enq _ msgs => map (fun hm => (snd hm, r_def s)) msgs | _ => [] end)
      ++ fresh_ttls v d0 (rstep v d0 s ev) r
  end.

(* ---- the variant of the source, from the facts t38x extracts ---- *)

Definition ts_fn (x : string * string * string * string * string) : string := let '(f, _, _, _, _) := x in f.
Definition ts_origin (x : string * string * string * string * string) : string := let '(_, _, o, _, _) := x in o.
Definition ts_expires (x : string * string * string * string * string) : string := let '(_, _, _, e, _) := x in e.
Definition ts_ttl (x : string * string * string * string * string) : string := let '(_, _, _, _, t) := x in t.

(* the Tx.Set calls of a function that carry options *)
Definition sets_of (fn : string) : list (string * string * string * string * string) :=
  filter (fun x => String.eqb (ts_fn x) fn && negb (String.eqb (ts_origin x) "nil")) tx_sets.

Definition writes_in (fn : string) : list (string * string) :=
  filter (fun w => String.eqb (fst w) fn) setopts_writes.

(* the one shared options record: (name, TTL) *)
Definition source_var : option (string * Z) :=
  match setopts_vars with
  | [(n, _, _, t)] => Some (n, t)
  | _ => None
  end.

Definition source_default : Z := match source_var with Some (_, t) => t | None => 0%Z end.

(* proc writes through the shared record iff t38x found such a statement in Hook.proc *)
Definition source_retry : retry_opts :=
  match writes_in "Hook.proc" with
  | [] => RetryOwn
  | _ :: _ => RetryThroughDefault
  end.

(* the shapes this model covers: exactly one shared record, constant Expires = true; queueHooks stores with
   that record itself; proc re-inserts with one Tx.Set whose options are its own (literal or copy) or an
   alias of the record, Expires true (inherited for a copy / alias), TTL = ttls[i] - time.Since(start);
   nothing outside Hook.proc writes to the record or lets the pointer escape *)
Definition source_shape_ok : bool :=
  match setopts_vars with
  | [(n, _, ex, _)] =>
      ex &&
      match sets_of "Server.queueHooks" with
      | [x] => String.eqb (ts_origin x) ("shared:" ++ n)
      | _ => false
      end &&
      match sets_of "Hook.proc" with
      | [x] =>
          ((String.eqb (ts_origin x) "fresh" && String.eqb (ts_expires x) "true")
           || ((String.eqb (ts_origin x) ("copy:" ++ n) || String.eqb (ts_origin x) ("alias:" ++ n))
               && (String.eqb (ts_expires x) "" || String.eqb (ts_expires x) "true")))
          && String.eqb (ts_ttl x) "ttls[i] - time.Since(start)"
      | _ => false
      end &&
      forallb (fun w => String.eqb (fst w) "Hook.proc") setopts_writes
  | _ => false
  end.
