(* Sorted association lists keyed by byte strings: the abstract ordered container standing for
   tidwall/btree maps (Server.cols, Collection.objs) and for "a plain map" in the specifications.
   get/set/del + the algebra the keyspace proofs need. Reusable: nothing here is specific to C01.

   Conventions: [smap V] is a plain [list (bytes * V)]; the functions are total on any list, the
   lemmas that need it take [msorted m] (keys strictly increasing in Go's string order). *)
From T38 Require Import Base.Bytes.
From Coq Require Import Sorted.

Definition smap (V : Type) := list (bytes * V).

Section Defs.
Context {V : Type}.

Fixpoint get (k : bytes) (m : smap V) : option V :=
  match m with
  | [] => None
  | (k', v) :: r => if bytes_eqb k k' then Some v else get k r
  end.

Fixpoint set (k : bytes) (v : V) (m : smap V) : smap V :=
  match m with
  | [] => [(k, v)]
  | (k', v') :: r =>
      match bytes_cmp k k' with
      | Lt => (k, v) :: m
      | Eq => (k, v) :: r
      | Gt => (k', v') :: set k v r
      end
  end.

Fixpoint del (k : bytes) (m : smap V) : smap V :=
  match m with
  | [] => []
  | (k', v') :: r => if bytes_eqb k k' then r else (k', v') :: del k r
  end.

Definition keys (m : smap V) : list bytes := map fst m.
Definition vals (m : smap V) : list V := map snd m.
Definition mem (k : bytes) (m : smap V) : bool := match get k m with Some _ => true | None => false end.

End Defs.

Definition sorted_keys (l : list bytes) : Prop := StronglySorted (fun a b => bytes_ltb a b = true) l.
Definition msorted {V} (m : smap V) : Prop := sorted_keys (keys m).

Definition smap_map {A B} (f : A -> B) (m : smap A) : smap B := map (fun kv => (fst kv, f (snd kv))) m.

(* ---------- order facts ---------- *)

Lemma ltb_cmp a b : bytes_ltb a b = true <-> bytes_cmp a b = Lt.
Proof. unfold bytes_ltb. destruct (bytes_cmp a b); split; congruence. Qed.

Lemma cmp_gt_lt a b : bytes_cmp a b = Gt -> bytes_cmp b a = Lt.
Proof. intros H. rewrite (bytes_cmp_antisym a b), H. reflexivity. Qed.

Lemma cmp_lt_gt a b : bytes_cmp a b = Lt -> bytes_cmp b a = Gt.
Proof. intros H. rewrite (bytes_cmp_antisym a b), H. reflexivity. Qed.

Lemma ltb_irrefl a : bytes_ltb a a = false.
Proof. unfold bytes_ltb. rewrite bytes_cmp_refl. reflexivity. Qed.

Lemma ltb_trans a b c : bytes_ltb a b = true -> bytes_ltb b c = true -> bytes_ltb a c = true.
Proof. rewrite !ltb_cmp. apply bytes_cmp_lt_trans. Qed.

Lemma ltb_neq a b : bytes_ltb a b = true -> a <> b.
Proof. intros H E; subst. rewrite ltb_irrefl in H; discriminate. Qed.

Lemma ltb_asym a b : bytes_ltb a b = true -> bytes_ltb b a = false.
Proof.
  intros H. destruct (bytes_ltb b a) eqn:E; [|reflexivity].
  pose proof (ltb_trans _ _ _ H E) as H1. rewrite ltb_irrefl in H1; discriminate.
Qed.

Lemma eqb_false_neq a b : bytes_eqb a b = false <-> a <> b.
Proof.
  split.
  - intros H E. apply bytes_eqb_eq in E. congruence.
  - intros H. destruct (bytes_eqb a b) eqn:E; [|reflexivity]. apply bytes_eqb_eq in E; contradiction.
Qed.

Lemma eqb_sym a b : bytes_eqb a b = bytes_eqb b a.
Proof.
  destruct (bytes_eqb a b) eqn:E.
  - apply bytes_eqb_eq in E; subst. symmetry; apply bytes_eqb_refl.
  - apply eqb_false_neq in E. symmetry. apply eqb_false_neq. congruence.
Qed.

Lemma ltb_eqb_false a b : bytes_ltb a b = true -> bytes_eqb a b = false.
Proof. intros H. apply eqb_false_neq. apply ltb_neq; exact H. Qed.

Lemma cmp_cases a b :
  (bytes_cmp a b = Lt /\ bytes_ltb a b = true /\ bytes_eqb a b = false) \/
  (bytes_cmp a b = Eq /\ a = b) \/
  (bytes_cmp a b = Gt /\ bytes_ltb b a = true /\ bytes_eqb a b = false).
Proof.
  destruct (bytes_cmp a b) eqn:E.
  - right; left. split; [reflexivity|]. apply bytes_cmp_eq; exact E.
  - left. split; [reflexivity|]. assert (H : bytes_ltb a b = true) by (apply ltb_cmp; exact E).
    split; [exact H | apply ltb_eqb_false; exact H].
  - right; right. split; [reflexivity|].
    assert (H : bytes_ltb b a = true) by (apply ltb_cmp; apply cmp_gt_lt; exact E).
    split; [exact H|]. rewrite eqb_sym. apply ltb_eqb_false; exact H.
Qed.

(* ---------- sortedness ---------- *)

Lemma msorted_nil {V} : msorted (@nil (bytes * V)).
Proof. constructor. Qed.

Lemma msorted_inv {V} k (v : V) m :
  msorted ((k, v) :: m) -> msorted m /\ Forall (fun k' => bytes_ltb k k' = true) (keys m).
Proof. intros H. inversion H; subst. split; assumption. Qed.

Lemma msorted_cons {V} k (v : V) m :
  msorted m -> Forall (fun k' => bytes_ltb k k' = true) (keys m) -> msorted ((k, v) :: m).
Proof. intros H1 H2. constructor; assumption. Qed.

Lemma msorted_tail {V} kv (m : smap V) : msorted (kv :: m) -> msorted m.
Proof. destruct kv. intros H. apply msorted_inv in H. tauto. Qed.

Lemma get_in_keys {V} k (m : smap V) v : get k m = Some v -> In k (keys m).
Proof.
  induction m as [|[k' v'] r IH]; cbn; [discriminate|].
  destruct (bytes_eqb k k') eqn:E.
  - apply bytes_eqb_eq in E; subst. intros _. left; reflexivity.
  - intros H. right. apply IH; exact H.
Qed.

Lemma get_not_in {V} k (m : smap V) : ~ In k (keys m) -> get k m = None.
Proof.
  induction m as [|[k' v'] r IH]; cbn; [reflexivity|].
  intros H. destruct (bytes_eqb k k') eqn:E.
  - apply bytes_eqb_eq in E; subst. exfalso; apply H; left; reflexivity.
  - apply IH. intros Hin; apply H; right; exact Hin.
Qed.

Lemma get_below {V} k (m : smap V) :
  Forall (fun k' => bytes_ltb k k' = true) (keys m) -> get k m = None.
Proof.
  intros H. apply get_not_in. intros Hin. rewrite Forall_forall in H.
  apply H in Hin. rewrite ltb_irrefl in Hin; discriminate.
Qed.

Lemma Forall_ltb_trans a b (l : list bytes) :
  bytes_ltb a b = true -> Forall (fun k' => bytes_ltb b k' = true) l -> Forall (fun k' => bytes_ltb a k' = true) l.
Proof.
  intros Hab H. rewrite Forall_forall in *. intros x Hx. eapply ltb_trans; [exact Hab | apply H; exact Hx].
Qed.

Lemma get_lt_head {V} k k' (v : V) r :
  msorted ((k', v) :: r) -> bytes_ltb k k' = true -> get k ((k', v) :: r) = None.
Proof.
  intros Hs Hlt. apply get_below. cbn. constructor; [exact Hlt|].
  apply msorted_inv in Hs. destruct Hs as [_ Hall]. eapply Forall_ltb_trans; eauto.
Qed.

Lemma keys_set_in {V} x k (v : V) m : In x (keys (set k v m)) -> x = k \/ In x (keys m).
Proof.
  induction m as [|[k' v'] r IH]; cbn.
  - intros [H|[]]; left; auto.
  - destruct (bytes_cmp k k'); cbn.
    + intros [H|H]; [left; auto | right; right; exact H].
    + intros [H|H]; [left; auto | right; exact H].
    + intros [H|H]; [right; left; exact H|]. apply IH in H. destruct H; [left|right; right]; assumption.
Qed.

Lemma keys_del_in {V} x k (m : smap V) : In x (keys (del k m)) -> In x (keys m).
Proof.
  induction m as [|[k' v'] r IH]; cbn; [tauto|].
  destruct (bytes_eqb k k'); cbn.
  - intros H; right; exact H.
  - intros [H|H]; [left; exact H | right; apply IH; exact H].
Qed.

Lemma msorted_set {V} k (v : V) m : msorted m -> msorted (set k v m).
Proof.
  induction m as [|[k' v'] r IH]; intros Hs; cbn.
  - apply msorted_cons; [constructor | constructor].
  - pose proof (msorted_inv _ _ _ Hs) as [Hr Hall].
    destruct (cmp_cases k k') as [[E [Hlt _]]|[[E Heq]|[E [Hgt _]]]]; rewrite E.
    + apply msorted_cons; [exact Hs|]. cbn. constructor; [exact Hlt|]. eapply Forall_ltb_trans; eauto.
    + subst k'. apply msorted_cons; assumption.
    + apply msorted_cons; [apply IH; exact Hr|].
      rewrite Forall_forall. intros x Hx. apply keys_set_in in Hx. destruct Hx as [->|Hx]; [exact Hgt|].
      rewrite Forall_forall in Hall. apply Hall; exact Hx.
Qed.

Lemma msorted_del {V} k (m : smap V) : msorted m -> msorted (del k m).
Proof.
  induction m as [|[k' v'] r IH]; intros Hs; cbn; [exact Hs|].
  pose proof (msorted_inv _ _ _ Hs) as [Hr Hall].
  destruct (bytes_eqb k k'); [exact Hr|].
  apply msorted_cons; [apply IH; exact Hr|].
  rewrite Forall_forall in *. intros x Hx. apply Hall. eapply keys_del_in; exact Hx.
Qed.

(* ---------- get / set / del algebra ---------- *)

Lemma get_set_same {V} k (v : V) m : get k (set k v m) = Some v.
Proof.
  induction m as [|[k' v'] r IH]; cbn.
  - rewrite bytes_eqb_refl; reflexivity.
  - destruct (cmp_cases k k') as [[E [_ Hne]]|[[E Heq]|[E [_ Hne]]]]; rewrite E; cbn.
    + rewrite bytes_eqb_refl; reflexivity.
    + rewrite bytes_eqb_refl; reflexivity.
    + rewrite Hne. exact IH.
Qed.

Lemma get_set_other {V} k k2 (v : V) m : k2 <> k -> get k2 (set k v m) = get k2 m.
Proof.
  intros Hne. apply eqb_false_neq in Hne.
  induction m as [|[k' v'] r IH]; cbn.
  - rewrite Hne; reflexivity.
  - destruct (cmp_cases k k') as [[E _]|[[E Heq]|[E _]]]; rewrite E; cbn.
    + rewrite Hne. reflexivity.
    + subst k'. rewrite Hne. reflexivity.
    + rewrite IH. reflexivity.
Qed.

Lemma get_del_same {V} k (m : smap V) : msorted m -> get k (del k m) = None.
Proof.
  induction m as [|[k' v'] r IH]; intros Hs; cbn; [reflexivity|].
  pose proof (msorted_inv _ _ _ Hs) as [Hr Hall].
  destruct (bytes_eqb k k') eqn:E.
  - apply bytes_eqb_eq in E; subst. apply get_below; exact Hall.
  - cbn. rewrite E. apply IH; exact Hr.
Qed.

Lemma get_del_other {V} k k2 (m : smap V) : k2 <> k -> get k2 (del k m) = get k2 m.
Proof.
  intros Hne. induction m as [|[k' v'] r IH]; cbn; [reflexivity|].
  destruct (bytes_eqb k k') eqn:E.
  - apply bytes_eqb_eq in E; subst. apply eqb_false_neq in Hne. rewrite Hne. reflexivity.
  - cbn. rewrite IH. reflexivity.
Qed.

Lemma del_absent {V} k (m : smap V) : get k m = None -> del k m = m.
Proof.
  induction m as [|[k' v'] r IH]; cbn; [reflexivity|].
  destruct (bytes_eqb k k'); [discriminate|]. intros H. rewrite IH by exact H. reflexivity.
Qed.

(* two sorted maps with the same lookups are the same list *)
Lemma smap_ext {V} (m1 m2 : smap V) :
  msorted m1 -> msorted m2 -> (forall k, get k m1 = get k m2) -> m1 = m2.
Proof.
  revert m2. induction m1 as [|[k1 v1] r1 IH]; intros [|[k2 v2] r2] H1 H2 Hget.
  - reflexivity.
  - specialize (Hget k2). cbn in Hget. rewrite bytes_eqb_refl in Hget. discriminate.
  - specialize (Hget k1). cbn in Hget. rewrite bytes_eqb_refl in Hget. discriminate.
  - assert (Hk : k1 = k2).
    { destruct (cmp_cases k1 k2) as [[_ [Hlt _]]|[[_ Heq]|[_ [Hgt _]]]]; [|exact Heq|].
      - pose proof (Hget k1) as G. rewrite (get_lt_head _ _ _ _ H2 Hlt) in G.
        cbn in G. rewrite bytes_eqb_refl in G. discriminate.
      - pose proof (Hget k2) as G. rewrite (get_lt_head _ _ _ _ H1 Hgt) in G.
        cbn in G. rewrite bytes_eqb_refl in G. discriminate. }
    subst k2.
    assert (Hv : v1 = v2).
    { pose proof (Hget k1) as G. cbn in G. rewrite bytes_eqb_refl in G. congruence. }
    subst v2. f_equal.
    pose proof (msorted_inv _ _ _ H1) as [Hr1 Ha1]. pose proof (msorted_inv _ _ _ H2) as [Hr2 Ha2].
    apply IH; [exact Hr1 | exact Hr2|].
    intros k. destruct (bytes_eqb k k1) eqn:E.
    + apply bytes_eqb_eq in E; subst. rewrite (get_below _ _ Ha1), (get_below _ _ Ha2). reflexivity.
    + specialize (Hget k). cbn in Hget. rewrite E in Hget. exact Hget.
Qed.

Lemma set_same {V} k (v : V) m : msorted m -> get k m = Some v -> set k v m = m.
Proof.
  intros Hs Hg. apply smap_ext; [apply msorted_set; exact Hs | exact Hs|].
  intros k2. destruct (bytes_eqb k2 k) eqn:E.
  - apply bytes_eqb_eq in E; subst. rewrite get_set_same. symmetry; exact Hg.
  - apply eqb_false_neq in E. apply get_set_other; exact E.
Qed.

Lemma set_set {V} k (v1 v2 : V) m : msorted m -> set k v2 (set k v1 m) = set k v2 m.
Proof.
  intros Hs. apply smap_ext; [apply msorted_set; apply msorted_set; exact Hs | apply msorted_set; exact Hs|].
  intros k2. destruct (bytes_eqb k2 k) eqn:E.
  - apply bytes_eqb_eq in E; subst. rewrite !get_set_same. reflexivity.
  - apply eqb_false_neq in E. rewrite !get_set_other by exact E. reflexivity.
Qed.

Lemma del_set_same {V} k (v : V) m : msorted m -> del k (set k v m) = del k m.
Proof.
  intros Hs. apply smap_ext; [apply msorted_del; apply msorted_set; exact Hs | apply msorted_del; exact Hs|].
  intros k2. destruct (bytes_eqb k2 k) eqn:E.
  - apply bytes_eqb_eq in E; subst. rewrite !get_del_same; [reflexivity | exact Hs | apply msorted_set; exact Hs].
  - apply eqb_false_neq in E. rewrite !get_del_other by exact E. apply get_set_other; exact E.
Qed.

Lemma set_del_same {V} k (v : V) m : msorted m -> set k v (del k m) = set k v m.
Proof.
  intros Hs. apply smap_ext; [apply msorted_set; apply msorted_del; exact Hs | apply msorted_set; exact Hs|].
  intros k2. destruct (bytes_eqb k2 k) eqn:E.
  - apply bytes_eqb_eq in E; subst. rewrite !get_set_same. reflexivity.
  - apply eqb_false_neq in E. rewrite !get_set_other by exact E. apply get_del_other; exact E.
Qed.

Lemma set_nonempty {V} k (v : V) m : set k v m <> [].
Proof. destruct m as [|[k' v'] r]; cbn; [discriminate|]. destruct (bytes_cmp k k'); discriminate. Qed.

Lemma get_nil {V} k : get k (@nil (bytes * V)) = None.
Proof. reflexivity. Qed.

Lemma get_some_nonempty {V} k (m : smap V) v : get k m = Some v -> m <> [].
Proof. destruct m; [discriminate|]. intros _; discriminate. Qed.

(* ---------- Forall over entries ---------- *)

Lemma get_In {V} k (m : smap V) v : get k m = Some v -> In (k, v) m.
Proof.
  induction m as [|[k' v'] r IH]; cbn; [discriminate|].
  destruct (bytes_eqb k k') eqn:E.
  - apply bytes_eqb_eq in E; subst. intros H; inversion H; subst. left; reflexivity.
  - intros H. right. apply IH; exact H.
Qed.

Lemma In_get {V} k (m : smap V) v : msorted m -> In (k, v) m -> get k m = Some v.
Proof.
  induction m as [|[k' v'] r IH]; intros Hs; cbn; [tauto|].
  pose proof (msorted_inv _ _ _ Hs) as [Hr Hall].
  intros [H|H].
  - inversion H; subst. rewrite bytes_eqb_refl. reflexivity.
  - assert (Hk : In k (keys r)) by (apply (in_map fst) in H; exact H).
    rewrite Forall_forall in Hall. apply Hall in Hk.
    rewrite eqb_sym, (ltb_eqb_false _ _ Hk). apply IH; assumption.
Qed.

Lemma Forall_get {V} (Q : bytes * V -> Prop) k (m : smap V) v : Forall Q m -> get k m = Some v -> Q (k, v).
Proof. intros HF Hg. rewrite Forall_forall in HF. apply HF. apply get_In; exact Hg. Qed.

Lemma Forall_set {V} (Q : bytes * V -> Prop) k (v : V) m : Forall Q m -> Q (k, v) -> Forall Q (set k v m).
Proof.
  intros HF Hq. induction m as [|[k' v'] r IH]; cbn.
  - constructor; [exact Hq | constructor].
  - inversion HF; subst. destruct (bytes_cmp k k').
    + constructor; assumption.
    + constructor; assumption.
    + constructor; [assumption | apply IH; assumption].
Qed.

Lemma Forall_del {V} (Q : bytes * V -> Prop) k (m : smap V) : Forall Q m -> Forall Q (del k m).
Proof.
  intros HF. induction m as [|[k' v'] r IH]; cbn; [constructor|].
  inversion HF; subst. destruct (bytes_eqb k k'); [assumption|]. constructor; [assumption | apply IH; assumption].
Qed.

(* ---------- mapping the values ---------- *)

Lemma keys_map {A B} (f : A -> B) m : keys (smap_map f m) = keys m.
Proof. unfold keys, smap_map. rewrite map_map. reflexivity. Qed.

Lemma msorted_map {A B} (f : A -> B) m : msorted m -> msorted (smap_map f m).
Proof. unfold msorted. rewrite keys_map. auto. Qed.

Lemma get_map {A B} (f : A -> B) k m : get k (smap_map f m) = option_map f (get k m).
Proof.
  induction m as [|[k' v'] r IH]; cbn; [reflexivity|].
  destruct (bytes_eqb k k'); [reflexivity | exact IH].
Qed.

Lemma set_map {A B} (f : A -> B) k v m : smap_map f (set k v m) = set k (f v) (smap_map f m).
Proof.
  unfold smap_map. induction m as [|[k' v'] r IH]; cbn; [reflexivity|].
  destruct (bytes_cmp k k'); cbn; [reflexivity | reflexivity | rewrite IH; reflexivity].
Qed.

Lemma del_map {A B} (f : A -> B) k m : smap_map f (del k m) = del k (smap_map f m).
Proof.
  unfold smap_map. induction m as [|[k' v'] r IH]; cbn; [reflexivity|].
  destruct (bytes_eqb k k'); cbn; [reflexivity | rewrite IH; reflexivity].
Qed.

Lemma smap_map_nil_inv {A B} (f : A -> B) m : smap_map f m = [] -> m = [].
Proof. destruct m; [reflexivity | discriminate]. Qed.

Lemma smap_map_length {A B} (f : A -> B) m : length (smap_map f m) = length m.
Proof. apply map_length. Qed.
