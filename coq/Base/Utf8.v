(* utf8.DecodeRuneInString, transcribed from Go's unicode/utf8 (first[] table and acceptRanges). *)
From T38 Require Import Base.Bytes.
Open Scope N_scope.

Definition RuneError : N := 65533.

(* first[b]: 0xF0 = ASCII, 0xF1 = invalid, else (accept-range index << 4) | size *)
Definition utf8_first (b : N) : N :=
  if b <? 128 then 240
  else if b <? 194 then 241
  else if b <? 224 then 2
  else if b =? 224 then 19
  else if b <? 237 then 3
  else if b =? 237 then 35
  else if b <? 240 then 3
  else if b =? 240 then 52
  else if b <? 244 then 4
  else if b =? 244 then 68
  else 241.

Definition accept_lo (i : N) : N :=
  if i =? 1 then 160 else if i =? 3 then 144 else 128.
Definition accept_hi (i : N) : N :=
  if i =? 2 then 159 else if i =? 4 then 143 else 191.

(* returns (rune, size) ; size = 0 only for the empty string *)
Definition decode_rune (s : bytes) : N * nat :=
  match s with
  | [] => (RuneError, 0%nat)
  | s0 :: t0 =>
      let x := utf8_first s0 in
      if 240 <=? x then (if x =? 240 then (s0, 1%nat) else (RuneError, 1%nat))
      else
        let sz := x mod 8 in
        let ar := x / 16 in
        if N.of_nat (length s) <? sz then (RuneError, 1%nat) else
        match t0 with
        | [] => (RuneError, 1%nat)
        | s1 :: t1 =>
            if (s1 <? accept_lo ar) || (accept_hi ar <? s1) then (RuneError, 1%nat) else
            if sz <=? 2 then ((s0 mod 32) * 64 + (s1 mod 64), 2%nat) else
            match t1 with
            | [] => (RuneError, 1%nat)
            | s2 :: t2 =>
                if (s2 <? 128) || (191 <? s2) then (RuneError, 1%nat) else
                if sz <=? 3 then ((s0 mod 16) * 4096 + (s1 mod 64) * 64 + (s2 mod 64), 3%nat) else
                match t2 with
                | [] => (RuneError, 1%nat)
                | s3 :: _ =>
                    if (s3 <? 128) || (191 <? s3) then (RuneError, 1%nat) else
                    ((s0 mod 8) * 262144 + (s1 mod 64) * 4096 + (s2 mod 64) * 64 + (s3 mod 64), 4%nat)
                end
            end
        end
  end.

Lemma decode_rune_size_pos s : s <> [] -> (1 <= snd (decode_rune s))%nat.
Proof.
  destruct s as [|s0 t0]; [congruence|]; intros _. unfold decode_rune.
  repeat match goal with
  | |- context [if ?c then _ else _] => destruct c
  | |- context [match ?l with [] => _ | _ :: _ => _ end] => destruct l
  end; cbn; lia.
Qed.
