(* Byte strings as lists of N (each < 256 when well-formed) and Go's string order. *)
From Coq Require Export List NArith ZArith Bool Lia.
From Coq Require Import ZifyN ZifyNat ZifyBool.
Export ListNotations.
Open Scope N_scope.

Definition byte := N.
Definition bytes := list N.

Definition wf_bytes (b : bytes) : Prop := Forall (fun x => x < 256) b.
Definition wf_bytesb (b : bytes) : bool := forallb (fun x => x <? 256) b.

Lemma wf_bytesb_spec b : wf_bytesb b = true <-> wf_bytes b.
Proof.
  unfold wf_bytesb, wf_bytes. rewrite forallb_forall, Forall_forall.
  split; intros H x Hx; specialize (H x Hx); lia.
Qed.

Fixpoint bytes_eqb (a b : bytes) : bool :=
  match a, b with
  | [], [] => true
  | x :: a', y :: b' => (x =? y) && bytes_eqb a' b'
  | _, _ => false
  end.

Lemma bytes_eqb_eq a b : bytes_eqb a b = true <-> a = b.
Proof.
  revert b; induction a as [|x a IH]; intros [|y b]; cbn; try (split; congruence).
  rewrite andb_true_iff, IH, N.eqb_eq. split; [intros [-> ->]; reflexivity | intros H; inversion H; auto].
Qed.

Lemma bytes_eqb_refl a : bytes_eqb a a = true.
Proof. apply bytes_eqb_eq; reflexivity. Qed.

(* Go's string comparison: lexicographic on bytes, shorter prefix first. *)
Fixpoint bytes_cmp (a b : bytes) : comparison :=
  match a, b with
  | [], [] => Eq
  | [], _ :: _ => Lt
  | _ :: _, [] => Gt
  | x :: a', y :: b' =>
      match N.compare x y with
      | Eq => bytes_cmp a' b'
      | c => c
      end
  end.

Definition bytes_ltb (a b : bytes) : bool := match bytes_cmp a b with Lt => true | _ => false end.
Definition bytes_leb (a b : bytes) : bool := match bytes_cmp a b with Gt => false | _ => true end.
Definition bytes_gtb (a b : bytes) : bool := bytes_ltb b a.
Definition bytes_geb (a b : bytes) : bool := bytes_leb b a.

Lemma bytes_cmp_refl a : bytes_cmp a a = Eq.
Proof. induction a as [|x a IH]; cbn; [reflexivity|]. rewrite N.compare_refl; exact IH. Qed.

Lemma bytes_cmp_eq a b : bytes_cmp a b = Eq <-> a = b.
Proof.
  revert b; induction a as [|x a IH]; intros [|y b]; cbn; try (split; congruence).
  destruct (N.compare_spec x y) as [->|H|H].
  - rewrite IH. split; [intros ->; reflexivity | intros H; inversion H; auto].
  - split; [discriminate | intros E; inversion E; lia].
  - split; [discriminate | intros E; inversion E; lia].
Qed.

Lemma bytes_cmp_antisym a b : bytes_cmp b a = CompOpp (bytes_cmp a b).
Proof.
  revert b; induction a as [|x a IH]; intros [|y b]; cbn; try reflexivity.
  rewrite (N.compare_antisym x y). destruct (N.compare x y); cbn; auto.
Qed.

Lemma bytes_cmp_lt_trans a b c :
  bytes_cmp a b = Lt -> bytes_cmp b c = Lt -> bytes_cmp a c = Lt.
Proof.
  revert b c; induction a as [|x a IH]; intros [|y b] [|z c]; cbn; try congruence.
  destruct (N.compare_spec x y) as [->|Hxy|Hxy]; try discriminate.
  - destruct (N.compare_spec y z) as [->|Hyz|Hyz]; try discriminate; auto.
    + intros H1 H2. eapply IH; eauto.
  - destruct (N.compare_spec y z) as [->|Hyz|Hyz]; try discriminate; intros _ _.
    + destruct (N.compare_spec x z); try lia; reflexivity.
    + destruct (N.compare_spec x z); try lia; reflexivity.
Qed.

Lemma bytes_leb_refl a : bytes_leb a a = true.
Proof. unfold bytes_leb; rewrite bytes_cmp_refl; reflexivity. Qed.

Lemma bytes_leb_trans a b c : bytes_leb a b = true -> bytes_leb b c = true -> bytes_leb a c = true.
Proof.
  unfold bytes_leb. intros H1 H2.
  destruct (bytes_cmp a b) eqn:E1; try discriminate.
  - apply bytes_cmp_eq in E1; subst; exact H2.
  - destruct (bytes_cmp b c) eqn:E2; try discriminate.
    + apply bytes_cmp_eq in E2; subst; rewrite E1; reflexivity.
    + rewrite (bytes_cmp_lt_trans _ _ _ E1 E2); reflexivity.
Qed.

Lemma bytes_ltb_leb a b : bytes_ltb a b = true -> bytes_leb a b = true.
Proof. unfold bytes_ltb, bytes_leb. destruct (bytes_cmp a b); congruence. Qed.

Lemma bytes_leb_total a b : bytes_leb a b = true \/ bytes_leb b a = true.
Proof.
  unfold bytes_leb. rewrite (bytes_cmp_antisym a b).
  destruct (bytes_cmp a b); cbn; auto.
Qed.

Lemma bytes_leb_antisym a b : bytes_leb a b = true -> bytes_leb b a = true -> a = b.
Proof.
  unfold bytes_leb. rewrite (bytes_cmp_antisym a b).
  destruct (bytes_cmp a b) eqn:E; cbn; try discriminate.
  intros _ _. apply bytes_cmp_eq; exact E.
Qed.

(* a <= a ++ s *)
Lemma bytes_leb_app a s : bytes_leb a (a ++ s) = true.
Proof.
  unfold bytes_leb. induction a as [|x a IH]; cbn.
  - destruct s; reflexivity.
  - rewrite N.compare_refl. exact IH.
Qed.

Lemma bytes_cmp_app_same p a b : bytes_cmp (p ++ a) (p ++ b) = bytes_cmp a b.
Proof. induction p as [|x p IH]; cbn; [reflexivity|]. rewrite N.compare_refl; exact IH. Qed.

(* p ++ [x] ++ s  <  p ++ [y]  whenever x < y *)
Lemma bytes_cmp_app_lt p x y s t : x < y -> bytes_cmp (p ++ x :: s) (p ++ y :: t) = Lt.
Proof.
  intros H. rewrite bytes_cmp_app_same. cbn.
  destruct (N.compare_spec x y); try lia; reflexivity.
Qed.

Definition hasPrefix (p s : bytes) : Prop := exists r, s = p ++ r.

Fixpoint hasPrefixb (p s : bytes) : bool :=
  match p, s with
  | [], _ => true
  | x :: p', y :: s' => (x =? y) && hasPrefixb p' s'
  | _ :: _, [] => false
  end.

Lemma hasPrefixb_spec p s : hasPrefixb p s = true <-> hasPrefix p s.
Proof.
  revert s; induction p as [|x p IH]; intros s; cbn.
  - split; [intros _; exists s; reflexivity | reflexivity].
  - destruct s as [|y s].
    + split; [discriminate | intros [r Hr]; discriminate].
    + rewrite andb_true_iff, N.eqb_eq, IH. split.
      * intros [-> [r ->]]. exists r; reflexivity.
      * intros [r Hr]. inversion Hr; subst. split; [reflexivity | exists r; reflexivity].
Qed.

(* removelast / last helpers used by prefix-successor computations *)
Fixpoint strip_trailing (v : N) (b : bytes) : bytes :=
  match b with
  | [] => []
  | x :: b' =>
      match strip_trailing v b' with
      | [] => if x =? v then [] else [x]
      | r => x :: r
      end
  end.

Lemma strip_trailing_decomp v b :
  exists k, b = strip_trailing v b ++ repeat v k.
Proof.
  induction b as [|x b [k IH]]; cbn.
  - exists 0%nat; reflexivity.
  - destruct (strip_trailing v b) as [|y r] eqn:E.
    + destruct (N.eqb_spec x v) as [->|Hne].
      * exists (S k). cbn in *. rewrite IH at 1. reflexivity.
      * exists k. cbn in *. rewrite IH at 1. reflexivity.
    + exists k. cbn. rewrite IH at 1. reflexivity.
Qed.

Lemma strip_trailing_last v b :
  strip_trailing v b <> [] -> exists q x, strip_trailing v b = q ++ [x] /\ x <> v.
Proof.
  induction b as [|y b IH]; cbn; [congruence|].
  destruct (strip_trailing v b) as [|z r] eqn:E.
  - destruct (N.eqb_spec y v); [congruence|]. intros _. exists [], y; split; [reflexivity|assumption].
  - intros _. destruct IH as [q [x [Hq Hx]]]; [congruence|].
    exists (y :: q), x. split; [cbn; rewrite Hq; reflexivity | assumption].
Qed.
