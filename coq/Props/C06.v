(* C06 — A caught-up follower is an exact copy of its leader.
   Only the property theorems; every one is closed by a lemma of Proofs/FollowProofs.v about the
   executable model Model/Follow.v (followCheckSome / followStep / followHandleCommand; mode [Repaired] =
   the working tree = commit "follow-start-over" (mode [Fixed1]) + proposed_fixes/C06-check-whole-prefix.diff;
   mode [Pinned] = the code as found).
   Section hypotheses that become premises: [digest_eqb_spec] (string comparison of two digests),
   [md5_inj] (MD5 has no collision on equal-length blocks — trusted), [0 < csz] (checked for the
   regenerated constant below), [okrec]/prefix-freeness (RESP frames are self-delimiting — trusted;
   satisfiable: toy_prefix_free). The command semantics (st, st0, app) is arbitrary. *)
From Coq Require Import List ZArith Bool.
From T38 Require Import Base.Bytes Gen.Consts Model.Follow Proofs.FollowProofs.
Import ListNotations.
Open Scope Z_scope.

(* the regenerated constant satisfies the only numeric premise *)
Example c06_checksumsz_positive : 0 < c_checksumsz.
Proof. reflexivity. Qed.

(* the min/max/limit search terminates within the fuel the model gives it, for all files, sizes, modes *)
Theorem c06_search_terminates :
  forall digest md5 digest_eqb csz, 0 < csz ->
  forall md f fsz l, fst (check_some digest md5 digest_eqb csz md f fsz l) <> CSFuel.
Proof. exact check_some_no_fuel. Qed.
Print Assumptions c06_search_terminates.

(* the repaired check against ANY leader log: it starts over, or it keeps the first k records of the
   follower's file (all of them when "intact") and THE TWO FILES AGREE BYTE FOR BYTE UP TO THE RESUME
   POSITION flen (firstn k f), which lies inside the leader's file; it never errs *)
Theorem c06_search_sound :
  forall digest md5 digest_eqb,
  (forall a b, digest_eqb a b = true <-> a = b) ->
  (forall a b : bytes, length a = length b -> md5 a = md5 b -> a = b) ->
  forall csz, 0 < csz ->
  forall f l res pr,
  check_some digest md5 digest_eqb csz Repaired f (flen f) l = (res, pr) ->
  res = CSStartOverSmall \/ res = CSStartOver \/
  exists k, (k <= length f)%nat /\
    firstn (Z.to_nat (flen (firstn k f))) (fbytes f) = firstn (Z.to_nat (flen (firstn k f))) (fbytes l) /\
    flen (firstn k f) <= blen (fbytes l) /\
    (res = CSTruncate (flen (firstn k f)) k \/ (res = CSIntact (flen f) /\ flen (firstn k f) = flen f)).
Proof. exact check_some_outcomes. Qed.
Print Assumptions c06_search_sound.

(* what the binary search alone establishes, in every mode: the first block and the block ending at the
   search position q are byte-equal - nothing about the blocks in between (see c06_fixed1_blind_spot_refuted) *)
Theorem c06_search_probed_blocks :
  forall digest md5 digest_eqb,
  (forall a b, digest_eqb a b = true <-> a = b) ->
  (forall a b : bytes, length a = length b -> md5 a = md5 b -> a = b) ->
  forall csz, 0 < csz ->
  forall md f fsz l res probes pos,
  check_some digest md5 digest_eqb csz md f fsz l = (res, probes) ->
  (res = CSIntact pos \/ exists k, res = CSTruncate pos k) ->
  exists q, csz <= q <= pos /\ q <= fsz /\
    firstn (Z.to_nat csz) (fbytes f) = firstn (Z.to_nat csz) (fbytes l) /\
    firstn (Z.to_nat csz) (skipn (Z.to_nat (q - csz)) (fbytes f)) =
    firstn (Z.to_nat csz) (skipn (Z.to_nat (q - csz)) (fbytes l)).
Proof. exact check_some_probed. Qed.
Print Assumptions c06_search_probed_blocks.

(* a follower file that is a record-boundary prefix of the leader's log, at least one block long: the
   check keeps a record-boundary prefix of it or all of it and resumes exactly at the end of what is kept *)
Theorem c06_prefix_resume :
  forall digest md5 digest_eqb,
  (forall a b, digest_eqb a b = true <-> a = b) ->
  (forall a b : bytes, length a = length b -> md5 a = md5 b -> a = b) ->
  forall csz, 0 < csz ->
  forall f rest, csz <= flen f ->
  exists k, (k <= length f)%nat /\
    (fst (check_some digest md5 digest_eqb csz Repaired f (flen f) (f ++ rest)) = CSTruncate (flen (firstn k f)) k \/
     fst (check_some digest md5 digest_eqb csz Repaired f (flen f) (f ++ rest)) = CSIntact (flen f)).
Proof. exact check_some_prefix. Qed.
Print Assumptions c06_prefix_resume.

(* ... and from two blocks on it returns exactly |F|: nothing is truncated *)
Theorem c06_prefix_resume_exact :
  forall digest md5 digest_eqb,
  (forall a b, digest_eqb a b = true <-> a = b) ->
  (forall a b : bytes, length a = length b -> md5 a = md5 b -> a = b) ->
  forall csz, 0 < csz ->
  forall f rest, 2 * csz <= flen f ->
  fst (check_some digest md5 digest_eqb csz Repaired f (flen f) (f ++ rest)) = CSIntact (flen f).
Proof. exact check_some_prefix_exact. Qed.
Print Assumptions c06_prefix_resume_exact.

(* after ANY (re)connect of a follower whose dataset is the replay of its own log - whatever that log
   contains - the follower is in step: memory = replay of its file, aofsz = size of its file,
   file ++ pending stream = leader's log *)
Theorem c06_connect_in_step :
  forall digest md5 digest_eqb,
  (forall a b, digest_eqb a b = true <-> a = b) ->
  (forall a b : bytes, length a = length b -> md5 a = md5 b -> a = b) ->
  forall csz, 0 < csz ->
  forall st st0 app (okrec : record -> Prop),
  (forall (a b : record) x y, okrec a -> okrec b -> a ++ x = b ++ y -> a = b) ->
  forall l f,
  oklog okrec l -> wf_fol st st0 app okrec f ->
  synced st st0 app l (connect digest md5 digest_eqb csz st st0 app Repaired l f) /\
  wf_fol st st0 app okrec (connect digest md5 digest_eqb csz st st0 app Repaired l f) /\
  exists s, f_ses (connect digest md5 digest_eqb csz st st0 app Repaired l f) = Some s /\ s_aofsize s = flen l.
Proof. exact connect_synced. Qed.
Print Assumptions c06_connect_in_step.

(* convergence: from ANY follower (any log content; dataset = replay of that log, aofsz = its size), for
   ANY command semantics and ANY sequence of reconnect attempts / connects / deliveries / dropped
   connections / follower restarts / pauses / leader appends / leader AOFSHRINKs: once the stream has been
   handled completely the follower's dataset is the replay of the leader's log, its log is identical to
   the leader's and aofsz is its size.  Nothing is assumed about when or in which state it connects. *)
Theorem c06_converge :
  forall digest md5 digest_eqb,
  (forall a b, digest_eqb a b = true <-> a = b) ->
  (forall a b : bytes, length a = length b -> md5 a = md5 b -> a = b) ->
  forall csz, 0 < csz ->
  forall st st0 app (okrec : record -> Prop),
  (forall (a b : record) x y, okrec a -> okrec b -> a ++ x = b ++ y -> a = b) ->
  forall l0 f0 es,
  upd_ok st st0 app l0 -> oklog okrec l0 -> wf_fol st st0 app okrec f0 -> f_ses f0 = None ->
  ok_trace digest md5 digest_eqb csz st st0 app okrec (l0, f0) es ->
  forall l f, run digest md5 digest_eqb csz st st0 app Repaired (l0, f0) es = (l, f) -> drained f = true ->
  f_mem f = replay st st0 app l /\ f_file f = l /\ f_aofsz f = flen l.
Proof. exact converge. Qed.
Print Assumptions c06_converge.

(* never caught-up while lacking acknowledged commands: l1 = the leader's log when the follower (in ANY
   state) (re)connects; kept = f_file (connect ...) = what it keeps of its own log (a record prefix of l1 whose
   replay is its dataset at that moment: c06_connect_in_step).  Whatever happens during the session -
   deliveries, pauses, leader writes, records the follower's OWN sweeper appends to its log (EOwn) - the
   caught-up flag implies that every record of l1 beyond kept has been handed to the follower (s_done) *)
Theorem c06_not_premature :
  forall digest md5 digest_eqb,
  (forall a b, digest_eqb a b = true <-> a = b) ->
  (forall a b : bytes, length a = length b -> md5 a = md5 b -> a = b) ->
  forall csz, 0 < csz ->
  forall st st0 app (okrec : record -> Prop),
  (forall (a b : record) x y, okrec a -> okrec b -> a ++ x = b ++ y -> a = b) ->
  forall l1 f1 es,
  oklog okrec l1 -> wf_fol st st0 app okrec f1 -> Forall session_event es ->
  forall l f, run digest md5 digest_eqb csz st st0 app Repaired (step digest md5 digest_eqb csz st st0 app Repaired (l1, f1) EConnect) es = (l, f) ->
  f_cup f = true ->
  exists s extra, f_ses f = Some s /\
    f_file (connect digest md5 digest_eqb csz st st0 app Repaired l1 f1) ++ s_done s = l1 ++ extra.
Proof. exact not_premature. Qed.
Print Assumptions c06_not_premature.

(* a (re)connect attempt clears the flag before the leader is dialled: while the attempt is under way -
   stalled or failing at ANY stage of the handshake (dial, AUTH, SERVER, checksum probes, REPLCONF, AOF),
   the leader acknowledging more writes, the connection dropped again, further attempts starting - the
   follower does not report caught up (both modes; the proxy parks the handshake at each stage and the
   harness compares HEALTHZ / SERVER caught_up with this) *)
Theorem c06_reconnecting_not_caught_up :
  forall digest md5 digest_eqb csz st st0 app md l f es,
  Forall handshake_event es ->
  f_cup (snd (run digest md5 digest_eqb csz st st0 app md (step digest md5 digest_eqb csz st st0 app md (l, f) EBegin) es)) = false.
Proof. exact reconnecting_not_caught_up. Qed.
Print Assumptions c06_reconnecting_not_caught_up.

(* AOFSHRINK on the leader, FOLLOW to another leader, a dropped connection and a follower restart end the running
   session in whatever phase it is (initial bulk copy or tailing) and in every mode; after EShrink l' / EFollow l'
   the log the follower has to agree with is l' (c06_connect_in_step / c06_converge then apply to l'; the harness
   checks on real servers that a new replication session is opened: correspondence "session-ends") *)
Theorem c06_session_ends :
  forall digest md5 digest_eqb csz st st0 app md l f e,
  session_ending e ->
  f_ses (snd (step digest md5 digest_eqb csz st st0 app md (l, f) e)) = None /\
  (forall l', e = EShrink l' \/ e = EFollow l' -> fst (step digest md5 digest_eqb csz st st0 app md (l, f) e) = l').
Proof. exact session_ends. Qed.
Print Assumptions c06_session_ends.

(* ---- concrete instances: identity "MD5" (trivially injective), toy command semantics ---- *)
Definition idm (b : bytes) : bytes := b.
Definition mk (file : file) (aofsz : Z) : fol toy_st :=
  {| f_file := file; f_mem := replay toy_st [] toy_app file; f_aofsz := aofsz; f_cup := false; f_once := false;
     f_ses := None; f_broken := false |}.
Definition trun md csz := run bytes idm bytes_eqb csz toy_st [] toy_app md.

(* toy records are self-delimiting: the tag fixes the length *)
Definition toy_okrec (r : record) : Prop :=
  match r with
  | [1; _; _; _]%N | [2; _; _]%N | [3; _; _]%N | [4; _]%N => True
  | _ => False
  end.

Example toy_prefix_free : forall (a b : record) x y, toy_okrec a -> toy_okrec b -> a ++ x = b ++ y -> a = b.
Proof.
  intros a b x y Ha Hb E.
  destruct a as [|t [|a1 [|a2 [|a3 [|a4 a]]]]]; cbn in Ha; try contradiction;
  destruct b as [|u [|b1 [|b2 [|b3 [|b4 b]]]]]; cbn in Hb; try contradiction;
  repeat match goal with H : match ?t with _ => _ end |- _ => destruct t; try contradiction end;
  cbn in E; inversion E; subst; try reflexivity; try discriminate;
  repeat match goal with H : Npos _ = Npos _ |- _ => inversion H end.
Qed.

(* the hypotheses of c06_converge are satisfiable by a non-trivial state: a follower holding unrelated data,
   real checksumsz; it ends with the leader's two objects and nothing else *)
Example c06_converge_example :
  let l := [[1;7;1;5]; [1;7;2;6]]%N in
  let f0 := mk [[1;9;9;9]]%N 4 in
  (upd_ok toy_st [] toy_app l /\ oklog toy_okrec l /\ wf_fol toy_st [] toy_app toy_okrec f0 /\
   ok_trace bytes idm bytes_eqb c_checksumsz toy_st [] toy_app toy_okrec (l, f0) [EBegin; EConnect; EDeliver; EDeliver]) /\
  let f := snd (trun Repaired c_checksumsz (l, f0) [EBegin; EConnect; EDeliver; EDeliver]) in
  drained f = true /\ f_cup f = true /\ f_mem f = [(7, [(1, 5); (2, 6)])]%N /\ f_file f = l.
Proof.
  split; [|vm_compute; repeat split].
  split; [|split; [|split]].
  - intros pre r post E. destruct pre as [|a [|b [|c pre]]]; cbn in E; inversion E; subst; try reflexivity.
    all: try (destruct pre; discriminate).
  - split; repeat constructor.
  - split; [reflexivity|split; [reflexivity|split; repeat constructor]].
  - cbn. repeat split.
Qed.

(* re-pointing: a follower in step with leader A (2 objects in collection 7) is told to FOLLOW leader B (other
   data); after the new session has been handled it holds exactly B's dataset and B's log *)
Example c06_repoint_example :
  let la := [[1;7;1;5]; [1;7;2;6]]%N in
  let lb := [[1;8;1;1]; [1;9;1;2]; [2;8;1]]%N in
  let es := [EConnect; EDeliver; EDeliver; EFollow lb; EBegin; EConnect; EDeliver; EDeliver; EDeliver] in
  ok_trace bytes idm bytes_eqb c_checksumsz toy_st [] toy_app toy_okrec (la, mk [] 0) es /\
  let w := trun Repaired c_checksumsz (la, mk [] 0) es in
  fst w = lb /\ drained (snd w) = true /\ f_cup (snd w) = true /\ f_mem (snd w) = [(9, [(1, 2)])]%N /\ f_file (snd w) = lb.
Proof.
  split; [|vm_compute; repeat split].
  cbn. repeat split.
  - intros pre r post E. destruct pre as [|a [|b [|c [|d pre]]]]; cbn in E; inversion E; subst; try reflexivity.
    all: try (destruct pre; discriminate).
  - repeat constructor.
  - repeat constructor.
Qed.

(* ---- the code as found (mode Pinned): refuted; repaired by commit "follow-start-over".
        The same witnesses are scenarios of the harness corpus and fail on the unpatched server. ---- *)

(* data the follower held before FOLLOW survives next to the leader's (aofsz < checksumsz: resync from 0
   without truncating, resetting the dataset or aofsz) *)
Theorem c06_pinned_no_reset_refuted :
  exists l f0 es, let f := snd (trun Pinned c_checksumsz (l, f0) es) in
    drained f = true /\ f_cup f = true /\ f_mem f <> replay toy_st [] toy_app l.
Proof.
  exists [[1;7;1;5]]%N, (mk [[1;9;9;9]]%N 4), [EConnect; EDeliver]. vm_compute. repeat split; discriminate.
Qed.
Print Assumptions c06_pinned_no_reset_refuted.

(* premature caught-up: a follower that is a true prefix of the leader's log (2 of 3 records), small log:
   the stale aofsz makes it report caught up after ONE of the three streamed records *)
Theorem c06_pinned_premature_caughtup_refuted :
  exists l f0 es, let f := snd (trun Pinned c_checksumsz (l, f0) es) in
    (exists rest, l = f_file f0 ++ rest) /\ f_cup f = true /\ drained f = false /\
    ~ exists extra, f_file f = l ++ extra.
Proof.
  exists [[1;7;1;5]; [1;7;2;6]; [1;7;3;7]]%N, (mk [[1;7;1;5]; [1;7;2;6]]%N 8), [EConnect; EDeliver].
  split; [exists [[1;7;3;7]]%N; reflexivity |].
  vm_compute. repeat split. intros [extra H]. discriminate.
Qed.
Print Assumptions c06_pinned_premature_caughtup_refuted.

(* "aof fully intact" although only the first block matched: a true-prefix follower whose first block ends
   on a record boundary resumes at that boundary WITHOUT truncating (checksumsz scaled to 4 bytes) *)
Theorem c06_pinned_intact_at_boundary_refuted :
  exists f rest, fst (check_some bytes idm bytes_eqb 4 Pinned f (flen f) (f ++ rest)) = CSIntact 4 /\ 4 < flen f /\
                 fst (check_some bytes idm bytes_eqb 4 Repaired f (flen f) (f ++ rest)) = CSTruncate 4 1.
Proof. exists [[1;7;1;5]; [4;7]]%N, [[1;7;3;7]]%N. vm_compute. repeat split. Qed.
Print Assumptions c06_pinned_intact_at_boundary_refuted.

(* ---- commit "follow-start-over" alone (mode Fixed1): caught up is decided by the size of the follower's OWN
        log.  A record the follower's own expiry sweeper appends during the catch-up (EOwn: DEL 7 1, 3 bytes) makes
        it report caught up before the leader's last record (DROP 8, 2 bytes) has been handed over; repaired by
        proposed_fixes/C06-caught-up-by-stream-position.diff (same trace, mode Repaired: flag off) ---- *)
Theorem c06_fixed1_own_expiry_premature_refuted :
  exists l f0 es, Forall session_event es /\
    (let f := snd (trun Fixed1 c_checksumsz (l, f0) (EConnect :: es)) in f_cup f = true /\ drained f = false) /\
    (let f := snd (trun Repaired c_checksumsz (l, f0) (EConnect :: es)) in f_cup f = false).
Proof.
  exists [[1;7;1;5]; [1;8;1;5]; [1;8;2;5]; [4;8]]%N, (mk [] 0), [EDeliver; EOwn [2;7;1]%N; EDeliver; EDeliver].
  split; [repeat constructor|]. vm_compute. repeat split.
Qed.
Print Assumptions c06_fixed1_own_expiry_premature_refuted.

(* ---- commit "follow-start-over" alone (mode Fixed1): the search compares only some blocks.  Two logs of
        equal length that differ in a block that is not probed are declared "fully intact" (checksumsz scaled
        to 4); repaired by proposed_fixes/C06-check-whole-prefix.diff: mode Repaired starts over ---- *)
Theorem c06_fixed1_blind_spot_refuted :
  exists f l, fst (check_some bytes idm bytes_eqb 4 Fixed1 f (flen f) l) = CSIntact (flen f) /\
              flen f = flen l /\ f <> l /\
              fst (check_some bytes idm bytes_eqb 4 Repaired f (flen f) l) = CSStartOver.
Proof.
  exists [[1;7;1;5]; [1;7;2;6]; [1;7;3;7]]%N, [[1;7;1;5]; [1;7;2;9]; [1;7;3;7]]%N.
  vm_compute. repeat split; discriminate.
Qed.
Print Assumptions c06_fixed1_blind_spot_refuted.
