(* C06 — A caught-up follower is an exact copy of its leader.
   Only the property theorems; every one is closed by a lemma of Proofs/FollowProofs.v about the
   executable model Model/Follow.v (followCheckSome / followStep / followHandleCommand as repaired by
   proposed_fixes/C06-follow-start-over.diff = mode [Repaired]; the code as found = mode [Pinned]).
   Section hypotheses that become premises: [digest_eqb_spec] (string comparison of two digests),
   [md5_inj] (MD5 has no collision on equal-length blocks — trusted), [0 < csz] (checked for the
   regenerated constant below). The command semantics (st, st0, app) is arbitrary. *)
From Coq Require Import List ZArith Bool.
From T38 Require Import Base.Bytes Gen.Consts Model.Follow Proofs.FollowProofs.
Import ListNotations.
Open Scope Z_scope.

(* the regenerated constant satisfies the only numeric premise *)
Example c06_checksumsz_positive : 0 < c_checksumsz.
Proof. reflexivity. Qed.

(* the min/max/limit search terminates within the fuel the model gives it, for all files and sizes *)
Theorem c06_search_terminates :
  forall digest md5 digest_eqb csz, 0 < csz ->
  forall md f fsz l, fst (check_some digest md5 digest_eqb csz md f fsz l) <> CSFuel.
Proof. exact check_some_no_fuel. Qed.
Print Assumptions c06_search_terminates.

(* whatever position > 0 the check returns, for ANY two files: the first block and the block that ends
   at the search position q are byte-for-byte equal in both files (q <= pos, pos = the record boundary
   the follower keeps).  Nothing more: blocks that were not probed are not compared ("check some"). *)
Theorem c06_search_sound :
  forall digest md5 digest_eqb,
  (forall a b, digest_eqb a b = true <-> a = b) ->
  (forall a b : bytes, length a = length b -> md5 a = md5 b -> a = b) ->
  forall csz, 0 < csz ->
  forall md f fsz l res probes pos,
  check_some digest md5 digest_eqb csz md f fsz l = (res, probes) ->
  (res = CSIntact pos \/ exists k, res = CSTruncate pos k) ->
  exists q, csz <= q <= pos /\ q <= fsz /\
    firstn (Z.to_nat csz) (fbytes f) = firstn (Z.to_nat csz) (fbytes l) /\
    firstn (Z.to_nat csz) (skipn (Z.to_nat (q - csz)) (fbytes f)) =
    firstn (Z.to_nat csz) (skipn (Z.to_nat (q - csz)) (fbytes l)).
Proof. exact check_some_sound. Qed.
Print Assumptions c06_search_sound.

(* a follower file that is a record-boundary prefix of the leader's log, at least one block long:
   the check keeps a record-boundary prefix of it (CSTruncate: the first k records) or all of it
   (CSIntact) and resumes exactly at the end of what is kept; it never starts over, never errs *)
Theorem c06_prefix_resume :
  forall digest md5 digest_eqb,
  (forall a b, digest_eqb a b = true <-> a = b) ->
  (forall a b : bytes, length a = length b -> md5 a = md5 b -> a = b) ->
  forall csz, 0 < csz ->
  forall f rest, csz <= flen f ->
  exists k, (k <= length f)%nat /\
    (fst (check_some digest md5 digest_eqb csz Repaired f (flen f) (f ++ rest)) = CSTruncate (flen (firstn k f)) k \/
     fst (check_some digest md5 digest_eqb csz Repaired f (flen f) (f ++ rest)) = CSIntact (flen f)).
Proof. exact check_some_prefix. Qed.
Print Assumptions c06_prefix_resume.

(* after any (re)connect whose starting point is a true prefix or a start-over, the follower is in step:
   memory = replay of its file, aofsz = size of its file, file ++ pending stream = leader's log *)
Theorem c06_connect_in_step :
  forall digest md5 digest_eqb,
  (forall a b, digest_eqb a b = true <-> a = b) ->
  (forall a b : bytes, length a = length b -> md5 a = md5 b -> a = b) ->
  forall csz, 0 < csz ->
  forall st st0 app l f,
  wf_log l ->
  prefix_cond st st0 app l f \/ startover_cond digest md5 digest_eqb csz st l f ->
  synced st st0 app l (connect digest md5 digest_eqb csz st st0 app Repaired l f) /\
  exists s, f_ses (connect digest md5 digest_eqb csz st st0 app Repaired l f) = Some s /\ s_aofsize s = flen l.
Proof. exact connect_synced. Qed.
Print Assumptions c06_connect_in_step.

(* convergence (partial: the connects of the trace must not fall into the "check some" blind spot, see
   c06_blind_spot_refuted): from ANY follower state (any file, any dataset, any aofsz, any flags), for ANY
   command semantics and ANY sequence of connect / deliver / dropped connection / follower restart / pause /
   leader append / leader AOFSHRINK, once the stream has been handled completely the follower's dataset is
   the replay of the leader's log, its log is identical to the leader's and aofsz is its size *)
Theorem c06_converge_partial :
  forall digest md5 digest_eqb,
  (forall a b, digest_eqb a b = true <-> a = b) ->
  (forall a b : bytes, length a = length b -> md5 a = md5 b -> a = b) ->
  forall csz, 0 < csz ->
  forall st st0 app l0 f0 es,
  upd_ok st st0 app l0 -> wf_log l0 -> f_ses f0 = None ->
  ok_trace digest md5 digest_eqb csz st st0 app (l0, f0) es ->
  forall l f, run digest md5 digest_eqb csz st st0 app Repaired (l0, f0) es = (l, f) -> drained f = true ->
  f_mem f = replay st st0 app l /\ f_file f = l /\ f_aofsz f = flen l.
Proof. exact converge. Qed.
Print Assumptions c06_converge_partial.

(* never caught-up while lacking acknowledged commands: l1 = the leader's log when the follower
   (re)connects; during that session (deliveries, pauses, further leader writes) the caught-up flag
   implies that the follower's log starts with all of l1 and its dataset is the replay of its log *)
Theorem c06_not_premature :
  forall digest md5 digest_eqb,
  (forall a b, digest_eqb a b = true <-> a = b) ->
  (forall a b : bytes, length a = length b -> md5 a = md5 b -> a = b) ->
  forall csz, 0 < csz ->
  forall st st0 app l1 f1 es,
  upd_ok st st0 app l1 -> wf_log l1 ->
  prefix_cond st st0 app l1 f1 \/ startover_cond digest md5 digest_eqb csz st l1 f1 ->
  Forall session_event es ->
  ok_trace digest md5 digest_eqb csz st st0 app (step digest md5 digest_eqb csz st st0 app Repaired (l1, f1) EConnect) es ->
  forall l f, run digest md5 digest_eqb csz st st0 app Repaired (step digest md5 digest_eqb csz st st0 app Repaired (l1, f1) EConnect) es = (l, f) ->
  f_cup f = true ->
  exists extra, f_file f = l1 ++ extra /\ f_mem f = replay st st0 app (f_file f).
Proof. exact not_premature. Qed.
Print Assumptions c06_not_premature.

(* a (re)connect attempt clears the flag before the leader is dialled: while the attempt is under way -
   stalled or failing at ANY stage of the handshake (dial, AUTH, SERVER, checksum probes, REPLCONF, AOF),
   the leader acknowledging more writes, the connection dropped again, further attempts starting - the
   follower does not report caught up (both modes; the proxy parks the handshake at each stage and the
   harness compares HEALTHZ / SERVER caught_up with this) *)
Theorem c06_reconnecting_not_caught_up :
  forall digest md5 digest_eqb csz st st0 app md l f es,
  Forall handshake_event es ->
  f_cup (snd (run digest md5 digest_eqb csz st st0 app md (step digest md5 digest_eqb csz st st0 app md (l, f) EBegin) es)) = false.
Proof. exact reconnecting_not_caught_up. Qed.
Print Assumptions c06_reconnecting_not_caught_up.

(* ---- concrete instances: identity "MD5" (trivially injective), toy command semantics ---- *)
Definition idm (b : bytes) : bytes := b.
Definition mk (file : file) (aofsz : Z) : fol toy_st :=
  {| f_file := file; f_mem := replay toy_st [] toy_app file; f_aofsz := aofsz; f_cup := false; f_once := false;
     f_ses := None; f_broken := false |}.
Definition trun md csz := run bytes idm bytes_eqb csz toy_st [] toy_app md.

(* the hypotheses of c06_converge_partial are satisfiable by a non-trivial state: a follower holding
   unrelated data, real checksumsz; it ends with the leader's two objects and nothing else *)
Example c06_converge_example :
  let l := [[1;7;1;5]; [1;7;2;6]]%N in
  let f0 := mk [[1;9;9;9]]%N 4 in
  ok_trace bytes idm bytes_eqb c_checksumsz toy_st [] toy_app (l, f0) [EConnect; EDeliver; EDeliver] /\
  let f := snd (trun Repaired c_checksumsz (l, f0) [EConnect; EDeliver; EDeliver]) in
  drained f = true /\ f_cup f = true /\ f_mem f = [(7, [(1, 5); (2, 6)])]%N /\ f_file f = l.
Proof. split; [split; [right; left; reflexivity | repeat split] | vm_compute; repeat split]. Qed.

(* ---- the code as found (mode Pinned): refuted; repaired by proposed_fixes/C06-follow-start-over.diff.
        The same witnesses are scenarios of the harness corpus and fail on the unpatched server. ---- *)

(* data the follower held before FOLLOW survives next to the leader's (aofsz < checksumsz: resync from 0
   without truncating, resetting the dataset or aofsz) *)
Theorem c06_pinned_no_reset_refuted :
  exists l f0 es, let f := snd (trun Pinned c_checksumsz (l, f0) es) in
    drained f = true /\ f_cup f = true /\ f_mem f <> replay toy_st [] toy_app l.
Proof.
  exists [[1;7;1;5]]%N, (mk [[1;9;9;9]]%N 4), [EConnect; EDeliver]. vm_compute. repeat split; discriminate.
Qed.
Print Assumptions c06_pinned_no_reset_refuted.

(* premature caught-up: a follower that is a true prefix of the leader's log (2 of 3 records), small log:
   the stale aofsz makes it report caught up after ONE of the three streamed records *)
Theorem c06_pinned_premature_caughtup_refuted :
  exists l f0 es, let f := snd (trun Pinned c_checksumsz (l, f0) es) in
    prefix_cond toy_st [] toy_app l f0 /\ f_cup f = true /\ drained f = false /\
    ~ exists extra, f_file f = l ++ extra.
Proof.
  exists [[1;7;1;5]; [1;7;2;6]; [1;7;3;7]]%N, (mk [[1;7;1;5]; [1;7;2;6]]%N 8), [EConnect; EDeliver].
  split; [exists [[1;7;3;7]]%N; repeat split |].
  vm_compute. repeat split. intros [extra H]. discriminate.
Qed.
Print Assumptions c06_pinned_premature_caughtup_refuted.

(* "aof fully intact" although only the first block matched: a true-prefix follower whose first block ends
   on a record boundary resumes at that boundary WITHOUT truncating (checksumsz scaled to 4 bytes) *)
Theorem c06_pinned_intact_at_boundary_refuted :
  exists f rest, fst (check_some bytes idm bytes_eqb 4 Pinned f (flen f) (f ++ rest)) = CSIntact 4 /\ 4 < flen f /\
                 fst (check_some bytes idm bytes_eqb 4 Repaired f (flen f) (f ++ rest)) = CSTruncate 4 1.
Proof. exists [[1;7;1;5]; [4;7]]%N, [[1;7;3;7]]%N. vm_compute. repeat split. Qed.
Print Assumptions c06_pinned_intact_at_boundary_refuted.

(* ---- open finding (also in the repaired code): the check compares only some blocks.  Two logs of equal
        length that differ in a block that is not probed are declared "fully intact" (checksumsz scaled to 4) ---- *)
Theorem c06_blind_spot_refuted :
  exists f l, fst (check_some bytes idm bytes_eqb 4 Repaired f (flen f) l) = CSIntact (flen f) /\
              flen f = flen l /\ f <> l.
Proof.
  exists [[1;7;1;5]; [1;7;2;6]; [1;7;3;7]]%N, [[1;7;1;5]; [1;7;2;9]; [1;7;3;7]]%N.
  vm_compute. repeat split; discriminate.
Qed.
Print Assumptions c06_blind_spot_refuted.
